// Package rng is a SplitMix64 PRNG; every random choice of the harness derives from one state
// seeded by VERIF_SEED so that a disagreement replays exactly.
package rng

type R struct{ s uint64 }

func New(seed uint64) *R { return &R{s: seed} }

func (r *R) Next() uint64 {
	r.s += 0x9e3779b97f4a7c15
	z := r.s
	z = (z ^ (z >> 30)) * 0xbf58476d1ce4e5b9
	z = (z ^ (z >> 27)) * 0x94d049bb133111eb
	return z ^ (z >> 31)
}

// Intn returns a value in [0,n)
func (r *R) Intn(n int) int {
	if n <= 0 {
		return 0
	}
	return int(r.Next() % uint64(n))
}

func (r *R) Bool() bool { return r.Next()&1 == 1 }

// Chance returns true with probability num/den
func (r *R) Chance(num, den int) bool { return r.Intn(den) < num }

func Pick[T any](r *R, xs []T) T { return xs[r.Intn(len(xs))] }

// Fork derives an independent generator (used to give each case its own sub-seed)
func (r *R) Fork() *R { return New(r.Next()) }

func Shuffle[T any](r *R, xs []T) {
	for i := len(xs) - 1; i > 0; i-- {
		j := r.Intn(i + 1)
		xs[i], xs[j] = xs[j], xs[i]
	}
}
