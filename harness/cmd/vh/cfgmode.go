package main

import (
	"encoding/json"
	"fmt"
	"os"
	"path/filepath"
	"reflect"
	"regexp"
	"sort"
	"strings"
	"syscall"
	"unicode"
	"unicode/utf8"

	"verifharness/rng"

	"github.com/go-playground/validator/v10"
	"github.com/gopher-fleece/gleece/v2/cmd"
	"github.com/gopher-fleece/gleece/v2/cmd/arguments"
	"github.com/gopher-fleece/gleece/v2/definitions"
)

// ---- mode "cfg" (C20): a configuration document (as a JSON value) is written next to a small fixed
// project; the REAL command (cmd.GenerateSpecAndRoutes) runs in-process; observed: the rejection (field,
// tag) pairs, what was written where with which mode, package clause, OpenAPI version, info / servers /
// securitySchemes of the spec, which controllers contributed.

type cfgIn struct {
	Config any    `json:"config"`        // the JSON document
	Raw    string `json:"raw,omitempty"` // when set, written verbatim instead (malformed JSON5 etc.)
	Note   string `json:"note,omitempty"`
}

type cfgFile struct {
	Path string `json:"path"`
	Mode string `json:"mode"`
}

type cfgOut struct {
	Rejected    [][2]string       `json:"rejected"` // (field, tag) parsed from the error text
	OtherErr    string            `json:"otherErr,omitempty"`
	Files       []cfgFile         `json:"files"` // everything under the project root written by the command
	Package     string            `json:"package,omitempty"`
	Engine      string            `json:"engineMarker,omitempty"` // which framework the routes file imports
	OpenAPI     string            `json:"openapi,omitempty"`
	Title       string            `json:"title,omitempty"`
	Version     string            `json:"version,omitempty"`
	Servers     []string          `json:"servers,omitempty"`
	Schemes     []string          `json:"schemes,omitempty"`
	Controllers []string          `json:"controllers,omitempty"` // tags of the documented operations' controllers
	Info        any               `json:"info,omitempty"`        // the document's info object
	SecSchemes  any               `json:"secSchemes,omitempty"`  // the document's components.securitySchemes
	PermParse   *cfgPerm          `json:"permParse,omitempty"` // definitions.PermissionStringToFileMod on the configured string
	LibOracle   map[string]bool   `json:"_lib"`                  // "tag|value" -> go-playground verdict (url, email, filepath)
	Strings     map[string]string `json:"_strings,omitempty"`
}

type cfgPerm struct {
	Ok   bool   `json:"ok"`
	Mode uint32 `json:"mode"`
}

var cfgFieldErr = regexp.MustCompile(`Field '([^']*)' failed validation with tag '([^']*)'`)

func collectStrings(v any, out *[]string) {
	switch x := v.(type) {
	case string:
		*out = append(*out, x)
	case []any:
		for _, e := range x {
			collectStrings(e, out)
		}
	case map[string]any:
		for _, e := range x {
			collectStrings(e, out)
		}
	}
}

const cfgCtlA = `package ctl

import "github.com/gopher-fleece/runtime"

// @Tag(TagA)
// @Route(/a)
type CtlA struct {
	runtime.GleeceController
}

// @Method(GET)
// @Route(/x)
func (c *CtlA) GetX() error { return nil }
`

const cfgCtlB = `package ctl

import "github.com/gopher-fleece/runtime"

// @Tag(TagB)
// @Route(/b)
type CtlB struct {
	runtime.GleeceController
}

// @Method(GET)
// @Route(/y)
func (c *CtlB) GetY() error { return nil }
`

const cfgCtlC = `package sub

import "github.com/gopher-fleece/runtime"

// @Tag(TagC)
// @Route(/c)
type CtlC struct {
	runtime.GleeceController
}

// @Method(GET)
// @Route(/z)
func (c *CtlC) GetZ() error { return nil }
`

const cfgCtlD = `package deep

import "github.com/gopher-fleece/runtime"

// @Tag(TagD)
// @Route(/d)
type CtlD struct {
	runtime.GleeceController
}

// @Method(GET)
// @Route(/w)
func (c *CtlD) GetW() error { return nil }
`

func implCfg(in json.RawMessage) (any, error) {
	var ci cfgIn
	if err := json.Unmarshal(in, &ci); err != nil {
		return nil, err
	}
	out := cfgOut{Rejected: [][2]string{}, Files: []cfgFile{}, LibOracle: map[string]bool{}}
	// library oracle for the predicates the model takes as parameters
	v := validator.New()
	strs := []string{""}
	collectStrings(ci.Config, &strs)
	for _, s := range strs {
		for _, tag := range []string{"url", "email", "filepath"} {
			out.LibOracle[tag+"|"+s] = v.Var(s, tag) == nil
		}
		if r, _ := utf8.DecodeRuneInString(s); s != "" {
			out.LibOracle["letter|"+s] = unicode.IsLetter(r)
		}
	}
	if m, ok := ci.Config.(map[string]any); ok {
		if rc, ok := m["routesConfig"].(map[string]any); ok {
			if ps, ok := rc["outputFilePerms"].(string); ok {
				fm, err := definitions.PermissionStringToFileMod(ps)
				out.PermParse = &cfgPerm{Ok: err == nil, Mode: uint32(fm)}
			}
		}
	}
	dir, err := os.MkdirTemp(scratch(), "cfg-")
	if err != nil {
		return nil, err
	}
	dir, _ = filepath.EvalSymlinks(dir)
	defer os.RemoveAll(dir)
	os.MkdirAll(filepath.Join(dir, "ctl"), 0o755)
	os.WriteFile(filepath.Join(dir, "ctl", "a.go"), []byte(cfgCtlA), 0o644)
	os.WriteFile(filepath.Join(dir, "ctl", "b.go"), []byte(cfgCtlB), 0o644)
	// a deeper tree, so that `**` and `{a,b}` globs select something a plain `*` does not
	os.MkdirAll(filepath.Join(dir, "ctl", "sub", "deep"), 0o755)
	os.WriteFile(filepath.Join(dir, "ctl", "sub", "c.go"), []byte(cfgCtlC), 0o644)
	os.WriteFile(filepath.Join(dir, "ctl", "sub", "deep", "d.go"), []byte(cfgCtlD), 0o644)
	writeProject(pProject{}, dir) // auth package
	os.WriteFile(filepath.Join(dir, "go.mod"), []byte(projGoMod()), 0o644)
	sum, _ := os.ReadFile(filepath.Join(repoRoot(), "go.sum"))
	os.WriteFile(filepath.Join(dir, "go.sum"), sum, 0o644)
	txt := ci.Raw
	if txt == "" {
		b, _ := json.MarshalIndent(ci.Config, "", "  ")
		txt = string(b)
	}
	os.WriteFile(filepath.Join(dir, "gleece.config.json"), []byte(txt), 0o644)
	before := map[string]bool{}
	filepath.Walk(dir, func(p string, info os.FileInfo, err error) error {
		if err == nil && !info.IsDir() {
			before[p] = true
		}
		return nil
	})
	cwd, _ := os.Getwd()
	os.Chdir(dir)
	defer os.Chdir(cwd)
	// the process umask would hide permission bits the configuration asked for
	oldMask := syscall.Umask(0)
	defer syscall.Umask(oldMask)
	runErr := func() (e error) {
		defer func() {
			if r := recover(); r != nil {
				e = fmt.Errorf("PANIC: %v | %s", r, panicSite())
			}
		}()
		return cmd.GenerateSpecAndRoutes(arguments.CliArguments{ConfigPath: "gleece.config.json", NoBanner: true})
	}()
	if runErr != nil {
		ms := cfgFieldErr.FindAllStringSubmatch(runErr.Error(), -1)
		for _, m := range ms {
			out.Rejected = append(out.Rejected, [2]string{m[1], m[2]})
		}
		if len(ms) == 0 {
			out.OtherErr = firstLines(runErr.Error(), 2)
			if len(out.OtherErr) > 300 {
				out.OtherErr = out.OtherErr[:300]
			}
		}
	}
	filepath.Walk(dir, func(p string, info os.FileInfo, err error) error {
		if err == nil && !info.IsDir() && !before[p] {
			rel, _ := filepath.Rel(dir, p)
			out.Files = append(out.Files, cfgFile{Path: filepath.ToSlash(rel), Mode: fmt.Sprintf("%04o", info.Mode().Perm())})
			b, _ := os.ReadFile(p)
			if strings.HasSuffix(p, ".go") {
				if m := regexp.MustCompile(`(?m)^package (\w+)`).FindStringSubmatch(string(b)); m != nil {
					out.Package = m[1]
				}
				for _, e := range []struct{ marker, name string }{{"gin-gonic/gin", "gin"}, {"labstack/echo", "echo"}, {"gorilla/mux", "mux"}, {"go-chi/chi", "chi"}, {"gofiber/fiber", "fiber"}} {
					if strings.Contains(string(b), e.marker) {
						out.Engine = e.name
					}
				}
			} else {
				var doc map[string]any
				if json.Unmarshal(b, &doc) == nil {
					out.OpenAPI, _ = doc["openapi"].(string)
					out.Info = doc["info"]
					if comps, ok := doc["components"].(map[string]any); ok {
						out.SecSchemes = comps["securitySchemes"]
					}
					if info, ok := doc["info"].(map[string]any); ok {
						out.Title, _ = info["title"].(string)
						out.Version, _ = info["version"].(string)
					}
					if sv, ok := doc["servers"].([]any); ok {
						for _, s := range sv {
							if m, ok := s.(map[string]any); ok {
								u, _ := m["url"].(string)
								out.Servers = append(out.Servers, u)
							}
						}
					}
					if comps, ok := doc["components"].(map[string]any); ok {
						if ss, ok := comps["securitySchemes"].(map[string]any); ok {
							for k := range ss {
								out.Schemes = append(out.Schemes, k)
							}
							sort.Strings(out.Schemes)
						}
					}
					tags := map[string]bool{}
					if paths, ok := doc["paths"].(map[string]any); ok {
						for _, item := range paths {
							if im, ok := item.(map[string]any); ok {
								for _, op := range im {
									if om, ok := op.(map[string]any); ok {
										if ts, ok := om["tags"].([]any); ok && len(ts) > 0 {
											t, _ := ts[0].(string)
											tags[t] = true
										}
									}
								}
							}
						}
					}
					for t := range tags {
						out.Controllers = append(out.Controllers, t)
					}
					sort.Strings(out.Controllers)
				}
			}
		}
		return nil
	})
	sort.Slice(out.Files, func(i, j int) bool { return out.Files[i].Path < out.Files[j].Path })
	return out, nil
}

// ---- generator: a valid base document, every subset of optional members of a small lattice, every
// single-field corruption

func baseConfig() map[string]any {
	return map[string]any{
		"commonConfig": map[string]any{"controllerGlobs": []any{"./ctl/*.go"}},
		"routesConfig": map[string]any{
			"engine": "gin", "packageName": "routes", "outputPath": "./dist/routes/gleece.go", "outputFilePerms": "0644", "skipGenerateDateComment": true,
			"authorizationConfig": map[string]any{"authFileFullPackageName": "vproj/auth", "enforceSecurityOnAllRoutes": false},
		},
		"openapiGeneratorConfig": map[string]any{
			"openapi": "3.0.0",
			// (the texts are copied verbatim: a `$` is a character like any other, nothing in a configuration is expanded)
			"info": map[string]any{"title": "T", "version": "1.0.0", "description": "d: $5, ${PLAN} or $HOME",
				"contact": map[string]any{"name": "n", "url": "https://e.com", "email": "a@e.com"},
				"license": map[string]any{"name": "MIT", "url": "https://l.com"}},
			"baseUrl": "https://api.example.com",
			"securitySchemes": []any{map[string]any{"description": "d", "name": "sec0", "fieldName": "x-key", "type": "apiKey", "in": "header"}},
			"defaultSecurity":     map[string]any{"name": "sec0", "scopes": []any{"read"}},
			"specGeneratorConfig": map[string]any{"outputPath": "./dist/openapi.json"},
		},
	}
}

func deepCopy(v any) any {
	b, _ := json.Marshal(v)
	var o any
	json.Unmarshal(b, &o)
	return o
}

func setPath(doc map[string]any, path []string, val any, del bool) {
	cur := doc
	for i, k := range path {
		if i == len(path)-1 {
			if del {
				delete(cur, k)
			} else {
				cur[k] = val
			}
			return
		}
		nxt, ok := cur[k].(map[string]any)
		if !ok {
			if arr, ok2 := cur[k].([]any); ok2 && len(arr) > 0 {
				nxt, ok = arr[0].(map[string]any)
			}
			if !ok {
				return
			}
		}
		cur = nxt
	}
}

func genCfg(seed uint64, n int, tier string, emit func(string, []string, any)) {
	r := rng.New(seed)
	emit("cfg", []string{"base"}, cfgIn{Config: baseConfig(), Note: "base"})
	type mut struct {
		path []string
		vals []any
		del  bool
	}
	o := []string{"openapiGeneratorConfig"}
	rc := []string{"routesConfig"}
	muts := []mut{
		{path: []string{"commonConfig"}, del: true},
		{path: []string{"routesConfig"}, del: true},
		{path: o, del: true},
		{path: append(append([]string{}, o...), "info"), del: true},
		{path: append(append([]string{}, o...), "specGeneratorConfig"), del: true},
		{path: append(append([]string{}, rc...), "authorizationConfig"), del: true},
		{path: append(append([]string{}, rc...), "engine"), del: true},
		{path: append(append([]string{}, rc...), "engine"), vals: []any{"gin", "echo", "mux", "chi", "fiber", "express", "", "GIN"}},
		{path: append(append([]string{}, rc...), "outputPath"), del: true},
		{path: append(append([]string{}, rc...), "outputPath"), vals: []any{"./out/r.go", "", "./dist/deep/er/routes.go"}},
		{path: append(append([]string{}, rc...), "outputFilePerms"), vals: []any{"0600", "0644", "644", "0999", "abc", "", "07777", "0777", "1644", "0000", "400", "0755", "7777", "17777", "0o644", "-644", "+644", " 644", "0640", "0600 ", "600\n", " ", "\t0400"}},
		{path: append(append([]string{}, rc...), "engine"), vals: []any{5, true, []any{"gin"}, nil}},
		{path: append(append([]string{}, o...), "info"), vals: []any{"text", nil}},
		{path: append(append([]string{}, o...), "securitySchemes"), vals: []any{[]any{}, nil, []any{map[string]any{"description": "d", "name": "sec0", "fieldName": "x-key", "type": "apiKey", "in": "header"}, map[string]any{"description": "", "name": "9", "type": "nope", "in": "body"}}}},
		{path: append(append([]string{}, o...), "defaultSecurity", "scopes"), vals: []any{[]any{}, nil}},
		{path: append(append([]string{}, o...), "securitySchemes"), vals: []any{
			[]any{map[string]any{"description": "d", "name": "sec0", "fieldName": "x-key", "type": "apiKey", "in": "header"},
				map[string]any{"description": "bearer auth", "name": "bear", "type": "http", "scheme": "bearer"}},
			[]any{map[string]any{"description": "d", "name": "sec0", "fieldName": "x-key", "type": "apiKey", "in": "query"},
				map[string]any{"description": "oauth", "name": "oa", "type": "oauth2", "flows": map[string]any{
					"authorizationCode": map[string]any{"authorizationUrl": "https://a.example.com/auth", "tokenUrl": "https://a.example.com/token", "scopes": map[string]any{"items:read": "read items"}},
					"clientCredentials": map[string]any{"tokenUrl": "https://a.example.com/token", "scopes": map[string]any{"items:admin": "administer"}}}}},
			[]any{map[string]any{"description": "d", "name": "sec0", "fieldName": "x-key", "type": "apiKey", "in": "header"},
				map[string]any{"description": "oauth", "name": "oa2", "type": "oauth2", "flows": map[string]any{
					"password":          map[string]any{"tokenUrl": "https://a.example.com/token", "refreshUrl": "https://a.example.com/refresh-pw", "scopes": map[string]any{"p": "password scope"}},
					"clientCredentials": map[string]any{"tokenUrl": "https://a.example.com/token2", "scopes": map[string]any{"c": "client scope"}},
					"implicit":          map[string]any{"authorizationUrl": "https://a.example.com/auth", "refreshUrl": "https://a.example.com/refresh-im", "scopes": map[string]any{"i": "implicit scope"}}}}},
			[]any{map[string]any{"description": "d", "name": "sec0", "fieldName": "x-key", "type": "apiKey", "in": "cookie"},
				map[string]any{"description": "oidc", "name": "oidc", "type": "openIdConnect", "openIdConnectUrl": "https://id.example.com/.well-known/openid-configuration"}},
		}},
		{path: append(append([]string{}, rc...), "validateResponsePayload"), vals: []any{true, "yes"}},
		{path: append(append([]string{}, rc...), "outputFilePerms"), del: true},
		{path: append(append([]string{}, rc...), "packageName"), vals: []any{"api", "", "my_routes", "apiRoutes", "_generated", "Routes", "v2routes"}},
		{path: append(append([]string{}, rc...), "packageName"), del: true},
		{path: append(append([]string{}, rc...), "authorizationConfig", "authFileFullPackageName"), vals: []any{"", "vproj/auth"}},
		{path: append(append([]string{}, o...), "openapi"), vals: []any{"3.0.0", "3.1.0", "2.0", "3.0.1", ""}},
		{path: append(append([]string{}, o...), "openapi"), del: true},
		{path: append(append([]string{}, o...), "baseUrl"), vals: []any{"not a url", "", "http://localhost:8080", "ftp://x.y/z", "https://api.example.com/v1/", "https://api.example.com/v1"}},
		{path: append(append([]string{}, o...), "baseUrl"), del: true},
		{path: append(append([]string{}, o...), "info", "title"), vals: []any{"", "My API é", "Pay$tub API"}},
		{path: append(append([]string{}, o...), "info", "version"), vals: []any{"", "v2"}},
		{path: append(append([]string{}, o...), "info", "contact", "email"), vals: []any{"nope", "", "x@y.z"}},
		{path: append(append([]string{}, o...), "info", "contact"), del: true},
		{path: append(append([]string{}, o...), "info", "license"), del: true},
		{path: append(append([]string{}, o...), "info", "license", "name"), vals: []any{""}},
		{path: append(append([]string{}, o...), "specGeneratorConfig", "outputPath"), vals: []any{"", "./spec/o.json"}},
		{path: append(append([]string{}, o...), "securitySchemes", "name"), vals: []any{"", "1abc", "ok", "\u00e9a", "\u05d0\u05d1", "\u00a9x", "_x", "\u4e2d"}},
		{path: append(append([]string{}, o...), "securitySchemes", "type"), vals: []any{"apiKey", "http", "oauth2", "openIdConnect", "magic", "", "APIKEY", "apikey", "Http", "OAuth2", "openidconnect", " http", "http "}},
		{path: append(append([]string{}, o...), "securitySchemes", "in"), vals: []any{"header", "query", "cookie", "body", "", "Header", "QUERY", "Cookie", "header "}},
		{path: append(append([]string{}, o...), "securitySchemes", "scheme"), vals: []any{"bearer", "basic", "magic"}},
		{path: append(append([]string{}, o...), "securitySchemes", "description"), vals: []any{""}},
		{path: append(append([]string{}, o...), "securitySchemes", "fieldName"), vals: []any{"", "9x", "x-key", "\u05d0-key", "\u00d7x", "-x"}},
		{path: append(append([]string{}, o...), "securitySchemes", "openIdConnectUrl"), vals: []any{"nope", "https://id.example.com"}},
		{path: append(append([]string{}, o...), "securitySchemes"), del: true},
		{path: append(append([]string{}, o...), "info", "contact"), vals: []any{map[string]any{"url": "https://e.com", "email": "a@e.com"}, map[string]any{"name": "only name"}, map[string]any{"email": "x@y.z"}}},
		{path: append(append([]string{}, o...), "info", "license"), vals: []any{map[string]any{"name": "MIT"}}},
		{path: append(append([]string{}, o...), "info", "termsOfService"), vals: []any{"https://tos.example.com", ""}},
		{path: append(append([]string{}, o...), "info", "description"), vals: []any{"", "long description"}},
		{path: append(append([]string{}, o...), "defaultSecurity"), del: true},
		{path: append(append([]string{}, o...), "defaultSecurity", "name"), vals: []any{"", "9bad"}},
		{path: append(append([]string{}, o...), "defaultSecurity", "scopes"), del: true},
		{path: []string{"commonConfig", "controllerGlobs"}, vals: []any{[]any{"./ctl/a.go"}, []any{}, []any{"./ctl/*.go", "./nothing/*.go"}, []any{"./ctl/b.go"},
			// doublestar shapes: `**` over zero / one / two directories, alternation, `?`, a `*` directory
			[]any{"./ctl/**/*.go"}, []any{"./**/*.go"}, []any{"./ctl/sub/**/*.go"}, []any{"./ctl/**/d.go"}, []any{"**/c.go"}, []any{"./ctl/**"},
			[]any{"./ctl/{a,b}.go"}, []any{"./ctl/{b,sub/c}.go"}, []any{"./ctl/?.go"}, []any{"./ctl/*/c.go"}, []any{"./ctl/*/*/d.go"}, []any{"./ctl/*/d.go"},
			[]any{"./ctl/sub/*.go", "./ctl/a.go"},
			// the extension left open (a pattern is a pattern: nothing is appended to it)
			[]any{"./ctl/*"}, []any{"./ctl/a.*"}, []any{"./ctl/*.g?"}, []any{"./ctl/sub/*"}, []any{"./ctl/?.*"}, []any{"./ctl/sub/deep/d.g*"}}},
		{path: []string{"commonConfig", "controllerGlobs"}, del: true},
	}
	for _, m := range muts {
		if m.del {
			d := deepCopy(baseConfig()).(map[string]any)
			setPath(d, m.path, nil, true)
			emit("cfg", []string{"delete"}, cfgIn{Config: d, Note: "delete " + strings.Join(m.path, ".")})
		}
		for _, v := range m.vals {
			d := deepCopy(baseConfig()).(map[string]any)
			setPath(d, m.path, v, false)
			emit("cfg", []string{"set"}, cfgIn{Config: d, Note: fmt.Sprintf("set %s=%v", strings.Join(m.path, "."), v)})
		}
	}
	// every engine has its own template set: what the routes file must honour is checked under each of them
	for _, e := range []string{"gin", "echo", "mux", "chi", "fiber"} {
		for _, pn := range []any{"api", "my_routes", nil} {
			d := deepCopy(baseConfig()).(map[string]any)
			setPath(d, []string{"routesConfig", "engine"}, e, false)
			setPath(d, []string{"routesConfig", "packageName"}, pn, pn == nil)
			setPath(d, []string{"routesConfig", "outputFilePerms"}, rng.Pick(r, []string{"0600", "640", "0644", "755"}), false)
			emit("cfg", []string{"engine-cross"}, cfgIn{Config: d, Note: fmt.Sprintf("engine=%s packageName=%v", e, pn)})
		}
	}
	// the honoured-in-output half under the other OpenAPI version as well
	for _, m := range muts {
		last := m.path[len(m.path)-1]
		if m.del || !(last == "contact" || last == "license" || last == "termsOfService" || last == "description" || last == "securitySchemes" || last == "baseUrl") {
			continue
		}
		for _, v := range m.vals {
			d := deepCopy(baseConfig()).(map[string]any)
			setPath(d, m.path, v, false)
			setPath(d, []string{"openapiGeneratorConfig", "openapi"}, "3.1.0", false)
			emit("cfg", []string{"set31"}, cfgIn{Config: d, Note: fmt.Sprintf("3.1.0 + set %s=%v", strings.Join(m.path, "."), v)})
		}
	}
	// random double corruptions
	for i := 0; i < n; i++ {
		cr := r.Fork()
		d := deepCopy(baseConfig()).(map[string]any)
		notes := []string{}
		for k := 0; k < 2; k++ {
			m := rng.Pick(cr, muts)
			if m.del || len(m.vals) == 0 {
				setPath(d, m.path, nil, true)
				notes = append(notes, "delete "+strings.Join(m.path, "."))
			} else {
				v := rng.Pick(cr, m.vals)
				setPath(d, m.path, v, false)
				notes = append(notes, fmt.Sprintf("set %s=%v", strings.Join(m.path, "."), v))
			}
		}
		emit("cfg", []string{"double"}, cfgIn{Config: d, Note: strings.Join(notes, "; ")})
	}
	emit("cfg", []string{"raw"}, cfgIn{Raw: "{ this is not json5", Note: "malformed"})
	emit("cfg", []string{"raw"}, cfgIn{Raw: "", Config: map[string]any{}, Note: "empty object"})
}

// ---- ConfigSchema.lean: the GleeceConfig type tree by reflection on the harness build of /repo

func extractConfigSchema() (string, error) {
	rows := []string{}
	var walk func(t reflect.Type, path string)
	walk = func(t reflect.Type, path string) {
		for i := 0; i < t.NumField(); i++ {
			f := t.Field(i)
			js := strings.Split(f.Tag.Get("json"), ",")[0]
			if js == "-" {
				continue
			}
			if js == "" {
				js = f.Name
			}
			p := js
			if path != "" {
				p = path + "." + js
			}
			ft := f.Type
			kind := ft.Kind().String()
			ptr := false
			if ft.Kind() == reflect.Ptr {
				ptr = true
				ft = ft.Elem()
				kind = "ptr-" + ft.Kind().String()
			}
			elemStruct := false
			if ft.Kind() == reflect.Slice && ft.Elem().Kind() == reflect.Struct {
				elemStruct = true
				kind = "slice-struct"
			}
			rows = append(rows, fmt.Sprintf("  (%s, %s, %s, %s)", leanStr(p), leanStr(f.Name), leanStr(kind), leanStr(f.Tag.Get("validate"))))
			_ = ptr
			if ft.Kind() == reflect.Struct {
				walk(ft, p)
			} else if elemStruct {
				walk(ft.Elem(), p+"[]")
			}
		}
	}
	walk(reflect.TypeOf(definitions.GleeceConfig{}), "")
	return "namespace Gleece.Generated\n/-- (json path, Go field name, kind, validate tag) for the whole GleeceConfig tree -/\ndef configSchema : List (String × String × String × String) := [\n" +
		strings.Join(rows, ",\n") + "\n]\nend Gleece.Generated\n", nil
}

func init() {
	impls["cfg"] = implCfg
	gens["cfg"] = genCfg
	extractors = append(extractors, extractor{"ConfigSchema.lean", extractConfigSchema})
}
