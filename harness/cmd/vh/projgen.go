package main

import (
	"fmt"
	"os"
	"strings"

	"verifharness/rng"
)

// Generator of abstract projects (mode "proj"): well-formed projects (1-3 controllers over 1-2 files and
// 1-2 packages, 1-4 methods each, all parameter locations and kinds) and every kind of single / double
// perturbation of annotations and signatures (drop, duplicate, rename, retarget, retype, …).

type projGen struct {
	r              *rng.R
	schemes        []irScheme
	prefixTrailing bool // the controller route ends in "/": a method route may then start with a {param}
	sharedNames    bool // VH_SHARED_NAMES: methods of different controllers share their Go names
}

var pgPrims = []string{"string", "int", "int64", "uint", "bool", "float64", "uint8"}

func (g *projGen) security() []pAnnot {
	r := g.r
	out := []pAnnot{}
	if len(g.schemes) == 0 || r.Chance(1, 2) {
		return out
	}
	for k := 1 + r.Intn(2); k > 0; k-- {
		a := pAnnot{Name: "Security", Value: rng.Pick(r, g.schemes).Name}
		if r.Chance(1, 30) {
			a.Value = strings.ToUpper(a.Value[:1]) + a.Value[1:] // an undeclared scheme: differs by letter case only
		}
		if r.Bool() {
			sc := []any{}
			for j := 1 + r.Intn(2); j > 0; j-- {
				sc = append(sc, rng.Pick(r, []string{"read", "write"}))
			}
			a.Props = map[string]any{"scopes": sc}
		}
		out = append(out, a)
	}
	return out
}

func (g *projGen) method(ci, mi int, prefixParams []string, types []pType, file string) pMethod {
	r := g.r
	m := pMethod{Name: fmt.Sprintf("Op%d_%d", ci, mi), File: file}
	if g.sharedNames {
		// the same Go method name on several controllers (C15: each offending METHOD gets its warning, whatever it is called)
		m.Name = fmt.Sprintf("Op_%d", mi)
	}
	if r.Chance(1, 3) {
		m.Free = []string{rng.Pick(r, []string{"Does a thing", "Lists é items", "Multi", "line one"})}
	}
	verb := rng.Pick(r, []string{"GET", "POST", "PUT", "DELETE", "PATCH"})
	segs := []string{}
	urlParams := []string{}
	for i := r.Intn(3); i > 0; i-- {
		if r.Chance(1, 2) {
			n := fmt.Sprintf("p%d", len(urlParams))
			urlParams = append(urlParams, n)
			segs = append(segs, "{"+n+"}")
		} else {
			segs = append(segs, rng.Pick(r, []string{"a", "items", "x-y"}))
		}
	}
	segs = append(segs, fmt.Sprintf("m%d_%d", ci, mi))
	route := "/" + strings.Join(segs, "/")
	if g.prefixTrailing && strings.HasPrefix(segs[0], "{") && r.Chance(3, 4) {
		route = strings.Join(segs, "/") // "{p0}/..." right after the controller's trailing slash
	}
	m.Annots = append(m.Annots, pAnnot{Name: "Method", Value: verb}, pAnnot{Name: "Route", Value: route})
	if r.Chance(1, 6) {
		m.Annots = append(m.Annots, pAnnot{Name: "Hidden", Value: rng.Pick(r, []string{"", "", "internal", "x"})})
	}
	if r.Chance(1, 6) {
		m.Annots = append(m.Annots, pAnnot{Name: "Deprecated", Desc: rng.Pick(r, []string{"", "use v2"})})
	}
	if r.Chance(1, 5) {
		m.Annots = append(m.Annots, pAnnot{Name: "Description", Desc: "explicit description"})
	}
	m.Annots = append(m.Annots, g.security()...)
	if r.Chance(1, 6) {
		m.Params = append(m.Params, pParam{Name: "ctx", Type: "context.Context"})
	}
	enumNames, structNames, aliasNames := []string{}, []string{}, []string{}
	for _, t := range types {
		q := t.Name
		if t.Pkg != "ctl" {
			q = t.Pkg + "." + t.Name
		}
		switch t.Kind {
		case "enum":
			enumNames = append(enumNames, q)
		case "struct":
			structNames = append(structNames, q)
		case "alias":
			aliasNames = append(aliasNames, q)
		}
	}
	simpleType := func(allowPtr bool) string {
		t := rng.Pick(r, pgPrims)
		if len(enumNames) > 0 && r.Chance(1, 4) {
			t = rng.Pick(r, enumNames)
		} else if len(aliasNames) > 0 && r.Chance(1, 8) {
			t = rng.Pick(r, aliasNames)
		}
		if allowPtr && r.Chance(1, 4) {
			t = "*" + t
		}
		return t
	}
	bind := func(kind, pname string, ptype string, alias string) {
		a := pAnnot{Name: kind, Value: pname}
		props := map[string]any{}
		if alias != "" {
			props["name"] = alias
		}
		if r.Chance(1, 3) && kind != "Body" {
			props["validate"] = rng.Pick(r, []string{"required", "gt=0", "min=1", "required_with=Other", "omitempty"})
			if strings.Contains(ptype, "string") {
				props["validate"] = rng.Pick(r, []string{"required", "email", "min=2", "oneof=required optional", "required_without=Other"})
			} else if strings.Contains(ptype, "bool") || strings.Contains(ptype, ".") || ptype[0] >= 'A' && ptype[0] <= 'Z' || strings.HasPrefix(ptype, "*") && (ptype[1] >= 'A' && ptype[1] <= 'Z') {
				props["validate"] = "required"
			}
		}
		if len(props) > 0 {
			a.Props = props
		}
		if r.Chance(1, 4) {
			a.Desc = rng.Pick(r, []string{"the id", "a value é"})
		}
		m.Annots = append(m.Annots, a)
		m.Params = append(m.Params, pParam{Name: pname, Type: ptype})
	}
	idx := 0
	for _, up := range append(append([]string{}, prefixParams...), urlParams...) {
		pn := fmt.Sprintf("v%d", idx)
		idx++
		if r.Bool() {
			bind("Path", pn, simpleType(false), up)
		} else {
			// parameter named like the url parameter: no alias needed
			bind("Path", up, simpleType(false), "")
		}
	}
	for k := r.Intn(3); k > 0; k-- {
		pn := fmt.Sprintf("v%d", idx)
		idx++
		kind := rng.Pick(r, []string{"Query", "Query", "Header"})
		t := simpleType(true)
		if kind == "Query" && r.Chance(1, 5) {
			t = "[]" + rng.Pick(r, []string{"string", "int"})
		}
		alias := ""
		if r.Chance(1, 3) {
			alias = fmt.Sprintf("w%d", idx)
		}
		bind(kind, pn, t, alias)
	}
	if verb != "GET" && verb != "DELETE" {
		switch r.Intn(4) {
		case 0:
			if len(structNames) > 0 {
				t := rng.Pick(r, structNames)
				if r.Chance(1, 4) {
					t = "[]" + t
				} else if r.Chance(1, 4) {
					t = "*" + t
				} else if os.Getenv("VH_MAP_BODY") != "" && r.Chance(1, 5) {
					// (C06's stream only: the routes generator refuses EVERY project with a map body - "generated routes are not
					// valid Go", which C09 allows - so only the documents can be looked at)
					// a map is a body like any other non-pointer value: required unless it is behind a pointer
					// (a map whose VALUE type is a declared struct makes the routes generator refuse the project - "generated
					// routes are not valid Go" - which C09 allows; only builtin value types here)
					t = rng.Pick(r, []string{"map[string]string", "map[string]int", "*map[string]int"})
				}
				bind("Body", fmt.Sprintf("v%d", idx), t, "")
				idx++
			}
		case 1:
			for k := 1 + r.Intn(2); k > 0; k-- {
				bind("FormField", fmt.Sprintf("v%d", idx), simpleType(false), "")
				idx++
			}
		}
	}
	// results
	if r.Bool() {
		vt := rng.Pick(r, []string{"string", "int", "[]string", "map[string]int"})
		if len(structNames) > 0 && r.Bool() {
			vt = rng.Pick(r, structNames)
			if r.Chance(1, 4) {
				vt = "[]" + vt
			}
		}
		m.Results = []string{vt, "error"}
		if r.Chance(1, 3) {
			// the annotated code only relabels the success response: a returned value is documented under 204 as well
			m.Annots = append(m.Annots, pAnnot{Name: "Response", Value: rng.Pick(r, []string{"200", "201", "204", "202", "303", "304", "307", "102", "226"}), Desc: "ok"})
		}
	} else {
		m.Results = []string{"error"}
		if r.Chance(1, 4) {
			m.Annots = append(m.Annots, pAnnot{Name: "Response", Value: rng.Pick(r, []string{"204", "204", "205", "304", "202"}), Desc: "done"})
		}
	}
	if r.Chance(1, 40) {
		// a status code the validators only WARN about and the reducer refuses: the run fails (with a message), it never
		// goes on without the controller
		m.Annots = append(m.Annots, pAnnot{Name: "ErrorResponse", Value: rng.Pick(r, []string{"499", "218", "999"}), Desc: "odd"})
	}
	if r.Chance(1, 12) {
		// a repeated @Route (a warning, the project stays accepted): the route is reduced, documented and served under the FIRST
		m.Annots = append(m.Annots, pAnnot{Name: "Route", Value: fmt.Sprintf("/legacy%d_%d", ci, mi)})
	}
	if r.Chance(1, 8) {
		// a receiver without a name (or with the blank one) is a method of the controller all the same
		m.Recv = rng.Pick(r, []string{"anon-ptr", "anon-val", "blank"})
	}
	// up to four, so that a repeated code (a warning only) is followed by further codes now and then
	for k := r.Intn(5); k > 0; k-- {
		m.Annots = append(m.Annots, pAnnot{Name: "ErrorResponse", Value: rng.Pick(r, []string{"400", "404", "409", "500"}), Desc: "failure"})
	}
	return m
}

// perturb applies ONE perturbation to a method and returns its name
func (g *projGen) perturb(m *pMethod, structNames []string) string {
	r := g.r
	bindIdx := []int{}
	for i, a := range m.Annots {
		switch a.Name {
		case "Path", "Query", "Header", "FormField", "Body":
			bindIdx = append(bindIdx, i)
		}
	}
	routeIdx, methodIdx := -1, -1
	for i, a := range m.Annots {
		if a.Name == "Route" && routeIdx < 0 {
			routeIdx = i // the FIRST @Route is the one that counts
		}
		if a.Name == "Method" {
			methodIdx = i
		}
	}
	kinds := []string{"add-unbound-param", "add-url-param", "results-none", "results-three", "results-nonerror", "verb-invalid", "verb-unsupported", "unknown-annotation", "bad-status",
		"verb-case", "dup-path-alias", "swap-path-alias", "prefix-url-param", "alias-steals-variable", "second-route", "alias-collides-with-name", "warn-prop-and-error", "bind-context", "unexported-method", "repeat-bound-url-param"}
	if len(bindIdx) > 0 {
		kinds = append(kinds, "drop-annot", "dup-annot", "rename-annot-value", "retype-struct", "retype-slice", "bad-alias", "annot-no-value", "annot-no-value")
	}
	if len(bindIdx) > 1 {
		kinds = append(kinds, "retarget")
	}
	kinds = append(kinds, "second-body", "body-and-form", "drop-url-param", "null-prop", "results-error-field", "local-context-param")
	for _, i := range bindIdx {
		if m.Annots[i].Name == "Path" {
			kinds = append(kinds, "bad-alias-multibyte", "bad-alias-multibyte")
			break
		}
	}
	k := rng.Pick(r, kinds)
	if os.Getenv("VH_CRASHY") != "" && r.Chance(1, 2) {
		// C14: half of the perturbations are the ones that hand the tool values of an unexpected JSON5 kind
		k = "null-prop"
		hasSec := false
		for _, a := range m.Annots {
			hasSec = hasSec || a.Name == "Security"
		}
		if !hasSec && len(g.schemes) > 0 {
			m.Annots = append(m.Annots, pAnnot{Name: "Security", Value: g.schemes[0].Name, Props: map[string]any{"scopes": []any{"read"}}})
		}
	}
	switch k {
	case "drop-annot":
		i := rng.Pick(r, bindIdx)
		m.Annots = append(m.Annots[:i:i], m.Annots[i+1:]...)
	case "dup-annot":
		i := rng.Pick(r, bindIdx)
		m.Annots = append(m.Annots, m.Annots[i])
	case "rename-annot-value":
		i := rng.Pick(r, bindIdx)
		m.Annots[i].Value = m.Annots[i].Value + "X"
	case "retarget":
		i, j := bindIdx[0], bindIdx[len(bindIdx)-1]
		m.Annots[j].Value = m.Annots[i].Value
	case "retype-struct":
		i := rng.Pick(r, bindIdx)
		if len(structNames) == 0 || m.Annots[i].Name == "Body" {
			return "none"
		}
		for pi := range m.Params {
			if m.Params[pi].Name == m.Annots[i].Value {
				m.Params[pi].Type = rng.Pick(r, structNames)
			}
		}
	case "retype-slice":
		i := rng.Pick(r, bindIdx)
		// a slice, or a fixed-size array (iterable all the same): refused outside a query or a body, fine inside
		ty := rng.Pick(r, []string{"[]string", "[]string", "[2]string", "[3]int", "*[]string"})
		if (m.Annots[i].Name == "Body" || m.Annots[i].Name == "Query") && !strings.HasPrefix(ty, "[2]") {
			return "none"
		}
		for pi := range m.Params {
			if m.Params[pi].Name == m.Annots[i].Value {
				m.Params[pi].Type = ty
			}
		}
	case "bad-alias":
		i := rng.Pick(r, bindIdx)
		if m.Annots[i].Name != "Path" {
			return "none"
		}
		if m.Annots[i].Props == nil {
			m.Annots[i].Props = map[string]any{}
		}
		m.Annots[i].Props["name"] = "nosuch"
	case "annot-no-value":
		i := rng.Pick(r, bindIdx)
		m.Annots[i] = pAnnot{Name: m.Annots[i].Name}
		if r.Bool() {
			// … after an annotation that legitimately has no value: the missing value is ONE defect (value-must-exist), not
			// also a "duplicate" of the other annotation's empty value
			m.Annots = append([]pAnnot{{Name: "Deprecated"}}, m.Annots...)
		}
	case "add-unbound-param":
		m.Params = append(m.Params, pParam{Name: "extra", Type: "string"})
	case "repeat-bound-url-param":
		// a `{name}` that some @Path already binds - a variable of the method's own route or of the controller's prefix -
		// written once more in the method route: a duplicate URL parameter of the FULL template
		if routeIdx < 0 {
			return "none"
		}
		for _, i := range bindIdx {
			if m.Annots[i].Name == "Path" {
				n := m.Annots[i].Value
				if al, ok := m.Annots[i].Props["name"].(string); ok && al != "" {
					n = al
				}
				m.Annots[routeIdx].Value += "/again/{" + n + "}"
				return "repeat-bound-url-param"
			}
		}
		return "none"
	case "add-url-param":
		if routeIdx >= 0 {
			m.Annots[routeIdx].Value += "/{zz}"
		}
	case "drop-url-param":
		if routeIdx >= 0 && strings.Contains(m.Annots[routeIdx].Value, "/{") {
			v := m.Annots[routeIdx].Value
			a := strings.Index(v, "/{")
			b := strings.Index(v[a:], "}")
			m.Annots[routeIdx].Value = v[:a] + v[a+b+1:]
		} else {
			return "none"
		}
	case "results-none":
		m.Results = []string{}
	case "results-three":
		m.Results = []string{"string", "int", "error"}
	case "results-nonerror":
		m.Results = []string{"string"}
	case "results-error-field":
		// a struct that only HAS a field of type error does not implement it
		m.Results = []string{"string", "Failure"}
	case "bind-context":
		// an annotation naming the request context: the router hands the context over, nothing binds it (C10-F6)
		hasCtx := false
		for _, q := range m.Params {
			hasCtx = hasCtx || q.Type == "context.Context"
		}
		if !hasCtx {
			m.Params = append([]pParam{{Name: "ctx", Type: "context.Context"}}, m.Params...)
		}
		name := "ctx"
		for _, q := range m.Params {
			if q.Type == "context.Context" {
				name = q.Name
			}
		}
		if routeIdx >= 0 && r.Bool() {
			m.Annots[routeIdx].Value += "/{" + name + "}"
			m.Annots = append(m.Annots, pAnnot{Name: "Path", Value: name})
		} else {
			m.Annots = append(m.Annots, pAnnot{Name: rng.Pick(r, []string{"Query", "Header"}), Value: name})
		}
	case "unexported-method":
		// an annotated method the generated router (another package) could not call: refused, never silently dropped
		m.Name = strings.ToLower(m.Name[:1]) + m.Name[1:]
	case "local-context-param":
		// a user type that is merely named Context is an ordinary (unreferenced) parameter
		m.Params = append(m.Params, pParam{Name: "rc", Type: "Context"})
	case "verb-invalid":
		if methodIdx >= 0 {
			m.Annots[methodIdx].Value = "FETCH"
		}
	case "warn-prop-and-error":
		// an annotation that draws a WARNING for a property and an ERROR of its own: both must be reported (the error
		// is the only guard of "the verb is supported" / "a parameter is referenced by one annotation")
		if methodIdx >= 0 && (len(bindIdx) == 0 || r.Bool()) {
			m.Annots[methodIdx].Value = rng.Pick(r, []string{"FETCH", "OPTIONS"})
			m.Annots[methodIdx].Props = map[string]any{"idempotent": true}
		} else if len(bindIdx) > 0 {
			i := rng.Pick(r, bindIdx)
			kind := "Header"
			if m.Annots[i].Name == "Header" {
				kind = "Query"
			}
			m.Annots = append(m.Annots, pAnnot{Name: kind, Value: m.Annots[i].Value, Props: map[string]any{"nmae": "t"}})
		}
	case "verb-unsupported":
		if methodIdx >= 0 {
			m.Annots[methodIdx].Value = "OPTIONS"
		}
	case "verb-case":
		// only the exact upper-case spellings are verbs
		if methodIdx >= 0 {
			m.Annots[methodIdx].Value = rng.Pick(r, []string{"get", "Post", "pUT", "delete", "Patch", "options"})
		}
	case "dup-path-alias":
		// two parameters read from ONE url variable
		if routeIdx < 0 {
			return "none"
		}
		m.Annots[routeIdx].Value += "/{dup}"
		m.Params = append(m.Params, pParam{Name: "da", Type: "string"}, pParam{Name: "db", Type: "string"})
		m.Annots = append(m.Annots, pAnnot{Name: "Path", Value: "da", Props: map[string]any{"name": "dup"}}, pAnnot{Name: "Path", Value: "db", Props: map[string]any{"name": "dup"}})
	case "swap-path-alias":
		// a url variable spelled like ANOTHER parameter's Go name: perfectly valid
		if routeIdx < 0 {
			return "none"
		}
		m.Annots[routeIdx].Value += "/{sx}/{sa}"
		m.Params = append(m.Params, pParam{Name: "sa", Type: "string"}, pParam{Name: "sb", Type: "string"})
		m.Annots = append(m.Annots, pAnnot{Name: "Path", Value: "sa", Props: map[string]any{"name": "sx"}}, pAnnot{Name: "Path", Value: "sb", Props: map[string]any{"name": "sa"}})
	case "alias-steals-variable":
		// {ao} is bound through an alias by the parameter `ar`, whose own name is ANOTHER url variable that nothing
		// binds; a stray @Path keeps the counts equal: {ar} has no path parameter, `ab` has no url variable
		if routeIdx < 0 {
			return "none"
		}
		m.Annots[routeIdx].Value += "/{ao}/{ar}"
		m.Params = append(m.Params, pParam{Name: "ar", Type: "string"}, pParam{Name: "ab", Type: "string"})
		m.Annots = append(m.Annots, pAnnot{Name: "Path", Value: "ar", Props: map[string]any{"name": "ao"}}, pAnnot{Name: "Path", Value: "ab"})
	case "second-route":
		// a second, DIFFERENT @Route (only a warning): the route is reduced, documented and served under the first one,
		// so that is the template the @Path bindings must match - whichever of the two carries the extra variable
		if routeIdx < 0 {
			return "none"
		}
		other := pAnnot{Name: "Route", Value: m.Annots[routeIdx].Value + "/{extra}"}
		if r.Bool() {
			other.Value = "/plain" + m.Name
		}
		if r.Bool() {
			// the new one first
			m.Annots = append(m.Annots[:routeIdx], append([]pAnnot{other}, m.Annots[routeIdx:]...)...)
		} else {
			m.Annots = append(m.Annots, other)
		}
	case "alias-collides-with-name":
		// `/{cb}`, @Path(ca, {name: "cb"}) and an un-aliased @Path(cb): two parameters go by one URL name
		if routeIdx < 0 {
			return "none"
		}
		m.Annots[routeIdx].Value += "/{cb}"
		m.Params = append(m.Params, pParam{Name: "ca", Type: "string"}, pParam{Name: "cb", Type: "string"})
		first, second := pAnnot{Name: "Path", Value: "ca", Props: map[string]any{"name": "cb"}}, pAnnot{Name: "Path", Value: "cb"}
		if r.Bool() {
			first, second = second, first
		}
		m.Annots = append(m.Annots, first, second)
	case "unknown-annotation":
		m.Annots = append(m.Annots, pAnnot{Name: "Foo", Value: "bar"})
	case "bad-status":
		// not a number, signed, with digit separators (strconv.ParseUint takes ASCII digits only; a `+` or a non-ASCII digit
		// cannot be written at all: the annotation's value is [\w-_/\\{} ]+), beyond
		// 32 bits (all "not numeric": an error), numeric but not a status code, or one with a leading zero (a warning / fine)
		m.Annots = append(m.Annots, pAnnot{Name: rng.Pick(r, []string{"ErrorResponse", "ErrorResponse", "Response"}), Value: rng.Pick(r, []string{"abc", "999", "-204", "40400000000", "4294967296", "4294967295", "2_00", "4_0_4", "0404", "40 4", "_404"}), Desc: "x"})
	case "prefix-url-param":
		// a url variable whose name is a proper prefix of an EARLIER one, unbound or repeated: the diagnostic must
		// cover `{zz}`, not the head of `{zzType}`
		if routeIdx < 0 {
			return "none"
		}
		m.Params = append(m.Params, pParam{Name: "zzType", Type: "string"})
		m.Annots = append(m.Annots, pAnnot{Name: "Path", Value: "zzType"})
		if r.Bool() {
			m.Annots[routeIdx].Value += "/{zzType}/{zz}"
		} else {
			m.Annots[routeIdx].Value += "/{zzType}/{zz}/{zz}"
			m.Params = append(m.Params, pParam{Name: "zz", Type: "string"})
			m.Annots = append(m.Annots, pAnnot{Name: "Path", Value: "zz"})
		}
	case "bad-alias-multibyte":
		// an alias that is not a string, inside a properties object with multi-byte text: the diagnostic must still
		// cover exactly `{ … }`
		for _, i := range bindIdx {
			if m.Annots[i].Name == "Path" {
				m.Annots[i].Props = map[string]any{"name": []any{"識別子"}, "validate": "必須"}
				break
			}
		}
	case "null-prop":
		// a property whose JSON5 value is null / of the wrong kind (must be reported, never crash)
		cands := []int{}
		for i, a := range m.Annots {
			if a.Name == "Security" || a.Name == "Query" || a.Name == "Header" || a.Name == "Path" {
				cands = append(cands, i)
			}
		}
		if len(cands) == 0 {
			return "none"
		}
		i := rng.Pick(r, cands)
		props := map[string]any{}
		for k, v := range m.Annots[i].Props {
			props[k] = v
		}
		if m.Annots[i].Name == "Security" {
			props["scopes"] = rng.Pick(r, []any{nil, []any{nil}, []any{"a", nil}, []any{"read", nil, "write"}, []any{5}, []any{[]any{"a"}}, map[string]any{"a": 1}, "x", 5, true})
		} else {
			props[rng.Pick(r, []string{"name", "validate"})] = rng.Pick(r, []any{nil, 5, []any{}, true, []any{"識別子"}})
			if r.Bool() {
				props["description"] = "必須 – é" // multi-byte text inside the properties object
			}
		}
		m.Annots[i].Props = props
	case "second-body":
		if len(structNames) == 0 {
			return "none"
		}
		m.Annots = append(m.Annots, pAnnot{Name: "Body", Value: "b1"}, pAnnot{Name: "Body", Value: "b2"})
		m.Params = append(m.Params, pParam{Name: "b1", Type: structNames[0]}, pParam{Name: "b2", Type: structNames[0]})
	case "body-and-form":
		if len(structNames) == 0 {
			return "none"
		}
		m.Annots = append(m.Annots, pAnnot{Name: "Body", Value: "b1"}, pAnnot{Name: "FormField", Value: "f1"})
		m.Params = append(m.Params, pParam{Name: "b1", Type: structNames[0]}, pParam{Name: "f1", Type: "string"})
	}
	return k
}

func genProject(r *rng.R, nPerturb int) (pProject, []string) {
	g := &projGen{r: r}
	g.sharedNames = os.Getenv("VH_SHARED_NAMES") != "" && r.Bool()
	p := pProject{Indent: rng.Pick(r, []string{"", "", "\t"})}
	ns := r.Intn(3)
	for i := 0; i < ns; i++ {
		g.schemes = append(g.schemes, irScheme{Name: fmt.Sprintf("sec%d", i), Type: "apiKey", In: "header", FieldName: "x-key", Description: "scheme"})
	}
	p.Config = pConfig{Engine: rng.Pick(r, []string{"gin", "echo", "mux", "chi", "fiber"}), OpenAPI: rng.Pick(r, []string{"3.0.0", "3.1.0"}), Schemes: g.schemes,
		PackageName: rng.Pick(r, []string{"", "routes", "api"})}
	if p.Config.Schemes == nil {
		p.Config.Schemes = []irScheme{}
	}
	if ns > 0 && r.Bool() {
		p.Config.DefaultSecurity = &irSecComp{Name: g.schemes[r.Intn(ns)].Name, Scopes: []string{"read"}[:r.Intn(2)]}
	}
	p.Config.Enforce = r.Chance(1, 3)
	// types
	useOther := r.Chance(1, 3)
	tp := func(pkg string) string {
		if pkg == "other" {
			return "models.go"
		}
		return rng.Pick(r, []string{"a.go", "types.go"})
	}
	if r.Chance(2, 3) {
		p.Types = append(p.Types, pType{Kind: "enum", Name: "Color", Pkg: "ctl", File: tp("ctl"), Base: "string", Consts: [][2]string{{"ColorRed", `"red"`}, {"ColorGreen", `"green"`}}})
	}
	if r.Chance(1, 3) {
		p.Types = append(p.Types, pType{Kind: "enum", Name: "Level", Pkg: "ctl", File: tp("ctl"), Base: "int", Consts: [][2]string{{"LevelLow", "1"}, {"LevelHigh", "2"}}})
	}
	if r.Chance(1, 3) {
		p.Types = append(p.Types, pType{Kind: "alias", Name: "ID", Pkg: "ctl", File: tp("ctl"), Base: "string", Assign: r.Bool()})
	}
	spkg := "ctl"
	if useOther {
		spkg = "other"
	}
	if r.Chance(3, 4) {
		fields := []pField{{Name: "Name", Type: "string", Tag: `json:"name" validate:"required"`, Doc: "The name"}, {Name: "Count", Type: "int", Tag: `json:"count" validate:"gte=0"`}}
		if r.Chance(1, 3) {
			fields = append(fields, pField{Name: "Kids", Type: "[]Item", Tag: `json:"kids"`})
		}
		if os.Getenv("VH_ODD_FIELDS") != "" && r.Chance(2, 3) {
			// C08 only: field types the tool turns into a component reference without ever creating the component
			// (whether it refuses the project or documents the field, the document it writes must be closed)
			fields = append(fields, pField{Name: "Odd", Type: rng.Pick(r, []string{"byte", "rune", "uintptr", "complex128", "error", "map[string]byte", "[]rune", "struct{ A int }", "any", "[4]int", "func()", "chan int"}), Tag: `json:"odd"`})
		}
		p.Types = append(p.Types, pType{Kind: "struct", Name: "Item", Pkg: spkg, File: tp(spkg), Doc: []string{"An item"}, Fields: fields})
	}
	if r.Chance(1, 3) {
		p.Types = append(p.Types, pType{Kind: "struct", Name: "Box", Pkg: "ctl", File: tp("ctl"), Fields: []pField{{Name: "W", Type: "float64", Tag: `json:"w"`}, {Name: "Tags", Type: "map[string]string", Tag: `json:"tags"`}}})
	}
	structNames := []string{}
	// declared after the body candidates are collected: an error type (embeds error), a look-alike that only HAS
	// an error field, and a user type that is merely NAMED Context
	defer func() {}()
	extraTypes := []pType{
		{Kind: "struct", Name: "MyErr", Pkg: "ctl", File: "errs.go", Fields: []pField{{Type: "error", Embedded: true}, {Name: "Code", Type: "int", Tag: `json:"code"`}}},
		{Kind: "struct", Name: "Failure", Pkg: "ctl", File: "errs.go", Fields: []pField{{Name: "Err", Type: "error", Tag: `json:"-"`}, {Name: "Code", Type: "int", Tag: `json:"code"`}}},
		{Kind: "struct", Name: "Context", Pkg: "ctl", File: "errs.go", Fields: []pField{{Name: "X", Type: "int", Tag: `json:"x"`}}},
	}
	for _, t := range p.Types {
		if t.Kind == "struct" {
			if t.Pkg == "ctl" {
				structNames = append(structNames, t.Name)
			} else {
				structNames = append(structNames, t.Pkg+"."+t.Name)
			}
		}
	}
	nc := 1 + r.Intn(3)
	preApplied := []string{}
	for ci := 0; ci < nc; ci++ {
		c := pController{Name: fmt.Sprintf("Ctl%d", ci), Pkg: "ctl", File: rng.Pick(r, []string{"a.go", "b.go"}), Grouped: r.Chance(1, 5)}
		c.FieldFirst = !c.Grouped && r.Chance(1, 5)
		if r.Chance(1, 3) {
			c.Free = []string{"Controller docs"}
		}
		prefix := rng.Pick(r, []string{fmt.Sprintf("/c%d", ci), fmt.Sprintf("/c%d/", ci), fmt.Sprintf("/api/c%d", ci)})
		prefixParams := []string{}
		if r.Chance(1, 8) {
			prefix = fmt.Sprintf("/t/{tenant}/c%d", ci)
			prefixParams = []string{"tenant"}
		}
		if !r.Chance(1, 8) {
			c.Annots = append(c.Annots, pAnnot{Name: "Tag", Value: fmt.Sprintf("Tag %d", ci)})
		}
		c.Annots = append(c.Annots, pAnnot{Name: "Route", Value: prefix})
		g.prefixTrailing = strings.HasSuffix(prefix, "/")
		if r.Chance(1, 3) {
			c.Annots = append(c.Annots, pAnnot{Name: "Description", Desc: "Controller é"})
		}
		c.Annots = append(c.Annots, g.security()...)
		if ci > 0 && r.Chance(1, 7) {
			// a controller without any doc comment, declared after a documented one: it has no tag, no prefix and
			// no security of its own (the configured default applies) - whatever its neighbours say
			c.Free, c.Annots = nil, nil
			g.prefixTrailing = false
			prefixParams = []string{}
		}
		nm := 1 + r.Intn(4)
		for mi := 0; mi < nm; mi++ {
			file := c.File
			if r.Chance(1, 3) {
				file = rng.Pick(r, []string{"a.go", "b.go", "c.go"})
			}
			c.Methods = append(c.Methods, g.method(ci, mi, prefixParams, p.Types, file))
		}
		if len(prefixParams) > 0 && nPerturb > 0 && r.Bool() {
			// the prefix's `{tenant}` written once more in a method's own route: a duplicate URL parameter of the FULL
			// template, although each of the two parts names it once
			m := &c.Methods[r.Intn(len(c.Methods))]
			for ai := range m.Annots {
				if m.Annots[ai].Name == "Route" {
					m.Annots[ai].Value += "/again/{" + prefixParams[0] + "}"
					preApplied = append(preApplied, "repeat-prefix-param")
					break
				}
			}
		}
		p.Controllers = append(p.Controllers, c)
	}
	p.Types = append(p.Types, extraTypes...)
	if nPerturb == 0 && r.Chance(1, 4) {
		// a controller in a package that is only IMPORTED (for a type), not matched by any glob
		p.Config.Globs = []string{"./ctl/*.go"}
		p.Types = append(p.Types, pType{Kind: "struct", Name: "Thing", Pkg: "other", File: "things.go", Fields: []pField{{Name: "A", Type: "string", Tag: `json:"a"`}}})
		p.Controllers = append(p.Controllers, pController{Name: "SubCtl", Pkg: "other", File: "things.go", Unglobbed: true,
			Annots: []pAnnot{{Name: "Tag", Value: "Sub"}, {Name: "Route", Value: "/sub"}},
			Methods: []pMethod{{Name: "Ping", File: "things.go", Results: []string{"error"}, Annots: []pAnnot{{Name: "Method", Value: "GET"}, {Name: "Route", Value: "/ping"}}}}})
		m0 := &p.Controllers[0].Methods[0]
		m0.Results = []string{"other.Thing", m0.Results[len(m0.Results)-1]}
	}
	if os.Getenv("VH_DETERMINISM") != "" && nPerturb == 0 && len(p.Config.Globs) == 0 && r.Chance(2, 3) {
		// C13: controllers of TWO globbed packages, each with declared types of its own in its signatures - the order in
		// which packages, controllers and receivers are reduced decides the import serials of the routes file
		p.Types = append(p.Types,
			pType{Kind: "struct", Name: "Doc", Pkg: "other", File: "docs.go", Fields: []pField{{Name: "Title", Type: "string", Tag: `json:"title"`}}},
			pType{Kind: "enum", Name: "Kind", Pkg: "other", File: "docs.go", Base: "string", Consts: [][2]string{{"KindA", `"a"`}, {"KindB", `"b"`}}})
		dc := pController{Name: "DocsCtl", Pkg: "other", File: "docs.go", Annots: []pAnnot{{Name: "Tag", Value: "Docs"}, {Name: "Route", Value: "/docs"}}}
		m1 := pMethod{Name: "OneDoc", File: "docs.go", Params: []pParam{{Name: "kind", Type: "Kind"}}, Results: []string{"Doc", "error"},
			Annots: []pAnnot{{Name: "Method", Value: "GET"}, {Name: "Route", Value: "/one"}, {Name: "Query", Value: "kind"}}}
		m2 := pMethod{Name: "NewDoc", File: "docs2.go", Params: []pParam{{Name: "d", Type: "Doc"}}, Results: []string{"error"},
			Annots: []pAnnot{{Name: "Method", Value: "POST"}, {Name: "Route", Value: "/new"}, {Name: "Body", Value: "d"}}}
		if p.Config.Enforce {
			m1.Annots = append(m1.Annots, g.security()...)
			m2.Annots = append(m2.Annots, g.security()...)
		}
		dc.Methods = []pMethod{m1, m2}
		p.Controllers = append(p.Controllers, dc)
	}
	if os.Getenv("VH_GENERIC") != "" && r.Chance(2, 3) {
		// C14 only: a generic struct instantiated with a declared struct, an enum or a builtin as a route's result.
		// Whether the tool supports this or reports an error, it must not crash.
		p.Types = append(p.Types, pType{Kind: "struct", Name: "Crate[T any]", Pkg: "ctl", File: p.Controllers[0].File,
			// methods on a generic type, declared in a scanned controller file: every function declaration there is looked at
			Raw: "func (b *Crate[T]) Touch() {}\n\nfunc (b Crate[T]) Peek() T { return b.V }\n", Fields: append(func() []pField {
				// fields encoding/json never emits, declared BEFORE the generic one (the reduced struct does not have them: C14-F7)
				if r.Bool() {
					return []pField{{Name: "hidden", Type: "int"}, {Name: "Skip", Type: "string", Tag: `json:"-"`}}
				}
				return nil
			}(), pField{Name: "V", Type: "T", Tag: `json:"v"`}, pField{Name: "N", Type: "int", Tag: `json:"n"`})},
			pType{Kind: "struct", Name: "Rec", Pkg: "ctl", File: "types.go", Fields: []pField{{Name: "A", Type: "string", Tag: `json:"a"`}}})
		gm := pMethod{Name: "Boxed", File: p.Controllers[0].File, Results: []string{"Crate[" + rng.Pick(r, []string{"Rec", "string", "int", "[]Rec", "*Rec", "Crate[Rec]", "struct{ A int }", "struct{}", "map[string]Rec"}) + "]", "error"},
			Annots: []pAnnot{{Name: "Method", Value: "GET"}, {Name: "Route", Value: "/boxed"}}}
		p.Controllers[0].Methods = append(p.Controllers[0].Methods, gm)
		if r.Chance(1, 3) {
			// a type parameter with a DECLARED constraint (a local interface, or one of the standard library): whatever the
			// tool makes of it - support or a reported error - it must not crash
			cons := rng.Pick(r, []string{"Number", "fmt.Stringer", "comparable"})
			raw := ""
			if cons == "Number" {
				raw = "type Number interface{ ~int | ~float64 }\n"
			}
			arg := map[string]string{"Number": "int", "fmt.Stringer": "Rec", "comparable": "string"}[cons]
			if cons == "fmt.Stringer" {
				raw += "func (r Rec) String() string { return r.A }\n\nvar _ fmt.Stringer = Rec{}\n"
			}
			p.Types = append(p.Types, pType{Kind: "struct", Name: "Num[T " + cons + "]", Pkg: "ctl", File: "types.go", Raw: raw,
				Fields: []pField{{Name: "V", Type: "T", Tag: `json:"v"`}}})
			p.Controllers[0].Methods = append(p.Controllers[0].Methods, pMethod{Name: "Numbered", File: p.Controllers[0].File,
				Results: []string{"Num[" + arg + "]", "error"}, Annots: []pAnnot{{Name: "Method", Value: "GET"}, {Name: "Route", Value: "/numbered"}}})
		}
	}
	p.Config.EnumValidator = r.Chance(1, 3)
	p.Config.TopLevelEnum = r.Chance(1, 3)
	p.GroupParams = r.Chance(1, 3)
	p.RuntimeAlias = r.Chance(1, 6)
	if p.GroupParams {
		// (from, to, cursor string, limit int): three names in one declaration followed by another parameter
		ci := r.Intn(len(p.Controllers))
		gm := pMethod{Name: fmt.Sprintf("Grouped%d", ci), File: p.Controllers[ci].File, Results: []string{"error"},
			Annots: []pAnnot{{Name: "Method", Value: "GET"}, {Name: "Route", Value: fmt.Sprintf("/grouped%d", ci)}}}
		for _, n := range []string{"from", "to", "cursor"} {
			gm.Annots = append(gm.Annots, pAnnot{Name: "Query", Value: n})
			gm.Params = append(gm.Params, pParam{Name: n, Type: "string"})
		}
		gm.Annots = append(gm.Annots, pAnnot{Name: "Query", Value: "limit"}, pAnnot{Name: "Header", Value: "trace"})
		gm.Params = append(gm.Params, pParam{Name: "limit", Type: "int"}, pParam{Name: "trace", Type: "int"})
		for _, a := range p.Controllers[ci].Annots {
			if a.Name != "Route" {
				continue
			}
			// the variables of the controller's prefix are this route's as well
			for _, seg := range strings.Split(a.Value, "/") {
				if strings.HasPrefix(seg, "{") && strings.HasSuffix(seg, "}") {
					n := strings.Trim(seg, "{}")
					gm.Annots = append(gm.Annots, pAnnot{Name: "Path", Value: n})
					gm.Params = append(gm.Params, pParam{Name: n, Type: "string"})
				}
			}
			break
		}
		if p.Config.Enforce {
			gm.Annots = append(gm.Annots, g.security()...)
		}
		p.Controllers[ci].Methods = append(p.Controllers[ci].Methods, gm)
	}
	applied := append([]string{}, preApplied...)
	// a custom error type is as good as `error`
	for ci := range p.Controllers {
		if p.Controllers[ci].Pkg != "ctl" {
			continue // MyErr lives in package ctl
		}
		for mi := range p.Controllers[ci].Methods {
			m := &p.Controllers[ci].Methods[mi]
			if n := len(m.Results); n > 0 && m.Results[n-1] == "error" && r.Chance(1, 10) {
				m.Results[n-1] = "MyErr"
			}
		}
	}
	if len(p.Controllers) > 1 && (r.Chance(1, 4) || (g.sharedNames && r.Bool())) {
		// the same verb + method route under TWO controllers with different prefixes: no overlap, no warning
		src := p.Controllers[0].Methods[0]
		dst := &p.Controllers[1].Methods[0]
		hasParams := false
		for _, a := range dst.Annots {
			hasParams = hasParams || a.Name == "Path"
		}
		srcParams := false
		for _, a := range src.Annots {
			srcParams = srcParams || a.Name == "Path"
		}
		if !hasParams && !srcParams {
			for i := range dst.Annots {
				for _, a := range src.Annots {
					if a.Name == dst.Annots[i].Name && (a.Name == "Method" || a.Name == "Route") {
						dst.Annots[i].Value = a.Value
					}
				}
			}
			applied = append(applied, "same-route-other-controller")
			if g.sharedNames && len(p.Controllers[1].Annots) > 0 {
				// (C15's stream only: two operations on one verb + path are outside what the other properties quantify over -
				// C01's iff is stated under NoVerbPathCollision)
				// … and under the SAME prefix: the two methods (of two controllers, possibly with one Go name) serve one
				// verb + path, each of them must get its `route-conflict` warning
				for _, a := range p.Controllers[0].Annots {
					if a.Name == "Route" {
						for i := range p.Controllers[1].Annots {
							if p.Controllers[1].Annots[i].Name == "Route" {
								p.Controllers[1].Annots[i].Value = a.Value
								applied = append(applied, "same-prefix-other-controller")
							}
						}
					}
				}
			}
		}
	}
	if g.sharedNames && len(p.Controllers) > 1 && r.Bool() {
		// two controllers under ONE prefix, each with a method of the same Go name serving the same verb + path: both
		// methods are offenders, each must get its own `route-conflict` warning
		pre := ""
		for _, a := range p.Controllers[0].Annots {
			if a.Name == "Route" {
				pre = a.Value
			}
		}
		ok := false
		for i := range p.Controllers[1].Annots {
			if p.Controllers[1].Annots[i].Name == "Route" && pre != "" && !strings.Contains(pre, "{") {
				p.Controllers[1].Annots[i].Value = pre
				ok = true
			}
		}
		if ok {
			for ci := 0; ci < 2; ci++ {
				p.Controllers[ci].Methods = append(p.Controllers[ci].Methods, pMethod{Name: "Shared", File: p.Controllers[ci].File, Results: []string{"error"},
					Annots: []pAnnot{{Name: "Method", Value: "GET"}, {Name: "Route", Value: "/shared"}}})
			}
			applied = append(applied, "shared-name-duplicate")
		}
	}
	if nPerturb > 0 && r.Chance(1, 4) {
		// a same-verb overlapping template next to an existing route: a path-conflict WARNING
		ci := r.Intn(len(p.Controllers))
		ms := p.Controllers[ci].Methods
		src := ms[r.Intn(len(ms))]
		verb, route := "", ""
		for _, a := range src.Annots {
			if a.Name == "Method" {
				verb = a.Value
			}
			if a.Name == "Route" {
				route = a.Value
			}
		}
		segs := strings.Split(strings.Trim(route, "/"), "/")
		for i, s := range segs {
			if !strings.HasPrefix(s, "{") {
				segs[i] = "{cp}"
				break
			}
		}
		twin := pMethod{Name: src.Name + "Twin", File: src.File, Results: []string{"error"},
			Annots: []pAnnot{{Name: "Method", Value: verb}, {Name: "Route", Value: "/" + strings.Join(segs, "/")}, {Name: "Path", Value: "cp"}},
			Params: []pParam{{Name: "cp", Type: "string"}}}
		// the other {params} of the copied template need bindings too
		for _, s := range segs {
			if strings.HasPrefix(s, "{") && s != "{cp}" {
				n := strings.Trim(s, "{}")
				twin.Annots = append(twin.Annots, pAnnot{Name: "Path", Value: n})
				twin.Params = append(twin.Params, pParam{Name: n, Type: "string"})
			}
		}
		p.Controllers[ci].Methods = append(p.Controllers[ci].Methods, twin)
		applied = append(applied, "path-conflict")
	}
	if nPerturb > 0 && r.Chance(1, 4) {
		// a method route that opens with a {param} (no leading slash): bind it under ANOTHER name - the
		// template variable then has no matching path parameter and the project must be refused
		for ci := range p.Controllers {
			for mi := range p.Controllers[ci].Methods {
				m := &p.Controllers[ci].Methods[mi]
				route := ""
				for _, a := range m.Annots {
					if a.Name == "Route" {
						route = a.Value
					}
				}
				if !strings.HasPrefix(route, "{") {
					continue
				}
				first := strings.Trim(strings.SplitN(route, "/", 2)[0], "{}")
				for ai := range m.Annots {
					a := &m.Annots[ai]
					if a.Name != "Path" {
						continue
					}
					wire := a.Value
					if n, ok := a.Props["name"].(string); ok && n != "" {
						wire = n
					}
					if wire == first {
						old := a.Value
						a.Value = old + "X"
						delete(a.Props, "name")
						for pi := range m.Params {
							if m.Params[pi].Name == old {
								m.Params[pi].Name = old + "X"
							}
						}
						applied = append(applied, "mismatch-leading-url-param")
					}
				}
			}
		}
	}
	if len(applied) > 0 && applied[len(applied)-1] == "mismatch-leading-url-param" {
		nPerturb = 0 // keep the rest of the project valid: this one defect alone must get it refused
	}
	for k := 0; k < nPerturb; k++ {
		ci := r.Intn(len(p.Controllers))
		mi := r.Intn(len(p.Controllers[ci].Methods))
		k := g.perturb(&p.Controllers[ci].Methods[mi], structNames)
		for try := 0; k == "none" && try < 4; try++ {
			// the chosen defect does not fit this method: another one (no budget is spent on "none")
			ci, mi = r.Intn(len(p.Controllers)), 0
			mi = r.Intn(len(p.Controllers[ci].Methods))
			k = g.perturb(&p.Controllers[ci].Methods[mi], structNames)
		}
		applied = append(applied, k)
	}
	return p, applied
}

func genProj(seed uint64, n int, tier string, emit func(string, []string, any)) {
	r := rng.New(seed)
	allEngines := os.Getenv("VH_ALL_ENGINES") != ""
	for i := 0; i < n; i++ {
		cr := r.Fork()
		np := 0
		validOnly := os.Getenv("VH_VALID_ONLY") != ""
		switch cr.Intn(4) {
		case 1, 2:
			np = 1
		case 3:
			np = 2
		}
		if validOnly {
			np = 0
		}
		p, applied := genProject(cr, np)
		if os.Getenv("VH_TYPES") != "" {
			p, applied = genTypesProject(cr)
		}
		if os.Getenv("VH_COMMENT_SITES") != "" {
			applied = append(applied, commentSite(cr, &p))
		}
		if os.Getenv("VH_LOAD_FAILURES") != "" && np == 0 && cr.Chance(1, 3) {
			p.Config.AllowLoadFailures = true
			applied = append(applied, "package-with-load-error")
		}
		if validOnly && os.Getenv("VH_KEEP_ENFORCE") == "" {
			p.Config.Enforce = false
		}
		if os.Getenv("VH_KEEP_ENFORCE") != "" && len(p.Config.Schemes) > 0 && cr.Chance(1, 3) {
			// the enforce scenario: nothing inherited, every visible route secured on its own, hidden routes
			// secured or not - an unsecured hidden route must get the project refused
			p.Config.Enforce = true
			p.Config.DefaultSecurity = nil
			strip := func(as []pAnnot) []pAnnot {
				o := []pAnnot{}
				for _, a := range as {
					if a.Name != "Security" {
						o = append(o, a)
					}
				}
				return o
			}
			for ci := range p.Controllers {
				p.Controllers[ci].Annots = strip(p.Controllers[ci].Annots)
				for mi := range p.Controllers[ci].Methods {
					m := &p.Controllers[ci].Methods[mi]
					hidden, secured := false, false
					for _, a := range m.Annots {
						hidden = hidden || a.Name == "Hidden"
						secured = secured || a.Name == "Security"
					}
					if hidden && cr.Bool() {
						m.Annots = strip(m.Annots)
					} else if !secured {
						m.Annots = append(m.Annots, pAnnot{Name: "Security", Value: p.Config.Schemes[0].Name})
					}
				}
			}
			if cr.Chance(1, 3) {
				// a VISIBLE route without any security whose annotations also draw a warning (a property on an
				// annotation that takes none): the warning must not hide the missing-security error
				c := &p.Controllers[cr.Intn(len(p.Controllers))]
				if len(c.Methods) > 0 {
					m := &c.Methods[cr.Intn(len(c.Methods))]
					m.Annots = strip(m.Annots)
					for ai := range m.Annots {
						if m.Annots[ai].Name == "Method" {
							m.Annots[ai].Props = map[string]any{"note": "x"}
						}
					}
					applied = append(applied, "enforce-unsecured-with-warning")
				}
			}
			applied = append(applied, "enforce-scenario")
		}
		if allEngines {
			p.Engines = []string{"gin", "echo", "mux", "chi", "fiber"}
		}
		if os.Getenv("VH_DETERMINISM") != "" {
			p.Determinism = 5
		}
		if os.Getenv("VH_REPEAT") != "" {
			p.Repeat = 1 + cr.Intn(3)
		}
		tags := []string{}
		for _, a := range applied {
			tags = append(tags, "perturb:"+a)
		}
		emit("proj", tags, p)
	}
}

func init() { gens["proj"] = genProj }


// commentSite places one annotation line - half of the time with a JSON5 object that does not parse - into the doc
// comment of a struct field, a type, an enum constant, a controller or a route method (C16)
func commentSite(r *rng.R, p *pProject) string {
	bad := []string{
		`@Deprecated(v2, { replacedBy: "contact" note: "x" }) Use Contact`,
		`@Description(d, { a: }) text`,
		`@Deprecated(v1, { "k": [1, 2 }) gone`,
		`@Description(d, {,}) text`,
	}
	good := []string{
		`@Deprecated(v2, { replacedBy: "contact", note: "x" }) Use Contact`,
		`@Description(d, { a: 1 }) text`,
		`@Deprecated(v1, { "k": [1, 2] }) gone`,
		`@Description(d, { a: "}" }) text`,
	}
	site := &pSite{Malformed: r.Bool()}
	k := r.Intn(len(bad))
	site.Line = good[k]
	if site.Malformed {
		site.Line = bad[k]
	}
	structs, enums := []int{}, []int{}
	for i, t := range p.Types {
		if t.Kind == "struct" && len(t.Fields) > 0 {
			structs = append(structs, i)
		}
		if t.Kind == "enum" && len(t.Consts) > 0 {
			enums = append(enums, i)
		}
	}
	kinds := []string{"controller", "method"}
	if len(structs) > 0 {
		kinds = append(kinds, "field", "field", "field")
	}
	if len(p.Types) > 0 {
		kinds = append(kinds, "type", "type")
	}
	if len(enums) > 0 {
		kinds = append(kinds, "const")
	}
	site.Kind = rng.Pick(r, kinds)
	switch site.Kind {
	case "field":
		t := &p.Types[rng.Pick(r, structs)]
		fi := r.Intn(len(t.Fields))
		for fi > 0 && t.Fields[fi].Joined {
			fi-- // `A, B T` is one declaration with one comment: it is printed with the first name
		}
		t.Fields[fi].Doc = site.Line
		for k := fi + 1; k < len(t.Fields) && t.Fields[k].Joined; k++ {
			t.Fields[k].Doc = site.Line
		}
		site.Type, site.Pkg, site.Member = t.Name, t.Pkg, t.Fields[fi].Name
	case "type":
		t := &p.Types[r.Intn(len(p.Types))]
		t.Doc = append(t.Doc, site.Line)
		site.Type, site.Pkg = t.Name, t.Pkg
	case "const":
		t := &p.Types[rng.Pick(r, enums)]
		nHere := len(t.Consts)
		if k := t.ConstsElsewhere; k > 0 && k < len(t.Consts) {
			nHere = len(t.Consts) - k
		}
		ci := r.Intn(nHere)
		t.ConstDocs = make([]string, len(t.Consts))
		t.ConstDocs[ci] = site.Line
		site.Type, site.Pkg, site.Member = t.Name, t.Pkg, t.Consts[ci][0]
	case "controller":
		c := &p.Controllers[r.Intn(len(p.Controllers))]
		c.Annots = append(c.Annots, pAnnot{Raw: "// " + site.Line})
		site.Type = c.Name
	case "method":
		c := &p.Controllers[r.Intn(len(p.Controllers))]
		if len(c.Methods) == 0 {
			c.Annots = append(c.Annots, pAnnot{Raw: "// " + site.Line})
			site.Kind, site.Type = "controller", c.Name
			break
		}
		m := &c.Methods[r.Intn(len(c.Methods))]
		m.Annots = append(m.Annots, pAnnot{Raw: "// " + site.Line})
		site.Type, site.Member = c.Name, m.Name
	}
	p.Site = site
	if site.Malformed {
		return "site-malformed:" + site.Kind
	}
	return "site-wellformed:" + site.Kind
}
