package main

import (
	"fmt"
	"go/ast"
	"sort"
	"strings"
)

// ValidationRules.lean: per emitter and per validator rule name, which swagtool parser reads the rule's
// value and whether its (pointer) result is dereferenced without a nil check.

type ruleRow struct {
	emitter, rule, parser string
	derefUnchecked        bool
}

// per emitter and rule: the spec types the case body compares `specType` with (`specType == "x"`), and the labels
// of a `switch specType` inside it
type guardRow struct {
	emitter, rule string
	eq, sw        []string
}

var guardRows []guardRow

func collectGuards(emitter, rule string, body []ast.Stmt) {
	eq := map[string]bool{}
	sw := map[string]bool{}
	for _, st := range body {
		ast.Inspect(st, func(m ast.Node) bool {
			switch x := m.(type) {
			case *ast.BinaryExpr:
				if x.Op.String() == "==" && exprStr(x.X) == "specType" {
					if v, ok := strLit(x.Y); ok {
						eq[v] = true
					}
				}
			case *ast.SwitchStmt:
				if exprStr(x.Tag) == "specType" {
					for _, c := range x.Body.List {
						for _, lab := range c.(*ast.CaseClause).List {
							if v, ok := strLit(lab); ok {
								sw[v] = true
							}
						}
					}
				}
			}
			return true
		})
	}
	keys := func(m map[string]bool) []string {
		out := []string{}
		for k := range m {
			out = append(out, k)
		}
		sort.Strings(out)
		return out
	}
	guardRows = append(guardRows, guardRow{emitter, rule, keys(eq), keys(sw)})
}

func extractRuleRows(file, fn, emitter string) ([]ruleRow, error) {
	_, f, err := parseGoFile(file)
	if err != nil {
		return nil, err
	}
	var fd *ast.FuncDecl
	for _, d := range f.Decls {
		if x, ok := d.(*ast.FuncDecl); ok && x.Name.Name == fn {
			fd = x
		}
	}
	if fd == nil {
		return nil, fmt.Errorf("%s: func %s not found", file, fn)
	}
	rows := []ruleRow{}
	ast.Inspect(fd.Body, func(n ast.Node) bool {
		sw, ok := n.(*ast.SwitchStmt)
		if !ok || exprStr(sw.Tag) != "ruleName" {
			return true
		}
		for _, c := range sw.Body.List {
			cc := c.(*ast.CaseClause)
			for _, lab := range cc.List {
				rule, _ := strLit(lab)
				collectGuards(emitter, rule, cc.Body)
				// parser calls and the identifiers bound to their results
				type pc struct {
					parser string
					ident  string
				}
				calls := []pc{}
				for _, st := range cc.Body {
					ast.Inspect(st, func(m ast.Node) bool {
						switch x := m.(type) {
						case *ast.AssignStmt:
							if len(x.Rhs) == 1 {
								if ce, ok := x.Rhs[0].(*ast.CallExpr); ok && strings.HasPrefix(exprStr(ce.Fun), "swagtool.Parse") {
									id := ""
									if i, ok := x.Lhs[0].(*ast.Ident); ok {
										id = i.Name
									}
									calls = append(calls, pc{exprStr(ce.Fun), id})
									return false
								}
							}
						case *ast.CallExpr:
							if strings.HasPrefix(exprStr(x.Fun), "swagtool.Parse") {
								calls = append(calls, pc{exprStr(x.Fun), ""})
							}
						}
						return true
					})
				}
				// unchecked dereferences
				var stack []ast.Node
				unchecked := map[string]bool{}
				for _, st := range cc.Body {
					ast.Inspect(st, func(m ast.Node) bool {
						if m == nil {
							stack = stack[:len(stack)-1]
							return true
						}
						stack = append(stack, m)
						if se, ok := m.(*ast.StarExpr); ok {
							target := ""
							switch t := se.X.(type) {
							case *ast.CallExpr:
								if strings.HasPrefix(exprStr(t.Fun), "swagtool.Parse") {
									target = "call:" + exprStr(t.Fun)
								}
							case *ast.Ident:
								for _, c := range calls {
									if c.ident == t.Name {
										target = "id:" + t.Name
									}
								}
							}
							if target != "" {
								guarded := false
								if strings.HasPrefix(target, "id:") {
									id := strings.TrimPrefix(target, "id:")
									for _, anc := range stack {
										if is, ok := anc.(*ast.IfStmt); ok && strings.Contains(exprStr(is.Cond), id+" != nil") {
											// only the THEN branch is guarded
											if containsNode(is.Body, se) {
												guarded = true
											}
										}
									}
								}
								if !guarded {
									unchecked[target] = true
								}
							}
						}
						return true
					})
				}
				if len(calls) == 0 {
					rows = append(rows, ruleRow{emitter, rule, "", false})
				}
				seen := map[string]bool{}
				for _, c := range calls {
					u := unchecked["call:"+c.parser] || (c.ident != "" && unchecked["id:"+c.ident])
					key := c.parser + fmt.Sprint(u)
					if seen[key] {
						continue
					}
					seen[key] = true
					rows = append(rows, ruleRow{emitter, rule, strings.TrimPrefix(c.parser, "swagtool."), u})
				}
			}
		}
		return false
	})
	return rows, nil
}

func containsNode(root ast.Node, target ast.Node) bool {
	found := false
	ast.Inspect(root, func(n ast.Node) bool {
		if n == target {
			found = true
		}
		return !found
	})
	return found
}

// does the function return early when schema.Value is nil (3.0 only: SchemaRef may be an unresolved $ref)
func hasNilValueGuard(file, fn string) bool {
	_, f, err := parseGoFile(file)
	if err != nil {
		return false
	}
	for _, d := range f.Decls {
		if x, ok := d.(*ast.FuncDecl); ok && x.Name.Name == fn && x.Body != nil && len(x.Body.List) > 0 {
			if is, ok := x.Body.List[0].(*ast.IfStmt); ok && (strings.Contains(exprStr(is.Cond), "schema.Value == nil") || exprStr(is.Cond) == "schema == nil") && containsReturn(is.Body) {
				return true
			}
		}
	}
	return false
}

func extractValidationRules() (string, error) {
	guardRows = nil
	r30, err := extractRuleRows("generator/swagen/swagen30/validatation_converter.go", "BuildSchemaValidation", "3.0")
	if err != nil {
		return "", err
	}
	r31, err := extractRuleRows("generator/swagen/swagen31/validation_converter31.go", "BuildSchemaValidationV31", "3.1")
	if err != nil {
		return "", err
	}
	rows := append(r30, r31...)
	sort.SliceStable(rows, func(i, j int) bool {
		if rows[i].emitter != rows[j].emitter {
			return rows[i].emitter < rows[j].emitter
		}
		return rows[i].rule < rows[j].rule
	})
	var sb strings.Builder
	sb.WriteString("namespace Gleece.Generated\n/-- (emitter, rule, swagtool parser applied to the rule value or \"\", result dereferenced without a nil check) -/\n")
	sb.WriteString("def validationRules : List (String × String × String × Bool) := [\n")
	for i, r := range rows {
		sep := ","
		if i == len(rows)-1 {
			sep = ""
		}
		sb.WriteString(fmt.Sprintf("  (%s, %s, %s, %s)%s\n", leanStr(r.emitter), leanStr(r.rule), leanStr(r.parser), leanBool(r.derefUnchecked), sep))
	}
	sb.WriteString("]\n/-- (emitter, rule, the types the case compares `specType` with, the labels of a `switch specType` in it) -/\n")
	sb.WriteString("def validationGuards : List (String × String × List String × List String) := [\n")
	sort.SliceStable(guardRows, func(i, j int) bool {
		if guardRows[i].emitter != guardRows[j].emitter {
			return guardRows[i].emitter < guardRows[j].emitter
		}
		return guardRows[i].rule < guardRows[j].rule
	})
	lst := func(xs []string) string {
		q := []string{}
		for _, x := range xs {
			q = append(q, leanStr(x))
		}
		return "[" + strings.Join(q, ", ") + "]"
	}
	for i, g := range guardRows {
		sep := ","
		if i == len(guardRows)-1 {
			sep = ""
		}
		sb.WriteString(fmt.Sprintf("  (%s, %s, %s, %s)%s\n", leanStr(g.emitter), leanStr(g.rule), lst(g.eq), lst(g.sw), sep))
	}
	sb.WriteString("]\n/-- the 3.0 converter returns before touching `schema.Value` when it is nil -/\n")
	sb.WriteString("def nilValueGuard30 : Bool := " + leanBool(hasNilValueGuard("generator/swagen/swagen30/validatation_converter.go", "BuildSchemaValidation")) + "\n")
	sb.WriteString("/-- the 3.1 converter returns at once when handed a nil schema (a reference proxy) -/\n")
	sb.WriteString("def nilSchemaGuard31 : Bool := " + leanBool(hasNilValueGuard("generator/swagen/swagen31/validation_converter31.go", "BuildSchemaValidationV31")) + "\n")
	sb.WriteString("end Gleece.Generated\n")
	return sb.String(), nil
}

func init() {
	extractors = append(extractors, extractor{"ValidationRules.lean", extractValidationRules})
}
