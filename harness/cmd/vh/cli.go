package main

// mode "cli" (C14): the REAL command-line program, built from /repo's working tree, run in a child process on a
// generated project, once per case with one of its commands.  Observed: exit status, whether the run timed
// out, whether a Go panic / runtime error reached the output, whether anything was reported, and which
// artifacts exist afterwards.  The in-process verdict of the same command (cmd.Generate*) on a second copy of
// the project is recorded next to it: the wrapper must tell the caller what the function told it.

import (
	"bytes"
	"context"
	"encoding/json"
	"fmt"
	"os"
	"os/exec"
	"path/filepath"
	"strings"
	"sync"
	"time"

	"github.com/gopher-fleece/gleece/v2/cmd"
	"github.com/gopher-fleece/gleece/v2/cmd/arguments"

	"verifharness/rng"
)

type cliIn struct {
	Project pProject `json:"project"`
	Cmd     []string `json:"cmd"`  // arguments after the program name; empty = the bare program
	Kind    string   `json:"kind"` // bare | spec | routes | spec-and-routes
	Break   string   `json:"break,omitempty"` // "" | "config-missing" | "config-malformed"
}

type cliOut struct {
	SetupErr  string `json:"setupErr,omitempty"`
	Exit      int    `json:"exit"`
	TimedOut  bool   `json:"timedOut"`
	Panic     bool   `json:"panic"`
	Reported  bool   `json:"reported"` // an error / fatal line (or a cobra error) was printed
	Spec      bool   `json:"spec"`
	Routes    bool   `json:"routes"`
	InProcErr bool   `json:"inProcErr"` // the same command's Go function returned an error (or panicked) in-process
	InProcPanic bool `json:"inProcPanic"`
	Tail      string `json:"_tail"`
	Seconds   float64 `json:"_seconds"`
}

var (
	cliBinOnce sync.Once
	cliBin     string
	cliBinErr  error
)

// the program under test: built by the orchestrator next to vh (VH_GLEECE_BIN), or here on first use
func gleeceBinary() (string, error) {
	cliBinOnce.Do(func() {
		if b := os.Getenv("VH_GLEECE_BIN"); b != "" {
			if _, err := os.Stat(b); err == nil {
				cliBin = b
				return
			}
		}
		out := filepath.Join(scratch(), fmt.Sprintf("gleece-%d", os.Getpid()))
		c := exec.Command("go", "build", "-o", out, ".")
		c.Dir = repoRoot()
		c.Env = append(os.Environ(), "GOFLAGS=-mod=mod", "GOPROXY=off")
		if b, err := c.CombinedOutput(); err != nil {
			cliBinErr = fmt.Errorf("go build of the program under test failed: %v: %s", err, firstLines(string(b), 5))
			return
		}
		cliBin = out
	})
	return cliBin, cliBinErr
}

func materializeProject(p pProject, dir string, brk string) error {
	if _, err := writeProject(p, dir); err != nil {
		return err
	}
	os.WriteFile(filepath.Join(dir, "go.mod"), []byte(projGoMod()), 0o644)
	sum, _ := os.ReadFile(filepath.Join(repoRoot(), "go.sum"))
	os.WriteFile(filepath.Join(dir, "go.sum"), sum, 0o644)
	switch brk {
	case "config-missing":
	case "config-malformed":
		os.WriteFile(filepath.Join(dir, "gleece.config.json"), []byte("{ this is not json5"), 0o644)
	default:
		os.WriteFile(filepath.Join(dir, "gleece.config.json"), []byte(configText(p.Config)), 0o644)
	}
	return nil
}

func runCli(in cliIn) (out cliOut) {
	bin, err := gleeceBinary()
	if err != nil {
		out.SetupErr = err.Error()
		return
	}
	dir, err := os.MkdirTemp(scratch(), "cli-")
	if err != nil {
		out.SetupErr = err.Error()
		return
	}
	dir, _ = filepath.EvalSymlinks(dir)
	defer os.RemoveAll(dir)
	if err := materializeProject(in.Project, dir, in.Break); err != nil {
		out.SetupErr = err.Error()
		return
	}
	ctx, cancel := context.WithTimeout(context.Background(), 120*time.Second)
	defer cancel()
	c := exec.CommandContext(ctx, bin, in.Cmd...)
	c.Dir = dir
	c.Env = append(os.Environ(), "GOFLAGS=-mod=mod", "GOPROXY=off")
	var buf bytes.Buffer
	c.Stdout, c.Stderr = &buf, &buf
	t0 := time.Now()
	runErr := c.Run()
	out.Seconds = time.Since(t0).Seconds()
	if ctx.Err() == context.DeadlineExceeded {
		out.TimedOut = true
	}
	if ee, ok := runErr.(*exec.ExitError); ok {
		out.Exit = ee.ExitCode()
	} else if runErr != nil {
		out.Exit = -1
	}
	text := buf.String()
	out.Panic = strings.Contains(text, "panic:") || strings.Contains(text, "goroutine 1 [") || strings.Contains(text, "runtime error:") || strings.Contains(text, "fatal error:")
	out.Reported = strings.Contains(text, "[FATAL]") || strings.Contains(text, "[ERROR]") || strings.Contains(text, "Error:")
	lines := strings.Split(strings.TrimSpace(text), "\n")
	// (cobra prints its usage text after an error: the message is what comes before it)
	for i, l := range lines {
		if strings.HasPrefix(l, "Usage:") {
			lines = lines[:i]
			break
		}
	}
	if len(lines) > 4 {
		lines = lines[len(lines)-4:]
	}
	out.Tail = strings.Join(lines, " | ")
	if len(out.Tail) > 600 {
		out.Tail = out.Tail[len(out.Tail)-600:]
	}
	s1, e1 := os.Stat(filepath.Join(dir, "dist", "openapi.json"))
	s2, e2 := os.Stat(filepath.Join(dir, "dist", "routes", "gleece.go"))
	out.Spec, out.Routes = e1 == nil && s1.Mode().IsRegular(), e2 == nil && s2.Mode().IsRegular()

	// the same command as a Go function, on a fresh copy
	dir2, err := os.MkdirTemp(scratch(), "cli2-")
	if err == nil {
		dir2, _ = filepath.EvalSymlinks(dir2)
		defer os.RemoveAll(dir2)
		if materializeProject(in.Project, dir2, in.Break) == nil {
			cwd, _ := os.Getwd()
			if os.Chdir(dir2) == nil {
				func() {
					defer os.Chdir(cwd)
					defer func() {
						if r := recover(); r != nil {
							out.InProcErr, out.InProcPanic = true, true
						}
					}()
					args := arguments.CliArguments{ConfigPath: "./gleece.config.json", NoBanner: true}
					var e error
					switch in.Kind {
					case "dump-graph":
						// no Go-level twin of this command: the exit status stands for itself
						e = nil
						if out.Exit != 0 {
							e = fmt.Errorf("exit %d", out.Exit)
						}
					case "spec":
						e = cmd.GenerateSpec(args)
					case "routes":
						e = cmd.GenerateRoutes(args)
					default:
						e = cmd.GenerateSpecAndRoutes(args)
					}
					out.InProcErr = e != nil
				}()
			}
		}
	}
	return
}

func genCli(seed uint64, n int, tier string, emit func(string, []string, any)) {
	r := rng.New(seed)
	kinds := []string{"bare", "spec", "routes", "spec-and-routes", "dump-graph"}
	for i := 0; i < n; i++ {
		cr := r.Fork()
		np := 0
		switch cr.Intn(3) {
		case 1:
			np = 1
		case 2:
			np = 2
		}
		unwritable := i%5 == 4
		if unwritable {
			np = 0 // a project that would succeed: the failure is the write itself
		}
		p, applied := genProject(cr, np)
		kind := kinds[i%len(kinds)]
		in := cliIn{Project: p, Kind: kind}
		switch kind {
		case "bare":
			in.Cmd = []string{"--no-banner"}
		case "dump-graph":
			// the graph of the project as text (DOT by default, `plain` otherwise): no artifact of the generators, but a run
			// like any other - it ends with exit 0 or with a reported error, never with a panic
			in.Cmd = []string{"dump", "graph", "--no-banner", "-c", "./gleece.config.json", "-o", "./graph.txt"}
			if cr.Bool() {
				in.Cmd = append(in.Cmd, "-f", "plain")
			}
		default:
			in.Cmd = []string{"generate", kind, "--no-banner", "-c", "./gleece.config.json"}
		}
		if unwritable {
			p.Config.Enforce = false
			in.Project = p
			// an output path that passes the configuration check but cannot be written at the END of the run (for root
			// as well): a full device, a file name beyond NAME_MAX - the command must exit non-zero, not report success
			in.Break = "routes-unwritable"
			p.Config.RoutesOut = "/dev/full"
			if kind == "spec" || (kind == "spec-and-routes" && cr.Bool()) {
				in.Break = "spec-unwritable"
				p.Config.RoutesOut = ""
				p.Config.SpecOut = "./dist/" + strings.Repeat("s", 300) + ".json"
			}
			in.Project = p
		} else if cr.Chance(1, 10) {
			in.Break = rng.Pick(cr, []string{"config-missing", "config-malformed"})
		}
		tags := []string{"cmd:" + kind}
		if len(applied) > 0 {
			tags = append(tags, "perturbed")
		} else {
			tags = append(tags, "well-formed")
		}
		if in.Break != "" {
			tags = append(tags, in.Break)
		}
		emit("cli", tags, in)
	}
}

func implCli(raw json.RawMessage) (any, error) {
	var in cliIn
	if err := json.Unmarshal(raw, &in); err != nil {
		return nil, err
	}
	return runCli(in), nil
}

func init() {
	gens["cli"] = genCli
	impls["cli"] = implCli
}
