package main

import (
	"fmt"
	"sort"
	"strings"

	"github.com/gopher-fleece/gleece/v2/core/validators/configuration"
	"github.com/gopher-fleece/gleece/v2/definitions"
)

// AnnotTable.lean: the annotation table and the HTTP tables, read from the package variables of the
// harness build (which is compiled from /repo's working tree on every run).

func extractAnnotTable() (string, error) {
	names := make([]string, 0, len(configuration.ValidatorConfigMap))
	for k := range configuration.ValidatorConfigMap {
		names = append(names, k)
	}
	sort.Strings(names)
	var sb strings.Builder
	sb.WriteString("namespace Gleece.Generated\n")
	sb.WriteString("/-- (annotation, contexts, requiresValue, anyPropertiesAllowed, allowedProperties (name, JSON type), allowsMultiple, mutuallyExclusive, requiresUniqueValue) -/\n")
	sb.WriteString("def annotTable : List (String × List String × Bool × Bool × List (String × String) × Bool × List String × Bool) := [\n")
	for i, n := range names {
		d := configuration.ValidatorConfigMap[n]
		ctx := []string{}
		for _, c := range d.Contexts {
			ctx = append(ctx, string(c))
		}
		props := []string{}
		pk := make([]string, 0, len(d.AllowedProperties))
		for k := range d.AllowedProperties {
			pk = append(pk, k)
		}
		sort.Strings(pk)
		for _, k := range pk {
			props = append(props, "("+leanStr(k)+", "+leanStr(d.AllowedProperties[k].Type)+")")
		}
		sep := ","
		if i == len(names)-1 {
			sep = ""
		}
		sb.WriteString(fmt.Sprintf("  (%s, %s, %s, %s, [%s], %s, %s, %s)%s\n", leanStr(n), leanStrList(ctx), leanBool(d.RequiresValue), leanBool(d.AllowedProperties == nil),
			strings.Join(props, ", "), leanBool(d.AllowsMultiple), leanStrList(d.MutuallyExclusive), leanBool(d.RequiresUniqueValue), sep))
	}
	sb.WriteString("]\n")
	verbs := definitions.GetRouteSupportedHttpVerbs()
	sort.Strings(verbs)
	all := definitions.GetValidHttpVerbs()
	sort.Strings(all)
	sb.WriteString("def routeSupportedHttpVerbs : List String := " + leanStrList(verbs) + "\n")
	sb.WriteString("def validHttpVerbs : List String := " + leanStrList(all) + "\n")
	codes := definitions.GetValidHttpStatusCodes()
	sort.Slice(codes, func(i, j int) bool { return codes[i] < codes[j] })
	cs := []string{}
	for _, c := range codes {
		cs = append(cs, fmt.Sprint(c))
	}
	sb.WriteString("def validHttpStatusCodes : List Nat := [" + strings.Join(cs, ", ") + "]\n")
	sb.WriteString("end Gleece.Generated\n")
	return sb.String(), nil
}

func init() {
	extractors = append(extractors, extractor{"AnnotTable.lean", extractAnnotTable})
}
