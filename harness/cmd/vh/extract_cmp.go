package main

import (
	"fmt"
	"go/ast"
	"io/fs"
	"path/filepath"
	"sort"
	"strings"
)

// Comparators.lean: every `slices.SortFunc` / `slices.SortStableFunc` call in the non-test sources whose comparator
// is a function literal: the two parameter names and, in source order, the pairs of expressions handed to
// `strings.Compare` / `cmp.Compare`.  C13's theorems are about comparators that compare a key of the first element
// with THE SAME key of the second one, key after key; a comparator that compares an element with itself, or two
// different keys, is not of that shape and breaks the proof obligation `comparators_well_shaped`.

type cmpRow struct {
	key    string
	pa, pb string
	pairs  [][2]string
	other  bool // the body contains a comparison the extractor does not understand (`<`, `>` on fields, a call to another helper)
}

func extractComparators() (string, error) {
	root := repoRoot()
	rows := []cmpRow{}
	for _, top := range []string{"core", "generator", "graphs", "gast", "common", "definitions", "cmd", "infrastructure"} {
		dir := filepath.Join(root, top)
		err := filepath.WalkDir(dir, func(p string, d fs.DirEntry, err error) error {
			if err != nil || d.IsDir() || !strings.HasSuffix(p, ".go") || strings.HasSuffix(p, "_test.go") {
				return nil
			}
			rel, _ := filepath.Rel(root, p)
			_, f, perr := parseGoFile(rel)
			if perr != nil {
				return perr
			}
			for _, decl := range f.Decls {
				fd, ok := decl.(*ast.FuncDecl)
				if !ok || fd.Body == nil {
					continue
				}
				n := 0
				ast.Inspect(fd.Body, func(nd ast.Node) bool {
					ce, ok := nd.(*ast.CallExpr)
					if !ok {
						return true
					}
					fun := exprStr(ce.Fun)
					if (fun != "slices.SortFunc" && fun != "slices.SortStableFunc") || len(ce.Args) != 2 {
						return true
					}
					fl, ok := ce.Args[1].(*ast.FuncLit)
					if !ok {
						return true
					}
					names := []string{}
					for _, fld := range fl.Type.Params.List {
						for _, nm := range fld.Names {
							names = append(names, nm.Name)
						}
					}
					if len(names) != 2 {
						return true
					}
					row := cmpRow{key: fmt.Sprintf("%s:%s#%d", filepath.ToSlash(rel), fd.Name.Name, n), pa: names[0], pb: names[1]}
					n++
					ast.Inspect(fl.Body, func(m ast.Node) bool {
						switch x := m.(type) {
						case *ast.CallExpr:
							cf := exprStr(x.Fun)
							if (cf == "strings.Compare" || cf == "cmp.Compare") && len(x.Args) == 2 {
								row.pairs = append(row.pairs, [2]string{exprStr(x.Args[0]), exprStr(x.Args[1])})
								return false
							}
						case *ast.BinaryExpr:
							// a relational operator over the elements themselves (not over an already computed comparison result)
							op := x.Op.String()
							if op == "<" || op == ">" || op == "<=" || op == ">=" {
								if mentions(x.X, names) || mentions(x.Y, names) {
									row.other = true
								}
							}
						}
						return true
					})
					rows = append(rows, row)
					return true
				})
			}
			return nil
		})
		if err != nil {
			return "", err
		}
	}
	sort.Slice(rows, func(i, j int) bool { return rows[i].key < rows[j].key })
	var sb strings.Builder
	sb.WriteString("namespace Gleece.Generated\n")
	sb.WriteString("/-- (site, first parameter, second parameter, pairs handed to strings.Compare / cmp.Compare in source order, has-other-comparison) -/\n")
	sb.WriteString("def comparators : List (String × String × String × List (String × String) × Bool) := [\n")
	for i, r := range rows {
		ps := []string{}
		for _, p := range r.pairs {
			ps = append(ps, "("+leanStr(p[0])+", "+leanStr(p[1])+")")
		}
		sep := ","
		if i == len(rows)-1 {
			sep = ""
		}
		sb.WriteString(fmt.Sprintf("  (%s, %s, %s, [%s], %s)%s\n", leanStr(r.key), leanStr(r.pa), leanStr(r.pb), strings.Join(ps, ", "), leanBool(r.other), sep))
	}
	sb.WriteString("]\nend Gleece.Generated\n")
	return sb.String(), nil
}

func mentions(e ast.Expr, names []string) bool {
	found := false
	ast.Inspect(e, func(n ast.Node) bool {
		if id, ok := n.(*ast.Ident); ok {
			for _, nm := range names {
				if id.Name == nm {
					found = true
				}
			}
		}
		return true
	})
	return found
}

func init() {
	extractors = append(extractors, extractor{"Comparators.lean", extractComparators})
}
