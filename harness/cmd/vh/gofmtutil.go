package main

import "go/format"

func isGofmtClean(src string) bool {
	b, err := format.Source([]byte(src))
	return err == nil && string(b) == src
}
