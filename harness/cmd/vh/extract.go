package main

func runExtract(outdir string) error { return nil }
