package main

import (
	"encoding/json"
	"fmt"
	"os"
	"os/exec"
	"path/filepath"
	"regexp"
	"sort"
	"strings"
	"time"

	"github.com/gopher-fleece/gleece/v2/cmd"
	"github.com/gopher-fleece/gleece/v2/common"
	"github.com/gopher-fleece/gleece/v2/core/pipeline"
	"github.com/gopher-fleece/gleece/v2/core/validators/diagnostics"
	"github.com/gopher-fleece/gleece/v2/definitions"
	"github.com/gopher-fleece/gleece/v2/generator/routes"
	"github.com/gopher-fleece/gleece/v2/generator/swagen"
)

// ---- mode "proj": an ABSTRACT PROJECT is printed as real Go source + gleece.config.json into a scratch
// module and pushed through the real cmd.LoadGleeceConfig -> pipeline (GenerateGraph / Validate /
// GenerateIntermediate) -> swagen.GenerateSpec / routes.GenerateRoutes, in-process.

type pAnnot struct {
	Name  string         `json:"name"`
	Value string         `json:"value"`
	Props map[string]any `json:"props,omitempty"`
	Desc  string         `json:"desc,omitempty"`
	Raw   string         `json:"raw,omitempty"` // when set, the comment line is emitted verbatim
}

type pParam struct {
	Name string `json:"name"`
	Type string `json:"type"` // Go source text
}

type pMethod struct {
	Name    string   `json:"name"`
	File    string   `json:"file"` // file (within the controller's package) holding the method
	Free    []string `json:"free,omitempty"`
	Annots  []pAnnot `json:"annots"`
	Params  []pParam `json:"params"`
	Results []string `json:"results"`
	Recv    string   `json:"recv,omitempty"` // "" = (c *T); "anon-ptr" = (*T); "anon-val" = (T); "blank" = (_ *T)
	// rig only - what the (echoing) controller method does after recording its arguments
	SetStatus int  `json:"setStatus,omitempty"` // calls c.SetStatus(<code>) before returning
	Fail      bool `json:"fail,omitempty"`      // returns a non-nil error
}

// recvText: the receiver clause of a controller method
func recvText(ctrl, recv string) string {
	switch recv {
	case "anon-ptr":
		return "(*" + ctrl + ")"
	case "anon-val":
		return "(" + ctrl + ")"
	case "blank":
		return "(_ *" + ctrl + ")"
	}
	return "(c *" + ctrl + ")"
}

type pController struct {
	Name       string    `json:"name"`
	Pkg        string    `json:"pkg"`
	File       string    `json:"file"`
	Free       []string  `json:"free,omitempty"`
	Annots     []pAnnot  `json:"annots"`
	Methods    []pMethod `json:"methods"`
	NoEmbed    bool      `json:"noEmbed,omitempty"`    // a plain struct that does NOT embed GleeceController
	Grouped    bool      `json:"grouped,omitempty"`    // declared inside a documented `type ( ... )` group
	Unglobbed  bool      `json:"unglobbed,omitempty"`  // lives in a file no controllerGlob matches: must never contribute
	FieldFirst bool      `json:"fieldFirst,omitempty"` // another package-qualified field is declared BEFORE the GleeceController embed
}

type pField struct {
	Name     string `json:"name"` // "" = embedded
	Type     string `json:"type"`
	Tag      string `json:"tag,omitempty"`
	Doc      string `json:"doc,omitempty"`
	Embedded bool   `json:"embedded,omitempty"`
	Joined   bool   `json:"joined,omitempty"` // declared in the SAME field declaration as the previous field: `A, B T`
}

type pType struct {
	Kind            string      `json:"kind"` // struct | enum | alias
	Name            string      `json:"name"`
	Pkg             string      `json:"pkg"`
	File            string      `json:"file"`
	Doc             []string    `json:"doc,omitempty"`
	Fields          []pField    `json:"fields,omitempty"`
	Base            string      `json:"base,omitempty"`            // enum / alias underlying type
	Assign          bool        `json:"assign,omitempty"`          // `type A = string`
	Consts          [][2]string `json:"consts,omitempty"`          // enum: [name, literal]
	Raw             string      `json:"raw,omitempty"`             // further declarations printed verbatim after this one
	ConstsElsewhere int         `json:"constsElsewhere,omitempty"` // enum: this many trailing constants are declared in a sibling file of the package
	ConstDocs       []string    `json:"constDocs,omitempty"`       // enum: a doc comment line per constant ("" = none), parallel to Consts
	External        bool        `json:"external,omitempty"`        // declared by the standard library: known to the model, not printed
}

// pSite: ONE annotation line placed in the doc comment of one construct (C16: malformed JSON5 is reported wherever
// gleece reads comments, never silently dropped)
type pSite struct {
	Kind      string `json:"kind"` // field | type | const | controller | method
	Type      string `json:"type,omitempty"`
	Pkg       string `json:"pkg,omitempty"`
	Member    string `json:"member,omitempty"`
	Malformed bool   `json:"malformed"`
	Line      string `json:"line"`
}

type pConfig struct {
	Engine            string     `json:"engine"`
	OpenAPI           string     `json:"openapi"`
	Enforce           bool       `json:"enforce"`
	Schemes           []irScheme `json:"schemes"`
	DefaultSecurity   *irSecComp `json:"defaultSecurity"`
	PackageName       string     `json:"packageName"`
	Globs             []string   `json:"globs"`
	Raw               string     `json:"raw,omitempty"`                      // when set: the config file text, verbatim
	EnumValidator     bool       `json:"generateEnumValidator,omitempty"`    // experimentalConfig.generateEnumValidator
	TopLevelEnum      bool       `json:"validateTopLevelOnlyEnum,omitempty"` // experimentalConfig.validateTopLevelOnlyEnum
	ValidateResp      bool       `json:"validateResponsePayload,omitempty"`  // routesConfig.validateResponsePayload
	RoutesOut         string     `json:"routesOut,omitempty"`                // routesConfig.outputPath when it is not the default
	SpecOut           string     `json:"specOut,omitempty"`                  // specGeneratorConfig.outputPath when it is not the default
	AllowLoadFailures bool       `json:"allowPackageLoadFailures,omitempty"` // commonConfig.allowPackageLoadFailures, plus a file of package ctl that does not load
}

type pProject struct {
	Config      pConfig       `json:"config"`
	Controllers []pController `json:"controllers"`
	Types       []pType       `json:"types"`
	Engines     []string      `json:"engines"` // routers to render (default: the configured one)
	Indent      string        `json:"indent,omitempty"`
	Repeat      int           `json:"repeat,omitempty"`      // C19: how many times the analysis is repeated on ONE pipeline
	Determinism int           `json:"determinism,omitempty"` // C13: number of brand-new sessions whose bytes are compared
	Echo        bool          `json:"echo,omitempty"`        // rig: controller methods record their arguments (package rigrec)
	GroupParams bool          `json:"groupParams,omitempty"` // print consecutive same-typed parameters as one group: (a, b string, n int)
	RuntimeAlias bool `json:"runtimeAlias,omitempty"` // the controllers' files import the runtime package under another name (`gleece "…/runtime"`)
	Site        *pSite        `json:"site,omitempty"`
}

// ---- rendering

func renderAnnot(a pAnnot) string {
	if a.Raw != "" {
		return a.Raw
	}
	s := "// @" + a.Name
	if a.Value != "" || len(a.Props) > 0 {
		s += "(" + a.Value
		if len(a.Props) > 0 {
			keys := make([]string, 0, len(a.Props))
			for k := range a.Props {
				keys = append(keys, k)
			}
			sort.Strings(keys)
			parts := []string{}
			for _, k := range keys {
				b, _ := json.Marshal(a.Props[k])
				parts = append(parts, k+": "+string(b))
			}
			s += ", { " + strings.Join(parts, ", ") + " }"
		}
		s += ")"
	}
	if a.Desc != "" {
		s += " " + a.Desc
	}
	return s
}

func docLines(free []string, annots []pAnnot) []string {
	out := []string{}
	for _, f := range free {
		out = append(out, "// "+f)
	}
	for _, a := range annots {
		out = append(out, renderAnnot(a))
	}
	return out
}

const projModule = "vproj"

type fileBuf struct {
	pkg   string
	decls []string
}

func zeroReturn(results []string) string {
	if len(results) == 0 {
		return ""
	}
	parts := []string{}
	pre := []string{}
	for i, r := range results {
		if r == "error" {
			parts = append(parts, "nil")
			continue
		}
		pre = append(pre, fmt.Sprintf("var r%d %s", i, r))
		parts = append(parts, fmt.Sprintf("r%d", i))
	}
	return strings.Join(pre, "; ") + "\n\treturn " + strings.Join(parts, ", ")
}

// writeProject prints the project under dir and returns, per file, the rendered text (for range checks)
func writeProject(p pProject, dir string) (map[string]string, error) {
	files := map[string]*fileBuf{}
	get := func(pkg, file string) *fileBuf {
		k := pkg + "/" + file
		if files[k] == nil {
			files[k] = &fileBuf{pkg: pkg}
		}
		return files[k]
	}
	ind := p.Indent
	for _, t := range p.Types {
		if t.External {
			continue
		}
		fb := get(t.Pkg, t.File)
		var sb strings.Builder
		for _, d := range t.Doc {
			sb.WriteString("// " + d + "\n")
		}
		switch t.Kind {
		case "struct":
			sb.WriteString("type " + t.Name + " struct {\n")
			for fi, f := range t.Fields {
				if f.Joined {
					continue // printed with the field it is joined to
				}
				if f.Doc != "" {
					sb.WriteString("\t// " + f.Doc + "\n")
				}
				line := "\t"
				if f.Embedded || f.Name == "" {
					line += f.Type
				} else {
					names := f.Name
					for k := fi + 1; k < len(t.Fields) && t.Fields[k].Joined; k++ {
						names += ", " + t.Fields[k].Name
					}
					line += names + " " + f.Type
				}
				if f.Tag != "" {
					line += " `" + f.Tag + "`"
				}
				sb.WriteString(line + "\n")
			}
			sb.WriteString("}\n")
		case "enum":
			here := t.Consts
			if k := t.ConstsElsewhere; k > 0 && k < len(t.Consts) {
				here = t.Consts[:len(t.Consts)-k]
				var eb strings.Builder
				eb.WriteString("const (\n")
				for _, c := range t.Consts[len(t.Consts)-k:] {
					eb.WriteString("\t" + c[0] + " " + t.Name + " = " + c[1] + "\n")
				}
				eb.WriteString(")\n")
				ef := get(t.Pkg, "consts_"+strings.ToLower(t.Name)+".go")
				ef.decls = append(ef.decls, eb.String())
			}
			sb.WriteString("type " + t.Name + " " + t.Base + "\n\nconst (\n")
			for ci, c := range here {
				if ci < len(t.ConstDocs) && t.ConstDocs[ci] != "" {
					sb.WriteString("\t// " + t.ConstDocs[ci] + "\n")
				}
				sb.WriteString("\t" + c[0] + " " + t.Name + " = " + c[1] + "\n")
			}
			sb.WriteString(")\n")
		case "alias":
			if t.Assign {
				sb.WriteString("type " + t.Name + " = " + t.Base + "\n")
			} else {
				sb.WriteString("type " + t.Name + " " + t.Base + "\n")
			}
		}
		if t.Raw != "" {
			sb.WriteString("\n" + t.Raw)
		}
		fb.decls = append(fb.decls, sb.String())
	}
	for _, c := range p.Controllers {
		fb := get(c.Pkg, c.File)
		var sb strings.Builder
		for _, l := range docLines(c.Free, c.Annots) {
			sb.WriteString(ind + l + "\n")
		}
		if c.Grouped && !c.NoEmbed && len(c.Annots) == 0 && len(c.Free) == 0 {
			// a BARE group: no comment on the group, none on the controller, and a neighbour declared before it - what is
			// said about the controller (the missing-@Tag warning) concerns the controller's own spec, not the group
			sb.Reset()
			sb.WriteString(ind + "type (\n" + ind + "\t" + c.Name + "Neighbour struct {\n" + ind + "\t\tX int\n" + ind + "\t}\n" +
				ind + "\t" + c.Name + " struct {\n" + ind + "\t\truntime.GleeceController\n" + ind + "\t}\n" + ind + ")\n")
		} else if c.Grouped && !c.NoEmbed && len(c.Name)%2 == 0 && len(c.Methods)%2 == 1 {
			// the comment sits above `type (` and the only member is bare: the group's doc comment is the controller's
			var gb strings.Builder
			gb.WriteString(sb.String())
			gb.WriteString(ind + "type (\n" + ind + "\t" + c.Name + " struct {\n" + ind + "\t\truntime.GleeceController\n" + ind + "\t}\n" + ind + ")\n")
			sb.Reset()
			sb.WriteString(gb.String())
		} else if c.Grouped && !c.NoEmbed {
			// a documented group whose member carries its own doc comment (the member's comment is the one that counts)
			var gb strings.Builder
			gb.WriteString(ind + "// Declarations of the " + c.Name + " group\n" + ind + "type (\n")
			for _, l := range strings.Split(strings.TrimRight(sb.String(), "\n"), "\n") {
				gb.WriteString("\t" + l + "\n")
			}
			gb.WriteString(ind + "\t" + c.Name + " struct {\n" + ind + "\t\truntime.GleeceController\n" + ind + "\t}\n" + ind + ")\n")
			sb.Reset()
			sb.WriteString(gb.String())
		} else if c.NoEmbed {
			sb.WriteString(ind + "type " + c.Name + " struct {\n" + ind + "\tX int\n" + ind + "}\n")
		} else {
			extra := ""
			if c.FieldFirst {
				extra = ind + "\tstarted time.Time\n" // a controller is a controller wherever the embed stands
			}
			sb.WriteString(ind + "type " + c.Name + " struct {\n" + extra + ind + "\truntime.GleeceController\n" + ind + "}\n")
		}
		fb.decls = append(fb.decls, sb.String())
		for _, m := range c.Methods {
			mf := get(c.Pkg, m.File)
			var mb strings.Builder
			for _, l := range docLines(m.Free, m.Annots) {
				mb.WriteString(ind + l + "\n")
			}
			ps := []string{}
			for qi := 0; qi < len(m.Params); qi++ {
				q := m.Params[qi]
				if p.GroupParams {
					// (a, b, c T): one ast.Field with several names
					names := []string{q.Name}
					for qi+1 < len(m.Params) && m.Params[qi+1].Type == q.Type {
						qi++
						names = append(names, m.Params[qi].Name)
					}
					sep := ", "
					if (len(m.Name)+len(m.Params))%2 == 1 {
						// … spread over several source lines: the declaration's range spans lines (C18: start not after end,
						// inside the file, inside the declaration)
						sep = ",\n" + ind + "\t"
					}
					ps = append(ps, strings.Join(names, sep)+" "+q.Type)
					continue
				}
				ps = append(ps, q.Name+" "+q.Type)
			}
			res := ""
			switch len(m.Results) {
			case 0:
			case 1:
				res = " " + m.Results[0]
			default:
				res = " (" + strings.Join(m.Results, ", ") + ")"
			}
			pre := ""
			if p.Echo {
				args := []string{}
				for _, q := range m.Params {
					if q.Type == "context.Context" {
						args = append(args, `"ctx"`)
					} else {
						args = append(args, q.Name)
					}
				}
				pre = fmt.Sprintf("rigrec.Call(%q%s)\n\t", c.Name+"."+m.Name, func() string {
					if len(args) == 0 {
						return ""
					}
					return ", " + strings.Join(args, ", ")
				}())
			}
			recv, ret := recvText(c.Name, m.Recv), zeroReturn(m.Results)
			if p.Echo && m.SetStatus > 0 {
				recv = "(c *" + c.Name + ")"
				pre += fmt.Sprintf("c.SetStatus(runtime.HttpStatusCode(%d))\n\t", m.SetStatus)
			}
			if p.Echo && m.Fail {
				if i := strings.LastIndex(ret, "nil"); i >= 0 {
					ret = ret[:i] + `rigrec.Failure("operation failed")` + ret[i+3:]
				}
			}
			mb.WriteString(fmt.Sprintf("%sfunc %s %s(%s)%s {\n\t%s%s\n}\n", ind, recv, m.Name, strings.Join(ps, ", "), res, pre, ret))
			mf.decls = append(mf.decls, mb.String())
		}
	}
	if p.Config.AllowLoadFailures {
		// a file of the controllers' package that imports code which does not exist yet (the documented use of the
		// flag: the generated routes package before the first generation)
		wf := get("ctl", "wiring.go")
		wf.decls = append(wf.decls, "import _ \"vproj/dist/notyet\"\n")
	}
	texts := map[string]string{}
	for k, fb := range files {
		body := strings.Join(fb.decls, "\n")
		imports := []string{}
		if strings.Contains(body, "runtime.") {
			if p.RuntimeAlias {
				// natural when the file also needs Go's own `runtime`: the embedded type is `gleece.GleeceController`
				body = strings.ReplaceAll(body, "runtime.", "gleece.")
				imports = append(imports, `gleece "github.com/gopher-fleece/runtime"`)
			} else {
				imports = append(imports, `"github.com/gopher-fleece/runtime"`)
			}
		}
		if strings.Contains(body, "context.") {
			imports = append(imports, `"context"`)
		}
		if strings.Contains(body, "rigrec.") {
			imports = append(imports, `"`+projModule+`/rigrec"`)
		}
		if regexp.MustCompile(`(^|[^A-Za-z_])time\.`).MatchString(body) {
			imports = append(imports, `"time"`)
		}
		if regexp.MustCompile(`(^|[^A-Za-z_])fmt\.`).MatchString(body) {
			imports = append(imports, `"fmt"`)
		}
		for _, other := range []string{"ctl", "other", "models", "v"} {
			if other != fb.pkg && regexp.MustCompile(`(^|[^A-Za-z0-9_."])`+other+`\.[A-Z]`).MatchString(body) {
				imports = append(imports, `"`+projModule+"/"+other+`"`)
			}
		}
		src := "package " + fb.pkg + "\n\n"
		if len(imports) > 0 {
			src += "import (\n\t" + strings.Join(imports, "\n\t") + "\n)\n\n"
		}
		src += body
		full := filepath.Join(dir, k)
		if err := os.MkdirAll(filepath.Dir(full), 0o755); err != nil {
			return nil, err
		}
		if err := os.WriteFile(full, []byte(src), 0o644); err != nil {
			return nil, err
		}
		texts[k] = src
	}
	// auth package
	os.MkdirAll(filepath.Join(dir, "auth"), 0o755)
	os.WriteFile(filepath.Join(dir, "auth", "auth.go"), []byte(`package auth

import (
	"context"

	"github.com/gin-gonic/gin"
	"github.com/gopher-fleece/runtime"
)

func GleeceRequestAuthorization(ctx context.Context, ginCtx *gin.Context, check runtime.SecurityCheck) (context.Context, *runtime.SecurityError) {
	return ctx, nil
}
`), 0o644)
	return texts, nil
}

func orDefault(s, d string) string {
	if s != "" {
		return s
	}
	return d
}

func configText(c pConfig) string {
	if c.Raw != "" {
		return c.Raw
	}
	globs := c.Globs
	if len(globs) == 0 {
		globs = []string{"./ctl/*.go", "./other/*.go"}
		if (len(c.Engine)+len(c.Schemes))%2 == 1 {
			// the same selection, spelled with doublestar's alternation and a `**` that stands for no directory
			globs = []string{"./{ctl,other}/**/*.go"}
		}
	}
	schemes := []map[string]any{}
	for _, s := range c.Schemes {
		m := map[string]any{"description": s.Description, "name": s.Name, "type": s.Type}
		if s.In != "" {
			m["in"] = s.In
		}
		if s.FieldName != "" {
			m["fieldName"] = s.FieldName
		}
		if s.Scheme != "" {
			m["scheme"] = s.Scheme
		}
		schemes = append(schemes, m)
	}
	oa := map[string]any{
		"openapi": c.OpenAPI,
		"info":    map[string]any{"title": "T", "version": "1.0.0", "description": "d"},
		"baseUrl": "https://api.example.com", "securitySchemes": schemes,
		"specGeneratorConfig": map[string]any{"outputPath": orDefault(c.SpecOut, "./dist/openapi.json")},
	}
	if c.DefaultSecurity != nil {
		sc := c.DefaultSecurity.Scopes
		if sc == nil {
			sc = []string{}
		}
		oa["defaultSecurity"] = map[string]any{"name": c.DefaultSecurity.Name, "scopes": sc}
	}
	cfg := map[string]any{
		"commonConfig": map[string]any{"controllerGlobs": globs, "allowPackageLoadFailures": c.AllowLoadFailures},
		"routesConfig": map[string]any{"engine": c.Engine, "outputPath": orDefault(c.RoutesOut, "./dist/routes/gleece.go"), "outputFilePerms": "0644", "packageName": c.PackageName,
			"skipGenerateDateComment": true,
			"authorizationConfig":     map[string]any{"authFileFullPackageName": projModule + "/auth", "enforceSecurityOnAllRoutes": c.Enforce}},
		"openapiGeneratorConfig": oa,
	}
	if c.EnumValidator || c.TopLevelEnum {
		cfg["experimentalConfig"] = map[string]any{"generateEnumValidator": c.EnumValidator, "validateTopLevelOnlyEnum": c.TopLevelEnum}
	}
	if c.ValidateResp {
		cfg["routesConfig"].(map[string]any)["validateResponsePayload"] = true
	}
	b, _ := json.MarshalIndent(cfg, "", "  ")
	return string(b)
}

var goModText string

func projGoMod() string {
	if goModText != "" {
		return goModText
	}
	b, err := os.ReadFile(filepath.Join(repoRoot(), "go.mod"))
	if err != nil {
		panic(err)
	}
	s := string(b)
	i := strings.Index(s, "require (")
	goModText = "module " + projModule + "\n\ngo 1.24.7\n\n" + s[i:]
	return goModText
}

// ---- running the real pipeline

type pDiag struct {
	Controller string `json:"controller"`
	Entity     string `json:"entity"` // "" = the controller itself, else the receiver name
	Code       string `json:"code"`
	Severity   int    `json:"severity"`
	File       string `json:"file"` // relative to the project root
	Range      [4]int `json:"range"`
	Covered    string `json:"covered"` // source text covered by the range (single-line ranges)
	Message    string `json:"_message"`
	InFile     bool   `json:"rangeInFile"`
}

type pSpan struct {
	Controller string `json:"controller"`
	Entity     string `json:"entity"`
	File       string `json:"file"`
	Start      int    `json:"start"` // first line of the doc comment (0-based)
	End        int    `json:"end"`   // last line of the declaration
}

// entitySpans locates, in the printed sources, the doc comment + declaration of every controller and method
func entitySpans(p pProject, texts map[string]string) []pSpan {
	out := []pSpan{}
	find := func(file, declPrefix string) (int, int, bool) {
		src, ok := texts[file]
		if !ok {
			return 0, 0, false
		}
		lines := strings.Split(src, "\n")
		for i, l := range lines {
			if strings.HasPrefix(strings.TrimLeft(l, " \t"), declPrefix) {
				start := i
				for start > 0 && strings.HasPrefix(strings.TrimLeft(lines[start-1], " \t"), "//") {
					start--
				}
				end := i
				for end < len(lines)-1 && strings.TrimLeft(lines[end], " \t") != "}" {
					end++
				}
				return start, end, true
			}
		}
		return 0, 0, false
	}
	for _, c := range p.Controllers {
		if a, b, ok := find(c.Pkg+"/"+c.File, "type "+c.Name+" struct"); ok {
			out = append(out, pSpan{c.Name, "", c.Pkg + "/" + c.File, a, b})
		} else if a, b, ok := find(c.Pkg+"/"+c.File, c.Name+" struct"); ok {
			// inside `type ( … )`: the group's own doc comment belongs to the entity too (gleece reads it when the
			// spec itself has none)
			if ga, _, gok := find(c.Pkg+"/"+c.File, "// Declarations of the "+c.Name+" group"); gok && ga < a {
				a = ga
			}
			// a bare member right under `type (`: the comment above the group is the member's
			if src, ok := texts[c.Pkg+"/"+c.File]; ok {
				lines := strings.Split(src, "\n")
				if a > 0 && a < len(lines) && strings.TrimSpace(lines[a-1]) == "type (" {
					k := a - 1
					for k > 0 && strings.HasPrefix(strings.TrimLeft(lines[k-1], " \t"), "//") {
						k--
					}
					a = k
				}
			}
			out = append(out, pSpan{c.Name, "", c.Pkg + "/" + c.File, a, b})
		}
		for _, m := range c.Methods {
			if a, b, ok := find(c.Pkg+"/"+m.File, "func "+recvText(c.Name, m.Recv)+" "+m.Name+"("); ok {
				out = append(out, pSpan{c.Name, m.Name, c.Pkg + "/" + m.File, a, b})
			}
		}
	}
	return out
}

type pDeterm struct {
	Runs           int    `json:"runs"`
	RoutesDistinct int    `json:"routesDistinct"` // distinct byte contents of the routes file over the runs
	Spec30Distinct int    `json:"spec30Distinct"`
	Spec31Distinct int    `json:"spec31Distinct"`
	SpecPerEngine  int    `json:"specDistinctAcrossEngines"` // distinct spec bytes when only routesConfig.engine changes
	DateOnly       bool   `json:"dateOnlyDifference"`        // with the date comment enabled, two runs differ at most in that line
	FirstErr       string `json:"_firstErr,omitempty"`       // the first run that failed (diagnosis only)
}

// interferenceRun: a run of the same engine whose configuration names template extension files
func interferenceRun(dir string, engine string) error {
	cfg, err := cmd.LoadGleeceConfig("gleece.config.json")
	if err != nil {
		return err
	}
	ext := filepath.Join(dir, "dist", "interfere", "ext.hbs")
	os.MkdirAll(filepath.Dir(ext), 0o755)
	if err := os.WriteFile(ext, []byte("// INTERFERENCE: text of ANOTHER run's extension file\n"), 0o644); err != nil {
		return err
	}
	cfg.RoutesConfig.Engine = definitions.RoutingEngineType(engine)
	cfg.RoutesConfig.SkipGenerateDateComment = true
	cfg.RoutesConfig.OutputPath = filepath.Join(dir, "dist", "interfere", "gleece.go")
	cfg.RoutesConfig.TemplateExtensions = map[string]string{"RegisterRoutesExtension": ext, "ImportsExtension": ext, "FunctionDeclarationsExtension": ext}
	pipe, err := pipeline.NewGleecePipeline(cfg)
	if err != nil {
		return err
	}
	meta, err := pipe.Run()
	if err != nil {
		return err
	}
	return routes.GenerateRoutes(cfg, meta)
}

// fullRun: a brand-new session (config load, pipeline, routes, spec) returning the bytes it produced
func fullRun(dir string, engine string, version string, skipDate bool) (routesBytes string, specBytes string, err error) {
	cfg, err := cmd.LoadGleeceConfig("gleece.config.json")
	if err != nil {
		return "", "", err
	}
	cfg.RoutesConfig.Engine = definitions.RoutingEngineType(engine)
	cfg.OpenAPIGeneratorConfig.OpenAPI = version
	cfg.RoutesConfig.SkipGenerateDateComment = skipDate
	outPath := filepath.Join(dir, "dist", "det", "gleece.go")
	cfg.RoutesConfig.OutputPath = outPath
	pipe, err := pipeline.NewGleecePipeline(cfg)
	if err != nil {
		return "", "", err
	}
	meta, err := pipe.Run()
	if err != nil {
		return "", "", err
	}
	if err := routes.GenerateRoutes(cfg, meta); err != nil {
		return "", "", err
	}
	rb, err := os.ReadFile(outPath)
	if err != nil {
		return "", "", err
	}
	sb, err := swagen.GenerateSpec(&cfg.OpenAPIGeneratorConfig, meta.Flat, &meta.Models, meta.PlainErrorPresent)
	if err != nil {
		return string(rb), "", err
	}
	return string(rb), string(sb), nil
}

func firstDiff(a, b string) string {
	i := 0
	for i < len(a) && i < len(b) && a[i] == b[i] {
		i++
	}
	lo := i - 60
	if lo < 0 {
		lo = 0
	}
	cut := func(s string) string {
		hi := i + 60
		if hi > len(s) {
			hi = len(s)
		}
		if lo > len(s) {
			return ""
		}
		return s[lo:hi]
	}
	return cut(a) + " => " + cut(b)
}

type projOut struct {
	MetaChanged string   `json:"metaChanged,omitempty"`
	Spans       []pSpan  `json:"_spans,omitempty"`
	ConfigErr   string   `json:"configErr,omitempty"`
	SetupErr    string   `json:"setupErr,omitempty"`
	GraphErr    string   `json:"graphErr,omitempty"`
	ValErr      string   `json:"validateErr,omitempty"`
	Diags       []pDiag  `json:"diags"`
	RunErr      string   `json:"runErr,omitempty"`
	ErrText     string   `json:"_errText,omitempty"`
	DupBlocks   int      `json:"dupEntityBlocks"` // entity blocks repeated in the error text
	IR          *irDoc   `json:"ir,omitempty"`
	Out         *irOut   `json:"out,omitempty"`
	Repeats     []string `json:"repeats,omitempty"`     // C19: "same"/"different" canonical IR after each repeated analysis on ONE pipeline
	Counts      []int    `json:"graphCounts,omitempty"` // number of graph nodes after the first and after each repeated analysis
	Fresh       string   `json:"fresh,omitempty"`       // brand-new pipeline vs the first analysis
	Misfiled    []string `json:"misfiled,omitempty"`    // declared types / controllers whose graph node is keyed under ANOTHER file than the one declaring them (a cached file version that is not the file's own)
	Determ      *pDeterm `json:"determinism,omitempty"` // C13
}

func flattenDiags(root string, texts map[string]string, ctrl string, d diagnostics.EntityDiagnostic, isCtrl bool, out *[]pDiag) {
	entity := ""
	if !isCtrl {
		entity = d.EntityName
	}
	for _, rd := range d.Diagnostics {
		rel := rd.FilePath
		if r, err := filepath.Rel(root, rd.FilePath); err == nil {
			rel = r
		}
		pd := pDiag{Controller: ctrl, Entity: entity, Code: string(rd.Code), Severity: int(rd.Severity), File: rel, Message: rd.Message,
			Range: [4]int{rd.Range.StartLine, rd.Range.StartCol, rd.Range.EndLine, rd.Range.EndCol}}
		if src, ok := texts[filepath.ToSlash(rel)]; ok {
			lines := strings.Split(src, "\n")
			if rd.Range.StartLine >= 0 && rd.Range.EndLine < len(lines) && rd.Range.StartLine <= rd.Range.EndLine {
				pd.InFile = true
				if rd.Range.StartLine == rd.Range.EndLine {
					rs := []rune(lines[rd.Range.StartLine])
					// columns as gleece computes them: byte column of the comment start + rune offsets
					if rd.Range.StartCol >= 0 && rd.Range.EndCol <= len(rs)+8 && rd.Range.StartCol <= rd.Range.EndCol {
						a, b := rd.Range.StartCol, rd.Range.EndCol
						if b > len(rs) {
							b = len(rs)
						}
						if a <= b {
							pd.Covered = string(rs[a:b])
						}
					}
				}
			}
		}
		*out = append(*out, pd)
	}
	for _, ch := range d.Children {
		flattenDiags(root, texts, ctrl, *ch, false, out)
	}
}

func implProj(in json.RawMessage) (any, error) {
	var p pProject
	if err := json.Unmarshal(in, &p); err != nil {
		return nil, err
	}
	return runProject(p), nil
}

func runProject(p pProject) (out projOut) {
	out.Diags = []pDiag{}
	dir, err := os.MkdirTemp(scratch(), "proj-")
	if err != nil {
		out.SetupErr = err.Error()
		return
	}
	dir, _ = filepath.EvalSymlinks(dir)
	defer func() {
		if keep := os.Getenv("VH_KEEP_PROJ"); keep != "" {
			exec.Command("cp", "-r", dir, keep).Run()
		}
		os.RemoveAll(dir)
	}()
	texts, err := writeProject(p, dir)
	if err != nil {
		out.SetupErr = err.Error()
		return
	}
	out.Spans = entitySpans(p, texts)
	os.WriteFile(filepath.Join(dir, "go.mod"), []byte(projGoMod()), 0o644)
	sum, _ := os.ReadFile(filepath.Join(repoRoot(), "go.sum"))
	os.WriteFile(filepath.Join(dir, "go.sum"), sum, 0o644)
	os.WriteFile(filepath.Join(dir, "gleece.config.json"), []byte(configText(p.Config)), 0o644)
	cwd, _ := os.Getwd()
	if err := os.Chdir(dir); err != nil {
		out.SetupErr = err.Error()
		return
	}
	defer os.Chdir(cwd)
	defer func() {
		if r := recover(); r != nil {
			out.RunErr = fmt.Sprintf("PANIC: %v | %s", r, panicSite())
		}
	}()
	cfg, err := cmd.LoadGleeceConfig("gleece.config.json")
	if err != nil {
		out.ConfigErr = err.Error()
		return
	}
	pipe, err := pipeline.NewGleecePipeline(cfg)
	if err != nil {
		out.SetupErr = "pipeline: " + firstLines(err.Error(), 3)
		return
	}
	if err := pipe.GenerateGraph(); err != nil {
		out.GraphErr = firstLines(err.Error(), 3)
		return
	}
	diags, err := pipe.Validate()
	if err != nil {
		out.ValErr = firstLines(err.Error(), 3)
	}
	sort.SliceStable(diags, func(i, j int) bool { return diags[i].EntityName < diags[j].EntityName })
	for _, d := range diags {
		flattenDiags(dir, texts, d.EntityName, d, true, &out.Diags)
	}
	errEntities := diagnostics.GetDiagnosticsWithSeverity(diags, []diagnostics.DiagnosticSeverity{diagnostics.DiagnosticError})
	if len(errEntities) > 0 {
		txt := diagnostics.DiagnosticsToError(errEntities).Error()
		out.ErrText = txt
		seen := map[string]int{}
		for _, e := range errEntities {
			seen[e.EntityKind+" "+e.EntityName]++
		}
		for _, n := range seen {
			if n > 1 {
				out.DupBlocks += n - 1
			}
		}
		out.RunErr = "error-diagnostics"
		return
	}
	if out.ValErr != "" {
		out.RunErr = "validate-error"
		return
	}
	meta, err := pipe.GenerateIntermediate()
	if err != nil {
		out.RunErr = "intermediate: " + firstLines(err.Error(), 3)
		return
	}
	ir := fromDefinitions(cfg, meta, p.Engines)
	out.IR = &ir
	// C19: repeated analysis on the same pipeline
	// nodes AND edges: every node of every kind, plus the outgoing edges each of them has (a re-analysis must neither
	// grow nor shrink the graph: a controller keeps its routes, a struct its fields)
	countNodes := func() int {
		g := pipe.Graph()
		nodes := append(g.FindByKind(allNodeKinds...), g.FindByKind(common.SymKindParameter, common.SymKindReturnType, common.SymKindComposite, common.SymKindTypeParam)...)
		n := len(nodes)
		for _, nd := range nodes {
			n += 1000 * len(g.Children(nd, nil))
		}
		return n
	}
	if p.Repeat > 0 {
		out.Counts = append(out.Counts, countNodes())
		// cache transparency: the file version a node is keyed by comes from the metadata cache; computed afresh it is the
		// version of the file that DECLARES the symbol
		declared := map[string]string{}
		for _, t := range p.Types {
			if !t.External {
				n := t.Name
				if i := strings.Index(n, "["); i >= 0 {
					n = n[:i]
				}
				declared[t.Pkg+"."+n] = t.Pkg + "/" + t.File
			}
		}
		for _, c := range p.Controllers {
			declared[c.Pkg+"."+c.Name] = c.Pkg + "/" + c.File
		}
		for _, nd := range pipe.Graph().FindByKind(common.SymKindStruct, common.SymKindEnum, common.SymKindAlias, common.SymKindController) {
			fp := filepath.ToSlash(nd.Id.FilePath)
			if fp == "" || nd.Id.IsUniverse || nd.Id.IsBuiltIn {
				continue
			}
			parts := strings.Split(fp, "/")
			if len(parts) < 2 {
				continue
			}
			rel := parts[len(parts)-2] + "/" + parts[len(parts)-1]
			if want, ok := declared[parts[len(parts)-2]+"."+nd.Id.Name]; ok && want != rel {
				// the same name may be declared in two files of one package only once: a mismatch is a wrong key
				out.Misfiled = append(out.Misfiled, nd.Id.Name+": keyed under "+rel+", declared in "+want)
			}
		}
		sort.Strings(out.Misfiled)
	}
	for i := 0; i < p.Repeat; i++ {
		if err := pipe.GenerateGraph(); err != nil {
			out.Repeats = append(out.Repeats, "graph-error: "+firstLines(err.Error(), 2))
			continue
		}
		if _, err := pipe.Validate(); err != nil {
			out.Repeats = append(out.Repeats, "validate-error")
			continue
		}
		m2, err := pipe.GenerateIntermediate()
		if err != nil {
			out.Repeats = append(out.Repeats, "intermediate-error: "+firstLines(err.Error(), 2))
			continue
		}
		ir2 := fromDefinitions(cfg, m2, p.Engines)
		b1, _ := json.Marshal(canonIR(ir))
		b2, _ := json.Marshal(canonIR(ir2))
		if string(b1) == string(b2) {
			out.Repeats = append(out.Repeats, "same")
		} else {
			out.Repeats = append(out.Repeats, "different")
		}
		out.Counts = append(out.Counts, countNodes())
	}
	if p.Repeat > 0 {
		// another legal history of a long-lived session: questions asked BEFORE the first analysis (they answer with
		// nothing), then the analysis - which must answer like a session that was never asked anything
		if p4, err := pipeline.NewGleecePipeline(cfg); err == nil {
			func() {
				defer func() {
					if x := recover(); x != nil {
						out.Repeats = append(out.Repeats, fmt.Sprintf("early-calls-panic: %v", x))
					}
				}()
				p4.Validate()
				p4.GenerateIntermediate()
				if m4, err := p4.Run(); err != nil {
					out.Repeats = append(out.Repeats, "early-calls-error: "+firstLines(err.Error(), 2))
				} else {
					b1, _ := json.Marshal(canonIR(ir))
					b4, _ := json.Marshal(canonIR(fromDefinitions(cfg, m4, p.Engines)))
					if string(b1) == string(b4) {
						out.Repeats = append(out.Repeats, "same")
					} else {
						out.Repeats = append(out.Repeats, "different")
					}
				}
			}()
		}
		// a brand-new session on the same, unchanged project
		if p2, err := pipeline.NewGleecePipeline(cfg); err != nil {
			out.Fresh = "error: " + firstLines(err.Error(), 2)
		} else if m3, err := p2.Run(); err != nil {
			out.Fresh = "error: " + firstLines(err.Error(), 2)
		} else {
			b1, _ := json.Marshal(canonIR(ir))
			b3, _ := json.Marshal(canonIR(fromDefinitions(cfg, m3, p.Engines)))
			if string(b1) == string(b3) {
				out.Fresh = "same"
			} else {
				out.Fresh = "different"
				if os.Getenv("VH_KEEP") != "" {
					os.WriteFile(filepath.Join(os.Getenv("VH_KEEP"), "ir1.json"), b1, 0o644)
					os.WriteFile(filepath.Join(os.Getenv("VH_KEEP"), "ir3.json"), b3, 0o644)
				}
			}
		}
	}
	// artifacts: both spec versions and the requested routers, from the REAL metadata
	res := irOut{Routes: map[string]routesOut{}}
	metaBefore, _ := json.Marshal(canonIR(fromDefinitions(cfg, meta, p.Engines)))
	for _, ver := range []string{"3.0.0", "3.1.0"} {
		c2 := *cfg
		c2.OpenAPIGeneratorConfig.OpenAPI = ver
		m2 := meta
		models := meta.Models
		models.Structs = append([]definitions.StructMetadata{}, meta.Models.Structs...)
		so := func() (r irSpecOut) {
			defer func() {
				if x := recover(); x != nil {
					r = irSpecOut{Err: fmt.Sprintf("PANIC: %v | %s", x, panicSite())}
				}
			}()
			b, err := swagen.GenerateSpec(&c2.OpenAPIGeneratorConfig, m2.Flat, &models, m2.PlainErrorPresent)
			if err != nil {
				return irSpecOut{Err: classifySpecErr(err.Error())}
			}
			return irSpecOut{Doc: b}
		}()
		if ver == "3.0.0" {
			res.Spec30 = so
		} else {
			res.Spec31 = so
		}
	}
	// the spec generators are handed the metadata the routes generator reads next (cmd.GenerateSpecAndRoutes):
	// they must leave it as they found it
	if metaAfter, _ := json.Marshal(canonIR(fromDefinitions(cfg, meta, p.Engines))); string(metaAfter) != string(metaBefore) {
		out.MetaChanged = "spec generation changed the metadata: " + firstDiff(string(metaBefore), string(metaAfter))
	}
	engines := p.Engines
	if len(engines) == 0 {
		engines = []string{string(cfg.RoutesConfig.Engine)}
	}
	for _, e := range engines {
		c2 := *cfg
		c2.RoutesConfig.Engine = definitions.RoutingEngineType(e)
		outPath := filepath.Join(dir, "dist", "routes_"+e, "gleece.go")
		c2.RoutesConfig.OutputPath = outPath
		ro := func() (r routesOut) {
			defer func() {
				if x := recover(); x != nil {
					r = routesOut{Err: fmt.Sprintf("PANIC: %v", x)}
				}
			}()
			if err := routes.GenerateRoutes(&c2, meta); err != nil {
				return routesOut{Err: "error: " + err.Error()}
			}
			b, err := os.ReadFile(outPath)
			if err != nil {
				return routesOut{Err: "no file written"}
			}
			if keep := os.Getenv("VH_KEEP"); keep != "" {
				os.WriteFile(filepath.Join(keep, "proj_routes_"+e+".go.txt"), b, 0o644)
			}
			return extractRoutes(e, string(b))
		}()
		res.Routes[e] = ro
	}
	out.Out = &res
	if k := p.Determinism; k > 0 && res.Spec30.Err == "" {
		d := pDeterm{Runs: k}
		rset, s30, s31 := map[string]bool{}, map[string]bool{}, map[string]bool{}
		eng := string(cfg.RoutesConfig.Engine)
		for i := 0; i < k; i++ {
			rb, sb, err := fullRun(dir, eng, "3.0.0", true)
			if err != nil {
				rset["error:"+firstLines(err.Error(), 1)] = true
				if d.FirstErr == "" {
					d.FirstErr = firstLines(err.Error(), 3)
				}
				continue
			}
			rset[rb], s30[sb] = true, true
			if _, sb31, err := fullRun(dir, eng, "3.1.0", true); err == nil {
				s31[sb31] = true
			}
		}
		// another project's generation in the same process (here: the same sources with a template extension
		// file) must leave no trace in the next run's output
		if err := interferenceRun(dir, eng); err == nil {
			if rb, _, err := fullRun(dir, eng, "3.0.0", true); err == nil {
				rset[rb] = true
			}
		}
		// what is ALREADY at the output path must not matter: a stale file of exactly the same size is overwritten
		if good, _, err := fullRun(dir, eng, "3.0.0", true); err == nil && len(good) > 8 {
			stale := []byte(good)
			for i := len(stale) - 2; i > 0; i-- {
				if stale[i] >= 'a' && stale[i] <= 'y' {
					stale[i]++ // same length, another content
					break
				}
			}
			os.WriteFile(filepath.Join(dir, "dist", "det", "gleece.go"), stale, 0o644)
			if rb, _, err := fullRun(dir, eng, "3.0.0", true); err == nil {
				rset[rb] = true
			}
		}
		// neither must the wall clock's zone / date (the date comment is switched off): two runs 26 hours apart
		oldLocal := time.Local
		for _, off := range []int{14 * 3600, -12 * 3600} {
			time.Local = time.FixedZone("rig", off)
			if rb, _, err := fullRun(dir, eng, "3.0.0", true); err == nil {
				rset[rb] = true
			}
		}
		time.Local = oldLocal
		d.RoutesDistinct, d.Spec30Distinct, d.Spec31Distinct = len(rset), len(s30), len(s31)
		perEngine := map[string]bool{}
		for _, e := range []string{"gin", "echo", "mux", "chi", "fiber"} {
			if _, sb, err := fullRun(dir, e, "3.0.0", true); err == nil {
				perEngine[sb] = true
			}
		}
		d.SpecPerEngine = len(perEngine)
		// with the date comment on, the only permitted difference is that line
		r1, _, e1 := fullRun(dir, eng, "3.0.0", false)
		r2, _, e2 := fullRun(dir, eng, "3.0.0", true)
		if e1 == nil && e2 == nil {
			// drop the date line and blank lines (the header keeps an empty line in its place)
			strip := func(t string) []string {
				o := []string{}
				for _, l := range strings.Split(t, "\n") {
					if strings.TrimSpace(l) == "" || strings.HasPrefix(l, "Generated Date:") {
						continue
					}
					o = append(o, l)
				}
				return o
			}
			l1, l2 := strip(r1), strip(r2)
			diff := 0
			if len(l1) == len(l2) {
				for i := range l1 {
					if l1[i] != l2[i] {
						diff += 100
					}
				}
			} else {
				diff = 1000
			}
			if !strings.Contains(r1, "Generated Date:") {
				diff += 500
			}
			d.DateOnly = diff <= 1
		}
		out.Determ = &d
	}
	return
}

// fromDefinitions maps the REAL flattened metadata back into the shared IR JSON
func fromDefinitions(cfg *definitions.GleeceConfig, meta pipeline.GleeceFlattenedMetadata, engines []string) irDoc {
	secOf := func(s []definitions.RouteSecurity) [][]irSecComp {
		out := [][]irSecComp{}
		for _, l := range s {
			comps := []irSecComp{}
			for _, c := range l.SecurityAnnotation {
				sc := c.Scopes
				if sc == nil {
					sc = []string{}
				}
				comps = append(comps, irSecComp{Name: c.SchemaName, Scopes: sc})
			}
			out = append(out, comps)
		}
		return out
	}
	typeOf := func(t definitions.TypeMetadata) irType {
		it := irType{Name: t.Name, PkgPath: t.PkgPath, Alias: t.DefaultPackageAlias, IsUniverse: t.IsUniverseType, IsByAddress: t.IsByAddress, SymbolKind: string(t.SymbolKind)}
		if t.AliasMetadata != nil {
			it.AliasType = t.AliasMetadata.AliasType
			it.AliasValues = t.AliasMetadata.Values
		}
		return it
	}
	d := irDoc{Engines: engines, Imports: meta.Imports, PlainError: meta.PlainErrorPresent, Controllers: []irController{}, Structs: []irStruct{}, Enums: []irEnum{}, Aliases: []irAlias{}}
	oc := cfg.OpenAPIGeneratorConfig
	d.Config = irConfig{Title: oc.Info.Title, Version: oc.Info.Version, InfoDescription: oc.Info.Description, BaseUrl: oc.BaseURL,
		Enforce: cfg.RoutesConfig.AuthorizationConfig.EnforceSecurityOnAllRoutes, PackageName: cfg.RoutesConfig.PackageName,
		ValidateResp: cfg.RoutesConfig.ValidateResponsePayload, TopLevelEnum: cfg.ExperimentalConfig.ValidateTopLevelOnlyEnum, EnumValidator: cfg.ExperimentalConfig.GenerateEnumValidator}
	for _, s := range oc.SecuritySchemes {
		d.Config.Schemes = append(d.Config.Schemes, irScheme{Name: s.SecurityName, Type: string(s.Type), In: string(s.In), FieldName: s.FieldName, Description: s.Description, Scheme: string(s.Scheme)})
	}
	if oc.DefaultRouteSecurity != nil {
		sc := oc.DefaultRouteSecurity.Scopes
		if sc == nil {
			sc = []string{}
		}
		d.Config.DefaultSecurity = &irSecComp{Name: oc.DefaultRouteSecurity.SchemaName, Scopes: sc}
	}
	for _, c := range meta.Flat {
		ic := irController{Name: c.Name, PkgPath: c.PkgPath, Tag: c.Tag, Description: c.Description, Path: c.RestMetadata.Path, Security: secOf(c.Security), Routes: []irRoute{}}
		for _, r := range c.Routes {
			ir := irRoute{OpId: r.OperationId, Verb: string(r.HttpVerb), Hidden: r.Hiding.Type == definitions.HideMethodAlways, Deprecated: r.Deprecation.Deprecated,
				Description: r.Description, Path: r.RestMetadata.Path, HasReturnValue: r.HasReturnValue, RespDescription: r.ResponseDescription,
				SuccessCode: uint(r.ResponseSuccessCode), Security: secOf(r.Security), Params: []irParam{}, ErrorResponses: []irErrResp{}}
			for _, p := range r.FuncParams {
				ir.Params = append(ir.Params, irParam{Name: p.Name, Ordinal: p.Ordinal, IsContext: p.IsContext, PassedIn: string(p.PassedIn), NameInSchema: p.NameInSchema,
					Description: p.Description, Validator: p.Validator, Deprecated: p.Deprecation.Deprecated, Serial: p.UniqueImportSerial, Type: typeOf(p.TypeMeta)})
			}
			for _, t := range r.Responses {
				ir.Responses = append(ir.Responses, typeOf(t.TypeMetadata))
				ir.RespSerials = append(ir.RespSerials, t.UniqueImportSerial)
			}
			for _, e := range r.ErrorResponses {
				ir.ErrorResponses = append(ir.ErrorResponses, irErrResp{Code: uint(e.HttpStatusCode), Description: e.Description})
			}
			ic.Routes = append(ic.Routes, ir)
		}
		d.Controllers = append(d.Controllers, ic)
	}
	for _, s := range meta.Models.Structs {
		is := irStruct{Name: s.Name, PkgPath: s.PkgPath, Description: s.Description, Deprecated: s.Deprecation.Deprecated, Fields: []irField{}}
		for _, f := range s.Fields {
			is.Fields = append(is.Fields, irField{Name: f.Name, Type: f.Type, Description: f.Description, Tag: f.Tag, IsEmbedded: f.IsEmbedded, Deprecated: f.Deprecation != nil && f.Deprecation.Deprecated})
		}
		d.Structs = append(d.Structs, is)
	}
	for _, e := range meta.Models.Enums {
		d.Enums = append(d.Enums, irEnum{Name: e.Name, PkgPath: e.PkgPath, Description: e.Description, Values: e.Values, Type: e.Type, Deprecated: e.Deprecation.Deprecated})
	}
	for _, a := range meta.Models.Aliases {
		d.Aliases = append(d.Aliases, irAlias{Name: a.Name, PkgPath: a.PkgPath, Type: a.Type, Description: a.Description, Deprecated: a.Deprecation.Deprecated})
	}
	return d
}

// canonIR sorts everything that came out of a set (import lists) so that two analyses can be compared
func canonIR(d irDoc) irDoc {
	imp := map[string][]string{}
	for k, v := range d.Imports {
		c := append([]string{}, v...)
		sort.Strings(c)
		imp[k] = c
	}
	d.Imports = imp
	// getModels sorts structs and enums but hands aliases out in graph (map) order; no emitter depends on
	// that order (components are a map), so it is not part of the observable metadata
	al := append([]irAlias{}, d.Aliases...)
	sort.Slice(al, func(i, j int) bool {
		if al[i].PkgPath != al[j].PkgPath {
			return al[i].PkgPath < al[j].PkgPath
		}
		return al[i].Name < al[j].Name
	})
	d.Aliases = al
	return d
}

func init() {
	impls["proj"] = implProj
}
