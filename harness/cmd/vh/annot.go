package main

import (
	"reflect"
	"encoding/json"
	"fmt"
	"go/ast"
	"go/parser"
	"go/token"
	"strings"
	"unicode/utf8"

	"verifharness/rng"

	"github.com/gopher-fleece/gleece/v2/core/annotations"
	"github.com/gopher-fleece/gleece/v2/gast"
	"github.com/titanous/json5"
)

// ---- mode "annot" (C16, ranges for C18): a comment block is printed as the doc comment of a real Go
// function (at a chosen indent, after a chosen number of lines), parsed with go/parser, mapped with
// gast.MapDocListToCommentBlock and handed to annotations.NewAnnotationHolder.

type annotIntent struct {
	Name    string `json:"name"`
	Paren   bool   `json:"paren"`
	Value   string `json:"value"`
	Json    string `json:"json"`
	JsonBad bool   `json:"jsonBad"`
	Desc    string `json:"desc"`
}

type annotLine struct {
	T string       `json:"t"` // starts with "//"
	I *annotIntent `json:"i"` // what the generator meant to write (nil for free / malformed / mutated lines)
}

type annotIn struct {
	Lines  []annotLine `json:"lines"`
	Indent string   `json:"indent"` // white space before each comment line
	Skip   int      `json:"skip"`   // blank lines before the block
}

type annotAttr struct {
	Line       int             `json:"line"` // index of the comment in the block
	Name       string          `json:"name"`
	Value      string          `json:"value"`
	Desc       string          `json:"desc"`
	Json       string          `json:"json"` // raw text sliced out of the source by PropertiesRange
	Props      json.RawMessage `json:"_props"`
	ValueRange []int           `json:"valueRange"` // [startCol,endCol] relative to the comment's first column; [] = fallback to comment range
	PropsRange []int           `json:"propsRange"` // same, [] when absent
	RangesOk   bool            `json:"rangesOk"`   // lines of both ranges are the comment's own line
}

type annotOut struct {
	Err         string      `json:"err,omitempty"`
	Attrs       []annotAttr `json:"attrs"`
	Free        [][2]any    `json:"free"`
	Description string      `json:"description"`
	Oracle      [][4]any    `json:"_oracle"` // [line, startRune, endRune, json5 ok] for every {...} substring
}

func init() {
	impls["annot"] = implAnnot
	gens["annot"] = genAnnot
}

func runeSlice(s string, a, b int) string {
	r := []rune(s)
	if a < 0 || b > len(r) || a > b {
		return "\x00out-of-range"
	}
	return string(r[a:b])
}

func implAnnot(in json.RawMessage) (any, error) {
	var ai annotIn
	if err := json.Unmarshal(in, &ai); err != nil {
		return nil, err
	}
	var sb strings.Builder
	sb.WriteString("package p\n")
	for i := 0; i < ai.Skip; i++ {
		sb.WriteString("\n")
	}
	for _, l := range ai.Lines {
		sb.WriteString(ai.Indent + l.T + "\n")
	}
	sb.WriteString(ai.Indent + "func F() {}\n")
	fset := token.NewFileSet()
	f, err := parser.ParseFile(fset, "src.go", sb.String(), parser.ParseComments)
	if err != nil {
		return nil, fmt.Errorf("generated source does not parse: %v", err)
	}
	var doc []*ast.Comment
	for _, d := range f.Decls {
		if fd, ok := d.(*ast.FuncDecl); ok && fd.Doc != nil {
			doc = fd.Doc.List
		}
	}
	block := gast.MapDocListToCommentBlock(doc, fset)
	out := annotOut{Attrs: []annotAttr{}, Free: [][2]any{}, Oracle: [][4]any{}}
	// json5 oracle over the real comment texts
	for li, c := range block.Comments {
		r := []rune(c.Text)
		for a := 0; a < len(r); a++ {
			if r[a] != '{' {
				continue
			}
			for b := a + 1; b < len(r); b++ {
				if r[b] != '}' {
					continue
				}
				var m map[string]any
				ok := json5.Unmarshal([]byte(string(r[a:b+1])), &m) == nil
				out.Oracle = append(out.Oracle, [4]any{li, a, b + 1, ok})
			}
		}
	}
	if len(block.Comments) != len(ai.Lines) {
		out.Err = fmt.Sprintf("doc has %d comments, input %d", len(block.Comments), len(ai.Lines))
		return out, nil
	}
	holder, herr := annotations.NewAnnotationHolder(block, annotations.CommentSourceRoute)
	if herr != nil {
		out.Err = "json5"
		return out, nil
	}
	for _, a := range holder.Attributes() {
		c := a.Comment
		aa := annotAttr{Line: c.Index, Name: a.Name, Value: a.Value, Desc: a.Description, ValueRange: []int{}, PropsRange: []int{}, RangesOk: true}
		vr := a.GetValueRange()
		if vr != c.Range() || a.Value == "" {
			aa.ValueRange = []int{vr.StartCol - c.Position.StartCol, vr.EndCol - c.Position.StartCol}
			if vr.StartLine != c.Position.StartLine || vr.EndLine != c.Position.EndLine {
				aa.RangesOk = false
			}
		}
		pr := a.PropertiesRange
		if pr.StartLine != 0 || pr.StartCol != 0 || pr.EndLine != 0 || pr.EndCol != 0 {
			aa.PropsRange = []int{pr.StartCol - c.Position.StartCol, pr.EndCol - c.Position.StartCol}
			if pr.StartLine != c.Position.StartLine || pr.EndLine != c.Position.StartLine {
				aa.RangesOk = false
			}
			aa.Json = runeSlice(c.Text, aa.PropsRange[0], aa.PropsRange[1])
		}
		if a.Properties != nil {
			b, err := json.Marshal(a.Properties)
			if err != nil {
				b = []byte(`"unmarshalable"`)
			}
			aa.Props = b
			// properties must equal the JSON5 object that was written
			var m map[string]any
			if json5.Unmarshal([]byte(aa.Json), &m) != nil {
				aa.RangesOk = false
			} else if b2, _ := json.Marshal(m); string(b2) != string(b) {
				aa.RangesOk = false
			}
		} else {
			aa.Props = json.RawMessage("null")
		}
		// … also as seen through the attribute's own accessors: a key the object binds - to null as well - is present
		// and yields the bound value; a key it does not bind is absent
		for k, v := range a.Properties {
			pv := a.GetProperty(k)
			if !a.HasProperty(k) || pv == nil || !reflect.DeepEqual(*pv, v) {
				aa.RangesOk = false
			}
		}
		if a.HasProperty("\x00 no such key") || a.GetProperty("\x00 no such key") != nil {
			aa.RangesOk = false
		}
		// the position of the comment itself: line = 1 + skip + index, column = bytes of indent
		if c.Position.StartLine != 1+ai.Skip+c.Index || c.Position.StartCol != len(ai.Indent) ||
			c.Position.EndCol != len(ai.Indent)+len(c.Text) {
			aa.RangesOk = false
		}
		_ = utf8.RuneCountInString
		out.Attrs = append(out.Attrs, aa)
	}
	for _, n := range holder.NonAttributeComments() {
		out.Free = append(out.Free, [2]any{n.Index, n.Value})
	}
	out.Description = holder.GetDescription()
	return out, nil
}

// ---------------------------------------------------------------------------------------------
// generator: grammar-directed, mostly-valid lines plus a malformed / mutated stream

var annotNames = []string{"Route", "Method", "Query", "Path", "Header", "Body", "Description", "Security", "Tag", "Response", "ErrorResponse", "Hidden", "Deprecated", "X_y9", "a",
	// names that differ from a known one only in letter case are annotations of THEIR OWN name: `@description` is not
	// `@Description` (the entity description stays with the free text)
	"description", "DESCRIPTION", "Description", "deprecated", "route"}

func genValue(r *rng.R) string {
	alpha := []string{"a", "b", "id", "Z9", "_", "-", "/", "\\", "{", "}", " ", "{id}", "/users", "x y"}
	n := 1 + r.Intn(4)
	var sb strings.Builder
	for i := 0; i < n; i++ {
		sb.WriteString(rng.Pick(r, alpha))
	}
	return sb.String()
}

func genJson5Value(r *rng.R, depth int) string {
	switch c := r.Intn(10); {
	case c < 3:
		strs := []string{`"x"`, `'y'`, `"a}b"`, `"a)b"`, `"})"`, `"a,b"`, `"é"`, `"{"`, `"}) z"`}
		return rng.Pick(r, strs)
	case c < 5:
		return rng.Pick(r, []string{"1", "-2.5", "true", "null", "0x1F"})
	case c < 7 && depth > 0:
		n := r.Intn(3)
		parts := []string{}
		for i := 0; i < n; i++ {
			parts = append(parts, genJson5Value(r, depth-1))
		}
		s := "[" + strings.Join(parts, rng.Pick(r, []string{",", ", "}))
		if n > 0 && r.Chance(1, 4) {
			s += ","
		}
		return s + "]"
	case depth > 0:
		return genJson5Object(r, depth-1)
	default:
		return "1"
	}
}

func genJson5Object(r *rng.R, depth int) string {
	n := r.Intn(3)
	parts := []string{}
	for i := 0; i < n; i++ {
		key := rng.Pick(r, []string{"name", "a", `"k"`, `'q'`, "validate", "scopes", "b_1"})
		parts = append(parts, key+rng.Pick(r, []string{":", ": "})+genJson5Value(r, depth))
	}
	s := "{" + rng.Pick(r, []string{"", " "}) + strings.Join(parts, rng.Pick(r, []string{",", ", "}))
	if n > 0 && r.Chance(1, 5) {
		s += ","
	}
	return s + rng.Pick(r, []string{"", " "}) + "}"
}

func genDesc(r *rng.R) string {
	words := []string{"the", "id", "é", "日本", "😀", "x)", "})", "{b})", "(see)", "a,b", "@Query", "//", "}", ")", "\t", "  "}
	n := 1 + r.Intn(4)
	parts := []string{}
	for i := 0; i < n; i++ {
		parts = append(parts, rng.Pick(r, words))
	}
	return strings.TrimSpace(strings.Join(parts, " "))
}

func genAnnotLine(r *rng.R) annotLine {
	switch c := r.Intn(100); {
	case c < 12: // free text
		return annotLine{T: "//" + rng.Pick(r, []string{"", " ", "  ", "\t"}) + rng.Pick(r, []string{"", "plain text", "Some description é", "@NotAnAttr", "  spaced  ", "{x}", "@ X"})}
	case c < 20: // near misses
		return annotLine{T: rng.Pick(r, []string{"//@X", "// @X (v)", "// @X(v!)", "// @", "// @X()", "// @X(v)y", "//  @X", "// @X(v", "// @X(v,)", "// @X(v, {a:1)", "// @X(v, a:1})", "// @X(v,{}) ", "// @X(v\t, {}) d", "// @X(v ,\t{}) d", "// @X(é)", "// @Xé", "// @X(v, {a:1}))", "// @X(v, {a:1})) x", "// @X(v, {a: 1}) see {b}) foo", "// @X(v, {a: 1}) see {b})"})}
	}
	it := &annotIntent{}
	var sb strings.Builder
	it.Name = rng.Pick(r, annotNames)
	sb.WriteString("// @" + it.Name)
	if r.Chance(3, 4) {
		it.Paren = true
		it.Value = genValue(r)
		sb.WriteString("(" + it.Value)
		if r.Chance(1, 2) {
			sb.WriteString(rng.Pick(r, []string{",", ", ", "\t, ", ",  ", "\t,\t"}))
			if r.Chance(1, 8) {
				// malformed json5
				it.Json = rng.Pick(r, []string{"{a:}", "{a 1}", "{,}", "{a:1 b}", "{{}", "{\"a\":}"})
				it.JsonBad = true
			} else {
				it.Json = genJson5Object(r, 2)
			}
			sb.WriteString(it.Json)
		}
		sb.WriteString(")")
	}
	if r.Chance(1, 2) {
		it.Desc = genDesc(r)
		if it.Desc != "" {
			sb.WriteString(rng.Pick(r, []string{" ", "  ", "\t"}) + it.Desc)
		}
	}
	if r.Chance(1, 7) {
		// strings.TrimSpace strips every Unicode blank; the regex's \s knows the ASCII ones only
		sb.WriteString(rng.Pick(r, []string{" ", "\t", "  ", "\u00a0", "\u3000", "\v", "\f", " \u2003", "\u0085", "\u3000 "}))
	}
	s := sb.String()
	if r.Chance(1, 12) { // rune-level mutation of a valid line (kept valid UTF-8, no line terminators)
		it = nil
		rs := []rune(s)
		if len(rs) > 4 {
			i := 3 + r.Intn(len(rs)-3)
			switch r.Intn(3) {
			case 0:
				rs = append(rs[:i], rs[i+1:]...)
			case 1:
				rs[i] = rng.Pick(r, []rune{'(', ')', '{', '}', ',', ' ', '@', 'é', '\\'})
			default:
				rs = append(rs[:i], append([]rune{rng.Pick(r, []rune{'(', ')', '{', '}', ',', ' '})}, rs[i:]...)...)
			}
		}
		s = string(rs)
	}
	s = strings.NewReplacer("\n", "", "\r", "").Replace(s)
	if !strings.HasPrefix(s, "//") {
		s = "//" + s
	}
	return annotLine{T: s, I: it}
}

func genAnnot(seed uint64, n int, tier string, emit func(string, []string, any)) {
	r := rng.New(seed)
	corpus := [][]string{
		{"// @Query(name, {a: 1}) see {b}) foo"},
		{"// Some description", "// second line", "//", "// @Method(GET) the method", "// trailing free"},
		{"// @Description explicit é", "// free"},
		{"// @Route(/a/{id}, {x: \"})\"}) d"},
		{"// @Query(name , { name: 'n', validate: \"required,gt=1\" }) The name"},
		{"// first", "// @Path(id)", "// after gap"},
		// strings.TrimSpace strips every Unicode blank before the regex (whose \s is ASCII only) sees the line
		{"// @Hidden\u3000", "// @Route(/users/{id})\u00a0", "// @Path(id) the id\u3000", "// @Method(GET)\v"},
		{"// free text first", "// @Description", "// @Method(GET)"},
	}
	for _, c := range corpus {
		ls := []annotLine{}
		for _, t := range c {
			ls = append(ls, annotLine{T: t})
		}
		emit("annot", []string{"corpus"}, annotIn{Lines: ls, Indent: "", Skip: 0})
	}
	for i := 0; i < n; i++ {
		cr := r.Fork()
		k := 1 + cr.Intn(8)
		if cr.Chance(1, 2) {
			k = 1
		}
		lines := make([]annotLine, 0, k)
		for j := 0; j < k; j++ {
			lines = append(lines, genAnnotLine(cr))
		}
		emit("annot", nil, annotIn{Lines: lines, Indent: rng.Pick(cr, []string{"", "\t", "    ", "\t\t"}), Skip: cr.Intn(3)})
	}
}
