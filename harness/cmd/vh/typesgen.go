package main

import (
	"os"
	"fmt"
	"strings"

	"verifharness/rng"
)

// Generator of TYPE-GRAPH projects (mode "proj", VH_TYPES=1; C07): 2-10 declarations over three packages
// (other < models < ctl in import order): structs (fields over primitives, time.Time, []byte, any, earlier
// types and the struct itself behind pointers / slices / string-keyed maps, nested up to depth 3, embedded
// structs by value or pointer, every spelling of the json tag, unexported fields, validate tags), enums of
// every basic kind with decoy constants, typedef / assigned aliases; then 1-2 controllers whose routes
// use a random subset of the types as body, result, query, header, path and form parameters, with and
// without usage-site validators and descriptions.  Some types stay unused.

type tgType struct {
	pType
	rank int // 0 other, 1 models, 2 ctl
}

var tgPkgs = []string{"other", "models", "ctl"}

// a package whose import path ends in a one-letter segment ("vproj/v"); same import rank as "other"
const tgTinyPkg = "v"

var tgPrims = []string{"string", "int", "int64", "uint", "bool", "float64", "uint8", "int32", "float32", "time.Time", "[]byte", "any", "uint64", "int8"}

func tgQual(from string, t tgType) string {
	if t.Pkg == from {
		return t.Name
	}
	return t.Pkg + "." + t.Name
}

type typesGen struct {
	r     *rng.R
	types []tgType
}

// a type expression usable from package rank `rank`, possibly mentioning `self` (only behind a wrapper)
func (g *typesGen) texpr(rank int, from string, self string, depth int, allowAny bool) string {
	r := g.r
	cands := []tgType{}
	for _, t := range g.types {
		if t.rank <= rank && (t.Pkg == from || t.Name[0] < 'a') {
			cands = append(cands, t)
		}
	}
	base := func() string {
		k := r.Intn(10)
		if len(cands) > 0 && k < 6 {
			return tgQual(from, rng.Pick(r, cands))
		}
		p := rng.Pick(r, tgPrims)
		if p == "any" && !allowAny {
			p = "string"
		}
		return p
	}
	if depth > 0 && r.Chance(2, 5) {
		inner := ""
		if self != "" && r.Chance(1, 3) {
			inner = self
			if r.Bool() {
				inner = "*" + self
			}
		} else {
			inner = g.texpr(rank, from, self, depth-1, allowAny)
		}
		if r.Chance(2, 3) {
			if inner == "uint8" {
				inner = "uint16" // []uint8 IS []byte
			}
			if os.Getenv("VH_ARRAYS") != "" && r.Chance(1, 3) {
				// C14: a fixed-size array wherever a slice can stand (whatever the tool documents for it, it must finish)
				return rng.Pick(r, []string{"[2]", "[4]", "[][2]", "*[3]"}) + inner
			}
			return "[]" + inner
		}
		return "map[string]" + inner
	}
	b := base()
	if b != "any" && b != "[]byte" && r.Chance(1, 4) {
		return "*" + b
	}
	if self != "" && r.Chance(1, 8) {
		return "*" + self
	}
	return b
}

func (g *typesGen) newStruct(i int, rank int, name string) tgType {
	r := g.r
	pkg := tgPkgs[rank]
	t := tgType{pType: pType{Kind: "struct", Name: name, Pkg: pkg, File: rng.Pick(r, []string{"types.go", "more.go"})}, rank: rank}
	if r.Chance(1, 3) {
		t.Doc = []string{name + " is documented"}
	}
	usedJSON := map[string]bool{}
	usedGo := map[string]bool{}
	// embedded structs (earlier struct types, distinct)
	if r.Chance(1, 3) {
		emb := []tgType{}
		for _, e := range g.types {
			if e.Kind == "struct" && e.rank <= rank && e.Name != name && (e.Pkg == pkg || e.Name[0] < 'a') {
				emb = append(emb, e)
			}
		}
		for k := 0; k < 2 && len(emb) > 0 && (k == 0 || r.Chance(1, 3)); k++ {
			e := rng.Pick(r, emb)
			if usedGo[e.Name] {
				continue
			}
			usedGo[e.Name] = true
			ty := tgQual(pkg, e.pType2())
			if r.Chance(1, 3) {
				ty = "*" + ty
			}
			ef := pField{Type: ty, Embedded: true}
			if r.Chance(1, 6) {
				ef.Tag = `json:"-"` // an embedded field that is never emitted
			} else if r.Chance(1, 4) {
				// options without a name: encoding/json still flattens the embedded struct, it stays an allOf member
				ef.Tag = rng.Pick(r, []string{`json:",inline"`, `json:",omitempty"`})
			}
			t.Fields = append(t.Fields, ef)
		}
	}
	nf := 1 + r.Intn(5)
	for k := 0; k < nf; k++ {
		goName := fmt.Sprintf("F%d", k)
		jsonName := fmt.Sprintf("f%d", k)
		f := pField{Name: goName, Type: g.texpr(rank, pkg, name, 2, true)}
		tag := []string{}
		switch r.Intn(12) {
		case 0: // no tag at all: the Go name is the JSON name
		case 1:
			tag = append(tag, `json:"`+jsonName+`,omitempty"`)
		case 2:
			tag = append(tag, `json:"-"`) // never emitted
		case 3:
			tag = append(tag, `json:",omitempty"`) // Go name
		case 4:
			f.Name = fmt.Sprintf("hidden%d", k) // unexported: never emitted
			if r.Bool() {
				tag = append(tag, `json:"`+jsonName+`"`)
			}
		case 5:
			tag = append(tag, `json:"-,"`) // the property is literally named "-"
			if usedJSON["-"] {
				tag = []string{`json:"` + jsonName + `"`}
			}
			usedJSON["-"] = true
		default:
			tag = append(tag, `json:"`+jsonName+`"`)
		}
		vs := []string{}
		if r.Chance(1, 3) && (!strings.Contains(f.Type, name) || r.Chance(1, 6)) {
			vs = append(vs, "required") // (a required self-reference makes 3.1 generation fail: C11-F4)
		}
		if strings.HasPrefix(f.Type, "int") && r.Chance(1, 3) {
			vs = append(vs, "gte=0")
		}
		if f.Type == "string" && r.Chance(1, 3) {
			vs = append(vs, "min=1")
		}
		if r.Chance(1, 6) {
			// a declaration-site validator on a field whose type is a declared enum: must not leak into that enum
			for _, e := range g.types {
				if e.Kind == "enum" && e.Base == "string" && len(e.Consts) > 0 && f.Type == tgQual(pkg, e.pType2()) {
					vs = append(vs, "oneof="+strings.Trim(e.Consts[0][1], `"`))
				}
			}
		}
		if len(vs) > 0 {
			tag = append(tag, `validate:"`+strings.Join(vs, ",")+`"`)
		}
		f.Tag = strings.Join(tag, " ")
		if r.Chance(1, 5) {
			f.Doc = "doc of " + goName
		}
		t.Fields = append(t.Fields, f)
		if r.Chance(1, 5) && !strings.Contains(f.Tag, `json:"`+jsonName) && !strings.Contains(f.Tag, `json:"-,"`) {
			// `F0, F0b T`: two names in ONE field declaration are two fields with the same type, tag and comment
			twin := f
			twin.Name = f.Name + "b"
			twin.Joined = true
			t.Fields = append(t.Fields, twin)
		}
	}
	return t
}

func (t tgType) pType2() tgType { return t }

func (g *typesGen) newEnum(rank int, name string) tgType {
	r := g.r
	base := rng.Pick(r, []string{"string", "string", "int", "int64", "uint8", "float64", "float32", "bool", "int32", "uint", "uint64"})
	t := tgType{pType: pType{Kind: "enum", Name: name, Pkg: tgPkgs[rank], File: rng.Pick(r, []string{"types.go", "enums.go"}), Base: base}, rank: rank}
	if r.Chance(1, 3) {
		t.Doc = []string{name + " enumerates things"}
	}
	n := 1 + r.Intn(3)
	for k := 0; k < n; k++ {
		lit := ""
		switch {
		case base == "string":
			lit = fmt.Sprintf(`"%s"`, []string{"red", "green", "blue"}[k])
			if k == 1 && r.Chance(1, 3) {
				// members that look like a zero value are members all the same
				lit = rng.Pick(r, []string{`""`, `""`, `"0"`, `"false"`, `"null"`})
			}
		case base == "bool":
			if k > 1 {
				continue
			}
			lit = []string{"true", "false"}[k]
		case strings.HasPrefix(base, "float"):
			lit = []string{"0.5", "1.25", "2"}[k]
		case base == "uint64" || base == "uint":
			lit = []string{"1", "9223372036854775808", "18446744073709551615"}[k] // at and above 2^63
		case strings.HasPrefix(base, "uint"):
			lit = fmt.Sprint(k + 1)
		default:
			lit = []string{"1", "-2", "30"}[k]
		}
		t.Consts = append(t.Consts, [2]string{fmt.Sprintf("%sV%d", name, k), lit})
	}
	if len(t.Consts) > 1 && r.Chance(1, 3) {
		t.ConstsElsewhere = 1 + r.Intn(len(t.Consts)-1) // declared in another file of the package
	}
	return t
}

func (g *typesGen) newAlias(rank int, name string) tgType {
	r := g.r
	t := tgType{pType: pType{Kind: "alias", Name: name, Pkg: tgPkgs[rank], File: "types.go", Base: rng.Pick(r, []string{"string", "int", "int64", "float64", "bool", "uint8", "string"}), Assign: r.Chance(1, 3)}, rank: rank}
	if os.Getenv("VH_TIME_ALIAS") != "" && r.Chance(1, 4) {
		// C08: a named type over time.Time - whatever the tool makes of it (today: it refuses the project), a document it
		// writes must not say `type: date-time`
		t.Base = "time.Time"
	}
	if r.Chance(1, 8) {
		// alias of an alias
		for _, e := range g.types {
			if e.Kind == "alias" && e.rank <= rank {
				t.Base = tgQual(t.Pkg, e)
				t.Assign = false
				break
			}
		}
	}
	if r.Chance(1, 3) {
		t.Doc = []string{name + " is an alias"}
	}
	return t
}

func genTypesProject(r *rng.R) (pProject, []string) {
	g := &typesGen{r: r}
	p := pProject{}
	p.Config = pConfig{Engine: rng.Pick(r, []string{"gin", "echo", "mux", "chi", "fiber"}), OpenAPI: rng.Pick(r, []string{"3.0.0", "3.1.0"}), Schemes: []irScheme{}, PackageName: "routes"}
	tags := []string{}
	nt := 2 + r.Intn(9)
	names := []string{"Alpha", "Beta", "Gamma", "Delta", "Eps", "Zeta", "Eta", "Theta", "Iota", "Kappa", "Lambda"}
	for i := 0; i < nt; i++ {
		rank := []int{1, 1, 1, 0, 2}[r.Intn(5)]
		name := names[i]
		if r.Chance(1, 25) && i > 0 && g.types[i-1].Kind == "struct" && g.types[i-1].rank != rank {
			name = g.types[i-1].Name // the same name in two packages
			tags = append(tags, "same-name-two-packages")
		}
		if os.Getenv("VH_RFC_NAME") != "" && r.Chance(1, 20) && i > 0 {
			name = "Rfc7807Error" // a user declaration named like the built-in error model (C11: both documents must agree on who wins)
			tags = append(tags, "user-rfc7807")
		}
		tiny := rank == 0 && r.Chance(1, 3)
		var t tgType
		switch k := r.Intn(8); {
		case k < 4:
			if r.Chance(1, 8) {
				name = strings.ToLower(name[:1]) + name[1:] // package-private: reachable only by embedding / fields in its own package
			}
			t = g.newStruct(i, rank, name)
		case k < 6:
			t = g.newEnum(rank, name)
		default:
			t = g.newAlias(rank, name)
		}
		if tiny && t.Name[0] < 'a' && (t.Kind == "enum" || (t.Kind == "alias" && strings.ToLower(t.Base[:1]) == t.Base[:1] && !strings.Contains(t.Base, "."))) {
			t.Pkg = tgTinyPkg // leaf declarations only: nothing in them names another package
		}
		g.types = append(g.types, t)
	}
	for _, t := range g.types {
		p.Types = append(p.Types, t.pType)
	}
	// decoys: constants that do NOT belong to any enum above
	for i := range p.Types {
		if p.Types[i].Kind == "enum" && r.Chance(1, 2) {
			lit := `"decoy"`
			if p.Types[i].Base != "string" {
				lit = "99"
				if p.Types[i].Base == "bool" {
					lit = "true"
				}
			}
			p.Types[i].Raw = fmt.Sprintf("const %sDecoy = %s\n\ntype %sTwin %s\n\nconst %sTwinV %sTwin = %s\n", p.Types[i].Name, lit, p.Types[i].Name, p.Types[i].Base, p.Types[i].Name, p.Types[i].Name, lit)
		}
	}
	// usage sites
	nc := 1 + r.Intn(2)
	ri := 0
	for ci := 0; ci < nc; ci++ {
		c := pController{Name: fmt.Sprintf("Ctl%d", ci), Pkg: "ctl", File: fmt.Sprintf("ctl%d.go", ci),
			Annots: []pAnnot{{Name: "Tag", Value: fmt.Sprintf("T%d", ci)}, {Name: "Route", Value: fmt.Sprintf("/c%d", ci)}}}
		nm := 1 + r.Intn(4)
		for mi := 0; mi < nm; mi++ {
			ri++
			m := pMethod{Name: fmt.Sprintf("Op%d", ri), File: c.File}
			verb := rng.Pick(r, []string{"GET", "POST", "PUT", "DELETE", "PATCH"})
			route := fmt.Sprintf("/r%d", ri)
			byKind := func(kinds ...string) []tgType {
				o := []tgType{}
				for _, t := range g.types {
					for _, k := range kinds {
						if t.Kind == k && !(t.Kind == "alias" && strings.Contains(t.Base, ".")) && (t.Pkg == "ctl" || t.Name[0] < 'a') {
							o = append(o, t)
						}
					}
				}
				return o
			}
			structs, scalars := byKind("struct"), byKind("enum", "alias")
			scalarType := func() (string, *tgType) {
				if len(scalars) > 0 && r.Chance(2, 3) {
					t := rng.Pick(r, scalars)
					return tgQual("ctl", t), &t
				}
				return rng.Pick(r, []string{"string", "int", "bool", "float64", "int64", "uint"}), nil
			}
			usageProps := func(t *tgType) (map[string]any, string) {
				props := map[string]any{}
				if t != nil && t.Kind == "enum" && t.Base == "string" && len(t.Consts) > 0 && r.Chance(1, 2) {
					props["validate"] = "required,oneof=" + strings.Trim(t.Consts[0][1], `"`)
				} else if r.Chance(1, 3) {
					props["validate"] = "required"
				}
				desc := ""
				if r.Chance(1, 2) {
					desc = "usage-site description"
				}
				if len(props) == 0 {
					props = nil
				}
				return props, desc
			}
			// path parameter
			if r.Chance(1, 3) {
				ty, t := scalarType()
				if ty == "bool" || ty == "float64" {
					ty = "string"
				}
				pn := fmt.Sprintf("p%d", ri)
				route += "/{" + pn + "}"
				props, desc := usageProps(t)
				m.Annots = append(m.Annots, pAnnot{Name: "Path", Value: pn, Props: props, Desc: desc})
				m.Params = append(m.Params, pParam{Name: pn, Type: ty})
			}
			for k := r.Intn(3); k > 0; k-- {
				ty, t := scalarType()
				loc := rng.Pick(r, []string{"Query", "Header"})
				if loc == "Query" && r.Chance(1, 4) {
					ty = "[]" + ty
				}
				pn := fmt.Sprintf("q%d_%d", ri, k)
				props, desc := usageProps(t)
				m.Annots = append(m.Annots, pAnnot{Name: loc, Value: pn, Props: props, Desc: desc})
				m.Params = append(m.Params, pParam{Name: pn, Type: ty})
			}
			hasBody := verb == "POST" || verb == "PUT" || verb == "PATCH"
			if hasBody && len(structs) > 0 && r.Chance(2, 3) {
				t := rng.Pick(r, structs)
				ty := tgQual("ctl", t)
				switch r.Intn(5) {
				case 0:
					ty = "*" + ty
				case 1:
					ty = "[]" + ty
				}
				m.Annots = append(m.Annots, pAnnot{Name: "Body", Value: "body"})
				m.Params = append(m.Params, pParam{Name: "body", Type: ty})
			} else if hasBody && r.Chance(1, 2) {
				for k := 1 + r.Intn(2); k > 0; k-- {
					ty, t := scalarType()
					pn := fmt.Sprintf("ff%d_%d", ri, k)
					props, desc := usageProps(t)
					m.Annots = append(m.Annots, pAnnot{Name: "FormField", Value: pn, Props: props, Desc: desc})
					m.Params = append(m.Params, pParam{Name: pn, Type: ty})
				}
			}
			m.Annots = append([]pAnnot{{Name: "Method", Value: verb}, {Name: "Route", Value: route}}, m.Annots...)
			// result
			m.Results = []string{"error"}
			if r.Chance(2, 3) {
				all := append(append([]tgType{}, structs...), scalars...)
				ty := rng.Pick(r, []string{"string", "int", "[]string", "map[string]int"})
				if len(all) > 0 && r.Chance(4, 5) {
					t := rng.Pick(r, all)
					ty = tgQual("ctl", t)
					switch r.Intn(6) {
					case 0:
						ty = "[]" + ty
					case 1:
						if t.Kind == "struct" {
							ty = "*" + ty
						}
					case 2:
						ty = "map[string]" + ty
					case 3:
						if t.Kind == "struct" {
							ty = "[]*" + ty
						}
					}
				}
				m.Results = []string{ty, "error"}
			}
			c.Methods = append(c.Methods, m)
		}
		p.Controllers = append(p.Controllers, c)
	}
	if os.Getenv("VH_STD_ENUM") != "" && r.Chance(1, 3) {
		// a field typed with a declared type of the STANDARD library's package time that is not time.Time: an enum like
		// any other (the declaration is not printed - it is the standard library's)
		for ti := range p.Types {
			if p.Types[ti].Kind == "struct" && p.Types[ti].Name[0] < 'a' {
				p.Types[ti].Fields = append(p.Types[ti].Fields, pField{Name: "Mon", Type: rng.Pick(r, []string{"time.Month", "*time.Month"}), Tag: `json:"mon"`})
				consts := [][2]string{}
				for i, n := range []string{"January", "February", "March", "April", "May", "June", "July", "August", "September", "October", "November", "December"} {
					consts = append(consts, [2]string{n, fmt.Sprint(i + 1)})
				}
				p.Types = append(p.Types, pType{Kind: "enum", Name: "Month", Pkg: "time", File: "month.go", Base: "int", Consts: consts, External: true,
					Doc: []string{"A Month specifies a month of the year (January = 1, ...)."}})
				tags = append(tags, "std-enum-field")
				break
			}
		}
	}
	return p, tags
}
