package main

import (
	"go/ast"
	"go/parser"
	"go/token"
	"go/types"
	"strconv"
	"strings"
)

// Static extraction of a generated routes file (DESIGN A.4): the registration table and, per route, the
// handler as an ordered list of steps, recovered with go/ast from the RENDERED file (so the facts hold of
// real output, whatever the template language did).

type rxSec struct {
	Name   string   `json:"name"`
	Scopes []string `json:"scopes"`
}

type rxArg struct {
	Var   string `json:"var"`   // xRawPtr | ctx
	Deref bool   `json:"deref"` // passed as *xRawPtr
}

type rxStep struct {
	K      string     `json:"k"`
	Lists  [][]rxSec  `json:"lists,omitempty"`  // auth
	Name   string     `json:"name,omitempty"`   // newController: "<alias>.<Type>" ; call: operation ; decl: var name
	Callee string     `json:"callee,omitempty"` // access / conv
	Wire   string     `json:"wire,omitempty"`   // access: the string literal handed to the accessor
	Bits   string     `json:"bits,omitempty"`   // conv: bit size argument (or "" for Atoi/ParseBool)
	Tag    string     `json:"tag,omitempty"`    // validate / bindBody
	Type   string     `json:"type,omitempty"`   // decl: declared type of xRawPtr (without the leading *)
	Args   []rxArg    `json:"args,omitempty"`   // call
	Value  bool       `json:"value,omitempty"`  // call: `value, opError :=`
	Status string     `json:"status,omitempty"` // reply422 etc.
}

type rxRoute struct {
	Verb    string   `json:"verb"`
	RawPath string   `json:"rawPath"` // the literal handed to toXxxUrl
	Steps   []rxStep `json:"steps"`
}

type rxAuthorizeShape struct {
	Found              bool `json:"found"`
	LoopsOverLists     bool `json:"loopsOverLists"`
	LoopsOverChecks    bool `json:"loopsOverChecks"`
	BreakOnRefusal     bool `json:"breakOnRefusal"`
	NilOnCleanList     bool `json:"nilOnCleanList"`
	ReturnsLastError   bool `json:"returnsLastError"`
	CallsAuthorization bool `json:"callsAuthorization"`
}

type routesOut struct {
	Err       string           `json:"err,omitempty"`
	Package   string           `json:"package,omitempty"`
	Routes    []rxRoute        `json:"routes,omitempty"`
	Authorize rxAuthorizeShape `json:"authorize"`
	UrlConv   string           `json:"urlConv,omitempty"` // "identity" | "colon-dedup-once-leading" | "other"
	Gofmt     bool             `json:"_gofmtClean"`
	Bytes     int              `json:"_bytes"`
}

func exprStr(e ast.Expr) string { return types.ExprString(e) }

func strLit(e ast.Expr) (string, bool) {
	if bl, ok := e.(*ast.BasicLit); ok && bl.Kind == token.STRING {
		s, err := strconv.Unquote(bl.Value)
		return s, err == nil
	}
	return "", false
}

func parseSecLists(e ast.Expr) [][]rxSec {
	out := [][]rxSec{}
	cl, ok := e.(*ast.CompositeLit)
	if !ok {
		return out
	}
	for _, le := range cl.Elts { // each SecurityCheckList literal
		lcl, ok := le.(*ast.CompositeLit)
		if !ok {
			continue
		}
		lst := []rxSec{}
		for _, kv := range lcl.Elts {
			k, ok := kv.(*ast.KeyValueExpr)
			if !ok || exprStr(k.Key) != "Checks" {
				continue
			}
			ccl, ok := k.Value.(*ast.CompositeLit)
			if !ok {
				continue
			}
			for _, ce := range ccl.Elts {
				chk, ok := ce.(*ast.CompositeLit)
				if !ok {
					continue
				}
				s := rxSec{Scopes: []string{}}
				for _, f := range chk.Elts {
					fkv, ok := f.(*ast.KeyValueExpr)
					if !ok {
						continue
					}
					switch exprStr(fkv.Key) {
					case "SchemaName":
						s.Name, _ = strLit(fkv.Value)
					case "Scopes":
						if scl, ok := fkv.Value.(*ast.CompositeLit); ok {
							for _, se := range scl.Elts {
								if v, ok := strLit(se); ok {
									s.Scopes = append(s.Scopes, v)
								}
							}
						}
					}
				}
				lst = append(lst, s)
			}
		}
		out = append(out, lst)
	}
	return out
}

func containsReturn(n ast.Node) bool {
	found := false
	ast.Inspect(n, func(m ast.Node) bool {
		if _, ok := m.(*ast.ReturnStmt); ok {
			found = true
		}
		if _, ok := m.(*ast.FuncLit); ok && m != n {
			return false
		}
		return true
	})
	return found
}

func extractHandler(fl *ast.FuncLit) []rxStep {
	steps := []rxStep{}
	seenAuth := false
	ast.Inspect(fl.Body, func(n ast.Node) bool {
		if ce, ok := n.(*ast.CallExpr); ok && !seenAuth {
			// nothing may look at the request before the authorization gate (C03): a call on a request object that
			// comes BEFORE `authorize(...)` is a step of its own, which no modelled handler has
			if fun := exprStr(ce.Fun); fun == "authorize" {
				seenAuth = true
			} else if touchesRequest(fun) {
				steps = append(steps, rxStep{K: "preGate", Callee: fun})
			}
		}
		switch x := n.(type) {
		case *ast.FuncLit:
			if x != fl {
				return false
			}
		case *ast.DeclStmt:
			if gd, ok := x.Decl.(*ast.GenDecl); ok && gd.Tok == token.VAR {
				for _, sp := range gd.Specs {
					vs := sp.(*ast.ValueSpec)
					for _, nm := range vs.Names {
						if strings.HasSuffix(nm.Name, "RawPtr") && vs.Type != nil {
							steps = append(steps, rxStep{K: "decl", Name: nm.Name, Type: strings.TrimPrefix(exprStr(vs.Type), "*")})
						}
					}
				}
			}
		case *ast.IfStmt:
			if be, ok := x.Cond.(*ast.BinaryExpr); ok && be.Op == token.NEQ && exprStr(be.X) == "authErr" && exprStr(be.Y) == "nil" {
				if containsReturn(x.Body) {
					steps = append(steps, rxStep{K: "authGuard"})
				}
				return false
			}
		case *ast.AssignStmt:
			if len(x.Lhs) >= 1 && len(x.Rhs) == 1 {
				lhs0 := exprStr(x.Lhs[0])
				if lhs0 == "controller" {
					if cl, ok := x.Rhs[0].(*ast.CompositeLit); ok {
						steps = append(steps, rxStep{K: "newController", Name: exprStr(cl.Type)})
						return false
					}
				}
				// index expressions used as accessors: vars["x"], req.Header["x"], req.PostForm["x"], QueryParams()["x"]
				if ie, ok := x.Rhs[0].(*ast.IndexExpr); ok {
					if w, ok := strLit(ie.Index); ok {
						steps = append(steps, rxStep{K: "access", Callee: exprStr(ie.X) + "[]", Wire: w, Name: lhs0})
					} else if ce, ok := ie.Index.(*ast.CallExpr); ok && len(ce.Args) == 1 {
						if w, ok := strLit(ce.Args[0]); ok {
							steps = append(steps, rxStep{K: "access", Callee: exprStr(ie.X) + "[" + exprStr(ce.Fun) + "]", Wire: w, Name: lhs0})
							return false
						}
					}
				}
				if call, ok := x.Rhs[0].(*ast.CallExpr); ok {
					fun := exprStr(call.Fun)
					if strings.HasPrefix(fun, "controller.") && fun != "controller.InitController" && len(x.Lhs) >= 1 &&
						exprStr(x.Lhs[len(x.Lhs)-1]) == "opError" {
						st := rxStep{K: "call", Name: strings.TrimPrefix(fun, "controller."), Value: len(x.Lhs) == 2, Args: []rxArg{}}
						for _, a := range call.Args {
							switch av := a.(type) {
							case *ast.StarExpr:
								st.Args = append(st.Args, rxArg{Var: exprStr(av.X), Deref: true})
							case *ast.CallExpr:
								if exprStr(av.Fun) == "getRequestContext" {
									st.Args = append(st.Args, rxArg{Var: "ctx"})
								} else {
									st.Args = append(st.Args, rxArg{Var: exprStr(a)})
								}
							default:
								st.Args = append(st.Args, rxArg{Var: exprStr(a)})
							}
						}
						steps = append(steps, st)
						return false
					}
				}
			}
		case *ast.CallExpr:
			fun := exprStr(x.Fun)
			switch {
			case fun == "authorize":
				if len(x.Args) == 2 {
					steps = append(steps, rxStep{K: "auth", Lists: parseSecLists(x.Args[1])})
				}
				return false
			case fun == "controller.InitController":
				steps = append(steps, rxStep{K: "init"})
				return false
			case fun == "bindAndValidateBody":
				st := rxStep{K: "bindBody"}
				if len(x.Args) == 4 {
					st.Tag, _ = strLit(x.Args[2])
					if ue, ok := x.Args[3].(*ast.UnaryExpr); ok {
						st.Name = exprStr(ue.X)
					}
				}
				steps = append(steps, st)
				return false
			case fun == "validatorInstance.Var":
				st := rxStep{K: "validate"}
				if len(x.Args) == 2 {
					st.Name = exprStr(x.Args[0])
					st.Tag, _ = strLit(x.Args[1])
				}
				steps = append(steps, st)
				return false
			case strings.HasPrefix(fun, "strconv."):
				st := rxStep{K: "conv", Callee: strings.TrimPrefix(fun, "strconv.")}
				if len(x.Args) >= 1 {
					st.Name = exprStr(x.Args[0])
				}
				if len(x.Args) == 3 {
					st.Bits = exprStr(x.Args[2])
				} else if len(x.Args) == 2 {
					st.Bits = exprStr(x.Args[1])
				}
				steps = append(steps, st)
				return false
			case fun == "getStatusCode":
				steps = append(steps, rxStep{K: "reply"})
				return false
			case fun == "handleAuthorizationError":
				return false
			default:
				// accessors: any call whose LAST argument is a string literal and whose callee mentions the request objects
				if len(x.Args) >= 1 {
					if w, ok := strLit(x.Args[len(x.Args)-1]); ok {
						if isRequestAccessor(fun) {
							steps = append(steps, rxStep{K: "access", Callee: fun, Wire: w})
							return false
						}
					}
				}
			}
		}
		return true
	})
	return steps
}

func touchesRequest(fun string) bool {
	for _, p := range []string{"ginCtx.", "echoCtx.", "fiberCtx.", "req.", "r.", "chi.", "mux.", "io.", "json."} {
		if strings.HasPrefix(fun, p) {
			return true
		}
	}
	return false
}

func isRequestAccessor(fun string) bool {
	for _, p := range []string{"ginCtx.", "echoCtx.", "fiberCtx.", "req.", "chi.URLParam", "mux.Vars", "textproto.CanonicalMIMEHeaderKey"} {
		if strings.HasPrefix(fun, p) {
			return !strings.Contains(fun, "JSON") && !strings.Contains(fun, "Status") && !strings.Contains(fun, "Set")
		}
	}
	return false
}

func extractAuthorize(fd *ast.FuncDecl) rxAuthorizeShape {
	sh := rxAuthorizeShape{Found: true}
	if fd.Body == nil {
		return sh
	}
	for _, st := range fd.Body.List {
		if rs, ok := st.(*ast.RangeStmt); ok && exprStr(rs.X) == "checksLists" {
			sh.LoopsOverLists = true
			for _, ist := range rs.Body.List {
				if irs, ok := ist.(*ast.RangeStmt); ok && strings.HasSuffix(exprStr(irs.X), ".Checks") {
					sh.LoopsOverChecks = true
					ast.Inspect(irs.Body, func(n ast.Node) bool {
						if ce, ok := n.(*ast.CallExpr); ok && strings.HasSuffix(exprStr(ce.Fun), "GleeceRequestAuthorization") {
							sh.CallsAuthorization = true
						}
						if ifs, ok := n.(*ast.IfStmt); ok && strings.Contains(exprStr(ifs.Cond), "secErr != nil") {
							hasBreak, setsLast, setsFlag := false, false, false
							for _, b := range ifs.Body.List {
								if bs, ok := b.(*ast.BranchStmt); ok && bs.Tok == token.BREAK {
									hasBreak = true
								}
								if as, ok := b.(*ast.AssignStmt); ok {
									if exprStr(as.Lhs[0]) == "lastError" && exprStr(as.Rhs[0]) == "secErr" {
										setsLast = true
									}
									if exprStr(as.Lhs[0]) == "encounteredErrorInList" && exprStr(as.Rhs[0]) == "true" {
										setsFlag = true
									}
								}
							}
							sh.BreakOnRefusal = hasBreak && setsLast && setsFlag
						}
						return true
					})
				}
				if ifs, ok := ist.(*ast.IfStmt); ok && exprStr(ifs.Cond) == "!encounteredErrorInList" {
					for _, b := range ifs.Body.List {
						if r, ok := b.(*ast.ReturnStmt); ok && len(r.Results) == 1 && exprStr(r.Results[0]) == "nil" {
							sh.NilOnCleanList = true
						}
					}
				}
			}
		}
		if r, ok := st.(*ast.ReturnStmt); ok && len(r.Results) == 1 && exprStr(r.Results[0]) == "lastError" {
			sh.ReturnsLastError = true
		}
	}
	return sh
}

func classifyUrlConv(fd *ast.FuncDecl) string {
	if fd.Body == nil {
		return "other"
	}
	src := []string{}
	for _, st := range fd.Body.List {
		switch s := st.(type) {
		case *ast.AssignStmt:
			src = append(src, exprStr(s.Lhs[0])+"="+exprStr(s.Rhs[0]))
		case *ast.IfStmt:
			body := ""
			for _, b := range s.Body.List {
				switch bs := b.(type) {
				case *ast.AssignStmt:
					body += exprStr(bs.Lhs[0]) + "=" + exprStr(bs.Rhs[0]) + ";"
				case *ast.ReturnStmt:
					body += "return " + exprStr(bs.Results[0]) + ";"
				}
			}
			src = append(src, "if "+exprStr(s.Cond)+" {"+body+"}")
		case *ast.ForStmt:
			body := ""
			for _, b := range s.Body.List {
				if bs, ok := b.(*ast.AssignStmt); ok {
					body += exprStr(bs.Lhs[0]) + "=" + exprStr(bs.Rhs[0]) + ";"
				}
			}
			src = append(src, "for "+exprStr(s.Cond)+" {"+body+"}")
		case *ast.ReturnStmt:
			src = append(src, "return "+exprStr(s.Results[0]))
		}
	}
	got := strings.Join(src, "\n")
	colon := strings.Join([]string{
		`processedUrl=urlParamRegex.ReplaceAllString(url, ":$1")`,
		`for strings.Contains(processedUrl, "//") {processedUrl=strings.ReplaceAll(processedUrl, "//", "/");}`,
		`if processedUrl == "" {return "/";}`,
		`if !strings.HasPrefix(processedUrl, "/") {processedUrl="/" + processedUrl;}`,
		`return processedUrl`,
	}, "\n")
	plain := strings.Join([]string{
		`for strings.Contains(url, "//") {url=strings.ReplaceAll(url, "//", "/");}`,
		`if !strings.HasPrefix(url, "/") {url="/" + url;}`,
		`return url`,
	}, "\n")
	switch got {
	case colon:
		return "colon-squeeze-leading"
	case plain:
		return "squeeze-leading"
	case "return url":
		return "identity"
	}
	return "other: " + got
}

func extractRoutes(engine string, src string) routesOut {
	out := routesOut{Bytes: len(src), Routes: []rxRoute{}}
	fset := token.NewFileSet()
	f, err := parser.ParseFile(fset, "routes.go", src, parser.ParseComments)
	if err != nil {
		out.Err = "generated file does not parse: " + firstLines(err.Error(), 2)
		return out
	}
	out.Package = f.Name.Name
	out.Gofmt = isGofmtClean(src)
	for _, d := range f.Decls {
		fd, ok := d.(*ast.FuncDecl)
		if !ok {
			continue
		}
		switch {
		case fd.Name.Name == "authorize":
			out.Authorize = extractAuthorize(fd)
		case strings.HasPrefix(fd.Name.Name, "to") && strings.HasSuffix(fd.Name.Name, "Url"):
			out.UrlConv = classifyUrlConv(fd)
		case fd.Name.Name == "RegisterRoutes":
			for _, st := range fd.Body.List {
				es, ok := st.(*ast.ExprStmt)
				if !ok {
					continue
				}
				call, ok := es.X.(*ast.CallExpr)
				if !ok {
					continue
				}
				verb := ""
				reg := call
				// mux: engine.HandleFunc(path, fn).Methods("VERB")
				if se, ok := call.Fun.(*ast.SelectorExpr); ok && se.Sel.Name == "Methods" {
					if inner, ok := se.X.(*ast.CallExpr); ok {
						reg = inner
						if len(call.Args) == 1 {
							verb, _ = strLit(call.Args[0])
						}
					}
				}
				se, ok := reg.Fun.(*ast.SelectorExpr)
				if !ok || exprStr(se.X) != "engine" || len(reg.Args) != 2 {
					continue
				}
				if verb == "" {
					verb = strings.ToUpper(se.Sel.Name)
				}
				fl, ok := reg.Args[1].(*ast.FuncLit)
				if !ok {
					continue
				}
				raw := ""
				if pc, ok := reg.Args[0].(*ast.CallExpr); ok && len(pc.Args) == 1 {
					raw, _ = strLit(pc.Args[0])
				}
				out.Routes = append(out.Routes, rxRoute{Verb: verb, RawPath: raw, Steps: extractHandler(fl)})
			}
		}
	}
	return out
}
