package main

import (
	"fmt"
	"go/ast"
	"go/token"
	"strings"
)

// PipelineOrder.lean: for selected functions, the ordered skeleton of calls and returns.
// Events (source order, pre-order walk of the body):
//   call:<callee>          a call expression (callee printed with go/types.ExprString)
//   if-err{ ... }          an `if err != nil` (or `if <x>Err != nil`, `if !succeeded`, `if len(errDiagEntities) > 0`) block
//   ret-err / ret-ok       a return statement whose last result is a non-nil expression / is nil (or has no error result)
// Nested blocks are flattened with "{" and "}" markers for if-blocks only.

type orderTarget struct{ file, fn string }

var orderTargets = []orderTarget{
	{"generator/swagen/swagen30/spec_generator.go", "GenerateSpec"},
	{"generator/swagen/swagen31/spec_generator31.go", "GenerateSpec"},
	{"generator/swagen/spec_manager.go", "GenerateSpec"},
	{"generator/swagen/spec_manager.go", "GenerateAndOutputSpec"},
	{"generator/swagen/spec_manager.go", "OutputSpec"},
	{"cmd/entrypoint.go", "LoadGleeceConfig"},
	{"cmd/entrypoint.go", "GetConfigAndMetadata"},
	{"cmd/entrypoint.go", "GenerateSpec"},
	{"cmd/entrypoint.go", "GenerateRoutes"},
	{"cmd/entrypoint.go", "GenerateSpecAndRoutes"},
	{"core/pipeline/pipeline.go", "Run"},
	{"core/pipeline/pipeline.go", "GenerateIntermediate"},
	{"core/pipeline/pipeline.go", "getReducedControllers"},
	{"core/pipeline/pipeline.go", "getModels"},
	{"core/pipeline/pipeline.go", "getControllers"},
	{"core/pipeline/pipeline.go", "getImports"},
	{"core/arbitrators/packages.facade.go", "GetAllSourceFiles"},
	{"generator/routes/generator.go", "GenerateRoutes"},
}

func boolFlag(b bool) string {
	if b {
		return "t"
	}
	return "f"
}

// conditions that mean "the previous step failed"
func isErrCond(c string) bool {
	return strings.HasSuffix(c, "rr != nil") || strings.HasSuffix(c, "Errs != nil") || c == "!succeeded" || c == "len(errDiagEntities) > 0"
}

func interestingCallee(c string) bool {
	if strings.HasPrefix(c, "logger.") || strings.HasPrefix(c, "fmt.") || c == "len" || c == "string" || c == "append" || c == "make" {
		return false
	}
	return true
}

func orderEvents(body *ast.BlockStmt) []string {
	ev := []string{}
	var walkStmt func(s ast.Stmt)
	walkExpr := func(e ast.Node) {
		ast.Inspect(e, func(n ast.Node) bool {
			if _, ok := n.(*ast.FuncLit); ok {
				return false
			}
			if ce, ok := n.(*ast.CallExpr); ok {
				c := exprStr(ce.Fun)
				if interestingCallee(c) {
					// arguments first (they are evaluated first)
					for _, a := range ce.Args {
						ast.Inspect(a, func(m ast.Node) bool {
							if ice, ok := m.(*ast.CallExpr); ok {
								ic := exprStr(ice.Fun)
								if interestingCallee(ic) {
									ev = append(ev, "call|"+ic+"|f")
								}
							}
							return true
						})
					}
					ev = append(ev, "call|"+c+"|f")
				}
				return false
			}
			return true
		})
	}
	walkBlock := func(b *ast.BlockStmt) {
		for _, s := range b.List {
			walkStmt(s)
		}
	}
	walkStmt = func(s ast.Stmt) {
		switch x := s.(type) {
		case *ast.IfStmt:
			if x.Init != nil {
				walkStmt(x.Init)
			}
			ev = append(ev, "if|"+exprStr(x.Cond)+"|"+boolFlag(isErrCond(exprStr(x.Cond))))
			walkBlock(x.Body)
			ev = append(ev, "close||f")
			if x.Else != nil {
				ev = append(ev, "else||f")
				switch e := x.Else.(type) {
				case *ast.BlockStmt:
					walkBlock(e)
				case *ast.IfStmt:
					walkStmt(e)
				}
				ev = append(ev, "close||f")
			}
		case *ast.ReturnStmt:
			for _, r := range x.Results {
				walkExpr(r)
			}
			if len(x.Results) > 0 && exprStr(x.Results[len(x.Results)-1]) != "nil" {
				ev = append(ev, "ret|"+exprStr(x.Results[len(x.Results)-1])+"|t")
			} else {
				ev = append(ev, "ret|nil|f")
			}
		case *ast.SwitchStmt:
			ev = append(ev, "switch|"+exprStr(x.Tag)+"|f")
			for _, c := range x.Body.List {
				cc := c.(*ast.CaseClause)
				lab := []string{}
				for _, l := range cc.List {
					lab = append(lab, exprStr(l))
				}
				ev = append(ev, "case|"+strings.Join(lab, ",")+"|f")
				for _, b := range cc.Body {
					walkStmt(b)
				}
				ev = append(ev, "close||f")
			}
			ev = append(ev, "close||f")
		case *ast.ForStmt:
			ev = append(ev, "for||f")
			walkBlock(x.Body)
			ev = append(ev, "close||f")
		case *ast.RangeStmt:
			ev = append(ev, "range|"+exprStr(x.X)+"|f")
			walkBlock(x.Body)
			ev = append(ev, "close||f")
		case *ast.BlockStmt:
			walkBlock(x)
		default:
			walkExpr(s)
		}
	}
	walkBlock(body)
	return ev
}

func extractPipelineOrder() (string, error) {
	var sb strings.Builder
	sb.WriteString("namespace Gleece.Generated\n/-- ordered call/return skeletons of the functions that decide what is written and when:\n    (kind, text, flag) with kind ∈ call|if|else|close|ret|switch|case|for|range; flag = error-condition (if) / non-nil error result (ret) -/\ndef callOrder : List (String × List (String × String × Bool)) := [\n")
	for i, t := range orderTargets {
		_, f, err := parseGoFile(t.file)
		if err != nil {
			return "", err
		}
		var fd *ast.FuncDecl
		for _, d := range f.Decls {
			if x, ok := d.(*ast.FuncDecl); ok && x.Name.Name == t.fn && x.Body != nil {
				fd = x
			}
		}
		if fd == nil {
			return "", fmt.Errorf("%s: func %s not found", t.file, t.fn)
		}
		ev := orderEvents(fd.Body)
		sep := ","
		if i == len(orderTargets)-1 {
			sep = ""
		}
		items := []string{}
		for _, e := range ev {
			parts := strings.SplitN(e, "|", 2)
			kind := parts[0]
			rest := parts[1]
			li := strings.LastIndex(rest, "|")
			text, flag := rest[:li], rest[li+1:]
			items = append(items, "("+leanStr(kind)+", "+leanStr(text)+", "+leanBool(flag == "t")+")")
		}
		sb.WriteString("  (" + leanStr(t.file+":"+t.fn) + ", [" + strings.Join(items, ", ") + "])" + sep + "\n")
	}
	sb.WriteString("]\nend Gleece.Generated\n")
	_ = token.NoPos
	return sb.String(), nil
}

func init() {
	extractors = append(extractors, extractor{"PipelineOrder.lean", extractPipelineOrder})
}
