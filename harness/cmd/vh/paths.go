package main

import (
	"encoding/json"
	"strconv"
	"strings"

	"verifharness/rng"

	"github.com/gopher-fleece/gleece/v2/core/metadata"
	"github.com/gopher-fleece/gleece/v2/core/validators/paths"
)

// ---- mode "paths" (C15): paths.FindConflicts on a list of {verb,path}; identities are carried through
// Meta.Receiver pointers whose Name is the decimal index of the entry.

type pathEntry struct {
	Verb string `json:"verb"`
	Path string `json:"path"`
}

type pathConflict struct {
	A      int    `json:"a"`
	B      int    `json:"b"`
	Reason string `json:"reason"`
}

func init() {
	impls["paths"] = implPaths
	gens["paths"] = genPaths
}

func implPaths(in json.RawMessage) (any, error) {
	var es []pathEntry
	if err := json.Unmarshal(in, &es); err != nil {
		return nil, err
	}
	entries := make([]paths.RouteEntry, len(es))
	for i, e := range es {
		rm := &metadata.ReceiverMeta{}
		rm.Name = strconv.Itoa(i)
		entries[i] = paths.RouteEntry{Path: e.Path, Method: e.Verb, Meta: paths.RouteEntryMeta{Receiver: rm}}
	}
	cs := paths.FindConflicts(entries)
	out := make([]pathConflict, 0, len(cs))
	for _, c := range cs {
		a, _ := strconv.Atoi(c.A.Meta.Receiver.Name)
		b, _ := strconv.Atoi(c.B.Meta.Receiver.Name)
		out = append(out, pathConflict{A: a, B: b, Reason: c.Reason})
	}
	return out, nil
}

var pathVerbs = []string{"GET", "POST", "PUT", "DELETE", "PATCH"}

func genPathText(r *rng.R, lits, params []string) string {
	depth := r.Intn(5)
	var sb strings.Builder
	if !r.Chance(1, 8) {
		sb.WriteString("/")
		if r.Chance(1, 10) {
			sb.WriteString("/")
		}
	}
	for i := 0; i < depth; i++ {
		if i > 0 {
			sb.WriteString("/")
			if r.Chance(1, 12) {
				sb.WriteString("/")
			}
		}
		switch {
		case r.Chance(2, 5):
			sb.WriteString(rng.Pick(r, params))
		default:
			sb.WriteString(rng.Pick(r, lits))
		}
	}
	if r.Chance(1, 6) {
		sb.WriteString("/")
	}
	return sb.String()
}

func genPaths(seed uint64, n int, tier string, emit func(string, []string, any)) {
	r := rng.New(seed)
	lits := []string{"a", "b", "c", "{", "x}", "{x", "é", "a b"}
	params := []string{"{x}", "{y}", "{}", "{a}"}
	// structured corpus first
	corpus := [][]pathEntry{
		{},
		{{"GET", "/a"}},
		{{"GET", "/a"}, {"GET", "/a"}, {"GET", "/a"}, {"POST", "/a"}, {"POST", "/a"}},
		{{"GET", "/a/{x}"}, {"GET", "/a/b"}},
		{{"GET", "/a/b"}, {"GET", "/a/{x}"}},
		{{"GET", "/{a}/{a}"}, {"GET", "/{b}/{b}"}},
		{{"GET", "/{a}/{c}"}, {"GET", "/{b}/{d}"}},
		{{"GET", "/a/{x}/c"}, {"GET", "/{y}/b/c"}},
		{{"GET", "/a"}, {"GET", "/a/"}, {"GET", "a"}, {"GET", "//a//"}},
		{{"GET", ""}, {"GET", "/"}, {"GET", "//"}},
		{{"GET", "/a/{x}"}, {"GET", "/a/{y}"}, {"GET", "/a/b"}},
		{{"GET", "/{x}"}, {"get", "/{x}"}},
	}
	for _, c := range corpus {
		emit("paths", []string{"corpus"}, c)
	}
	if tier == "thorough" {
		// exhaustive: all lists of length <= 3 over a small alphabet of (verb,path)
		alpha := []pathEntry{}
		for _, v := range []string{"GET", "POST"} {
			for _, p := range []string{"/", "/a", "/{x}", "/a/b", "/a/{y}", "/{x}/b", "/{x}/{y}", "/b"} {
				alpha = append(alpha, pathEntry{v, p})
			}
		}
		var rec func(cur []pathEntry, k int)
		rec = func(cur []pathEntry, k int) {
			if len(cur) > 0 {
				emit("paths", []string{"exhaustive"}, append([]pathEntry{}, cur...))
			}
			if k == 0 {
				return
			}
			for _, a := range alpha {
				rec(append(cur, a), k-1)
			}
		}
		rec(nil, 3)
	}
	for i := 0; i < n; i++ {
		cr := r.Fork()
		k := cr.Intn(13)
		nl := 1 + cr.Intn(3)
		np := 1 + cr.Intn(2)
		nv := 1 + cr.Intn(3)
		es := make([]pathEntry, 0, k)
		for j := 0; j < k; j++ {
			if len(es) > 0 && cr.Chance(1, 5) {
				// forced near-duplicate of an earlier entry
				e := es[cr.Intn(len(es))]
				switch cr.Intn(4) {
				case 0:
				case 1:
					e.Verb = pathVerbs[cr.Intn(nv)]
				case 2:
					e.Path = e.Path + "/"
				case 3:
					e.Path = strings.ReplaceAll(e.Path, "{x}", "{y}")
				}
				es = append(es, e)
				continue
			}
			es = append(es, pathEntry{Verb: pathVerbs[cr.Intn(nv)], Path: genPathText(cr, lits[:nl+cr.Intn(len(lits)-nl+1)], params[:np+cr.Intn(len(params)-np+1)])})
		}
		emit("paths", nil, es)
		// permutations of the same list
		if k >= 2 && cr.Chance(1, 3) {
			p := append([]pathEntry{}, es...)
			rng.Shuffle(cr, p)
			emit("paths", []string{"perm"}, p)
		}
	}
}
