package main

import (
	"fmt"
	"os"
	"strings"

	"verifharness/rng"
)

// Generator of flattened IR (mode "ir"): structured, mostly-valid documents as the real reducer would
// produce them (names unique, every {name} of the full path bound by one Path parameter, referenced types
// declared), plus a perturbed stream (undeclared security scheme, missing path binding, odd validator
// strings) so that the error paths are exercised too.

const ctlPkg = "vproj/ctl"

var irPrims = []string{"string", "int", "int8", "int16", "int32", "int64", "uint", "uint8", "uint16", "uint32", "uint64", "bool", "float32", "float64"}
var irVerbs = []string{"GET", "POST", "PUT", "DELETE", "PATCH"}

type irGenCtx struct {
	r       *rng.R
	enums   []irEnum
	structs []irStruct
	aliases []irAlias
	serial  uint64
}

func primType(name string, byAddr bool) irType {
	return irType{Name: name, IsUniverse: true, IsByAddress: byAddr, SymbolKind: "Builtin", AliasValues: nil}
}

func (g *irGenCtx) enumType(e irEnum, byAddr bool, slice bool) irType {
	n := e.Name
	if slice {
		n = "[]" + n
	}
	return irType{Name: n, PkgPath: e.PkgPath, Alias: "ctl", IsByAddress: byAddr, SymbolKind: "Enum", AliasType: e.Type, AliasValues: e.Values}
}

func (g *irGenCtx) structType(s irStruct, byAddr bool, slice bool) irType {
	n := s.Name
	if slice {
		n = "[]" + n
	}
	return irType{Name: n, PkgPath: s.PkgPath, Alias: "ctl", IsByAddress: byAddr, SymbolKind: "Struct"}
}

func (g *irGenCtx) genModels() {
	r := g.r
	ne := r.Intn(3)
	for i := 0; i < ne; i++ {
		ty := rng.Pick(r, []string{"string", "string", "int", "uint8", "float64", "bool"})
		vals := []string{}
		switch ty {
		case "string":
			vals = []string{"red", "green", "blue"}[:1+r.Intn(3)]
		case "bool":
			vals = []string{"true"}
		case "float64":
			vals = []string{"1.5", "2"}
		default:
			vals = []string{"1", "2", "10"}[:1+r.Intn(3)]
		}
		g.enums = append(g.enums, irEnum{Name: fmt.Sprintf("Enum%d", i), PkgPath: ctlPkg, Description: rng.Pick(r, []string{"", "an enum"}), Values: vals, Type: ty, Deprecated: r.Chance(1, 8)})
	}
	na := r.Intn(2)
	for i := 0; i < na; i++ {
		g.aliases = append(g.aliases, irAlias{Name: fmt.Sprintf("Alias%d", i), PkgPath: ctlPkg, Type: rng.Pick(r, []string{"string", "int", "bool"}), Description: rng.Pick(r, []string{"", "an alias"})})
	}
	ns := r.Intn(4)
	for i := 0; i < ns; i++ {
		s := irStruct{Name: fmt.Sprintf("Model%d", i), PkgPath: ctlPkg, Description: rng.Pick(r, []string{"", "a model"}), Deprecated: r.Chance(1, 10)}
		if i == ns-1 && !badValidators && r.Chance(1, 3) {
			// a user type whose name differs from the built-in `error` by case only: it is a component of its own
			s.Name = "Error"
		}
		nf := r.Intn(5)
		for j := 0; j < nf; j++ {
			f := irField{Name: fmt.Sprintf("F%d", j), Description: rng.Pick(r, []string{"", "a field"}), Deprecated: r.Chance(1, 10)}
			switch c := r.Intn(10); {
			case c < 5:
				f.Type = rng.Pick(r, irPrims)
			case c < 6 && len(g.enums) > 0:
				f.Type = rng.Pick(r, g.enums).Name
			case c < 7 && badValidators && ns > 1:
				f.Type = fmt.Sprintf("Model%d", r.Intn(ns)) // any struct, possibly declared later (unresolved $ref while emitting)
			case c < 7 && i > 0:
				f.Type = g.structs[r.Intn(i)].Name // earlier struct
			case c < 8:
				f.Type = "[]" + rng.Pick(r, []string{"string", "int"})
			case c < 9:
				f.Type = rng.Pick(r, []string{"map[string]int", "map[string]string", "any", "time.Time", "[]byte"})
			default:
				f.Type = s.Name // self reference
				f.Type = "[]" + f.Type
			}
			tags := []string{}
			if r.Chance(1, 2) {
				tags = append(tags, fmt.Sprintf(`json:"%s"`, rng.Pick(r, []string{"f" + fmt.Sprint(j), "f" + fmt.Sprint(j) + ",omitempty"})))
			}
			if r.Chance(1, 2) {
				v := g.genValidator(f.Type)
				if f.Type == "string" && r.Chance(1, 6) {
					// a struct tag is raw text: an escape written in it (as a regular expression needs) is two characters,
					// and both converters must read the same ones (field tags never reach the routes file)
					v += rng.Pick(r, []string{`,pattern=^\\d{2}$`, `,pattern=^a\\.b$`, `,pattern=\\s+`})
				}
				tags = append(tags, fmt.Sprintf(`validate:"%s"`, v))
			}
			f.Tag = strings.Join(tags, " ")
			if badValidators && len(f.Tag) > 0 && r.Chance(1, 12) {
				f.Tag = f.Tag[:len(f.Tag)-1] // an unterminated tag value (the source still compiles)
			}
			s.Fields = append(s.Fields, f)
		}
		if i > 0 && r.Chance(1, 5) {
			emb := g.structs[r.Intn(i)]
			s.Fields = append(s.Fields, irField{Name: emb.Name, Type: emb.Name, IsEmbedded: true})
		}
		g.structs = append(g.structs, s)
	}
}

// validator strings over the rule table the converters understand, with good and bad values
func (g *irGenCtx) genValidator(ty string) string {
	r := g.r
	base := strings.TrimPrefix(ty, "[]")
	var pool []string
	switch {
	case strings.HasPrefix(ty, "[]"):
		pool = []string{"required", "minItems=1", "maxItems=5", "uniqueItems=true", "dive"}
	case base == "string":
		pool = []string{"required", "email", "uuid", "ip", "ipv4", "ipv6", "hostname", "date", "datetime", "min=2", "max=10", "len=3", "pattern=^a+$", "oneof=a b c", "enum=a|b", "pattern=^[a-z]+=[a-z]+$", "oneof=k=v x=y", "enum=a=1|b=2",
			// rules the spec converters do not read, with characters a template engine escapes: all five routers must hand
			// go-playground the SAME tag text
			"excludesall=<>", "containsany=&'", "startsnotwith=\"q", "pattern=^\\d+$"}
	case base == "bool":
		pool = []string{"required"}
	case base == "float32" || base == "float64":
		pool = []string{"required", "gt=0", "gte=1.5", "lt=10", "lte=9.5", "min=1", "max=3", "oneof=1.5 2"}
	case isPrim(base):
		pool = []string{"required", "gt=0", "gte=1", "lt=10", "lte=9", "min=1", "max=3", "oneof=1 2"}
	default:
		pool = []string{"required"}
	}
	n := 1 + r.Intn(3)
	rules := []string{}
	for i := 0; i < n; i++ {
		if badValidators && r.Chance(1, 3) {
			// arbitrary / malformed validator tags (C14): unparsable numbers, empty values, unknown rules, stray separators
			rules = append(rules, rng.Pick(r, []string{"min=abc", "min=-1", "min=", "max=abc", "len=x", "len=-3", "len=", "minItems=x", "minItems=-1",
				"maxItems=q", "uniqueItems=maybe", "uniqueItems=", "gt=", "gt=abc", "gte=1e400", "lt=abc", "lt=", "lte=--1", "oneof=", "oneof=   ",
				"enum=", "enum=|", "pattern=", "foo=bar", "=", "==", "required=", "dive", "omitempty", "é=ü", "min=9999999999999999999999"}))
			continue
		}
		if r.Chance(1, 3) {
			// the same rules with values drawn from a wider range (every keyword slot of both converters)
			rules = append(rules, g.wideRule(ty))
			continue
		}
		rules = append(rules, rng.Pick(r, pool))
	}
	sep := ","
	if badValidators && r.Chance(1, 10) {
		sep = rng.Pick(r, []string{",,", ", ", ",=,"})
	}
	return strings.Join(rules, sep)
}

var badValidators = os.Getenv("VH_BAD_VALIDATORS") != ""

// wideRule: one rule the converters understand for this type, its value drawn from a range instead of a fixed
// pool; now and then (1 in 12) a value only one converter reads (negative or unparsable length, unparsable bound)
func (g *irGenCtx) wideRule(ty string) string {
	r := g.r
	base := strings.TrimPrefix(ty, "[]")
	num := func() string {
		switch r.Intn(4) {
		case 0:
			return fmt.Sprint(r.Intn(200) - 100)
		case 1:
			return fmt.Sprint(r.Intn(10))
		case 2:
			return "0"
		default:
			return fmt.Sprint(r.Intn(100000))
		}
	}
	dec := func() string {
		if r.Bool() {
			return num()
		}
		return fmt.Sprintf("%d.%d", r.Intn(50)-10, 1+r.Intn(99))
	}
	cnt := func() string { return fmt.Sprint(r.Intn(40)) }
	odd := r.Chance(1, 12)
	switch {
	case strings.HasPrefix(ty, "[]"):
		if odd {
			return rng.Pick(r, []string{"minItems=-2", "maxItems=x", "uniqueItems=maybe", "minItems=", "oneof=a b"})
		}
		return rng.Pick(r, []string{"minItems=" + cnt(), "maxItems=" + cnt(), "uniqueItems=" + rng.Pick(r, []string{"true", "false", "1", "0", "T"})})
	case base == "string":
		if odd {
			return rng.Pick(r, []string{"min=-1", "min=abc", "len=x", "len=-3", "max=", "max=abc", "gt=3", "minItems=2"})
		}
		return rng.Pick(r, []string{"min=" + cnt(), "max=" + cnt(), "len=" + cnt(), "oneof=1 2 x", "oneof=true false", "oneof=" + num() + " " + num(),
			"enum=1|true|x", "enum=" + num() + "|" + num(), "oneof=1.5 a", "pattern=^[0-9]+$", "email", "datetime", "ip"})
	case base == "bool":
		if odd {
			return rng.Pick(r, []string{"oneof=maybe true", "min=1", "enum=x|true"})
		}
		return rng.Pick(r, []string{"oneof=true false", "oneof=true", "enum=true|false", "enum=false"})
	case base == "float32" || base == "float64":
		if odd {
			return rng.Pick(r, []string{"gt=abc", "lte=", "oneof=x 1.5", "max=q"})
		}
		return rng.Pick(r, []string{"gt=" + dec(), "gte=" + dec(), "lt=" + dec(), "lte=" + dec(), "min=" + dec(), "max=" + dec(),
			"oneof=" + dec() + " " + dec(), "enum=" + dec() + "|" + dec()})
	case isPrim(base):
		if odd {
			return rng.Pick(r, []string{"gt=abc", "gte=", "lt=x", "oneof=1 x 3", "enum=1|x", "len=3", "max=--1"})
		}
		return rng.Pick(r, []string{"gt=" + num(), "gte=" + num(), "lt=" + num(), "lte=" + num(), "min=" + num(), "max=" + num(),
			"oneof=" + num() + " " + num() + " " + num(), "enum=" + num() + "|" + num(), "oneof=+5 007"})
	}
	return "required"
}

func isPrim(s string) bool {
	for _, p := range irPrims {
		if p == s {
			return true
		}
	}
	return false
}

func (g *irGenCtx) genSecurity(schemes []irScheme, allowGhost bool) [][]irSecComp {
	r := g.r
	if len(schemes) == 0 || r.Chance(1, 3) {
		return [][]irSecComp{}
	}
	n := 1 + r.Intn(2)
	out := [][]irSecComp{}
	for i := 0; i < n; i++ {
		m := 1 // the reducer (GetSecurityFromContext) emits exactly one component per alternative
		l := []irSecComp{}
		for j := 0; j < m; j++ {
			name := rng.Pick(r, schemes).Name
			if allowGhost && r.Chance(1, 40) {
				name = "ghost"
			} else if allowGhost && r.Chance(1, 40) {
				name = strings.ToUpper(name[:1]) + name[1:] // differs from a declared scheme by letter case only
			}
			sc := []string{}
			for k := r.Intn(3); k > 0; k-- {
				sc = append(sc, rng.Pick(r, []string{"read", "write", "admin", "orders:read&write", "it's"}))
			}
			l = append(l, irSecComp{Name: name, Scopes: sc})
		}
		out = append(out, l)
	}
	return out
}

func (g *irGenCtx) nextSerial() uint64 { g.serial++; return g.serial }

func lowerFirst(s string) string {
	if s == "" {
		return s
	}
	return strings.ToLower(s[:1]) + s[1:]
}

func (g *irGenCtx) genRoute(ci, ri int, ctrlPath string, schemes []irScheme, perturb bool) irRoute {
	r := g.r
	rt := irRoute{OpId: fmt.Sprintf("Op%d_%d", ci, ri), Verb: rng.Pick(r, irVerbs), Hidden: r.Chance(1, 6), Deprecated: r.Chance(1, 6),
		Description: rng.Pick(r, []string{"", "does things", "multi\nline"}), RespDescription: rng.Pick(r, []string{"", "ok"}),
		ErrorResponses: []irErrResp{}, Params: []irParam{}}
	// path
	segs := []string{}
	nseg := r.Intn(3)
	pathParams := []string{}
	for i := 0; i < nseg; i++ {
		if r.Chance(1, 3) {
			pn := fmt.Sprintf("p%d", len(pathParams))
			pathParams = append(pathParams, pn)
			segs = append(segs, "{"+pn+"}")
		} else {
			segs = append(segs, rng.Pick(r, []string{"a", "b", "items", "x-y"}))
		}
	}
	segs = append(segs, fmt.Sprintf("r%d_%d", ci, ri)) // keeps (verb,path) pairs distinct
	rt.Path = rng.Pick(r, []string{"/", "/", "/", "", "//"}) + strings.Join(segs, "/") + rng.Pick(r, []string{"", "", "", "/"})
	// {names} of the controller prefix need a binding too
	for _, s := range strings.Split(ctrlPath, "/") {
		if strings.HasPrefix(s, "{") && strings.HasSuffix(s, "}") {
			pathParams = append(pathParams, strings.Trim(s, "{}"))
		}
	}
	ord := 0
	if r.Chance(1, 5) {
		rt.Params = append(rt.Params, irParam{Name: "ctx", Ordinal: ord, IsContext: true, Type: irType{Name: "Context", PkgPath: "context", Alias: "context", SymbolKind: "Special"}})
		ord++
	}
	addParam := func(loc string, wire string) {
		p := irParam{Name: fmt.Sprintf("v%d", ord), Ordinal: ord, PassedIn: loc, NameInSchema: wire, Description: rng.Pick(r, []string{"", "a param"}),
			Deprecated: r.Chance(1, 10), Serial: g.nextSerial()}
		byAddr := loc != "Path" && r.Chance(1, 3)
		switch {
		case loc == "Body":
			if len(g.structs) > 0 && r.Chance(3, 4) {
				p.Type = g.structType(rng.Pick(r, g.structs), byAddr, r.Chance(1, 4))
			} else {
				p.Type = primType(rng.Pick(r, []string{"string", "int", "[]string"}), byAddr)
			}
		case loc == "Query" && r.Chance(1, 4):
			if len(g.enums) > 0 && r.Bool() {
				p.Type = g.enumType(rng.Pick(r, g.enums), byAddr, true)
			} else {
				p.Type = primType("[]"+rng.Pick(r, []string{"string", "int", "bool", "float64"}), byAddr)
			}
		case len(g.enums) > 0 && r.Chance(1, 4):
			p.Type = g.enumType(rng.Pick(r, g.enums), byAddr, false)
		case len(g.aliases) > 0 && r.Chance(1, 6):
			a := rng.Pick(r, g.aliases)
			p.Type = irType{Name: a.Name, PkgPath: a.PkgPath, Alias: "ctl", IsByAddress: byAddr, SymbolKind: "Alias", AliasType: a.Type, AliasValues: []string{}}
		default:
			p.Type = primType(rng.Pick(r, irPrims), byAddr)
		}
		// the reducer appends "required" for non-pointers and path params
		v := ""
		if r.Chance(1, 2) {
			v = g.genValidator(p.Type.Name)
		}
		if !(byAddr && loc != "Path") {
			has := false
			for _, t := range strings.Split(v, ",") {
				if t == "required" {
					has = true
				}
			}
			if v == "" {
				v = "required"
			} else if !has {
				v += ",required"
			}
		}
		p.Validator = v
		rt.Params = append(rt.Params, p)
		ord++
	}
	for _, pp := range pathParams {
		if perturb && r.Chance(1, 10) {
			continue // missing binding
		}
		addParam("Path", pp)
	}
	usedHdr := map[string]bool{}
	for k := r.Intn(3); k > 0; k-- {
		loc := rng.Pick(r, []string{"Query", "Query", "Header"})
		wire := fmt.Sprintf("w%d", ord)
		if loc == "Header" && r.Chance(1, 3) {
			// header names with a meaning of their own are declared parameters like any other, in both documents
			if h := rng.Pick(r, []string{"Authorization", "Accept", "Content-Type", "authorization", "X-Request-Id", "If-Match"}); !usedHdr[strings.ToLower(h)] {
				usedHdr[strings.ToLower(h)] = true
				wire = h
			}
		}
		addParam(loc, wire)
	}
	if rt.Verb != "GET" && rt.Verb != "DELETE" {
		switch r.Intn(4) {
		case 0:
			addParam("Body", "body")
		case 1:
			for k := 1 + r.Intn(2); k > 0; k-- {
				addParam("Form", fmt.Sprintf("f%d", ord))
			}
		}
	}
	// responses
	errT := irType{Name: "error", IsUniverse: true, SymbolKind: "Special"}
	if len(g.structs) > 0 && r.Chance(1, 6) {
		errT = g.structType(rng.Pick(r, g.structs), r.Bool(), false)
	} else if n := len(g.structs); n > 0 && g.structs[n-1].Name == "Error" && r.Chance(1, 3) {
		errT = g.structType(g.structs[n-1], r.Bool(), false)
	}
	if r.Chance(1, 2) {
		var vt irType
		switch c := r.Intn(6); {
		case c < 2 && len(g.structs) > 0:
			vt = g.structType(rng.Pick(r, g.structs), r.Chance(1, 3), r.Chance(1, 4))
		case c < 3 && len(g.enums) > 0:
			vt = g.enumType(rng.Pick(r, g.enums), false, false)
		default:
			vt = primType(rng.Pick(r, []string{"string", "int", "bool", "[]string", "map[string]int", "any", "time.Time", "[]byte"}), false)
		}
		rt.Responses = []irType{vt, errT}
		rt.RespSerials = []uint64{g.nextSerial(), g.nextSerial()}
		rt.HasReturnValue = true
		rt.SuccessCode = rng.Pick(r, []uint{200, 200, 201, 202, 204})
	} else {
		rt.Responses = []irType{errT}
		rt.RespSerials = []uint64{g.nextSerial()}
		rt.SuccessCode = rng.Pick(r, []uint{204, 204, 200})
	}
	codes := []uint{400, 404, 409, 500, 502}
	rng.Shuffle(r, codes)
	for k := r.Intn(3); k > 0; k-- {
		rt.ErrorResponses = append(rt.ErrorResponses, irErrResp{Code: codes[k], Description: rng.Pick(r, []string{"", "failure"})})
	}
	if r.Chance(1, 12) {
		// an error response under the SAME status code as the success response (an in-band soft failure)
		rt.ErrorResponses = append(rt.ErrorResponses, irErrResp{Code: rt.SuccessCode, Description: "soft failure"})
	}
	rt.Security = g.genSecurity(schemes, perturb)
	return rt
}

func genIRDoc(r *rng.R, perturb bool, engines []string) irDoc {
	g := &irGenCtx{r: r}
	d := irDoc{Engines: engines, Imports: map[string][]string{}}
	d.Config = irConfig{Title: rng.Pick(r, []string{"API", "My API é"}), Version: rng.Pick(r, []string{"1.0.0", "v2"}), InfoDescription: rng.Pick(r, []string{"", "desc"}),
		BaseUrl: rng.Pick(r, []string{"https://api.example.com", "http://localhost:8080/v1"}), PackageName: rng.Pick(r, []string{"", "routes", "api"}),
		ValidateResp: r.Chance(1, 4), TopLevelEnum: r.Chance(1, 4), EnumValidator: r.Chance(1, 4), Enforce: false}
	ns := r.Intn(4)
	for i := 0; i < ns; i++ {
		s := irScheme{Name: fmt.Sprintf("sec%d", i), Description: "scheme", FieldName: "x-key"}
		if r.Bool() {
			s.Type, s.In = "apiKey", rng.Pick(r, []string{"header", "query", "cookie"})
		} else {
			s.Type, s.Scheme = "http", rng.Pick(r, []string{"bearer", "basic"})
			s.FieldName = ""
		}
		d.Config.Schemes = append(d.Config.Schemes, s)
	}
	if ns > 0 && r.Chance(1, 2) {
		d.Config.DefaultSecurity = &irSecComp{Name: d.Config.Schemes[r.Intn(ns)].Name, Scopes: []string{"read"}[:r.Intn(2)]}
	}
	if perturb && r.Chance(1, 12) {
		d.Config.DefaultSecurity = &irSecComp{Name: "ghost", Scopes: []string{}}
	}
	g.genModels()
	nc := 1 + r.Intn(3)
	usesPlainError := false
	noLead := r.Chance(1, 12) // templates without a leading slash (kin-openapi refuses such paths)
	for ci := 0; ci < nc; ci++ {
		c := irController{Name: fmt.Sprintf("Ctl%d", ci), PkgPath: ctlPkg, Tag: rng.Pick(r, []string{"", fmt.Sprintf("Tag%d", ci), "Shared Tag"}),
			Description: rng.Pick(r, []string{"", "controller"})}
		c.Path = rng.Pick(r, []string{fmt.Sprintf("/c%d", ci), fmt.Sprintf("/c%d/", ci), fmt.Sprintf("/api/c%d", ci), fmt.Sprintf("/t/{tenant}/c%d", ci), fmt.Sprintf("//c%d", ci), ""})
		if noLead {
			c.Path = strings.TrimLeft(c.Path, "/")
		}
		c.Security = g.genSecurity(d.Config.Schemes, false)
		if len(c.Security) == 0 && d.Config.DefaultSecurity != nil {
			// ControllerMeta.Reduce: a controller without explicit security takes the configured default
			c.Security = [][]irSecComp{{*d.Config.DefaultSecurity}}
		}
		nr := 1 + r.Intn(4)
		for ri := 0; ri < nr; ri++ {
			rt := g.genRoute(ci, ri, c.Path, d.Config.Schemes, perturb)
			// the reducer resolves inheritance: route > controller (the emitters/templates add the default)
			if len(rt.Security) == 0 {
				rt.Security = c.Security
			}
			if rt.Responses[len(rt.Responses)-1].Name == "error" {
				usesPlainError = true
			}
			c.Routes = append(c.Routes, rt)
			if r.Chance(1, 5) {
				// a second verb on the SAME template (one path item, two operations)
				tw := rt
				tw.OpId = rt.OpId + "t"
				for tw.Verb == rt.Verb {
					tw.Verb = rng.Pick(r, irVerbs)
				}
				tw.Params = append([]irParam{}, rt.Params...)
				tw.Hidden = false
				c.Routes = append(c.Routes, tw)
			}
		}
		d.Controllers = append(d.Controllers, c)
	}
	d.Structs, d.Enums, d.Aliases = g.structs, g.enums, g.aliases
	if d.Structs == nil {
		d.Structs = []irStruct{}
	}
	if d.Enums == nil {
		d.Enums = []irEnum{}
	}
	if d.Aliases == nil {
		d.Aliases = []irAlias{}
	}
	d.PlainError = usesPlainError
	// imports as the pipeline would compute them
	add := func(pkg, name string) {
		for _, x := range d.Imports[pkg] {
			if x == name {
				return
			}
		}
		d.Imports[pkg] = append(d.Imports[pkg], name)
	}
	for _, c := range d.Controllers {
		add(c.PkgPath, c.Name)
		for _, rt := range c.Routes {
			for _, p := range rt.Params {
				if p.Type.PkgPath != "" {
					add(p.Type.PkgPath, fmt.Sprintf("Param%d%s", p.Serial, p.Name))
				}
			}
			for i, t := range rt.Responses {
				if t.PkgPath != "" {
					add(t.PkgPath, fmt.Sprintf("Response%d%s", rt.RespSerials[i], strings.TrimPrefix(t.Name, "[]")))
				}
			}
		}
	}
	return d
}

func genIR(seed uint64, n int, tier string, emit func(string, []string, any)) {
	r := rng.New(seed)
	allEngines := []string{"gin", "echo", "mux", "chi", "fiber"}
	for i := 0; i < n; i++ {
		cr := r.Fork()
		perturb := cr.Chance(1, 5)
		engines := []string{allEngines[i%5]}
		if i%10 == 0 || os.Getenv("VH_ALL_ENGINES") != "" {
			engines = allEngines
		}
		d := genIRDoc(cr, perturb, engines)
		tags := []string{}
		if perturb {
			tags = append(tags, "perturbed")
		}
		emit("ir", tags, d)
	}
}

func init() { gens["ir"] = genIR }
