package main

import (
	"encoding/json"
	"fmt"
	"go/ast"
	"go/token"
	"sort"
	"time"

	"verifharness/rng"

	"github.com/gopher-fleece/gleece/v2/common"
	"github.com/gopher-fleece/gleece/v2/core/metadata"
	"github.com/gopher-fleece/gleece/v2/gast"
	"github.com/gopher-fleece/gleece/v2/graphs"
	"github.com/gopher-fleece/gleece/v2/graphs/symboldg"
)

// ---- mode "graph" (C17): an operation history applied to a real symboldg.SymbolGraph through its public
// interface, with ALL queries dumped after EVERY operation.
//
// key universe: bases 0..n-1 (declared symbols, versions 1..2) and 100,101 (universe primitives string,int).

type gKey struct {
	B int `json:"b"`
	V int `json:"v"`
}

type gOp struct {
	Op     string  `json:"op"`
	K      *gKey   `json:"k,omitempty"`
	F      *gKey   `json:"f,omitempty"`
	T      *gKey   `json:"t,omitempty"`
	Kind   string  `json:"kind,omitempty"`  // node kind or edge kind
	EKind  *string `json:"ekind,omitempty"` // removeEdge: nil = all kinds
	Fields []gKey  `json:"fields,omitempty"`
	Values []gKey  `json:"values,omitempty"`
	Prim   int     `json:"prim,omitempty"`
}

type gIn struct {
	N   int   `json:"n"`
	Ops []gOp `json:"ops"`
}

type gDump struct {
	Nodes    [][3]any         `json:"nodes"`    // [base, ver, kind] sorted
	Edges    map[string][]any `json:"edges"`    // base -> sorted [[from,kind,to,ord]]
	Children map[string][]int `json:"children"` // existing base -> child bases, ordinal asc
	Parents  map[string][]int `json:"parents"`  // existing base -> parent bases, ordinal asc
	Desc     map[string][]int `json:"desc"`     // existing base -> sorted descendant bases
	Err      string           `json:"err,omitempty"`
}

func init() {
	impls["graph"] = implGraph
	gens["graph"] = genGraph
}

var primNames = map[int]string{100: "string", 101: "int"}

// mkVersion: a file version has two components (modification time, content hash); the model's version number v
// stands for the pair (v/2 + 1, v%3): consecutive numbers often differ in ONE component only - a touched file with the
// same content, or new content under the same time - and are different versions all the same
func mkVersion(v int) *gast.FileVersion {
	return &gast.FileVersion{Path: "/p.go", ModTime: time.Unix(int64(v/2+1), 0), Hash: fmt.Sprintf("h%d", v%3)}
}

func mkIdent(b int) *ast.Ident {
	return &ast.Ident{Name: fmt.Sprintf("N%d", b), NamePos: token.Pos(1000 + b)}
}

func mkKey(k gKey) graphs.SymbolKey {
	if n, ok := primNames[k.B]; ok {
		return graphs.NewUniverseSymbolKey(n)
	}
	return graphs.NewSymbolKey(mkIdent(k.B), mkVersion(k.V))
}

func baseOf(sk graphs.SymbolKey) int {
	if sk.IsUniverse {
		for b, n := range primNames {
			if n == sk.Name {
				return b
			}
		}
		return -1
	}
	return int(sk.Position) - 1000
}

func verOf(sk graphs.SymbolKey, n *symboldg.SymbolNode) int {
	if sk.IsUniverse {
		return 0
	}
	if n != nil && n.Version != nil {
		// invert mkVersion on the range the generator uses
		for v := 0; v < 64; v++ {
			if mv := mkVersion(v); mv.ModTime.Equal(n.Version.ModTime) && mv.Hash == n.Version.Hash {
				return v
			}
		}
		return -2
	}
	return -1
}

func symMeta(k gKey, kind common.SymKind) metadata.SymNodeMeta {
	return metadata.SymNodeMeta{Name: fmt.Sprintf("N%d", k.B), Node: mkIdent(k.B), SymbolKind: kind, FVersion: mkVersion(k.V)}
}

func applyGraphOp(g *symboldg.SymbolGraph, op gOp) error {
	switch op.Op {
	case "addNode":
		switch op.Kind {
		case "Alias":
			_, err := g.AddAlias(symboldg.CreateAliasNode{Data: metadata.AliasMeta{SymNodeMeta: symMeta(*op.K, common.SymKindAlias)}})
			return err
		default:
			_, err := g.AddConst(symboldg.CreateConstNode{Data: metadata.ConstMeta{SymNodeMeta: symMeta(*op.K, common.SymKindConstant)}})
			return err
		}
	case "addStruct":
		fields := []metadata.FieldMeta{}
		for _, f := range op.Fields {
			fields = append(fields, metadata.FieldMeta{SymNodeMeta: symMeta(f, common.SymKindField)})
		}
		_, err := g.AddStruct(symboldg.CreateStructNode{Data: metadata.StructMeta{SymNodeMeta: symMeta(*op.K, common.SymKindStruct), Fields: fields}})
		return err
	case "addEnum":
		vals := []metadata.EnumValueDefinition{}
		for _, f := range op.Values {
			vals = append(vals, metadata.EnumValueDefinition{SymNodeMeta: symMeta(f, common.SymKindConstant)})
		}
		_, err := g.AddEnum(symboldg.CreateEnumNode{Data: metadata.EnumMeta{SymNodeMeta: symMeta(*op.K, common.SymKindEnum),
			ValueKind: metadata.EnumValueKind(primNames[op.Prim]), Values: vals}})
		return err
	case "addPrim":
		g.AddPrimitive(common.PrimitiveType(primNames[op.K.B]))
		return nil
	case "addEdge":
		g.AddEdge(mkKey(*op.F), mkKey(*op.T), symboldg.SymbolEdgeKind(op.Kind), nil)
		return nil
	case "removeEdge":
		var kp *symboldg.SymbolEdgeKind
		if op.EKind != nil {
			k := symboldg.SymbolEdgeKind(*op.EKind)
			kp = &k
		}
		g.RemoveEdge(mkKey(*op.F), mkKey(*op.T), kp)
		return nil
	case "removeNode":
		g.RemoveNode(mkKey(*op.K))
		return nil
	}
	return fmt.Errorf("unknown graph op %q", op.Op)
}

var allNodeKinds = []common.SymKind{common.SymKindStruct, common.SymKindAlias, common.SymKindEnum, common.SymKindConstant,
	common.SymKindField, common.SymKindBuiltin, common.SymKindSpecialBuiltin, common.SymKindController, common.SymKindReceiver}

func dumpGraph(g *symboldg.SymbolGraph, n int) gDump {
	d := gDump{Nodes: [][3]any{}, Edges: map[string][]any{}, Children: map[string][]int{}, Parents: map[string][]int{}, Desc: map[string][]int{}}
	bases := []int{}
	for b := 0; b < n; b++ {
		bases = append(bases, b)
	}
	bases = append(bases, 100, 101)
	// nodes through FindByKind (every kind) cross-checked with Exists/Get
	found := map[int]*symboldg.SymbolNode{}
	for _, nd := range g.FindByKind(allNodeKinds...) {
		found[baseOf(nd.Id)] = nd
	}
	for _, b := range bases {
		probe := mkKey(gKey{b, 1})
		nd := g.Get(probe)
		if (nd != nil) != g.Exists(probe) {
			d.Err += fmt.Sprintf("Exists/Get disagree on %d;", b)
		}
		if (nd != nil) != (found[b] != nil) {
			d.Err += fmt.Sprintf("FindByKind/Get disagree on %d;", b)
		}
		if nd != nil {
			single := g.FindByKind(nd.Kind)
			ok := false
			for _, s := range single {
				if s == nd {
					ok = true
				}
			}
			if !ok {
				d.Err += fmt.Sprintf("FindByKind(single) misses %d;", b)
			}
			d.Nodes = append(d.Nodes, [3]any{b, verOf(nd.Id, nd), string(nd.Kind)})
		}
		type er struct {
			f    int
			k    string
			t    int
			o    uint32
			mapk string
		}
		var es []er
		for mk, desc := range g.GetEdges(probe, nil) {
			es = append(es, er{baseOf(desc.Edge.From), string(desc.Edge.Kind), baseOf(desc.Edge.To), desc.Ordinal, mk})
		}
		sort.Slice(es, func(i, j int) bool {
			if es[i].o != es[j].o {
				return es[i].o < es[j].o
			}
			return es[i].mapk < es[j].mapk
		})
		lst := []any{}
		for _, e := range es {
			lst = append(lst, []any{e.f, e.k, e.t, e.o})
		}
		d.Edges[fmt.Sprint(b)] = lst
		if nd != nil {
			asc := &symboldg.TraversalBehavior{Sorting: symboldg.TraversalSortingOrdinalAsc}
			ch := []int{}
			for _, c := range g.Children(nd, asc) {
				ch = append(ch, baseOf(c.Id))
			}
			d.Children[fmt.Sprint(b)] = ch
			chU := []int{}
			for _, c := range g.Children(nd, nil) {
				chU = append(chU, baseOf(c.Id))
			}
			if !sameMultiset(ch, chU) {
				d.Err += fmt.Sprintf("children sorted/unsorted differ on %d;", b)
			}
			pa := []int{}
			for _, c := range g.Parents(nd, asc) {
				pa = append(pa, baseOf(c.Id))
			}
			d.Parents[fmt.Sprint(b)] = pa
			paU := []int{}
			for _, c := range g.Parents(nd, nil) {
				paU = append(paU, baseOf(c.Id))
			}
			if !sameMultiset(pa, paU) {
				d.Err += fmt.Sprintf("parents sorted/unsorted differ on %d;", b)
			}
			// filtered traversals (node kinds, a filter function, edge kinds), sorted and unsorted: each must be the
			// unfiltered answer restricted by the same predicate ON THE RETURNED NODE / THE TRAVERSED EDGE
			kindOf := map[int]common.SymKind{}
			for _, c := range g.Children(nd, nil) {
				kindOf[baseOf(c.Id)] = c.Kind
			}
			for _, c := range g.Parents(nd, nil) {
				kindOf[baseOf(c.Id)] = c.Kind
			}
			restrict := func(all []int, keep func(int) bool) []int {
				o := []int{}
				for _, x := range all {
					if keep(x) {
						o = append(o, x)
					}
				}
				return o
			}
			basesOf := func(ns []*symboldg.SymbolNode) []int {
				o := []int{}
				for _, c := range ns {
					o = append(o, baseOf(c.Id))
				}
				return o
			}
			for _, srt := range []symboldg.TraversalResultSorting{symboldg.TraversalSortingOrdinalAsc, 0} {
				for _, k := range allNodeKinds {
					k := k
					beh := &symboldg.TraversalBehavior{Sorting: srt, Filtering: symboldg.TraversalFilter{NodeKinds: []common.SymKind{k}}}
					if !sameMultiset(basesOf(g.Children(nd, beh)), restrict(ch, func(x int) bool { return kindOf[x] == k })) {
						d.Err += fmt.Sprintf("children filtered by node kind %s differ on %d;", k, b)
					}
					if !sameMultiset(basesOf(g.Parents(nd, beh)), restrict(pa, func(x int) bool { return kindOf[x] == k })) {
						d.Err += fmt.Sprintf("parents filtered by node kind %s differ on %d;", k, b)
					}
				}
				for _, skip := range bases {
					skip := skip
					beh := &symboldg.TraversalBehavior{Sorting: srt, Filtering: symboldg.TraversalFilter{FilterFunc: func(n *symboldg.SymbolNode) bool { return baseOf(n.Id) != skip }}}
					if !sameMultiset(basesOf(g.Children(nd, beh)), restrict(ch, func(x int) bool { return x != skip })) {
						d.Err += fmt.Sprintf("children filtered by function (not %d) differ on %d;", skip, b)
					}
					if !sameMultiset(basesOf(g.Parents(nd, beh)), restrict(pa, func(x int) bool { return x != skip })) {
						d.Err += fmt.Sprintf("parents filtered by function (not %d) differ on %d;", skip, b)
					}
				}
				// both filters at once: a neighbour is returned iff its kind is listed AND the predicate accepts it
				for _, k := range allNodeKinds {
					k := k
					for _, skip := range bases {
						skip := skip
						beh := &symboldg.TraversalBehavior{Sorting: srt, Filtering: symboldg.TraversalFilter{NodeKinds: []common.SymKind{k},
							FilterFunc: func(n *symboldg.SymbolNode) bool { return baseOf(n.Id) != skip }}}
						if !sameMultiset(basesOf(g.Children(nd, beh)), restrict(ch, func(x int) bool { return kindOf[x] == k && x != skip })) {
							d.Err += fmt.Sprintf("children filtered by node kind %s AND function (not %d) differ on %d;", k, skip, b)
						}
						if !sameMultiset(basesOf(g.Parents(nd, beh)), restrict(pa, func(x int) bool { return kindOf[x] == k && x != skip })) {
							d.Err += fmt.Sprintf("parents filtered by node kind %s AND function (not %d) differ on %d;", k, skip, b)
						}
					}
				}
				ekinds := map[string]bool{}
				for _, e := range es {
					ekinds[e.k] = true
				}
				for ek := range ekinds {
					beh := &symboldg.TraversalBehavior{Sorting: srt, Filtering: symboldg.TraversalFilter{EdgeKinds: []symboldg.SymbolEdgeKind{symboldg.SymbolEdgeKind(ek)}}}
					wantC, wantP := []int{}, []int{}
					for _, e := range es {
						if e.k == ek && e.f == b && g.Get(mkKey(gKey{e.t, 1})) != nil {
							wantC = append(wantC, e.t)
						}
						if e.k == ek && e.t == b && g.Get(mkKey(gKey{e.f, 1})) != nil {
							wantP = append(wantP, e.f)
						}
					}
					// as SETS: a parent recorded under two file versions is listed once per version and edge
					if !sameSet(basesOf(g.Children(nd, beh)), wantC) {
						d.Err += fmt.Sprintf("children filtered by edge kind %s differ on %d;", ek, b)
					}
					if !sameSet(basesOf(g.Parents(nd, beh)), wantP) {
						d.Err += fmt.Sprintf("parents filtered by edge kind %s differ on %d (got %v want %v);", ek, b, basesOf(g.Parents(nd, beh)), wantP)
					}
				}
			}
			ds := []int{}
			for _, c := range g.Descendants(nd, nil) {
				ds = append(ds, baseOf(c.Id))
			}
			sort.Ints(ds)
			d.Desc[fmt.Sprint(b)] = ds
		}
	}
	return d
}

func sameSet(a, b []int) bool {
	in := func(x int, l []int) bool {
		for _, y := range l {
			if x == y {
				return true
			}
		}
		return false
	}
	for _, x := range a {
		if !in(x, b) {
			return false
		}
	}
	for _, x := range b {
		if !in(x, a) {
			return false
		}
	}
	return true
}

func sameMultiset(a, b []int) bool {
	if len(a) != len(b) {
		return false
	}
	x := append([]int{}, a...)
	y := append([]int{}, b...)
	sort.Ints(x)
	sort.Ints(y)
	for i := range x {
		if x[i] != y[i] {
			return false
		}
	}
	return true
}

func implGraph(in json.RawMessage) (any, error) {
	var gi gIn
	if err := json.Unmarshal(in, &gi); err != nil {
		return nil, err
	}
	g := symboldg.NewSymbolGraph()
	out := []gDump{}
	for _, op := range gi.Ops {
		err := applyGraphOp(&g, op)
		d := dumpGraph(&g, gi.N)
		if err != nil {
			d.Err += "op-error:" + err.Error()
		}
		out = append(out, d)
	}
	return out, nil
}

var edgeKinds = []string{"ty", "ref", "fld", "val"}

func genGraphOp(r *rng.R, n int, nver int, withPrims bool) gOp {
	key := func() *gKey {
		if withPrims && r.Chance(1, 8) {
			return &gKey{100 + r.Intn(2), 0}
		}
		return &gKey{r.Intn(n), 1 + r.Intn(nver)}
	}
	decl := func() *gKey { return &gKey{r.Intn(n), 1 + r.Intn(nver)} }
	switch c := r.Intn(100); {
	case c < 18:
		return gOp{Op: "addNode", K: decl(), Kind: rng.Pick(r, []string{"Alias", "Const"})}
	case c < 26:
		fs := []gKey{}
		for i := r.Intn(3); i > 0; i-- {
			fs = append(fs, *decl())
		}
		return gOp{Op: "addStruct", K: decl(), Fields: fs}
	case c < 31:
		vs := []gKey{}
		for i := r.Intn(3); i > 0; i-- {
			vs = append(vs, *decl())
		}
		return gOp{Op: "addEnum", K: decl(), Values: vs, Prim: 100 + r.Intn(2)}
	case c < 35:
		return gOp{Op: "addPrim", K: &gKey{100 + r.Intn(2), 0}}
	case c < 65:
		return gOp{Op: "addEdge", F: key(), T: key(), Kind: rng.Pick(r, edgeKinds)}
	case c < 82:
		op := gOp{Op: "removeEdge", F: key(), T: key()}
		if r.Bool() {
			k := rng.Pick(r, edgeKinds)
			op.EKind = &k
		}
		return op
	default:
		return gOp{Op: "removeNode", K: key()}
	}
}

func genGraph(seed uint64, n int, tier string, emit func(string, []string, any)) {
	r := rng.New(seed)
	ty, ref := "ty", "ref"
	_ = ref
	corpus := []gIn{
		{N: 3, Ops: []gOp{{Op: "addNode", K: &gKey{0, 1}, Kind: "Alias"}, {Op: "addNode", K: &gKey{1, 1}, Kind: "Alias"},
			{Op: "addEdge", F: &gKey{0, 1}, T: &gKey{1, 1}, Kind: "ty"}, {Op: "addEdge", F: &gKey{0, 1}, T: &gKey{1, 1}, Kind: "ref"},
			{Op: "removeEdge", F: &gKey{0, 1}, T: &gKey{1, 1}, EKind: &ty}}},
		{N: 3, Ops: []gOp{{Op: "addNode", K: &gKey{0, 1}, Kind: "Alias"}, {Op: "addNode", K: &gKey{1, 1}, Kind: "Alias"},
			{Op: "addEdge", F: &gKey{0, 1}, T: &gKey{1, 1}, Kind: "ty"}, {Op: "addEdge", F: &gKey{1, 1}, T: &gKey{0, 1}, Kind: "ty"},
			{Op: "removeNode", K: &gKey{0, 1}}}},
		{N: 3, Ops: []gOp{{Op: "addNode", K: &gKey{0, 1}, Kind: "Alias"}, {Op: "addNode", K: &gKey{1, 1}, Kind: "Alias"},
			{Op: "addEdge", F: &gKey{0, 1}, T: &gKey{1, 1}, Kind: "ty"}, {Op: "addNode", K: &gKey{1, 2}, Kind: "Alias"}}},
	}
	for _, c := range corpus {
		emit("graph", []string{"corpus"}, c)
	}
	if tier == "thorough" {
		// exhaustive: every history of length <= 3 over a 2-key, 1-version, 2-edge-kind universe
		var alpha []gOp
		t := "ty"
		for b := 0; b < 2; b++ {
			alpha = append(alpha, gOp{Op: "addNode", K: &gKey{b, 1}, Kind: "Alias"}, gOp{Op: "removeNode", K: &gKey{b, 1}})
			for c := 0; c < 2; c++ {
				for _, k := range []string{"ty", "ref"} {
					alpha = append(alpha, gOp{Op: "addEdge", F: &gKey{b, 1}, T: &gKey{c, 1}, Kind: k})
				}
				alpha = append(alpha, gOp{Op: "removeEdge", F: &gKey{b, 1}, T: &gKey{c, 1}}, gOp{Op: "removeEdge", F: &gKey{b, 1}, T: &gKey{c, 1}, EKind: &t})
			}
		}
		var rec func(cur []gOp, k int)
		rec = func(cur []gOp, k int) {
			if len(cur) == 3 || (len(cur) > 0 && k == 0) {
				emit("graph", []string{"exhaustive"}, gIn{N: 2, Ops: append([]gOp{}, cur...)})
			}
			if k == 0 {
				return
			}
			for _, a := range alpha {
				rec(append(cur, a), k-1)
			}
		}
		rec(nil, 3)
	}
	for i := 0; i < n; i++ {
		cr := r.Fork()
		nk := 2 + cr.Intn(4)
		nver := 1 + cr.Intn(4) // 2 vs 3 share the modification time, 1 vs 4 the content hash: still different versions
		if cr.Chance(1, 2) {
			nver = 1
		}
		withPrims := cr.Bool()
		l := 1 + cr.Intn(40)
		ops := make([]gOp, 0, l)
		for j := 0; j < l; j++ {
			ops = append(ops, genGraphOp(cr, nk, nver, withPrims))
		}
		emit("graph", nil, gIn{N: nk, Ops: ops})
	}
}
