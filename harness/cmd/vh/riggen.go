package main

import (
	"fmt"
	"net/url"
	"strings"

	"verifharness/rng"
)

// Generator for mode "rig": small projects that exercise every parameter location, pointer / non-pointer,
// every integer width, bool, string, string-enums, query slices, JSON bodies, form fields, 0-2 security
// alternatives at method / controller / default level, hidden routes; and for every route a family of
// requests: happy path, every alternative denied, first alternative denied, one required parameter missing,
// optional parameters absent, integer boundaries (max ok, max+1 refused), malformed values, percent-encoded
// values, an undocumented path.

type rigParam struct {
	name, ty, loc, wire string
	ptr                 bool
	validate            string // a declared validator (beyond the implicit `required`)
}

// rigOneof: a rule whose argument has quotes and a blank - the routers must hand go-playground this very text
const rigOneof = "oneof='light blue' navy"

var rigIntRange = map[string][2]string{
	"int8": {"127", "128"}, "int16": {"32767", "32768"}, "int32": {"2147483647", "2147483648"}, "int64": {"9223372036854775807", "9223372036854775808"},
	"int": {"9223372036854775807", "9223372036854775808"}, "uint8": {"255", "256"}, "uint16": {"65535", "65536"}, "uint32": {"4294967295", "4294967296"},
	"uint64": {"18446744073709551615", "18446744073709551616"}, "uint": {"18446744073709551615", "18446744073709551616"},
}

func rigGoodValue(r *rng.R, ty string) string {
	switch ty {
	case "string":
		return rng.Pick(r, []string{"hello", "a b", "x-1", "Z"})
	case "bool":
		return rng.Pick(r, []string{"true", "false", "1", "T"})
	case "Color":
		return rng.Pick(r, []string{"red", "green"})
	case "float64", "float32":
		// exactly representable, printed by %v as written
		return rng.Pick(r, []string{"0", "7", "-3", "2.5", "0.25", "-12.75"})
	}
	if strings.HasPrefix(ty, "uint") {
		return rng.Pick(r, []string{"0", "7", "42"})
	}
	return rng.Pick(r, []string{"0", "7", "-3", "42"})
}

func genRigCase(r *rng.R) rigIn {
	p := pProject{}
	p.Config = pConfig{Engine: "gin", OpenAPI: "3.0.0", PackageName: "routes",
		Schemes: []irScheme{{Name: "sec0", Type: "apiKey", In: "header", FieldName: "x-a", Description: "d"}, {Name: "sec1", Type: "apiKey", In: "header", FieldName: "x-b", Description: "d"}}}
	switch r.Intn(3) {
	case 0:
		p.Config.DefaultSecurity = &irSecComp{Name: "sec1", Scopes: []string{}}
	case 1:
		p.Config.DefaultSecurity = &irSecComp{Name: "sec0", Scopes: []string{"read"}}
	}
	p.Types = []pType{
		{Kind: "struct", Name: "Item", Pkg: "ctl", File: "types.go", Fields: []pField{{Name: "Name", Type: "string", Tag: `json:"name" validate:"required"`}, {Name: "Count", Type: "int", Tag: `json:"count" validate:"gte=0"`}}},
		{Kind: "enum", Name: "Color", Pkg: "ctl", File: "types.go", Base: "string", Consts: [][2]string{{"ColorRed", `"red"`}, {"ColorGreen", `"green"`}}},
		// the same shape in another package: a parameter of the same NAME with a type from another package needs its own import alias
		{Kind: "struct", Name: "Parcel", Pkg: "other", File: "models.go", Fields: []pField{{Name: "Name", Type: "string", Tag: `json:"name" validate:"required"`}, {Name: "Count", Type: "int", Tag: `json:"count" validate:"gte=0"`}}},
		// … and a type of the other package that shares its NAME with one of the controller's package: `other.Item` is not `Item`
		{Kind: "struct", Name: "Item", Pkg: "other", File: "models.go", Fields: []pField{{Name: "Name", Type: "string", Tag: `json:"name" validate:"required"`}, {Name: "Count", Type: "int", Tag: `json:"count" validate:"gte=0"`}}},
		// an alias DECLARATION to a qualified type, used as a body
		{Kind: "alias", Name: "Payload", Pkg: "ctl", File: "types.go", Base: "other.Parcel", Assign: true},
		// `required` on a by-value struct field is a no-op for go-playground's default validator (every engine uses it)
		{Kind: "struct", Name: "Meta", Pkg: "ctl", File: "types.go", Fields: []pField{{Name: "Note", Type: "string", Tag: `json:"note"`}}},
		{Kind: "struct", Name: "Wrap", Pkg: "ctl", File: "types.go", Fields: []pField{{Name: "Meta", Type: "Meta", Tag: `json:"meta" validate:"required"`}, {Name: "Name", Type: "string", Tag: `json:"name" validate:"required"`}}},
		{Kind: "struct", Name: "Failure", Pkg: "ctl", File: "types.go", Fields: []pField{{Name: "Err", Type: "error", Tag: `json:"-"`}, {Name: "Code", Type: "int", Tag: `json:"code"`}}},
		// a custom error type (it EMBEDS error): methods return it by value or by address, next to a payload that is by value or by address
		{Kind: "struct", Name: "Problem", Pkg: "ctl", File: "types.go", Fields: []pField{{Type: "error", Embedded: true}, {Name: "Code", Type: "int", Tag: `json:"code"`}}},
		// a generic struct instantiated with a slice type argument as a JSON body
		{Kind: "struct", Name: "Page[T any]", Pkg: "ctl", File: "types.go", Fields: []pField{{Name: "Items", Type: "T", Tag: `json:"items"`}}},
	}
	p.Config.Globs = []string{"./ctl/*.go"}
	p.Config.EnumValidator, p.Config.TopLevelEnum, p.Config.ValidateResp = r.Chance(1, 3), r.Chance(1, 3), r.Chance(1, 3)
	if p.Config.EnumValidator {
		// generated `<enum>_enum` validators: a member with a character HTML would escape
		p.Types = append(p.Types,
			pType{Kind: "enum", Name: "Dept", Pkg: "ctl", File: "types.go", Base: "string", Consts: [][2]string{{"DeptEng", `"eng"`}, {"DeptRnd", `"r&d"`}}},
			pType{Kind: "struct", Name: "Employee", Pkg: "ctl", File: "types.go", Fields: []pField{{Name: "Name", Type: "string", Tag: `json:"name" validate:"required"`}, {Name: "Dept", Type: "Dept", Tag: `json:"dept" validate:"required,dept_enum"`}}})
	}
	expectRefused := r.Chance(1, 14)
	reqs := []rigReq{}
	rid := 0
	add := func(q rigReq) {
		q.ID = rid
		rid++
		reqs = append(reqs, q)
	}
	scalarTypes := []string{"string", "int", "int8", "int16", "int32", "int64", "uint", "uint8", "uint16", "uint32", "uint64", "bool", "Color", "float64", "float32"}
	unformattable := r.Chance(1, 12)
	nc := 1 + r.Intn(2)
	sharedOps := r.Chance(1, 3)
	for ci := 0; ci < nc; ci++ {
		prefix := rng.Pick(r, []string{fmt.Sprintf("/c%d", ci), fmt.Sprintf("/api/c%d", ci), fmt.Sprintf("/c%d/", ci)})
		c := pController{Name: fmt.Sprintf("Ctl%d", ci), Pkg: "ctl", File: fmt.Sprintf("c%d.go", ci),
			Annots: []pAnnot{{Name: "Tag", Value: fmt.Sprintf("T%d", ci)}, {Name: "Route", Value: prefix}}}
		ctrlSec := [][]irSecComp{}
		if r.Chance(1, 3) {
			c.Annots = append(c.Annots, pAnnot{Name: "Security", Value: "sec0", Props: map[string]any{"scopes": []any{"ctl"}}})
			ctrlSec = [][]irSecComp{{{Name: "sec0", Scopes: []string{"ctl"}}}}
		} else if p.Config.DefaultSecurity != nil {
			ctrlSec = [][]irSecComp{{*p.Config.DefaultSecurity}}
		}
		nm := 2 + r.Intn(4)
		for mi := 0; mi < nm; mi++ {
			verb := rng.Pick(r, []string{"GET", "POST", "PUT", "DELETE", "PATCH"})
			firstBody := mi == 0 && nc == 2 // each controller opens with a JSON body of ITS package: same parameter name, two import paths
			enumBody := p.Config.EnumValidator && ci == 0 && mi == 1 // one route takes a body whose field carries a generated enum validator
			if firstBody || enumBody {
				verb = "POST"
			}
			m := pMethod{Name: fmt.Sprintf("Op%d_%d", ci, mi), File: c.File}
			if sharedOps {
				// two controllers may name their methods alike (the operation id is the bare method name): every handler still
				// is gated by ITS route's security and calls ITS controller
				m.Name = fmt.Sprintf("Op0_%d", mi)
			}
			// what the operation itself does: most succeed silently; some set a status of their own (the routers must
			// answer with it, and with the same body - none, for an operation without a value), some fail
			switch r.Intn(8) {
			case 0, 1:
				m.SetStatus = rng.Pick(r, []int{200, 201, 202, 205, 206, 299})
			case 2:
				m.Fail = true
			case 3:
				m.Fail = true
				m.SetStatus = rng.Pick(r, []int{400, 409, 503})
			}
			params := []rigParam{}
			segs := []string{fmt.Sprintf("r%d_%d", ci, mi)}
			leadUsed := false
			// path parameters
			for k := r.Intn(3); k > 0; k-- {
				ty := rng.Pick(r, scalarTypes)
				if ty == "bool" || (firstBody && ty == "Color") {
					ty = "string"
				}
				pp := rigParam{name: fmt.Sprintf("p%d", len(params)), ty: ty, loc: "Path"}
				pp.wire = pp.name
				if r.Chance(1, 2) {
					pp.wire = rng.Pick(r, []string{"w", "w-", "w_", "w-"}) + pp.name
				}
				if r.Bool() || leadUsed {
					params = append(params, pp)
					segs = append(segs, "{"+pp.wire+"}")
				} else {
					// a variable BEFORE the distinguishing literal: every route of the controller spells it the
					// same way (httprouter refuses two names for one position) - except, rarely, on purpose
					leadUsed = true
					pp.wire = "lead"
					if r.Chance(1, 40) {
						pp.wire = "lead" + pp.name
					}
					params = append(params, pp)
					segs = append([]string{"{" + pp.wire + "}"}, segs...)
				}
			}
			if r.Chance(1, 6) {
				segs = append(segs, "x-y")
			}
			route := "/" + strings.Join(segs, "/")
			if unformattable && mi == 0 {
				route += `/b\q` // an escape sequence no Go string literal can hold: the rendered file cannot parse
			}
			hasBody := verb == "POST" || verb == "PUT" || verb == "PATCH"
			// query / header parameters
			for k := r.Intn(4); k > 0; k-- {
				loc := rng.Pick(r, []string{"Query", "Query", "Header"})
				ty := rng.Pick(r, scalarTypes)
				if firstBody && ty == "Color" {
					ty = "string"
				}
				// Go names the templates' ToLowerCamel rewrites (initialisms, snake_case, leading capitals) among plain ones
				q := rigParam{name: fmt.Sprintf("%s%d", rng.Pick(r, []string{"v", "v", "v", "userID", "base_url", "ID", "APIKey"}), len(params)), ty: ty, loc: loc, ptr: r.Chance(1, 3)}
				q.wire = q.name
				if r.Chance(1, 2) {
					q.wire = rng.Pick(r, []string{"w-", "x_", "Alias"}) + q.name
				}
				if loc == "Header" {
					q.wire = "X-" + q.wire
				}
				if loc == "Query" && !q.ptr && !(firstBody && ty == "Color") && r.Chance(1, 3) {
					// a repeated query parameter: every element type has its own conversion block per engine
					q.ty = "[]" + rng.Pick(r, []string{"string", "int", "int64", "uint8", "float64", "float32", "bool", "float64"})
				}
				if q.ty == "string" && !q.ptr && r.Chance(1, 3) {
					// (not on an optional parameter: go-playground hands a nil pointer to every rule that is not preceded by
					// `omitempty`, so an ABSENT optional parameter with a `oneof` is answered 422 by all five engines - the tag's
					// own semantics, see DESIGN §0.5 - and the model of `bindParam` does not carry that)
					q.validate = rigOneof
				}
				params = append(params, q)
			}
			bodyKind := ""
			if hasBody {
				bk := r.Intn(3)
				if firstBody || enumBody {
					bk = 0
				}
				switch bk {
				case 0:
					bodyKind = "json"
					bt := "Item"
					if (firstBody && ci == 1) || (!firstBody && r.Chance(1, 3)) {
						bt = rng.Pick(r, []string{"other.Parcel", "other.Item"})
					}
					if !firstBody && r.Chance(1, 3) {
						bt = "[]" + bt // every element is validated
					} else if !firstBody && p.Config.EnumValidator && r.Chance(1, 2) {
						bt = "Employee"
					}
					if !firstBody && !enumBody && r.Chance(1, 6) {
						bt = "Page[[]string]"
					}
					if !firstBody && !enumBody && r.Chance(1, 8) {
						bt = "Payload"
					}
					if enumBody {
						bt = "Employee"
					} else if bt == "Page[[]string]" || bt == "Payload" {
					} else if !firstBody && !strings.HasPrefix(bt, "[]") && bt != "Employee" && r.Chance(1, 4) {
						bt = "Wrap"
					}
					params = append(params, rigParam{name: "body", ty: bt, loc: "Body", wire: "body"})
				case 1:
					bodyKind = "form"
					for k := 1 + r.Intn(2); k > 0; k-- {
						ty := rng.Pick(r, scalarTypes)
						q := rigParam{name: fmt.Sprintf("f%d", len(params)), ty: ty, loc: "FormField", ptr: r.Chance(1, 4)}
						q.wire = q.name
						if r.Chance(1, 3) {
							q.wire = "form_" + q.name
						}
						params = append(params, q)
					}
				}
			}
			m.Annots = []pAnnot{{Name: "Method", Value: verb}, {Name: "Route", Value: route}}
			if r.Chance(1, 6) {
				m.Annots = append(m.Annots, pAnnot{Name: "Hidden"})
			}
			// security
			routeSec := ctrlSec
			switch r.Intn(4) {
			case 0:
				m.Annots = append(m.Annots, pAnnot{Name: "Security", Value: "sec0", Props: map[string]any{"scopes": []any{"read"}}}, pAnnot{Name: "Security", Value: "sec1"})
				routeSec = [][]irSecComp{{{Name: "sec0", Scopes: []string{"read"}}}, {{Name: "sec1", Scopes: []string{}}}}
			case 1:
				m.Annots = append(m.Annots, pAnnot{Name: "Security", Value: "sec1", Props: map[string]any{"scopes": []any{"a", "b&c"}}})
				routeSec = [][]irSecComp{{{Name: "sec1", Scopes: []string{"a", "b&c"}}}}
			}
			if r.Chance(1, 6) {
				m.Params = append(m.Params, pParam{Name: "ctx", Type: "context.Context"})
			}
			for _, q := range params {
				a := pAnnot{Name: q.loc, Value: q.name}
				if q.wire != q.name {
					a.Props = map[string]any{"name": q.wire}
				}
				if q.validate != "" {
					if a.Props == nil {
						a.Props = map[string]any{}
					}
					a.Props["validate"] = q.validate
				}
				m.Annots = append(m.Annots, a)
				ty := q.ty
				if q.ptr {
					ty = "*" + ty
				}
				m.Params = append(m.Params, pParam{Name: q.name, Type: ty})
			}
			m.Results = []string{"error"}
			switch r.Intn(4) {
			case 0:
				m.Results = []string{"string", "error"}
			case 1:
				m.Results = []string{"Item", "error"}
			}
			if r.Chance(1, 4) {
				// custom error results: every pointer / value pairing of payload and error must compile
				m.Results = rng.Pick(r, [][]string{{"Item", "*Problem"}, {"*Item", "Problem"}, {"Item", "Problem"}, {"*Item", "*Problem"}, {"Problem"}, {"*Problem"}, {"string", "*Problem"}})
				m.Fail = false
			}
			if r.Chance(1, 5) {
				m.Annots = append(m.Annots, pAnnot{Name: "Response", Value: rng.Pick(r, []string{"201", "202"})})
			}
			if r.Chance(1, 3) {
				// documentation only; the spec generator (which the command runs BEFORE the routes generator) reads it
				m.Annots = append(m.Annots, pAnnot{Name: "ErrorResponse", Value: rng.Pick(r, []string{"400", "404", "500"}), Desc: "failure"})
			}
			if expectRefused && ci == 0 && mi == 0 {
				// the last result only HAS an error field: the project must be refused, nothing generated
				m.Results = []string{"string", "Failure"}
			}
			c.Methods = append(c.Methods, m)

			// ---- requests for this route
			full := strings.ReplaceAll(prefix+route, "//", "/")
			type vals map[string]string
			build := func(kind string, over vals, drop string, deny []string) rigReq {
				q := rigReq{Route: c.Name + "." + m.Name, Kind: kind, Method: verb, Headers: map[string]string{}, Deny: deny}
				path := full
				query := url.Values{}
				form := map[string][]string{}
				for _, prm := range params {
					v, has := over[prm.name]
					if !has {
						v = rigGoodValue(r, strings.TrimPrefix(prm.ty, "[]"))
						if prm.validate == rigOneof {
							v = rng.Pick(r, []string{"light blue", "navy"})
						}
					}
					if prm.name == drop {
						continue
					}
					switch prm.loc {
					case "Path":
						if raw, ok := over["raw:"+prm.name]; ok {
							path = strings.ReplaceAll(path, "{"+prm.wire+"}", raw)
						} else {
							path = strings.ReplaceAll(path, "{"+prm.wire+"}", url.PathEscape(v))
						}
					case "Query":
						if strings.HasPrefix(prm.ty, "[]") {
							query.Add(prm.wire, v)
							query.Add(prm.wire, rigGoodValue(r, strings.TrimPrefix(prm.ty, "[]")))
						} else {
							query.Set(prm.wire, v)
						}
					case "Header":
						q.Headers[prm.wire] = v
					case "FormField":
						form[prm.wire] = []string{v}
					case "Body":
						q.Body = fmt.Sprintf(`{"name":%q,"count":%d}`, rng.Pick(r, []string{"n", "item one"}), r.Intn(50))
						if strings.HasPrefix(prm.ty, "[]") {
							q.Body = "[" + q.Body + fmt.Sprintf(`,{"name":"second","count":%d}]`, r.Intn(9))
						}
						if prm.ty == "Employee" {
							q.Body = fmt.Sprintf(`{"name":"dana","dept":%q}`, rng.Pick(r, []string{"eng", "r&d"}))
							q.BodyType = "Employee"
						}
						if prm.ty == "Wrap" {
							q.Body = fmt.Sprintf(`{"meta":{"note":%q},"name":"w"}`, rng.Pick(r, []string{"n", ""}))
						}
						if prm.ty == "Page[[]string]" {
							q.Body = rng.Pick(r, []string{`{"items":["a","b"]}`, `{"items":[]}`, `{"items":["x y"]}`})
							q.BodyType = "Page"
						}
						if b, ok := over["body"]; ok {
							q.Body = b
						}
						if prm.ty == "Employee" || prm.ty == "Wrap" {
							q.BodyType = prm.ty
						}
					}
				}
				if len(query) > 0 {
					path += "?" + query.Encode()
				}
				q.Path = path
				if bodyKind == "form" {
					q.Form = form
				}
				return q
			}
			add(build("happy", nil, "", nil))
			if hb := build("happy-chunked", nil, "", nil); hb.Body != "" && hb.Form == nil {
				hb.Chunked = true // the same body, sent without a Content-Length
				add(hb)
			}
			if len(routeSec) > 0 {
				all := []string{}
				for _, alt := range routeSec {
					all = append(all, alt[0].Name)
				}
				add(build("deny-all", nil, "", all))
				da := build("deny-all-abort", nil, "", all)
				if da.Headers == nil {
					da.Headers = map[string]string{}
				}
				da.Headers["X-Rig-Abort"] = "1" // gin's callback also aborts the context when it refuses
				add(da)
				dn := build("deny-all-nil-context", nil, "", all)
				dn.NilCtx = true
				add(dn)
				if r.Chance(1, 2) {
					// the refusal carries a payload of its own (a string, or a struct that is also an error): the response body is that payload
					dc := build("deny-all-custom-"+rng.Pick(r, []string{"string", "error"}), nil, "", all)
					if dc.Headers == nil {
						dc.Headers = map[string]string{}
					}
					dc.Headers["X-Rig-Custom"] = strings.TrimPrefix(dc.Kind, "deny-all-custom-")
					add(dc)
				}
				if r.Chance(1, 2) {
					// the refusal carries its own status: the response must show that one, registered reason phrase or not
					ds := build("deny-all-own-status", nil, "", all)
					ds.DenyStatus = rng.Pick(r, []int{401, 418, 429, 498, 499, 520, 599})
					add(ds)
				}
				if len(routeSec) > 1 {
					add(build("deny-first", nil, "", []string{routeSec[0][0].Name}))
					// every alternative refused, each with its own status: the answer is the LAST refusal's
					sp := build("deny-all-spread", nil, "", all)
					sp.DenyStatus, sp.Spread = 470, true
					add(sp)
				}
				add(build("deny-other", nil, "", []string{"nosuch"}))
			}
			for _, prm := range params {
				if prm.loc == "Path" || prm.loc == "Body" {
					continue
				}
				if r.Chance(2, 3) {
					add(build("missing:"+prm.name, nil, prm.name, nil))
				}
			}
			for _, prm := range params {
				base := strings.TrimPrefix(prm.ty, "[]")
				if rg, ok := rigIntRange[base]; ok && prm.loc != "Body" && r.Chance(2, 3) {
					add(build("int-max:"+prm.name, vals{prm.name: rg[0]}, "", nil))
					add(build("int-over:"+prm.name, vals{prm.name: rg[1]}, "", nil))
					if r.Chance(1, 2) {
						bad := rng.Pick(r, []string{"x7", "1.5", "", "0x10", "1e3"})
						if bad == "" && prm.loc == "Path" {
							bad = "x7" // an empty path segment is not a binding of the variable at all
						}
						add(build("int-bad:"+prm.name, vals{prm.name: bad}, "", nil))
					}
					if !strings.HasPrefix(base, "uint") && r.Chance(1, 2) {
						add(build("int-neg:"+prm.name, vals{prm.name: "-1"}, "", nil))
					} else if strings.HasPrefix(base, "uint") && r.Chance(1, 2) {
						add(build("uint-neg:"+prm.name, vals{prm.name: "-1"}, "", nil))
					}
				}
				if _, isInt := rigIntRange[base]; isInt && prm.ptr && (prm.loc == "Query" || prm.loc == "FormField") {
					add(build("empty-optional-int:"+prm.name, vals{prm.name: ""}, "", nil))
				}
				if base == "string" && prm.ptr && prm.loc == "Query" {
					add(build("empty-optional-string:"+prm.name, vals{prm.name: ""}, "", nil))
				}
				if strings.HasPrefix(prm.ty, "[]") && base == "string" {
					add(build("empty-first-of-slice:"+prm.name, vals{prm.name: ""}, "", nil))
				}
				if (base == "float64" || base == "float32") && prm.loc != "Body" && r.Chance(1, 2) {
					bad := rng.Pick(r, []string{"abc", "1.2.3", "", "1,5"})
					if bad == "" && prm.loc == "Path" {
						bad = "abc"
					}
					add(build("float-bad:"+prm.name, vals{prm.name: bad}, "", nil))
				}
				if base == "bool" && r.Chance(1, 2) {
					add(build("bool-bad:"+prm.name, vals{prm.name: rng.Pick(r, []string{"yes", "2", "tRuE"})}, "", nil))
				}
				if base == "bool" && prm.loc != "Path" && prm.loc != "Body" {
					// a bare `?flag` / an empty value is no boolean (an optional one is simply absent)
					add(build("bool-empty:"+prm.name, vals{prm.name: ""}, "", nil))
				}
				if base == "string" && prm.loc != "Body" && (prm.loc == "Query" || r.Chance(1, 2)) {
					if prm.loc == "Path" {
						add(build("encoded-path:"+prm.name, vals{prm.name: "a b", "raw:" + prm.name: rng.Pick(r, []string{"a%20b", "%41bc", "caf%C3%A9"})}, "", nil))
					} else {
						add(build("special:"+prm.name, vals{prm.name: rng.Pick(r, []string{"a&b=c", "x+y", "café", "+15550100", "100%41", "20%2C5"})}, "", nil))
					}
				}
				if base == "string" && prm.loc != "Path" && prm.loc != "Body" && r.Chance(1, 3) {
					add(build("empty:"+prm.name, vals{prm.name: ""}, "", nil))
				}
				if prm.validate == rigOneof {
					// each declared option is accepted, anything else - the HTML-escaped spelling of an option too - is a 422
					add(build("oneof-quoted-option:"+prm.name, vals{prm.name: "light blue"}, "", nil))
					add(build("oneof-plain-option:"+prm.name, vals{prm.name: "navy"}, "", nil))
					add(build("oneof-miss:"+prm.name, vals{prm.name: rng.Pick(r, []string{"red", "light", "&apos;light", "'light blue'"})}, "", nil))
				}
			}
			bodyIsSlice := false
			for _, prm := range params {
				if prm.loc == "Body" && strings.HasPrefix(prm.ty, "[]") {
					bodyIsSlice = true
				}
			}
			bodyIsEmployee := false
			for _, prm := range params {
				bodyIsEmployee = bodyIsEmployee || prm.ty == "Employee"
			}
			bodyIsWrap := false
			for _, prm := range params {
				bodyIsWrap = bodyIsWrap || prm.ty == "Wrap"
			}
			bodyIsPage := false
			for _, prm := range params {
				bodyIsPage = bodyIsPage || prm.ty == "Page[[]string]"
			}
			if bodyKind == "json" && bodyIsPage {
				add(build("body-malformed", vals{"body": `{"items":`}, "", nil))
			} else if bodyKind == "json" && bodyIsWrap {
				add(build("body-nested-struct-absent", vals{"body": `{"name":"w"}`}, "", nil))
				add(build("body-nested-struct-empty", vals{"body": `{"meta":{},"name":"w"}`}, "", nil))
				add(build("body-nested-struct-null", vals{"body": `{"meta":null,"name":"w"}`}, "", nil))
				add(build("body-missing-required", vals{"body": `{"meta":{"note":"n"}}`}, "", nil))
			} else if bodyKind == "json" && bodyIsEmployee {
				add(build("body-enum-member-with-ampersand", vals{"body": `{"name":"dana","dept":"r&d"}`}, "", nil))
				add(build("body-enum-not-a-member", vals{"body": `{"name":"dana","dept":"r&amp;d"}`}, "", nil))
				add(build("body-enum-missing", vals{"body": `{"name":"dana"}`}, "", nil))
			} else if bodyKind == "json" && bodyIsSlice {
				add(build("body-slice-later-element-invalid", vals{"body": `[{"name":"ok","count":1},{"count":2}]`}, "", nil))
				add(build("body-slice-first-element-invalid", vals{"body": `[{"count":1},{"name":"ok","count":2}]`}, "", nil))
				add(build("body-slice-empty", vals{"body": `[]`}, "", nil))
			} else if bodyKind == "json" {
				add(build("body-missing-required", vals{"body": `{"count":3}`}, "", nil))
				add(build("body-second-field-invalid", vals{"body": `{"name":"x","count":-1}`}, "", nil))
				add(build("body-two-fields-invalid", vals{"body": `{"count":-5}`}, "", nil))
				add(build("body-malformed", vals{"body": `{"name":`}, "", nil))
				add(build("body-trailing-data", vals{"body": rng.Pick(r, []string{`{"name":"x","count":1} trailing`, `{"name":"x","count":1}{"name":"y","count":2}`, `{"name":"x","count":1}]`})}, "", nil))
			}
			if bodyKind == "json" {
				// a body of blanks only is a body, and no JSON value
				add(build("body-blank", vals{"body": rng.Pick(r, []string{"\n", "  \r\n", " "})}, "", nil))
			}
			// the same path under a verb nobody annotated: not served, and above all the controller method must not run
			ov := build("other-verb", nil, "", nil)
			ov.Method, ov.Body, ov.Form = "OPTIONS", "", nil
			add(ov)
			add(rigReq{Route: "", Kind: "undocumented", Method: verb, Path: fmt.Sprintf("%s/nope%d_%d", strings.TrimSuffix(prefix, "/"), ci, mi)})
		}
		p.Controllers = append(p.Controllers, c)
	}
	return rigIn{Project: p, Requests: reqs, ExpectRefused: expectRefused}
}

func genRig(seed uint64, n int, tier string, emit func(string, []string, any)) {
	r := rng.New(seed)
	for i := 0; i < n; i++ {
		emit("rig", nil, genRigCase(r.Fork()))
	}
}

func init() { gens["rig"] = genRig }
