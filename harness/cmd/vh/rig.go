package main

import (
	"bytes"
	"encoding/json"
	"fmt"
	"go/format"
	"go/parser"
	"go/token"
	"os"
	"os/exec"
	"path/filepath"
	"regexp"
	"strings"
	"time"

	"github.com/gopher-fleece/gleece/v2/cmd"
	"github.com/gopher-fleece/gleece/v2/core/pipeline"
	"github.com/gopher-fleece/gleece/v2/core/validators/diagnostics"
	"github.com/gopher-fleece/gleece/v2/definitions"
	"github.com/gopher-fleece/gleece/v2/generator/routes"
	"github.com/gopher-fleece/gleece/v2/generator/swagen"
)

// ---- mode "rig": the DYNAMIC tie. An abstract project is printed as Go source whose controller methods
// record their arguments, the five routers are rendered by the real generator, everything is COMPILED
// together with an instrumented authorization callback per engine, and a list of HTTP requests is served
// in-process by each framework.  Observed per (engine, request): status, which security checks the
// callback was asked (in order), whether and with which arguments the controller method ran.
// The compile step is the C09 oracle; the request log is the C02 / C03 / C05 / C12 oracle.

type rigReq struct {
	ID      int                 `json:"id"`
	Route   string              `json:"route"` // "Ctl0.Op0_1" (bookkeeping for the model side)
	Kind    string              `json:"kind"`  // what the request probes (bookkeeping)
	Method  string              `json:"method"`
	Path    string              `json:"path"` // raw request target (path + query)
	Headers map[string]string   `json:"headers,omitempty"`
	Form    map[string][]string `json:"form,omitempty"`
	Body    string              `json:"body,omitempty"`
	Deny    []string            `json:"deny,omitempty"` // scheme names the callback refuses
	NilCtx  bool                `json:"nilCtx,omitempty"` // … and it refuses with a nil context
	DenyStatus int              `json:"denyStatus,omitempty"` // … with this status (0: 403)
	BodyType string             `json:"bodyType,omitempty"` // declared type of the JSON body when it is not Item (bookkeeping for the model)
	Spread   bool               `json:"spread,omitempty"`   // the i-th scheme of Deny is refused with status DenyStatus+i
	Chunked  bool               `json:"chunked,omitempty"`  // the body is sent without a Content-Length (chunked transfer)
}

type rigIn struct {
	Project       pProject `json:"project"`
	Requests      []rigReq `json:"requests"`
	ExpectRefused bool     `json:"expectRefused,omitempty"` // the generator built a project the tool must refuse
}

type rigResp struct {
	ID     int      `json:"id"`
	Status int      `json:"status"`
	Body   string   `json:"body"`
	Log    []string `json:"log"`
}

type rigFile struct {
	Err     string `json:"err,omitempty"`     // generation error
	Parses  bool   `json:"parses"`            // go/parser accepts the file
	Gofmt   bool   `json:"gofmt"`             // format.Source leaves it unchanged
	Package string `json:"package,omitempty"` // the package clause
	Written bool   `json:"written"`
}

type rigOut struct {
	ProjErr  string               `json:"projErr,omitempty"` // the project was refused before generation
	Files    map[string]rigFile   `json:"files"`
	BuildErr string               `json:"buildErr,omitempty"` // compile errors of the five routers + project
	RunErr   string               `json:"runErr,omitempty"`
	Engines  map[string][]rigResp `json:"engines,omitempty"`
	BuildSec float64              `json:"_buildSeconds"`
}

const rigRecSrc = `package rigrec

import (
	"encoding/json"
	"fmt"
	"reflect"
	"strings"
)

var Log []string

func Reset() { Log = []string{} }

// Failure: the error a failing operation returns
func Failure(msg string) error { return fmt.Errorf("%s", msg) }

// Refusal: a custom authorization payload that is also an error (a framework must not render it by its Error() text)
type Refusal struct {
	Code   string ` + "`json:\"code\"`" + `
	Scheme string ` + "`json:\"scheme\"`" + `
}

func (r Refusal) Error() string { return r.Code + ": " + r.Scheme }

func Fmt(v any) string {
	rv := reflect.ValueOf(v)
	if !rv.IsValid() {
		return "<nil>"
	}
	switch rv.Kind() {
	case reflect.Ptr:
		if rv.IsNil() {
			return "<nil>"
		}
		return "&" + Fmt(rv.Elem().Interface())
	case reflect.Struct, reflect.Map:
		var sb strings.Builder
		enc := json.NewEncoder(&sb)
		enc.SetEscapeHTML(false) // the text as sent, not json.Marshal's \u0026 spelling of '&'
		enc.Encode(v)
		return strings.TrimRight(sb.String(), "\n")
	case reflect.Slice:
		parts := []string{}
		for i := 0; i < rv.Len(); i++ {
			parts = append(parts, Fmt(rv.Index(i).Interface()))
		}
		return "[" + strings.Join(parts, " ") + "]"
	case reflect.String:
		return fmt.Sprintf("%q", rv.String())
	}
	return fmt.Sprintf("%v", v)
}

func Call(name string, args ...any) {
	parts := []string{}
	for _, a := range args {
		if s, ok := a.(string); ok && s == "ctx" {
			parts = append(parts, "ctx")
			continue
		}
		parts = append(parts, Fmt(a))
	}
	Log = append(Log, "call "+name+"("+strings.Join(parts, ",")+")")
}

func Auth(scheme string, scopes []string) {
	Log = append(Log, "auth "+scheme+"["+strings.Join(scopes, " ")+"]")
}
`

var rigEngines = []string{"gin", "echo", "mux", "chi", "fiber"}

func rigAuthSrc(engine string) string {
	imp, ctxParam, hdr := "", "", ""
	switch engine {
	case "gin":
		imp, ctxParam, hdr = `"github.com/gin-gonic/gin"`, "c *gin.Context", `c.GetHeader("X-Rig-Deny")`
	case "echo":
		imp, ctxParam, hdr = `"github.com/labstack/echo/v4"`, "c echo.Context", `c.Request().Header.Get("X-Rig-Deny")`
	case "mux", "chi":
		imp, ctxParam, hdr = `"net/http"`, "r *http.Request", `r.Header.Get("X-Rig-Deny")`
	case "fiber":
		imp, ctxParam, hdr = `"github.com/gofiber/fiber/v2"`, "c *fiber.Ctx", `c.Get("X-Rig-Deny")`
	}
	abortStmt := ""
	if engine == "gin" {
		// a callback may abort the gin context when it refuses (a common idiom); the handler still must not go on
		abortStmt = `if c.GetHeader("X-Rig-Abort") != "" { c.AbortWithStatus(status) }`
	}
	return fmt.Sprintf(`package auth%s

import (
	"context"
	"strconv"
	"strings"

	%s
	"github.com/gopher-fleece/runtime"
	"%s/rigrec"
)

func GleeceRequestAuthorization(ctx context.Context, %s, check runtime.SecurityCheck) (context.Context, *runtime.SecurityError) {
	rigrec.Auth(check.SchemaName, check.Scopes)
	status := 403
	if n, err := strconv.Atoi(%s); err == nil && n > 0 {
		status = n // the refusal's own status: the response must carry it
	}
	for i, d := range strings.Split(%s, ",") {
		if d != "" && d == check.SchemaName {
			if %s != "" {
				status += i // every refused scheme answers with a status of its own: the response must carry the LAST refusal's
			}
			%s
			if %s != "" {
				return nil, refusal(%s, d, status) // a refusal need not carry a context
			}
			return ctx, refusal(%s, d, status)
		}
	}
	return ctx, nil
}

// a refusal may carry a payload of its own: a bare string, or a struct that is also an error
func refusal(custom, d string, status int) *runtime.SecurityError {
	e := &runtime.SecurityError{Message: "denied " + d, StatusCode: runtime.HttpStatusCode(status)}
	switch custom {
	case "string":
		e.CustomError = &runtime.CustomError{Payload: "denied " + d}
	case "error":
		e.CustomError = &runtime.CustomError{Payload: rigrec.Refusal{Code: "denied", Scheme: d}}
	}
	return e
}
`, engine, imp, projModule, ctxParam, strings.Replace(hdr, "X-Rig-Deny", "X-Rig-Deny-Status", 1), hdr, strings.Replace(hdr, "X-Rig-Deny", "X-Rig-Deny-Spread", 1), abortStmt, strings.Replace(hdr, "X-Rig-Deny", "X-Rig-Nilctx", 1),
		strings.Replace(hdr, "X-Rig-Deny", "X-Rig-Custom", 1), strings.Replace(hdr, "X-Rig-Deny", "X-Rig-Custom", 1))
}

const rigMainSrc = `package main

import (
	"bufio"
	"encoding/json"
	"fmt"
	"io"
	"net/http"
	"net/http/httptest"
	"net/url"
	"os"
	"strings"

	"github.com/gin-gonic/gin"
	"github.com/go-chi/chi/v5"
	"github.com/gofiber/fiber/v2"
	"github.com/gorilla/mux"
	"github.com/labstack/echo/v4"

	rchi "vproj/dist/rchi"
	recho "vproj/dist/recho"
	rfiber "vproj/dist/rfiber"
	rgin "vproj/dist/rgin"
	rmux "vproj/dist/rmux"
	"vproj/rigrec"
)

type req struct {
	ID      int                 ` + "`json:\"id\"`" + `
	Method  string              ` + "`json:\"method\"`" + `
	Path    string              ` + "`json:\"path\"`" + `
	Headers map[string]string   ` + "`json:\"headers\"`" + `
	Form    map[string][]string ` + "`json:\"form\"`" + `
	Body    string              ` + "`json:\"body\"`" + `
	Deny    []string            ` + "`json:\"deny\"`" + `
	NilCtx  bool                ` + "`json:\"nilCtx\"`" + `
	DenyStatus int              ` + "`json:\"denyStatus\"`" + `
	Spread  bool                ` + "`json:\"spread\"`" + `
	Chunked bool                ` + "`json:\"chunked\"`" + `
}

type resp struct {
	Engine string   ` + "`json:\"engine\"`" + `
	ID     int      ` + "`json:\"id\"`" + `
	Status int      ` + "`json:\"status\"`" + `
	Body   string   ` + "`json:\"body\"`" + `
	Log    []string ` + "`json:\"log\"`" + `
}

func build(r req) *http.Request {
	var body io.Reader
	ct := ""
	if r.Form != nil {
		body = strings.NewReader(url.Values(r.Form).Encode())
		ct = "application/x-www-form-urlencoded"
	} else if r.Body != "" {
		body = strings.NewReader(r.Body)
		ct = "application/json"
		if r.Chunked {
			body = struct{ io.Reader }{strings.NewReader(r.Body)} // no Len(): the request has no Content-Length
		}
	}
	hr := httptest.NewRequest(r.Method, "http://rig.local"+r.Path, body)
	if ct != "" {
		hr.Header.Set("Content-Type", ct)
	}
	for k, v := range r.Headers {
		hr.Header.Set(k, v)
	}
	if len(r.Deny) > 0 {
		hr.Header.Set("X-Rig-Deny", strings.Join(r.Deny, ","))
	}
	if r.NilCtx {
		hr.Header.Set("X-Rig-Nilctx", "1")
	}
	if r.Spread {
		hr.Header.Set("X-Rig-Deny-Spread", "1")
	}
	if r.DenyStatus != 0 {
		hr.Header.Set("X-Rig-Deny-Status", fmt.Sprint(r.DenyStatus))
	}
	return hr
}

func viaHandler(h http.Handler) func(*http.Request) (int, string) {
	return func(r *http.Request) (int, string) {
		w := httptest.NewRecorder()
		h.ServeHTTP(w, r)
		return w.Code, w.Body.String()
	}
}

func main() {
	gin.SetMode(gin.ReleaseMode)
	regErr := map[string]string{}
	try := func(engine string, reg func()) {
		defer func() {
			if x := recover(); x != nil {
				regErr[engine] = fmt.Sprint(x)
			}
		}()
		reg()
	}
	// a program may set up more than one engine (a public and an internal listener, a fresh engine per test): every
	// one of them serves the routes - the answers come from the SECOND registration of each router
	try("gin", func() { rgin.RegisterRoutes(gin.New()) })
	try("echo", func() { recho.RegisterRoutes(echo.New()) })
	try("mux", func() { rmux.RegisterRoutes(mux.NewRouter()) })
	try("chi", func() { rchi.RegisterRoutes(chi.NewRouter()) })
	try("fiber", func() { rfiber.RegisterRoutes(fiber.New(fiber.Config{DisableStartupMessage: true})) })
	g := gin.New()
	try("gin", func() { rgin.RegisterRoutes(g) })
	e := echo.New()
	try("echo", func() { recho.RegisterRoutes(e) })
	m := mux.NewRouter()
	try("mux", func() { rmux.RegisterRoutes(m) })
	c := chi.NewRouter()
	try("chi", func() { rchi.RegisterRoutes(c) })
	f := fiber.New(fiber.Config{DisableStartupMessage: true})
	try("fiber", func() { rfiber.RegisterRoutes(f) })
	serve := map[string]func(*http.Request) (int, string){
		"gin": viaHandler(g), "echo": viaHandler(e), "mux": viaHandler(m), "chi": viaHandler(c),
		"fiber": func(r *http.Request) (int, string) {
			res, err := f.Test(r, -1)
			if err != nil {
				return -2, err.Error()
			}
			b, _ := io.ReadAll(res.Body)
			return res.StatusCode, string(b)
		},
	}
	var reqs []req
	data, _ := io.ReadAll(os.Stdin)
	if err := json.Unmarshal(data, &reqs); err != nil {
		fmt.Fprintln(os.Stderr, "bad requests:", err)
		os.Exit(3)
	}
	out := bufio.NewWriter(os.Stdout)
	defer out.Flush()
	for _, eng := range []string{"gin", "echo", "mux", "chi", "fiber"} {
		if msg, bad := regErr[eng]; bad {
			// the router could not even be set up: one line instead of answers
			j, _ := json.Marshal(resp{Engine: eng, ID: -1, Status: -3, Body: msg, Log: []string{}})
			out.Write(j)
			out.WriteByte('\n')
			continue
		}
		for _, r := range reqs {
			rigrec.Reset()
			status, body := func() (st int, b string) {
				defer func() {
					if x := recover(); x != nil {
						st, b = -1, fmt.Sprint("panic: ", x)
					}
				}()
				rr := r
				if eng == "fiber" {
					rr.Chunked = false // fiber's app.Test cannot replay a request of unknown length; fiber gets the same body with a length
				}
				return serve[eng](build(rr))
			}()
			if len(body) > 300 {
				body = body[:300]
			}
			j, _ := json.Marshal(resp{Engine: eng, ID: r.ID, Status: status, Body: body, Log: append([]string{}, rigrec.Log...)})
			out.Write(j)
			out.WriteByte('\n')
		}
	}
}
`

func implRig(in json.RawMessage) (any, error) {
	var ri rigIn
	if err := json.Unmarshal(in, &ri); err != nil {
		return nil, err
	}
	return runRig(ri), nil
}

var rigPkgRe = regexp.MustCompile(`(?m)^package (\w+)`)

func runRig(ri rigIn) (out rigOut) {
	out.Files = map[string]rigFile{}
	p := ri.Project
	p.Echo = true
	dir, err := os.MkdirTemp(scratch(), "rig-")
	if err != nil {
		out.ProjErr = "setup: " + err.Error()
		return
	}
	dir, _ = filepath.EvalSymlinks(dir)
	defer os.RemoveAll(dir)
	if _, err := writeProject(p, dir); err != nil {
		out.ProjErr = "setup: " + err.Error()
		return
	}
	os.MkdirAll(filepath.Join(dir, "rigrec"), 0o755)
	os.WriteFile(filepath.Join(dir, "rigrec", "rigrec.go"), []byte(rigRecSrc), 0o644)
	for _, e := range rigEngines {
		os.MkdirAll(filepath.Join(dir, "auth"+e), 0o755)
		os.WriteFile(filepath.Join(dir, "auth"+e, "auth.go"), []byte(rigAuthSrc(e)), 0o644)
	}
	os.MkdirAll(filepath.Join(dir, "cmd", "rigmain"), 0o755)
	os.WriteFile(filepath.Join(dir, "cmd", "rigmain", "main.go"), []byte(rigMainSrc), 0o644)
	os.WriteFile(filepath.Join(dir, "go.mod"), []byte(projGoMod()), 0o644)
	sum, _ := os.ReadFile(filepath.Join(repoRoot(), "go.sum"))
	os.WriteFile(filepath.Join(dir, "go.sum"), sum, 0o644)
	os.WriteFile(filepath.Join(dir, "gleece.config.json"), []byte(configText(p.Config)), 0o644)
	cwd, _ := os.Getwd()
	if err := os.Chdir(dir); err != nil {
		out.ProjErr = "setup: " + err.Error()
		return
	}
	defer os.Chdir(cwd)
	defer func() {
		if r := recover(); r != nil {
			out.RunErr = fmt.Sprintf("PANIC: %v | %s", r, panicSite())
		}
	}()
	cfg, err := cmd.LoadGleeceConfig("gleece.config.json")
	if err != nil {
		out.ProjErr = "config: " + firstLines(err.Error(), 2)
		return
	}
	pipe, err := pipeline.NewGleecePipeline(cfg)
	if err != nil {
		out.ProjErr = "pipeline: " + firstLines(err.Error(), 3)
		return
	}
	if err := pipe.GenerateGraph(); err != nil {
		out.ProjErr = "graph: " + firstLines(err.Error(), 3)
		return
	}
	diags, err := pipe.Validate()
	if err != nil {
		out.ProjErr = "validate: " + firstLines(err.Error(), 3)
		return
	}
	if errs := diagnostics.GetDiagnosticsWithSeverity(diags, []diagnostics.DiagnosticSeverity{diagnostics.DiagnosticError}); len(errs) > 0 {
		out.ProjErr = "error-diagnostics: " + firstLines(diagnostics.DiagnosticsToError(errs).Error(), 6)
		return
	}
	meta, err := pipe.GenerateIntermediate()
	if err != nil {
		out.ProjErr = "intermediate: " + firstLines(err.Error(), 3)
		return
	}
	// the real command (cmd.GenerateSpecAndRoutes) builds the document first and hands the SAME metadata to the
	// routes generator: so does the rig
	func() {
		defer func() { recover() }()
		swagen.GenerateSpec(&cfg.OpenAPIGeneratorConfig, meta.Flat, &meta.Models, meta.PlainErrorPresent)
	}()
	for _, e := range rigEngines {
		c2 := *cfg
		c2.RoutesConfig.Engine = definitions.RoutingEngineType(e)
		c2.RoutesConfig.PackageName = "r" + e
		c2.RoutesConfig.AuthorizationConfig.AuthFileFullPackageName = projModule + "/auth" + e
		c2.RoutesConfig.SkipGenerateDateComment = true
		outPath := filepath.Join(dir, "dist", "r"+e, "gleece.go")
		c2.RoutesConfig.OutputPath = outPath
		rf := rigFile{}
		if err := func() (err error) {
			defer func() {
				if x := recover(); x != nil {
					err = fmt.Errorf("PANIC: %v", x)
				}
			}()
			return routes.GenerateRoutes(&c2, meta)
		}(); err != nil {
			rf.Err = firstLines(err.Error(), 2)
		}
		if b, err := os.ReadFile(outPath); err == nil {
			rf.Written = true
			if _, perr := parser.ParseFile(token.NewFileSet(), "gleece.go", b, parser.AllErrors); perr == nil {
				rf.Parses = true
			}
			if fb, ferr := format.Source(b); ferr == nil && bytes.Equal(fb, b) {
				rf.Gofmt = true
			}
			if m := rigPkgRe.FindSubmatch(b); m != nil {
				rf.Package = string(m[1])
			}
			if keep := os.Getenv("VH_KEEP"); keep != "" {
				os.WriteFile(filepath.Join(keep, "rig_routes_"+e+".go.txt"), b, 0o644)
			}
		}
		out.Files[e] = rf
	}
	// compile everything: the five routers, the project, the callbacks
	t0 := time.Now()
	bin := filepath.Join(dir, "rigbin")
	build := exec.Command("go", "build", "-o", bin, "./cmd/rigmain")
	build.Dir = dir
	build.Env = append(os.Environ(), "GOFLAGS=-mod=mod", "GOPROXY=off")
	if b, err := build.CombinedOutput(); err != nil {
		msg := strings.ReplaceAll(string(b), dir, "")
		if len(msg) > 1500 {
			msg = msg[:1500]
		}
		out.BuildErr = msg
		out.BuildSec = time.Since(t0).Seconds()
		return
	}
	out.BuildSec = time.Since(t0).Seconds()
	reqJSON, _ := json.Marshal(ri.Requests)
	run := exec.Command(bin)
	run.Dir = dir
	run.Stdin = bytes.NewReader(reqJSON)
	var stdout, stderr bytes.Buffer
	run.Stdout, run.Stderr = &stdout, &stderr
	done := make(chan error, 1)
	go func() { done <- run.Run() }()
	select {
	case err := <-done:
		if err != nil {
			out.RunErr = "run: " + err.Error() + " | " + firstLines(stderr.String(), 5)
		}
	case <-time.After(120 * time.Second):
		run.Process.Kill()
		out.RunErr = "run: timeout"
	}
	out.Engines = map[string][]rigResp{}
	for _, line := range strings.Split(stdout.String(), "\n") {
		if strings.TrimSpace(line) == "" {
			continue
		}
		var r struct {
			Engine string `json:"engine"`
			rigResp
		}
		if err := json.Unmarshal([]byte(line), &r); err == nil {
			out.Engines[r.Engine] = append(out.Engines[r.Engine], r.rigResp)
		}
	}
	return
}

func init() {
	impls["rig"] = implRig
}
