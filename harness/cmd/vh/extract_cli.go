package main

import (
	"fmt"
	"go/ast"
	"os"
	"path/filepath"
	"sort"
	"strings"
)

// CliCommands.lean: every cobra command literal in cmd/*.go that has a Run / RunE function: does the function
// call one of the generation entry points (cmd.Generate*), and does a failure of that call reach the process's
// exit status - an `os.Exit(<non-zero>)` inside the `if err != nil` block, or (RunE) a `return err` there.

type cliRow struct {
	file, use, field string
	callsGenerate    bool
	propagates       bool
}

func extractCliCommands() (string, error) {
	dir := filepath.Join(repoRoot(), "cmd")
	ents, err := os.ReadDir(dir)
	if err != nil {
		return "", err
	}
	rows := []cliRow{}
	for _, e := range ents {
		if e.IsDir() || !strings.HasSuffix(e.Name(), ".go") || strings.HasSuffix(e.Name(), "_test.go") {
			continue
		}
		rel := filepath.Join("cmd", e.Name())
		_, f, err := parseGoFile(rel)
		if err != nil {
			return "", err
		}
		ast.Inspect(f, func(n ast.Node) bool {
			cl, ok := n.(*ast.CompositeLit)
			if !ok || exprStr(cl.Type) != "cobra.Command" {
				return true
			}
			row := cliRow{file: rel}
			var fn *ast.FuncLit
			for _, el := range cl.Elts {
				kv, ok := el.(*ast.KeyValueExpr)
				if !ok {
					continue
				}
				switch exprStr(kv.Key) {
				case "Use":
					row.use, _ = strLit(kv.Value)
				case "Run", "RunE":
					if fl, ok := kv.Value.(*ast.FuncLit); ok {
						fn, row.field = fl, exprStr(kv.Key)
					}
				}
			}
			if fn == nil {
				return true
			}
			ast.Inspect(fn.Body, func(m ast.Node) bool {
				switch x := m.(type) {
				case *ast.CallExpr:
					if c := exprStr(x.Fun); strings.HasPrefix(c, "Generate") {
						row.callsGenerate = true
					}
				case *ast.IfStmt:
					if exprStr(x.Cond) == "err != nil" {
						ast.Inspect(x.Body, func(k ast.Node) bool {
							switch y := k.(type) {
							case *ast.CallExpr:
								if exprStr(y.Fun) == "os.Exit" && len(y.Args) == 1 && exprStr(y.Args[0]) != "0" {
									row.propagates = true
								}
							case *ast.ReturnStmt:
								if row.field == "RunE" && len(y.Results) == 1 && exprStr(y.Results[0]) != "nil" {
									row.propagates = true
								}
							}
							return true
						})
					}
				}
				return true
			})
			rows = append(rows, row)
			return true
		})
	}
	sort.Slice(rows, func(i, j int) bool {
		if rows[i].file != rows[j].file {
			return rows[i].file < rows[j].file
		}
		return rows[i].use < rows[j].use
	})
	var sb strings.Builder
	sb.WriteString("namespace Gleece.Generated\n/-- (file, the command's `Use` text, calls a generation entry point, a failure of it reaches the exit status) -/\n")
	sb.WriteString("def cliCommands : List (String × String × Bool × Bool) := [\n")
	for i, r := range rows {
		sep := ","
		if i == len(rows)-1 {
			sep = ""
		}
		sb.WriteString(fmt.Sprintf("  (%s, %s, %s, %s)%s\n", leanStr(r.file), leanStr(r.use), leanBool(r.callsGenerate), leanBool(r.propagates), sep))
	}
	sb.WriteString("]\nend Gleece.Generated\n")
	return sb.String(), nil
}

func init() {
	extractors = append(extractors, extractor{"CliCommands.lean", extractCliCommands})
}
