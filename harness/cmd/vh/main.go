// vh — the Go side of the correspondence check (DESIGN §3.2).
//
//	vh gen  <mode> [--seed S] [--n N] [--tier quick|thorough]   writes ops.jsonl to stdout
//	vh impl                                                     reads ops.jsonl on stdin, runs the REAL gleece code
//	                                                            in-process, writes one JSON answer per line
//	vh extract <outdir>                                         regenerates Gleece/Generated/*.lean from /repo
package main

import (
	"time"
	"bufio"
	"encoding/json"
	"flag"
	"fmt"
	"os"
	"runtime/debug"
	"strconv"
)

type Op struct {
	Id   int             `json:"id"`
	Mode string          `json:"mode"`
	Seed uint64          `json:"seed,omitempty"`
	Tags []string        `json:"tags,omitempty"`
	In   json.RawMessage `json:"in"`
}

type Answer struct {
	Id    int    `json:"id"`
	Out   any    `json:"out,omitempty"`
	Crash string `json:"crash,omitempty"`
	Msg   string `json:"msg,omitempty"`
}

type implFn func(in json.RawMessage) (any, error)

var impls = map[string]implFn{}

type genFn func(seed uint64, n int, tier string, emit func(mode string, tags []string, in any))

var gens = map[string]genFn{}

func seedFromEnv() uint64 {
	if s := os.Getenv("VERIF_SEED"); s != "" {
		if v, err := strconv.ParseUint(s, 10, 64); err == nil {
			return v
		}
	}
	return 1
}

func main() {
	if len(os.Args) < 2 {
		fmt.Fprintln(os.Stderr, "usage: vh gen|impl|extract ...")
		os.Exit(2)
	}
	switch os.Args[1] {
	case "gen":
		fs := flag.NewFlagSet("gen", flag.ExitOnError)
		seed := fs.Uint64("seed", seedFromEnv(), "seed")
		n := fs.Int("n", 1000, "cases")
		tier := fs.String("tier", "quick", "tier")
		mode := os.Args[2]
		fs.Parse(os.Args[3:])
		g, ok := gens[mode]
		if !ok {
			fmt.Fprintln(os.Stderr, "unknown gen mode", mode)
			os.Exit(2)
		}
		w := bufio.NewWriterSize(os.Stdout, 1<<20)
		defer w.Flush()
		id := 0
		enc := json.NewEncoder(w)
		enc.SetEscapeHTML(false)
		g(*seed, *n, *tier, func(m string, tags []string, in any) {
			raw, err := json.Marshal(in)
			if err != nil {
				panic(err)
			}
			enc.Encode(Op{Id: id, Mode: m, Tags: tags, In: raw})
			id++
		})
	case "impl":
		runImpl()
	case "extract":
		if err := runExtract(os.Args[2]); err != nil {
			fmt.Fprintln(os.Stderr, "extract:", err)
			os.Exit(1)
		}
	default:
		fmt.Fprintln(os.Stderr, "unknown subcommand", os.Args[1])
		os.Exit(2)
	}
}

func runOne(op Op) (ans Answer) {
	ans.Id = op.Id
	defer func() {
		if r := recover(); r != nil {
			ans.Out = nil
			ans.Crash = "panic"
			ans.Msg = fmt.Sprintf("%v\n%s", r, firstLines(string(debug.Stack()), 30))
		}
	}()
	f, ok := impls[op.Mode]
	if !ok {
		ans.Crash = "bad-op"
		ans.Msg = "unknown mode " + op.Mode
		return
	}
	out, err := f(op.In)
	if err != nil {
		ans.Crash = "harness-error"
		ans.Msg = err.Error()
		return
	}
	ans.Out = out
	return
}

func firstLines(s string, n int) string {
	c := 0
	for i := range s {
		if s[i] == '\n' {
			c++
			if c >= n {
				return s[:i]
			}
		}
	}
	return s
}

func runImpl() {
	sc := bufio.NewScanner(os.Stdin)
	sc.Buffer(make([]byte, 1<<20), 1<<28)
	w := bufio.NewWriterSize(os.Stdout, 1<<16)
	enc := json.NewEncoder(w)
	enc.SetEscapeHTML(false)
	for sc.Scan() {
		line := sc.Bytes()
		if len(line) == 0 {
			continue
		}
		var op Op
		if err := json.Unmarshal(line, &op); err != nil {
			enc.Encode(Answer{Id: -1, Crash: "bad-op", Msg: err.Error()})
			w.Flush()
			continue
		}
		// a watchdog per operation: code that never returns (C14: "never a hang") must not stall the whole check - the
		// process gives up on the operation and dies; the orchestrator records the operation as one the implementation
		// did not answer (crash kind `died`, this message) and goes on with the rest in a new process
		done := make(chan struct{})
		go func(id int, mode string) {
			select {
			case <-done:
			case <-time.After(opTimeout()):
				fmt.Fprintf(os.Stderr, "vh: HANG: operation %d (%s) did not finish within %s\n", id, mode, opTimeout())
				os.Exit(3)
			}
		}(op.Id, op.Mode)
		ans := runOne(op)
		close(done)
		enc.Encode(ans)
		w.Flush()
	}
}

// opTimeout: VH_OP_TIMEOUT seconds (default 900: the slowest legitimate operations - a rig project compiled for five
// engines, a determinism case with its many sessions - take a minute or two on a loaded machine)
func opTimeout() time.Duration {
	if v, err := strconv.Atoi(os.Getenv("VH_OP_TIMEOUT")); err == nil && v > 0 {
		return time.Duration(v) * time.Second
	}
	return 900 * time.Second
}
