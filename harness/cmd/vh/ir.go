package main

import (
	"encoding/json"
	"fmt"
	"os"
	"path/filepath"
	"runtime/debug"
	"strings"

	"github.com/gopher-fleece/gleece/v2/common"
	"github.com/gopher-fleece/gleece/v2/core/pipeline"
	"github.com/gopher-fleece/gleece/v2/definitions"
	"github.com/gopher-fleece/gleece/v2/generator/routes"
	"github.com/gopher-fleece/gleece/v2/generator/swagen"
	"github.com/gopher-fleece/runtime"
)

// ---- the flattened intermediate representation as JSON (shared by the generator, the implementation
// runner and the Lean model).  It mirrors definitions.ControllerMetadata / RouteMetadata / Models.

type irSecComp struct {
	Name   string   `json:"name"`
	Scopes []string `json:"scopes"`
}

type irType struct {
	Name        string   `json:"name"`
	PkgPath     string   `json:"pkgPath"`
	Alias       string   `json:"alias"`
	IsUniverse  bool     `json:"isUniverse"`
	IsByAddress bool     `json:"isByAddress"`
	SymbolKind  string   `json:"symbolKind"`
	AliasType   string   `json:"aliasType"` // "" when no AliasMetadata
	AliasValues []string `json:"aliasValues"`
}

type irParam struct {
	Name         string `json:"name"`
	Ordinal      int    `json:"ordinal"`
	IsContext    bool   `json:"isContext"`
	PassedIn     string `json:"passedIn"`
	NameInSchema string `json:"nameInSchema"`
	Description  string `json:"description"`
	Validator    string `json:"validator"`
	Deprecated   bool   `json:"deprecated"`
	Serial       uint64 `json:"serial"`
	Type         irType `json:"type"`
}

type irErrResp struct {
	Code        uint   `json:"code"`
	Description string `json:"description"`
}

type irRoute struct {
	OpId            string          `json:"opId"`
	Verb            string          `json:"verb"`
	Hidden          bool            `json:"hidden"`
	Deprecated      bool            `json:"deprecated"`
	Description     string          `json:"description"`
	Path            string          `json:"path"`
	Params          []irParam       `json:"params"`
	Responses       []irType        `json:"responses"`
	RespSerials     []uint64        `json:"respSerials"`
	HasReturnValue  bool            `json:"hasReturnValue"`
	RespDescription string          `json:"respDescription"`
	SuccessCode     uint            `json:"successCode"`
	ErrorResponses  []irErrResp     `json:"errorResponses"`
	Security        [][]irSecComp   `json:"security"`
}

type irController struct {
	Name        string        `json:"name"`
	PkgPath     string        `json:"pkgPath"`
	Tag         string        `json:"tag"`
	Description string        `json:"description"`
	Path        string        `json:"path"`
	Routes      []irRoute     `json:"routes"`
	Security    [][]irSecComp `json:"security"`
}

type irField struct {
	Name        string `json:"name"`
	Type        string `json:"type"`
	Description string `json:"description"`
	Tag         string `json:"tag"`
	IsEmbedded  bool   `json:"isEmbedded"`
	Deprecated  bool   `json:"deprecated"`
}

type irStruct struct {
	Name        string    `json:"name"`
	PkgPath     string    `json:"pkgPath"`
	Description string    `json:"description"`
	Fields      []irField `json:"fields"`
	Deprecated  bool      `json:"deprecated"`
}

type irEnum struct {
	Name        string   `json:"name"`
	PkgPath     string   `json:"pkgPath"`
	Description string   `json:"description"`
	Values      []string `json:"values"`
	Type        string   `json:"type"`
	Deprecated  bool     `json:"deprecated"`
}

type irAlias struct {
	Name        string `json:"name"`
	PkgPath     string `json:"pkgPath"`
	Type        string `json:"type"`
	Description string `json:"description"`
	Deprecated  bool   `json:"deprecated"`
}

type irScheme struct {
	Name        string `json:"name"`
	Type        string `json:"type"`
	In          string `json:"in"`
	FieldName   string `json:"fieldName"`
	Description string `json:"description"`
	Scheme      string `json:"scheme"`
}

type irConfig struct {
	Title           string     `json:"title"`
	Version         string     `json:"version"`
	InfoDescription string     `json:"infoDescription"`
	BaseUrl         string     `json:"baseUrl"`
	Schemes         []irScheme `json:"schemes"`
	DefaultSecurity *irSecComp `json:"defaultSecurity"`
	Enforce         bool       `json:"enforce"`
	PackageName     string     `json:"packageName"`
	ValidateResp    bool       `json:"validateResponsePayload"`
	TopLevelEnum    bool       `json:"validateTopLevelOnlyEnum"`
	EnumValidator   bool       `json:"generateEnumValidator"`
}

type irDoc struct {
	Config      irConfig            `json:"config"`
	Controllers []irController      `json:"controllers"`
	Structs     []irStruct          `json:"structs"`
	Enums       []irEnum            `json:"enums"`
	Aliases     []irAlias           `json:"aliases"`
	Imports     map[string][]string `json:"imports"`
	PlainError  bool                `json:"plainError"`
	Engines     []string            `json:"engines"`
}

// ---- conversion to the real definitions

func toSec(s [][]irSecComp) []definitions.RouteSecurity {
	out := []definitions.RouteSecurity{}
	for _, l := range s {
		comps := []definitions.SecurityAnnotationComponent{}
		for _, c := range l {
			sc := c.Scopes
			if sc == nil {
				sc = []string{}
			}
			comps = append(comps, definitions.SecurityAnnotationComponent{SchemaName: c.Name, Scopes: sc})
		}
		out = append(out, definitions.RouteSecurity{SecurityAnnotation: comps})
	}
	return out
}

func toTypeMeta(t irType) definitions.TypeMetadata {
	tm := definitions.TypeMetadata{Name: t.Name, PkgPath: t.PkgPath, DefaultPackageAlias: t.Alias, IsUniverseType: t.IsUniverse,
		IsByAddress: t.IsByAddress, SymbolKind: common.SymKind(t.SymbolKind)}
	if t.PkgPath != "" {
		tm.Import = common.ImportTypeAlias
	}
	if t.AliasType != "" {
		tm.AliasMetadata = &definitions.AliasMetadata{Name: strings.TrimPrefix(t.Name, "[]"), AliasType: t.AliasType, Values: t.AliasValues}
	}
	return tm
}

func toDefinitions(d irDoc) ([]definitions.ControllerMetadata, definitions.Models) {
	ctrls := []definitions.ControllerMetadata{}
	for _, c := range d.Controllers {
		cm := definitions.ControllerMetadata{Name: c.Name, PkgPath: c.PkgPath, Tag: c.Tag, Description: c.Description,
			RestMetadata: definitions.RestMetadata{Path: c.Path}, Security: toSec(c.Security)}
		for _, r := range c.Routes {
			rm := definitions.RouteMetadata{OperationId: r.OpId, HttpVerb: definitions.HttpVerb(r.Verb),
				Hiding:              definitions.MethodHideOptions{Type: definitions.HideMethodNever},
				Deprecation:         definitions.DeprecationOptions{Deprecated: r.Deprecated},
				Description:         r.Description,
				RestMetadata:        definitions.RestMetadata{Path: r.Path},
				HasReturnValue:      r.HasReturnValue,
				ResponseDescription: r.RespDescription,
				ResponseSuccessCode: runtime.HttpStatusCode(r.SuccessCode),
				RequestContentType:  definitions.ContentTypeJSON, ResponseContentType: definitions.ContentTypeJSON,
				Security: toSec(r.Security), TemplateContext: map[string]definitions.TemplateContext{}}
			if r.Hidden {
				rm.Hiding.Type = definitions.HideMethodAlways
			}
			for _, p := range r.Params {
				rm.FuncParams = append(rm.FuncParams, definitions.FuncParam{
					ParamMeta:          definitions.ParamMeta{Ordinal: p.Ordinal, Name: p.Name, IsContext: p.IsContext, TypeMeta: toTypeMeta(p.Type)},
					PassedIn:           definitions.ParamPassedIn(p.PassedIn),
					NameInSchema:       p.NameInSchema,
					Description:        p.Description,
					UniqueImportSerial: p.Serial,
					Validator:          p.Validator,
					Deprecation:        definitions.DeprecationOptions{Deprecated: p.Deprecated},
				})
			}
			for i, t := range r.Responses {
				var ser uint64
				if i < len(r.RespSerials) {
					ser = r.RespSerials[i]
				}
				rm.Responses = append(rm.Responses, definitions.FuncReturnValue{Ordinal: i, TypeMetadata: toTypeMeta(t), UniqueImportSerial: ser})
			}
			for _, e := range r.ErrorResponses {
				rm.ErrorResponses = append(rm.ErrorResponses, definitions.ErrorResponse{HttpStatusCode: runtime.HttpStatusCode(e.Code), Description: e.Description})
			}
			cm.Routes = append(cm.Routes, rm)
		}
		ctrls = append(ctrls, cm)
	}
	m := definitions.Models{Structs: []definitions.StructMetadata{}, Enums: []definitions.EnumMetadata{}, Aliases: []definitions.NakedAliasMetadata{}}
	for _, s := range d.Structs {
		sm := definitions.StructMetadata{Name: s.Name, PkgPath: s.PkgPath, Description: s.Description, Deprecation: definitions.DeprecationOptions{Deprecated: s.Deprecated}}
		for _, f := range s.Fields {
			fm := definitions.FieldMetadata{Name: f.Name, Type: f.Type, Description: f.Description, Tag: f.Tag, IsEmbedded: f.IsEmbedded}
			if f.Deprecated {
				fm.Deprecation = &definitions.DeprecationOptions{Deprecated: true}
			}
			sm.Fields = append(sm.Fields, fm)
		}
		m.Structs = append(m.Structs, sm)
	}
	for _, e := range d.Enums {
		m.Enums = append(m.Enums, definitions.EnumMetadata{Name: e.Name, PkgPath: e.PkgPath, Description: e.Description, Values: e.Values, Type: e.Type,
			Deprecation: definitions.DeprecationOptions{Deprecated: e.Deprecated}})
	}
	for _, a := range d.Aliases {
		m.Aliases = append(m.Aliases, definitions.NakedAliasMetadata{Name: a.Name, PkgPath: a.PkgPath, Type: a.Type, Description: a.Description,
			Deprecation: definitions.DeprecationOptions{Deprecated: a.Deprecated}})
	}
	return ctrls, m
}

func toGleeceConfig(c irConfig, version string, engine string, routesOut string) *definitions.GleeceConfig {
	cfg := &definitions.GleeceConfig{}
	cfg.OpenAPIGeneratorConfig.OpenAPI = version
	cfg.OpenAPIGeneratorConfig.Info = definitions.OpenAPIInfo{Title: c.Title, Version: c.Version, Description: c.InfoDescription}
	cfg.OpenAPIGeneratorConfig.BaseURL = c.BaseUrl
	for _, s := range c.Schemes {
		cfg.OpenAPIGeneratorConfig.SecuritySchemes = append(cfg.OpenAPIGeneratorConfig.SecuritySchemes, definitions.SecuritySchemeConfig{
			Description: s.Description, SecurityName: s.Name, Scheme: definitions.HttpAuthScheme(s.Scheme), FieldName: s.FieldName,
			Type: definitions.SecuritySchemeType(s.Type), In: definitions.SecuritySchemeIn(s.In)})
	}
	if c.DefaultSecurity != nil {
		sc := c.DefaultSecurity.Scopes
		if sc == nil {
			sc = []string{}
		}
		cfg.OpenAPIGeneratorConfig.DefaultRouteSecurity = &definitions.SecurityAnnotationComponent{SchemaName: c.DefaultSecurity.Name, Scopes: sc}
	}
	cfg.RoutesConfig.Engine = definitions.RoutingEngineType(engine)
	cfg.RoutesConfig.PackageName = c.PackageName
	cfg.RoutesConfig.OutputPath = routesOut
	cfg.RoutesConfig.OutputFilePerms = "0644"
	cfg.RoutesConfig.SkipGenerateDateComment = true
	cfg.RoutesConfig.ValidateResponsePayload = c.ValidateResp
	cfg.RoutesConfig.AuthorizationConfig = definitions.AuthorizationConfig{AuthFileFullPackageName: "vproj/auth", EnforceSecurityOnAllRoutes: c.Enforce}
	cfg.ExperimentalConfig = definitions.ExperimentalConfig{ValidateTopLevelOnlyEnum: c.TopLevelEnum, GenerateEnumValidator: c.EnumValidator}
	return cfg
}

type irSpecOut struct {
	Err string          `json:"err,omitempty"`
	Doc json.RawMessage `json:"doc,omitempty"`
}

type irOut struct {
	Spec30 irSpecOut            `json:"spec30"`
	Spec31 irSpecOut            `json:"spec31"`
	Routes map[string]routesOut `json:"routes"`
}

func genSpecFromIR(d irDoc, version string) (res irSpecOut) {
	defer func() {
		if r := recover(); r != nil {
			res = irSpecOut{Err: fmt.Sprintf("PANIC: %v | %s", r, panicSite())}
		}
	}()
	ctrls, models := toDefinitions(d)
	cfg := toGleeceConfig(d.Config, version, "gin", "")
	b, err := swagen.GenerateSpec(&cfg.OpenAPIGeneratorConfig, ctrls, &models, d.PlainError)
	if err != nil {
		return irSpecOut{Err: classifySpecErr(err.Error())}
	}
	return irSpecOut{Doc: b}
}

// the first frames of the panicking goroutine that lie inside gleece
func panicSite() string {
	lines := strings.Split(string(debug.Stack()), "\n")
	out := []string{}
	for i, l := range lines {
		if strings.Contains(l, "gopher-fleece/gleece") && !strings.Contains(l, "verifharness") && i+1 < len(lines) {
			out = append(out, strings.TrimSpace(l)+" @ "+strings.TrimSpace(lines[i+1]))
			if len(out) >= 3 {
				break
			}
		}
	}
	return strings.Join(out, " <- ")
}

func classifySpecErr(msg string) string {
	switch {
	case strings.Contains(msg, "does not exist in the defined security schemes"):
		return "unknown-security-scheme"
	default:
		if len(msg) > 300 {
			msg = msg[:300]
		}
		return "error: " + msg
	}
}

var scratchDir string

func scratch() string {
	if scratchDir == "" {
		base := os.Getenv("VH_SCRATCH")
		if base == "" {
			base = os.TempDir()
		}
		d, err := os.MkdirTemp(base, "vh-")
		if err != nil {
			panic(err)
		}
		scratchDir = d
	}
	return scratchDir
}

func genRoutesFromIR(d irDoc, engine string) (res routesOut) {
	defer func() {
		if r := recover(); r != nil {
			res = routesOut{Err: fmt.Sprintf("PANIC: %v", r)}
		}
	}()
	ctrls, models := toDefinitions(d)
	out := filepath.Join(scratch(), "routes_"+engine+".go")
	os.Remove(out)
	cfg := toGleeceConfig(d.Config, "3.0.0", engine, out)
	imports := d.Imports
	if imports == nil {
		imports = map[string][]string{}
	}
	meta := pipeline.GleeceFlattenedMetadata{Imports: imports, Flat: ctrls, Models: models, PlainErrorPresent: d.PlainError}
	if err := routes.GenerateRoutes(cfg, meta); err != nil {
		return routesOut{Err: "error: " + err.Error()}
	}
	b, err := os.ReadFile(out)
	if err != nil {
		return routesOut{Err: "no file written: " + err.Error()}
	}
	os.Remove(out)
	if keep := os.Getenv("VH_KEEP"); keep != "" {
		os.WriteFile(filepath.Join(keep, "routes_"+engine+".go.txt"), b, 0o644)
	}
	return extractRoutes(engine, string(b))
}

func implIR(in json.RawMessage) (any, error) {
	var d irDoc
	if err := json.Unmarshal(in, &d); err != nil {
		return nil, err
	}
	out := irOut{Routes: map[string]routesOut{}}
	out.Spec30 = genSpecFromIR(d, "3.0.0")
	out.Spec31 = genSpecFromIR(d, "3.1.0")
	for _, e := range d.Engines {
		out.Routes[e] = genRoutesFromIR(d, e)
	}
	return out, nil
}

func init() {
	impls["ir"] = implIR
}
