HOOK_COMMITS = []
NOT_YET = {}
META = {
 "C15": dict(
  technique="Lean 4 proof (loop invariant by induction over the route list) + differential correspondence with paths.FindConflicts",
  text="Soundness, completeness and permutation-invariance of FindConflicts are Lean theorems over every finite route list (no bound on length, depth, alphabet); the model is tied to the Go code by exact output equality on tens of thousands of generated lists per run, and the Lean-proved decidable spec is evaluated on the implementation's own answers.",
  note="Trusted: Lean kernel, propext/Classical.choice/Quot.sound, the hand-written model's faithfulness as sampled by the correspondence run, the harness. Holds on the tree after the fix: commit 710dc94 (identity-keyed de-duplication).",
 ),
 "C17": dict(
  technique="Lean 4 proof (index-consistency invariant by induction over operation histories, query refinement) + history-based differential correspondence with symboldg.SymbolGraph",
  text="The consistency of edges/deps/revDeps is a Lean invariant proved for every reachable state (any history of AddNode/AddStruct/AddEnum/AddPrimitive/AddEdge/RemoveEdge/RemoveNode, cyclic graphs and the eviction cascade included); GetEdges/Children/Parents are proved equal to the plain edge-set answers under it, so outgoing<=>incoming and child<=>parent duality are theorems. The model is tied to the Go graph by dumping every query after every operation of thousands of generated histories; the plain set-of-nodes/edges specification (incl. the eviction fixed point) is evaluated on the implementation's own dumps.",
  note="Trusted: Lean kernel, standard axioms, hand-written model as sampled by the correspondence, harness. Not proved in Lean: cascade = least fixed point (spec-checked on every run). Holds after fix commits 095d206, fa8c7b3, 824927d.",
 ),
 "C16": dict(
  technique="Lean 4 proof (round-trip and soundness of a regex-equivalent matcher, holder order/description/error theorems by induction over the comment block) + pinned regex text + differential correspondence with annotations.NewAnnotationHolder",
  text="parse(render a) = a is a Lean theorem for every written annotation satisfying an explicit decidable well-formedness predicate (any name, any value over the class, any JSON text, any description); soundness (nothing invented), source order, the description rule and 'malformed JSON5 is an error' are theorems over every comment block. The matcher is tied to the code by the regenerated regex text (a changed regex breaks a proof obligation) and by tens of thousands of generated comment blocks pushed through go/parser and the real holder, with intent-based round-trip checks on the implementation's own answers; a project-level stream places one annotation line (half of them malformed JSON5) in the doc comment of controllers, routes, declarations, struct fields and enum constants and requires the real pipeline to fail exactly where the comment is one gleece reads.",
  note="Trusted: Lean kernel, standard axioms, hand-written matcher vs RE2 semantics (sampled), json5 library as a parameter. Partial: round trip needs the unambiguity hypothesis; its failure is the open finding C16-F1.",
 ),
 "C01": dict(
  technique="Lean 4 proof (map-insertion lemmas: nothing invented / nothing dropped / exactness under no verb-path collision) + differential correspondence of both emitters on generated IR",
  text="That the emitted operations are exactly the non-hidden annotated routes (operationId, controller tag, deprecation, normalised prefix+route path, never another controller's prefix or tag) is a Lean theorem over every controller list; the model is compared with the operations read back from the real 3.0 and 3.1 documents on thousands of generated IR documents per run, and the property's clauses are evaluated directly on those documents.",
  note="Trusted: Lean kernel, standard axioms, hand-written IR model, harness. Source-to-IR discovery is sampled (proj stream), not proved.",
 ),
 "C04": dict(
  technique="Lean 4 proof (effective-security definition, documented = enforced for every reducible route, undeclared scheme <=> no spec, enforce flag) + three-way correspondence spec JSON / SecurityCheckList literals of the rendered routers / model",
  text="documented security = enforced security is a Lean theorem for every combination of method/controller/default security; 'undeclared scheme <=> emitter fails' and 'every named scheme is declared' are theorems about the emitter model. Each run compares the `security` arrays of both real documents with the SecurityCheckList literals extracted (go/ast) from the generated routers of all five engines and with the model.",
  note="Trusted: Lean kernel, standard axioms, hand-written model, go/ast extraction of the routes file. enforceSecurityOnAllRoutes is validated in the proj stream.",
 ),
 "C06": dict(
  technique="Lean 4 proof (required-rule over all validator strings via strings.Split lemmas; parameter/response map lemmas) + differential correspondence on operation contracts of both documents",
  text="The requiredness rule is proved for every validator string (List Char, Go strings.Split semantics); parameters = non-context path/query/header parameters in order, success and error responses under their codes are theorems on the emitter model; each run compares parameter lists, JSON and form bodies and response tables of the real 3.0/3.1 documents with the model and evaluates the clauses on the documents themselves.",
  note="Trusted: Lean kernel, standard axioms, hand-written model, harness.",
 ),
 "C02": dict(
  technique="Lean 4 proof (registration table = annotated methods; documented subset of served, difference = hidden; served template = documented path) + go/ast extraction of the rendered routers vs model",
  text="One registration per annotated method with its verb (hidden included), documented operations are a subset of the registrations and exactly the hidden ones are missing, and the registered template equals the documented path: theorems on the model. Every run renders real routers for generated IR, extracts the registration table and the URL-converter shape with go/ast, and compares them with the model for each engine; the served-vs-documented equality is evaluated on every route.",
  note="Trusted: Lean kernel, standard axioms, model, go/ast extraction. Framework dispatch is sampled (rig), not proved. Holds after fix c0f9845 (URL converters).",
 ),
 "C03": dict(
  technique="Lean 4 proof (gate-first for every handler; authorize() characterised for every stateful callback; no controller step unless approved) + go/ast extraction of handler skeleton and authorize() shape for five engines",
  text="For every route and every (stateful, adversarial) authorization callback the model handler runs no parsing or controller step unless authorize() approved, which happens only if the route has no effective security or some alternative was approved check by check; a refusal ends the handler with the refusal. Each run checks on the rendered Go code of all engines that the authorize call and its guard precede everything else and that authorize() has the modelled shape.",
  note="Trusted: Lean kernel, standard axioms, model, go/ast extraction; the real callback and frameworks are exercised by the rig stream only.",
 ),
 "C05": dict(
  technique="Lean 4 proof (conversion table accepts exactly the declared integer type's values - decided over the table; argument order; required => 422) + extraction of binding steps from the rendered routers",
  text="For each integer row of the conversion table strconv's range check coincides with the declared Go type (so all boundary integers convert and nothing else does), arguments are passed in signature order with declared pointer-ness, and non-pointer/path parameters are rejected with 422 when absent, for every validator string. Each run compares declared types, accessors (by location), wire names, strconv function + bit size, validator tags and call arguments extracted from the rendered routers with the model.",
  note="Trusted: Lean kernel, standard axioms, model, extraction, strconv decimal parsing, validator's nil-fails-required. Framework accessors/floats/custom validators: rig stream. Holds after fix cf25840 (uint bit size).",
 ),
 "C12": dict(
  technique="Lean 4 proof (engine-free handler model, uniform authorize/URL-converter classes, accessor coverage decided over the tables) + five-way implementation-vs-implementation comparison of rendered routers",
  text="The model has no engine parameter: that the five template sets render the same engine-erased handler is established on every run by comparing the five go/ast extractions with each other and with the model. Interchangeability of traces then follows for equal framework inputs.",
  note="Partial by nature: AccessorsAgree (frameworks deliver equal raw values) is sampled by the rig stream, not proved.",
 ),
 "C11": dict(
  technique="Lean 4 proof (dialect translation preserves the accepted numbers; numeric-bound converters of both versions agree up to dialect under one-rule-per-side, with a decided counterexample outside) + implementation-vs-implementation diff of the two real documents after translation",
  text="The structural part of both documents is one model function (tied separately to each emitter by C01/C04/C06). The dialect translation used by the checker is proved meaning-preserving and the 3.0/3.1 numeric-bound converters are proved equivalent under it; every run diffs the two real documents of the same IR after translation, member by member, with no model in the loop, so a change to one converter or emitter only is caught even where the model lags.",
  note="Known divergences are open findings (C11-F1..F4, C07-F1), each recognised by a signature; any other difference is a violation.",
 ),
 "C08": dict(
  technique="Lean 4 proof (decidable document checker proved sound w.r.t. the WellFormed predicate; validate-before-marshal/write order facts decided on call skeletons regenerated from source) + the checker run on the real documents",
  text="The checker that runs on every emitted 3.0/3.1 document is proved to imply the property's well-formedness predicate ($ref closure, path parameters matched and required, unique parameter names, described responses, typed enum members, info/servers/schemes = config). 'Fails instead of writing an invalid document' is decided on the regenerated call/return skeletons of both emitters, the spec manager and the entry points: validation precedes marshalling and writing and its error is returned.",
  note="Trusted: Lean kernel, standard axioms, JSON->Doc reader, the go/ast skeleton extractor, kin-openapi/libopenapi validation. Open finding C08-F1.",
 ),
 "C14": dict(
  technique="Lean 4 proof (no validator rule can dereference a nil parse result: decided over the rule table regenerated from both converters; totality of every model function) + exploration of the real emitters/routers/CLI with malformed input",
  text="Partial by nature: crash-freedom of the two validator-tag converters is a theorem over a table that a go/ast translator rebuilds from the converters on every run (an unchecked dereference flips a flag and breaks the proof); loops are total model functions. The rest (libraries, visitors) is explored: generated IR with malformed tags through the real emitters and routers, with panics, dead workers and timeouts reported as violations.",
  note="Holds after fix 4ee7fb4 (nil checks in both converters).",
 ),
 "C10": dict(
  technique="Lean 4 proof (soundness of the validator model clause by clause: returns, link validator passes, body/form exclusion; injectivity of the {name} <-> @Path link by induction over the validator's passes; cross-layer theorems connecting the validators, the reducer and the url template: an accepted route's reduced path parameters are, one to one, the {names} of the full template; `blocks` decided on regenerated call skeletons) + differential correspondence of real diagnostics on generated and perturbed projects",
  text="Acceptance implies the well-linkedness clauses (returns error/(T,error), every binding references a non-context parameter, every parameter referenced, every {name} of the FULL template - controller prefix + the method's first @Route - bound, {names} and URL names pairwise distinct, aliases name {names}, one body at most and never with form fields) as Lean theorems over the validator model for all methods; `accepted_route_path_params_partial` carries this through the reducer model to the path parameters the emitters document. That an error diagnostic blocks all output is decided on call skeletons regenerated from pipeline.go and entrypoint.go. The model is tied to the real validators by exact equality of the diagnostic multisets on generated projects incl. all single/double perturbations (30 kinds), and the property's own definition is evaluated against the real verdict per route.",
  note="The completeness direction is proved for the link validator (`wellLinked_accepted`) and checked per case for the other validators; the inclusion 'every un-aliased @Path names a {name}' is hypothesis hF2 of the bijection theorems = open finding C10-F2 (its repair is pinned away by test/diagnostics). Fixed: C10-F1, F3 (prefix parameters), F4 (last vs first @Route), F5 (URL-name collision), F6 (context bound by an annotation) - the last three found by the proof attempts.",
 ),
 "C18": dict(
  technique="Lean 4 proof (first-occurrence search: a found range covers text equal to the value, lies inside the text, start<=end, and exists for every contiguous value - rune arithmetic for all texts) + source-slicing correspondence on real diagnostics",
  text="That a value range covers text equal to the value, inside the comment, with start<=end, is proved for every comment text and value (multi-byte included); the matcher's soundness (C16) supplies that every captured value is a contiguous part of the line. Every run slices the real source of generated/perturbed projects by each reported range and checks file, containment in the entity's comment+declaration, covered text, duplicates, and code/severity against the validator model.",
  note="Open finding C18-F1 (duplicate entity blocks in the error text; pinned by the suite).",
 ),
 "C13": dict(
  technique="Lean 4 proof (any two sorted arrangements of the same elements under a lexicographic key comparator are one list when the keys tell the elements apart - for every key order, every key list, every sorting algorithm; the comparators of every slices.SortFunc call site, regenerated from the source, are of that shape and the controller sort uses (package path, name); serial assignment is a function of the visiting order; positions of the sorts decided on regenerated call skeletons) + byte comparison of artifacts from repeated brand-new sessions",
  text="That any two enumerations of the same files/controllers lead to the same visiting order, hence the same import serials, is a Lean theorem (sorted permutations are equal); that the sorts exist and sit after the map iterations is decided on call skeletons regenerated from packages.facade.go and pipeline.go on every run. Each run also compares the bytes of the routes file and both spec versions across five brand-new sessions per generated project, across engines for the spec, and dated vs undated routes.",
  note="Holds after fix 9a8836e (file-name order, controller order). No injection hooks: order variation comes from Go's map randomisation.",
 ),
 "C19": dict(
  technique="Lean 4 proof (serial memo: a second pass over the same keys yields the same ids and leaves the memo unchanged - induction over the key list; graph idempotence from C17) + history correspondence (repeated analysis on one pipeline vs fresh pipeline)",
  text="Re-running the analysis hands out the same generated-code identifiers and does not change the memo (theorem over every key sequence); re-inserting a same-version node or an existing edge changes nothing in the graph (C17 theorems). Each run repeats GenerateGraph/Validate/GenerateIntermediate 1-3 times on one real pipeline per generated project and compares the canonical metadata with the first round and with a brand-new session, and the graph's node count across rounds.",
  note="Depends on fix 9a8836e for the comparison with a brand-new session (serial numbering used to depend on map order).",
 ),
 "C20": dict(
  technique="Lean 4 proof (permission strings accepted by the declared regex are parsed to a mode <= 0o777 which is the mode written; required / omitempty tag semantics; reported tag is one of the field's tags; package default) + kernel-decided facts on regenerated artefacts (struct tree + validate tags reflected from GleeceConfig; LoadGleeceConfig validates and returns before getFullMetadata; every command loads the configuration first; mode computed before WriteFile) + differential correspondence of the schema interpreter with the real command",
  text="The tag semantics and the permission parser are Lean definitions with theorems for every string; the struct tree they are applied to is reflected from /repo on every run; the up-front order is decided on regenerated call skeletons of cmd/entrypoint.go. controllerGlobs are evaluated by a Lean model of the doublestar patterns in use (`*`, `?`, `**` components, `{a,b}`) with theorems for literal patterns and for `**`. Each run feeds >200 configuration documents (every single-field corruption of a valid configuration, all engines/versions/permission strings, 17 glob sets over a three-level project tree) to the real command and compares rejection reports, absence of output on rejection, and paths/modes/package/engine/version/info/servers/schemes/controllers on acceptance.",
  note="Findings: C20-F1 (missing commonConfig accepted, open), C20-F2 (spec failure after the routes file was written; fixed 41f6717), C20-F3 (starts_with_letter looked at the first byte; fixed 3a6f899), C20-F4 (a glob matching directories failed the run; fixed 4620e58).",
 ),
 "C07": dict(
  technique="Lean 4 proof (components = image of the reachability closure under a per-declaration function: soundness by induction over the closure rounds, completeness of any closed superset of the roots by induction over reachability, non-interference and monotonicity as corollaries, properties = JSON-visible fields) + differential correspondence with components.schemas of both emitted documents on generated type-graph projects",
  text="A component is `Decl.component d`, a function of the declaration alone - that usage sites, validators and other routes cannot change it is a theorem about the model (`usage_site_never_changes_component`), and the model is compared structurally with what the real pipeline emits for type graphs with recursion, embedding, cross-package references, every json-tag spelling and usage-site validators. The closure spec (`isClosed`, proved to imply completeness) is evaluated on the implementation's own component set.",
  note="Findings: C07-F1 (3.0 usage site rewrote shared component; fixed 5d0e242), C07-F2 (unexported / json:\"-\" / empty-name fields; fixed fc4c1e9), C07-F4 (same name in two packages collapses; open), C07-F5 (alias of alias is `object`; open).",
 ),
 "C09": dict(
  technique="Lean 4 proof (import aliases `Param<serial><name>` / `Response<serial><Type>` are identifiers and are injective in (serial, name) - via core's Nat.toDigits lemmas; kernel-decided facts on the regenerated GenerateRoutes skeleton: formatted before written, every failure incl. the formatter's returns before the write) + compilation of the five rendered routers for generated projects (`rig` stream)",
  text="Alias validity and uniqueness are theorems for every serial and name; that the file type-checks is decided by compiling it - the rig prints a project, renders gin / echo / mux / chi / fiber routers with the real generator and builds them together with the project and an authorization package per engine on every case.",
  note="Findings: C09-F1 (no routes file is gofmt-clean: blank lines are stripped after formatting; open, pinned by test/units/compilation), C09-F2 (unparsable text written with a warning; fixed 6ff4422), C09-F3 (map-typed result made the file unparsable; fixed 3f4a446).",
 ),
}
