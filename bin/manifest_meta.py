HOOK_COMMITS = []
NOT_YET = {}
META = {
 "C15": dict(
  technique="Lean 4 proof (loop invariant by induction over the route list) + differential correspondence with paths.FindConflicts",
  text="Soundness, completeness and permutation-invariance of FindConflicts are Lean theorems over every finite route list (no bound on length, depth, alphabet); the model is tied to the Go code by exact output equality on tens of thousands of generated lists per run, and the Lean-proved decidable spec is evaluated on the implementation's own answers.",
  note="Trusted: Lean kernel, propext/Classical.choice/Quot.sound, the hand-written model's faithfulness as sampled by the correspondence run, the harness. Holds on the tree after the fix: commit 710dc94 (identity-keyed de-duplication).",
 ),
}
