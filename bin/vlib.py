#!/usr/bin/env python3
"""Shared machinery of the /verif checks (DESIGN §4): build steps, proof step, correspondence step,
classification, evidence.  Everything is rebuilt from /repo's current working tree on every run."""
import fcntl
import hashlib
import json
import os
import re
import shutil
import subprocess
import sys
import tempfile
import time
from concurrent.futures import ThreadPoolExecutor

VERIF = os.path.dirname(os.path.dirname(os.path.abspath(__file__)))
REPO = os.environ.get("VERIF_REPO", "/repo")
LEAN = os.path.join(VERIF, "lean")
HARNESS = os.path.join(VERIF, "harness")
ALLOWED_AXIOMS = {"propext", "Classical.choice", "Quot.sound"}
FORBIDDEN = re.compile(r"\b(sorry|admit|native_decide|bv_decide|implemented_by|unsafe)\b|^\s*axiom\s|maxHeartbeats\s+0\b")
NCPU = os.cpu_count() or 4


def goenv():
    e = dict(os.environ)
    e["GOFLAGS"] = "-mod=mod"
    e["GOPROXY"] = "off"
    e.pop("GOTOOLCHAIN", None)  # must stay at auto: /repo's go.mod selects the cached 1.24.7 toolchain
    e.pop("GOSUMDB", None)
    e.setdefault("GOMEMLIMIT", "6GiB")
    return e


def run(cmd, cwd=None, env=None, timeout=None, stdin=None, stdout=subprocess.PIPE):
    return subprocess.run(cmd, cwd=cwd, env=env, timeout=timeout, stdin=stdin, stdout=stdout,
                          stderr=subprocess.STDOUT, text=True)


class Lock:
    """serialise lake / go builds between concurrently running checks"""

    def __init__(self, name):
        self.path = os.path.join(VERIF, ".lock-" + name)

    def __enter__(self):
        self.f = open(self.path, "w")
        fcntl.flock(self.f, fcntl.LOCK_EX)

    def __exit__(self, *a):
        fcntl.flock(self.f, fcntl.LOCK_UN)
        self.f.close()


class Scratch:
    def __init__(self):
        base = os.environ.get("VERIF_SCRATCH")
        if base:
            os.makedirs(base, exist_ok=True)
            self.dir = tempfile.mkdtemp(prefix="run-", dir=base)
        else:
            self.dir = tempfile.mkdtemp(prefix="verif-", dir="/var/tmp")

    def path(self, *p):
        return os.path.join(self.dir, *p)

    def cleanup(self):
        shutil.rmtree(self.dir, ignore_errors=True)


# ---------------------------------------------------------------------------------------------
# build steps

def repo_tree_hash():
    """hash of the Go-relevant part of /repo's working tree (for build caching inside one session)"""
    h = hashlib.sha256()
    out = subprocess.run(["git", "-C", REPO, "rev-parse", "HEAD"], capture_output=True, text=True).stdout
    h.update(out.encode())
    out = subprocess.run(["git", "-C", REPO, "diff", "HEAD", "--", ".", ":!e2e"], capture_output=True, text=True).stdout
    h.update(out.encode())
    out = subprocess.run(["git", "-C", REPO, "ls-files", "--others", "--exclude-standard"], capture_output=True, text=True).stdout
    for f in out.split():
        try:
            h.update(f.encode())
            h.update(open(os.path.join(REPO, f), "rb").read())
        except OSError:
            pass
    return h.hexdigest()[:16]


def build_harness(log):
    """(re)build vh from /repo's working tree with -tags verif.  Returns path or None."""
    bindir = os.path.join(VERIF, ".build")
    os.makedirs(bindir, exist_ok=True)
    with Lock("go"):
        # the module under test is /repo unless VERIF_REPO points at a scratch copy (seed runs, background runs)
        with open(os.path.join(HARNESS, "go.mod.tmpl")) as f:
            gomod = f.read().replace("=> /repo", "=> " + REPO)
        with open(os.path.join(HARNESS, "go.mod"), "w") as f:
            f.write(gomod)
        shutil.copyfile(os.path.join(REPO, "go.sum"), os.path.join(HARNESS, "go.sum"))
        # stale binary is removed first: a failed build must not leave yesterday's harness in place
        out = os.path.join(bindir, "vh")
        if os.path.exists(out):
            os.remove(out)
        r = run(["go", "build", "-tags", "verif", "-o", out, "./cmd/vh"], cwd=HARNESS, env=goenv(), timeout=1200)
        log.append({"step": "go build harness", "rc": r.returncode, "out": r.stdout[-4000:]})
        if r.returncode != 0:
            return None
        # the program under test itself (mode `cli` runs it in child processes)
        gbin = os.path.join(bindir, "gleece")
        if os.path.exists(gbin):
            os.remove(gbin)
        r2 = run(["go", "build", "-o", gbin, "."], cwd=REPO, env=goenv(), timeout=1200)
        log.append({"step": "go build gleece", "rc": r2.returncode, "out": r2.stdout[-2000:]})
        if r2.returncode == 0:
            os.environ["VH_GLEECE_BIN"] = gbin
        else:
            os.environ.pop("VH_GLEECE_BIN", None)
        # private copy so that a concurrent check rebuilding the harness cannot pull it from under us
        return out


def regenerate(vh, log):
    """run the translators: Gleece/Generated/*.lean from /repo's current source"""
    gen = os.path.join(LEAN, "Gleece", "Generated")
    os.makedirs(gen, exist_ok=True)
    tmp = tempfile.mkdtemp(prefix="gen-", dir=os.path.join(VERIF, ".build"))
    r = run([vh, "extract", tmp], env=dict(goenv(), VERIF_REPO=REPO), timeout=300)
    log.append({"step": "vh extract", "rc": r.returncode, "out": r.stdout[-4000:]})
    drift = {}
    if r.returncode == 0:
        for f in sorted(os.listdir(tmp)):
            new = open(os.path.join(tmp, f)).read()
            dst = os.path.join(gen, f)
            old = open(dst).read() if os.path.exists(dst) else None
            if old != new:
                open(dst, "w").write(new)
            exp = os.path.join(LEAN, "Gleece", "Generated.expected", f)
            drift[f] = (not os.path.exists(exp)) or open(exp).read() != new
    shutil.rmtree(tmp, ignore_errors=True)
    return r.returncode == 0, drift


def lake_build(targets, log, timeout=3000):
    r = run(["lake", "build"] + targets, cwd=LEAN, timeout=timeout)
    log.append({"step": "lake build " + " ".join(targets), "rc": r.returncode, "out": r.stdout[-6000:]})
    return r.returncode == 0, r.stdout


def grep_forbidden(files):
    hits = []
    for f in files:
        try:
            src = open(f, encoding="utf8").read()
        except OSError:
            continue
        # drop block comments and line comments
        src2 = re.sub(r"/-.*?-/", lambda m: "\n" * m.group(0).count("\n"), src, flags=re.S)
        for i, line in enumerate(src2.split("\n"), 1):
            line = line.split("--")[0]
            if FORBIDDEN.search(line):
                hits.append(f"{os.path.relpath(f, VERIF)}:{i}: {line.strip()[:120]}")
    return hits


def lean_sources():
    out = []
    for root, _, fs in os.walk(os.path.join(LEAN, "Gleece")):
        for f in fs:
            if f.endswith(".lean"):
                out.append(os.path.join(root, f))
    out.append(os.path.join(LEAN, "Driver.lean"))
    return out


def proof_step(pid, log, thorough=False):
    """lake build the property + audit modules, parse `#print axioms`.
    Returns dict(obligations, discharged, failed:[names], axioms:{thm:[..]}, checker_cmd, ok)"""
    audit_file = os.path.join(LEAN, "Gleece", "Audit", pid + ".lean")
    names = re.findall(r"^#print axioms\s+(\S+)", open(audit_file).read(), flags=re.M)
    res = {"obligations": len(names), "discharged": 0, "failed": [], "axioms": {}, "theorems": names,
           "checker_cmd": f"cd lean && lake build Gleece.Properties.{pid} && lake env lean Gleece/Audit/{pid}.lean"
                          + (f" && lake env leanchecker Gleece.Properties.{pid}" if thorough else "")}
    # the audit file may pull in further theorem modules shared between properties (Reduce, Serve)
    extra = [m for m in re.findall(r"^import\s+(\S+)", open(audit_file).read(), flags=re.M) if m != f"Gleece.Properties.{pid}"]
    with Lock("lake"):
        ok, out = lake_build([f"Gleece.Properties.{pid}"] + extra, log)
        res["build_ok"] = ok
        r = run(["lake", "env", "lean", os.path.join("Gleece", "Audit", pid + ".lean")], cwd=LEAN, timeout=1800)
        log.append({"step": "audit", "rc": r.returncode, "out": r.stdout[-6000:]})
        txt = r.stdout
        if thorough and ok:
            rc = run(["lake", "env", "leanchecker", f"Gleece.Properties.{pid}"], cwd=LEAN, timeout=3000)
            log.append({"step": "leanchecker", "rc": rc.returncode, "out": rc.stdout[-2000:]})
            res["leanchecker_ok"] = rc.returncode == 0
            if rc.returncode != 0:
                ok = False
    txt1 = re.sub(r"\s+", " ", txt)
    for n in names:
        m = re.search(r"'" + re.escape(n) + r"' depends on axioms: \[([^\]]*)\]", txt1)
        if m:
            ax = [a.strip() for a in m.group(1).split(",") if a.strip()]
        elif re.search(r"'" + re.escape(n) + r"' does not depend on any axioms", txt1):
            ax = []
        else:
            res["failed"].append(n)
            continue
        res["axioms"][n] = ax
        if set(ax) <= ALLOWED_AXIOMS:
            res["discharged"] += 1
        else:
            res["failed"].append(n)
    hits = grep_forbidden(lean_sources())
    res["forbidden_hits"] = hits
    res["ok"] = ok and not res["failed"] and not hits and res["obligations"] > 0
    return res


# ---------------------------------------------------------------------------------------------
# correspondence

def run_impl_parallel(vh, ops_path, out_path, workers, per_chunk_timeout=3600, env_extra=None):
    """split ops.jsonl into `workers` contiguous chunks, run `vh impl` on each, concatenate in order.
    A worker that dies (hard crash, OOM kill, timeout) yields crash answers for its unanswered ops, and
    the op it died on is recorded."""
    lines = open(ops_path).read().split("\n")
    lines = [l for l in lines if l]
    n = len(lines)
    workers = max(1, min(workers, n))
    chunks = [lines[i * n // workers:(i + 1) * n // workers] for i in range(workers)]
    env = goenv()
    if env_extra:
        env.update(env_extra)

    def work(chunk):
        answers = []
        todo = chunk
        while todo:
            try:
                p = subprocess.run([vh, "impl"], input="\n".join(todo) + "\n", capture_output=True, text=True,
                                   env=env, timeout=per_chunk_timeout)
                outl = [l for l in p.stdout.split("\n") if l]
                tail = p.stderr[-2000:]
                kind = "died"
            except subprocess.TimeoutExpired as ex:
                so = ex.stdout.decode() if isinstance(ex.stdout, bytes) else (ex.stdout or "")
                outl = [l for l in so.split("\n") if l]
                # last line may be partial
                good = []
                for l in outl:
                    try:
                        json.loads(l)
                        good.append(l)
                    except Exception:
                        break
                outl = good
                tail = "timeout"
                kind = "timeout"
            answers.extend(outl)
            if len(outl) >= len(todo):
                break
            # process died on op number len(outl)
            dead = json.loads(todo[len(outl)])
            answers.append(json.dumps({"id": dead["id"], "crash": kind, "msg": tail}))
            todo = todo[len(outl) + 1:]
        return answers

    with ThreadPoolExecutor(max_workers=workers) as ex:
        res = list(ex.map(work, chunks))
    with open(out_path, "w") as f:
        for r in res:
            for l in r:
                f.write(l + "\n")


def run_driver(ops_path, impl_path, out_path, prop="", timeout=7200, workers=1):
    """runs gmdriver; with workers>1 the op/impl files are split into contiguous chunks run in parallel"""
    drv = os.path.join(LEAN, ".lake", "build", "bin", "gmdriver")
    ops = [l for l in open(ops_path).read().split("\n") if l]
    impls = [l for l in open(impl_path).read().split("\n") if l]
    workers = max(1, min(workers, len(ops)))
    if workers == 1:
        with open(ops_path) as fin, open(out_path, "w") as fout:
            p = subprocess.run([drv, impl_path, prop], stdin=fin, stdout=fout, stderr=subprocess.PIPE, text=True, timeout=timeout)
        return p.returncode, p.stderr[-2000:]
    n = len(ops)
    bounds = [(i * n // workers, (i + 1) * n // workers) for i in range(workers)]

    def work(ix):
        a, b = bounds[ix]
        ip = f"{impl_path}.part{ix}"
        with open(ip, "w") as f:
            f.write("\n".join(impls[a:b]) + "\n")
        p = subprocess.run([drv, ip, prop], input="\n".join(ops[a:b]) + "\n", capture_output=True, text=True, timeout=timeout)
        os.remove(ip)
        return p.returncode, p.stdout, p.stderr[-2000:]

    with ThreadPoolExecutor(max_workers=workers) as ex:
        res = list(ex.map(work, range(workers)))
    with open(out_path, "w") as f:
        for rc, so, se in res:
            f.write(so)
    rc = max(r[0] for r in res)
    return rc, "".join(r[2] for r in res)[-2000:]


def strip_private(j):
    """keys starting with '_' carry oracles / side information of the harness and are not compared"""
    if isinstance(j, dict):
        return {k: strip_private(v) for k, v in j.items() if not k.startswith("_")}
    if isinstance(j, list):
        return [strip_private(x) for x in j]
    return j


def canon(j):
    return json.dumps(strip_private(j), sort_keys=True, ensure_ascii=False, separators=(",", ":"))


def load_known():
    p = os.path.join(VERIF, "known_findings.json")
    if not os.path.exists(p):
        return []
    return json.load(open(p)).get("findings", [])


def write_evidence(pid, ev):
    os.makedirs(os.path.join(VERIF, "evidence"), exist_ok=True)
    p = os.path.join(VERIF, "evidence", pid + ".json")
    tmp = p + ".tmp"
    with open(tmp, "w") as f:
        json.dump(ev, f, indent=1, ensure_ascii=False)
    os.replace(tmp, p)


def write_replay(pid, obj):
    d = os.path.join(VERIF, "replays")
    os.makedirs(d, exist_ok=True)
    p = os.path.join(d, f"{pid}-{int(time.time())}-{os.getpid()}.json")
    with open(p, "w") as f:
        json.dump(obj, f, indent=1, ensure_ascii=False)
    return p
