"""Per-property configuration of bin/check (streams, sizes, stated rule, trusted base)."""

COMMON_TB = [
    "Lean 4.33.0 kernel (leanchecker re-check in the thorough tier)",
    "axioms: at most propext, Classical.choice, Quot.sound (audited by #print axioms on every listed theorem); no native_decide, no bv_decide, no sorry/admit, no axioms of ours",
    "the correspondence harness /verif/harness (generators, canonicalisers) and /verif/bin/check (classification)",
    "String<->List Char conversion and Lean.Json at the driver boundary",
]

PROPS = {
    "C15": dict(
        streams=[dict(mode="paths", quick=30000, thorough=300000, workers=8)],
        rule="route lists of 0-12 entries over literals/{params}/pseudo-params, depth 0-4, 1-3 verbs, forced near-duplicates, doubled/leading/trailing slashes, random permutations of the same list; thorough adds every list of length<=3 over 16 (verb,path) pairs; non-trivial = at least one overlapping same-verb pair; distinct = distinct input list",
        trusted_base=COMMON_TB + [
            "model Gleece/Model/Paths.lean is hand-written; tie = exact equality of (idA,idB,reason) lists with paths.FindConflicts on every generated list",
            "the pointer trie is modelled by its denotation (registered entries addressed by trie path); Go map iteration order only permutes append order before a stable sort on a key that is unique per conflict of one new entry",
        ],
        partial=[],
        assumptions=["strconv.Quote (%q) is modelled for printable text without control characters only; generators stay inside that alphabet"],
        exhaustive_in_thorough=False,
    ),
}
