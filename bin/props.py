"""Per-property configuration of bin/check (streams, sizes, stated rule, trusted base)."""

COMMON_TB = [
    "Lean 4.33.0 kernel (leanchecker re-check in the thorough tier)",
    "axioms: at most propext, Classical.choice, Quot.sound (audited by #print axioms on every listed theorem); no native_decide, no bv_decide, no sorry/admit, no axioms of ours",
    "the correspondence harness /verif/harness (generators, canonicalisers) and /verif/bin/check (classification)",
    "String<->List Char conversion and Lean.Json at the driver boundary",
]

IR_RULE = 'flattened-IR documents as the reducer produces them (1-3 controllers x 1-4 routes, 5 verbs, prefixes with/without leading, doubled and trailing slashes and {params}, hidden/deprecated mix, 0-3 security schemes with method/controller/default levels, all parameter locations, pointers, enums/aliases/structs/slices/maps, validator strings over the converter rule table, (T,error)/error/custom-error returns, @Response/@ErrorResponse codes), 20% perturbed (undeclared scheme, missing path binding), pushed through the real swagen.GenerateSpec (3.0.0 and 3.1.0) and routes.GenerateRoutes'
IR_TB = ['model Gleece/Model/IR.lean + Router.lean are hand-written from the two emitters and the five template sets; tie = the `ir` correspondence stream (model projections vs the same projections of the real JSON documents and of the go/ast extraction of the rendered routes file)', 'kin-openapi / libopenapi (document validation, JSON rendering) and raymond (Handlebars) are exercised, not modelled']

PROJ_RULE = 'abstract projects printed as real Go source + gleece.config.json into a scratch module (1-3 controllers over files a.go/b.go/c.go and packages ctl/other, 1-4 methods each, all parameter locations, pointers, enums/aliases/structs, 0-2 security schemes at method/controller/default level, enforce flag) and run in-process through the real cmd.LoadGleeceConfig -> pipeline.GenerateGraph/Validate/GenerateIntermediate -> swagen/routes; half of the projects carry one or two perturbations (drop / duplicate / rename / retarget / retype an annotation or parameter, extra or missing {url} parameter, bad alias, second body, body+form, bad results, invalid/unsupported verb, unknown annotation, bad status code)'

PROPS = {
    "C15": dict(
        streams=[dict(mode="paths", quick=30000, thorough=300000, workers=8),
                 dict(mode="proj", quick=112, thorough=2400, workers=14, driver_workers=4, timeout=1800, env={"VH_SHARED_NAMES": "1"})],
        rule="(proj stream: generated projects through the real validators, in half of them the methods of different controllers share their Go names; the set of receivers carrying a `route-conflict` warning is compared with `findConflicts` of the model on the full templates of all routes; non-trivial = at least one conflicting receiver) route lists of 0-12 entries over literals/{params}/pseudo-params, depth 0-4, 1-3 verbs, forced near-duplicates, doubled/leading/trailing slashes, random permutations of the same list; thorough adds every list of length<=3 over 16 (verb,path) pairs; non-trivial = at least one overlapping same-verb pair; distinct = distinct input list",
        trusted_base=COMMON_TB + [
            "model Gleece/Model/Paths.lean is hand-written; tie = exact equality of (idA,idB,reason) lists with paths.FindConflicts on every generated list",
            "the pointer trie is modelled by its denotation (registered entries addressed by trie path); Go map iteration order only permutes append order before a stable sort on a key that is unique per conflict of one new entry",
        ],
        partial=[],
        assumptions=["strconv.Quote (%q) is modelled for printable text without control characters only; generators stay inside that alphabet"],
        exhaustive_in_thorough=False,
    ),
    "C17": dict(
        streams=[dict(mode="graph", quick=6000, thorough=120000, workers=12)],
        rule="operation histories of length 1-40 over 2-5 base keys x 1-2 file versions x 4 edge kinds + 2 universe primitives, ops AddAlias/AddConst/AddStruct/AddEnum/AddPrimitive/AddEdge/RemoveEdge(kind|nil)/RemoveNode, every query (FindByKind/Get/Exists/GetEdges/Children/Parents/Descendants, sorted and unsorted) dumped after every op and compared with the model's dump and with the plain set-of-nodes/set-of-edges specification (incl. the eviction least fixed point); thorough adds every history of length<=3 over a 2-key universe; non-trivial = at least 3 ops and a non-empty final edge set; distinct = distinct history",
        trusted_base=COMMON_TB + [
            "model Gleece/Model/Graph.lean is hand-written (relational rendering of the nested Go maps); tie = exact equality of all query dumps after every operation",
            "RemoveNode's nested recursion is modelled with explicit fuel (|nodes|+|revDeps|+2); exhaustion would be reported as a model failure (never observed)",
            "Go map iteration order inside RemoveNode/Descendants is not modelled: the model iterates in insertion order and the outputs compared are order-free (sets) or ordinal-sorted",
        ],
        partial=["removeNode_lfp: equality of the cascade with the least-fixed-point eviction set is checked on every generated history by the decidable spec (A.removeNode) but not proved in Lean",
                 "AddField/AddRoute*/AddController are not driven (they need go/ast + TypeUsageMeta fixtures); they are compositions of createAndAddSymNode and AddEdge, which are"],
        assumptions=["children/parents are compared as sets of nodes (Go returns one entry per edge and per recorded parent key)"],
        exhaustive_in_thorough=False,
    ),
    "C16": dict(
        compare_on_known=True,  # the views compared are independent of the recorded findings: a finding never masks a divergence
        streams=[dict(mode="annot", quick=40000, thorough=600000, workers=12),
                 dict(mode="proj", quick=140, thorough=1500, workers=14, env={"VH_TYPES": "1", "VH_COMMENT_SITES": "1"})],
        rule="comment blocks of 1-8 lines printed as the doc comment of a real Go func (indent, preceding lines varied), parsed by go/parser and gast.MapDocListToCommentBlock: grammar-generated annotation lines (15 names, values over the whole class incl. spaces/braces/backslash, nested JSON5 objects/arrays/strings containing } ) , }) , unquoted keys, trailing commas, single quotes, tab/space separators, unicode descriptions, trailing blanks), 8% malformed JSON5, 8% near-miss lines, 12% free text, 8% rune-level mutations; every generated line carries the generator's intent so the round trip is checked against what was written, not against the model; non-trivial = the block contains at least one line the model parses as an attribute; distinct = distinct block; the `proj` stream prints type-graph projects with ONE annotation line (half of them with a JSON5 object that does not parse) in the doc comment of a controller, a route method, a declaration, a struct field or an enum constant and runs the real pipeline: where the construct is one gleece reads (controllers, routes, declarations reached from a route per the C07 closure model, their JSON-visible fields and constants) a malformed line must fail the run and a well-formed one must not",
        trusted_base=COMMON_TB + [
            "model Gleece/Model/Annot.lean is a hand-written matcher for the regex whose source text is pinned by Generated/Regexes.lean (regenerated from core/annotations/holder.go; theorem regex_text_is_modelled); RE2's leftmost-first semantics is argued in the model's header and sampled by the correspondence",
            "github.com/titanous/json5 is a parameter (jsonOk); the harness evaluates it on every {...} substring of every line and hands the table to the driver",
            "go/parser + go/scanner produce the comment texts (no line terminators inside a // comment)",
        ],
        partial=["parse_render holds under the explicit decidable predicate WF, whose last clause (no `})` + acceptable tail inside the description when a JSON part is present) is forced by the greedy `\\{.*\\}`; outside it the code mis-parses: finding C16-F1"],
        assumptions=["a line's written value is everything between '(' and the first character outside the value class (so blanks before the comma belong to the value)"],
    ),
    "C01": dict(
        streams=[dict(mode="ir", quick=1500, thorough=40000, workers=14, driver_workers=8),
                 dict(mode="proj", quick=42, thorough=560, workers=14, driver_workers=2, timeout=3000, env={"VH_VALID_ONLY": "1", "VH_LOAD_FAILURES": "1"})],
        rule='flattened-IR documents as the reducer produces them (1-3 controllers x 1-4 routes, 5 verbs, prefixes with/without leading, doubled and trailing slashes and {params}, hidden/deprecated mix, 0-3 security schemes with method/controller/default levels, all parameter locations, pointers, enums/aliases/structs/slices/maps, validator strings over the converter rule table, (T,error)/error/custom-error returns, @Response/@ErrorResponse codes), 20% perturbed (undeclared scheme, missing path binding), pushed through the real swagen.GenerateSpec (3.0.0 and 3.1.0) and routes.GenerateRoutes (every engine on every 10th case, one engine otherwise)' + "; non-trivial = at least one non-hidden route; distinct = distinct document",
        trusted_base=COMMON_TB + ['model Gleece/Model/IR.lean is hand-written from the two emitters and the five template sets; tie = the `ir` correspondence stream (model projections vs the same projections of the real JSON documents and of the go/ast extraction of the rendered routes file)', 'kin-openapi / libopenapi (document validation, JSON rendering) and raymond (Handlebars) are exercised, not modelled'],
        partial=["discovery of controllers/methods from Go source (go/packages, visitors) is covered by the `proj` stream, not by a theorem"],
        assumptions=["the iff is stated under NoVerbPathCollision (two non-hidden routes with equal verb and normalised path overwrite each other in the document; C15 warns about exactly these)"],
    ),
    "C04": dict(
        streams=[dict(mode="ir", quick=1500, thorough=40000, workers=14, driver_workers=8),
                 dict(mode="proj", quick=28, thorough=560, workers=14, driver_workers=2, timeout=3000, env={"VH_VALID_ONLY": "1", "VH_KEEP_ENFORCE": "1"})],
        rule='flattened-IR documents as the reducer produces them (1-3 controllers x 1-4 routes, 5 verbs, prefixes with/without leading, doubled and trailing slashes and {params}, hidden/deprecated mix, 0-3 security schemes with method/controller/default levels, all parameter locations, pointers, enums/aliases/structs/slices/maps, validator strings over the converter rule table, (T,error)/error/custom-error returns, @Response/@ErrorResponse codes), 20% perturbed (undeclared scheme, missing path binding), pushed through the real swagen.GenerateSpec (3.0.0 and 3.1.0) and routes.GenerateRoutes (every engine on every 10th case, one engine otherwise)' + "; non-trivial = some route has a non-empty documented security; distinct = distinct document",
        trusted_base=COMMON_TB + ['model Gleece/Model/IR.lean is hand-written from the two emitters and the five template sets; tie = the `ir` correspondence stream (model projections vs the same projections of the real JSON documents and of the go/ast extraction of the rendered routes file)', 'kin-openapi / libopenapi (document validation, JSON rendering) and raymond (Handlebars) are exercised, not modelled'],
        partial=["enforceSecurityOnAllRoutes is decided by the validators (front end); its model enforceAccepts is tied by the `proj` stream"],
        assumptions=["an absent `security` member and `security: []` are the same requirement (no top-level security is ever emitted)",
                     "IR mirrors the reducer's image: one scheme per alternative (GetSecurityFromContext), controller security already defaulted"],
    ),
    "C06": dict(
        streams=[dict(mode="ir", quick=1500, thorough=40000, workers=14, driver_workers=8),
                 dict(mode="proj", quick=28, thorough=560, workers=14, driver_workers=2, timeout=3000, env={"VH_VALID_ONLY": "1", "VH_MAP_BODY": "1"})],
        rule='flattened-IR documents as the reducer produces them (1-3 controllers x 1-4 routes, 5 verbs, prefixes with/without leading, doubled and trailing slashes and {params}, hidden/deprecated mix, 0-3 security schemes with method/controller/default levels, all parameter locations, pointers, enums/aliases/structs/slices/maps, validator strings over the converter rule table, (T,error)/error/custom-error returns, @Response/@ErrorResponse codes), 20% perturbed (undeclared scheme, missing path binding), pushed through the real swagen.GenerateSpec (3.0.0 and 3.1.0) and routes.GenerateRoutes (every engine on every 10th case, one engine otherwise)' + "; non-trivial = some documented route has parameters; distinct = distinct document",
        trusted_base=COMMON_TB + ['model Gleece/Model/IR.lean is hand-written from the two emitters and the five template sets; tie = the `ir` correspondence stream (model projections vs the same projections of the real JSON documents and of the go/ast extraction of the rendered routes file)', 'kin-openapi / libopenapi (document validation, JSON rendering) and raymond (Handlebars) are exercised, not modelled'],
        partial=[],
        assumptions=["schema shapes are compared up to `format` (time.Time and []byte are strings with a format; a validator may set a format too)"],
    ),
    "C02": dict(
        streams=[dict(mode="ir", quick=1200, thorough=30000, workers=14, driver_workers=8),
                 dict(mode="proj", quick=14, thorough=280, workers=14, driver_workers=2, timeout=3000, env={"VH_VALID_ONLY": "1", "VH_ALL_ENGINES": "1"}),
                 dict(mode="rig", quick=10, thorough=150, workers=10, driver_workers=1, timeout=3000)],
        rule=IR_RULE + "; every rendered routes file is parsed with go/ast: registration table (verb, template literal), URL converter shape; non-trivial = at least one route; distinct = distinct document",
        trusted_base=COMMON_TB + IR_TB + ["go/ast extraction of the rendered routes file (harness/cmd/vh/routesx.go)"],
        partial=["dispatch inside gin/echo/mux/chi/fiber (which registered template a concrete request reaches) is sampled by the rig stream, not proved",
                 "commutation of {x}->:x rewriting with slash-collapsing on the three colon engines is evaluated on every case (servedTemplate = documented path), not proved"],
        assumptions=[],
    ),
    "C03": dict(
        streams=[dict(mode="ir", quick=1200, thorough=30000, workers=14, driver_workers=8),
                 dict(mode="proj", quick=28, thorough=560, workers=14, driver_workers=2, timeout=3000, env={"VH_VALID_ONLY": "1"}),
                 dict(mode="rig", quick=10, thorough=150, workers=10, driver_workers=1, timeout=3000)],
        rule=IR_RULE + "; handler skeleton per route per engine extracted with go/ast (authorize call with its SecurityCheckList literal, guard, controller construction, InitController, binds, validators, call) and the shape of the rendered authorize(); non-trivial = at least one route; distinct = distinct document",
        trusted_base=COMMON_TB + IR_TB + ["go/ast extraction of the rendered routes file", "the framework delivers the request to the registered closure (rig stream)"],
        partial=["the user's GleeceRequestAuthorization is an arbitrary stateful function in the model (Callback); its real Go behaviour (panics, context mutation) is exercised only by the rig stream"],
        assumptions=[],
    ),
    "C05": dict(
        streams=[dict(mode="ir", quick=1200, thorough=30000, workers=14, driver_workers=8),
                 dict(mode="proj", quick=14, thorough=280, workers=14, driver_workers=2, timeout=3000, env={"VH_VALID_ONLY": "1", "VH_ALL_ENGINES": "1"}),
                 dict(mode="rig", quick=10, thorough=150, workers=10, driver_workers=1, timeout=3000)],
        rule=IR_RULE + "; binding steps per parameter per engine (declared type, accessor->location, wire name, strconv function and bit size, validator tag, call arguments with pointer-ness); non-trivial = at least one route; distinct = distinct document",
        trusted_base=COMMON_TB + IR_TB + ["strconv parses what FormatInt prints (decimal parsing is not modelled; only the range check is)", "go-playground/validator: a nil pointer fails `required`"],
        partial=["framework accessors (what gin/echo/mux/chi/fiber return for a given request), floats and custom validator tags: rig stream only"],
        assumptions=["parameter names are lower-camel already (ToLowerCamel is the identity on generated names)"],
    ),
    "C12": dict(
        streams=[dict(mode="ir", quick=300, thorough=6000, workers=14, driver_workers=8, env={"VH_ALL_ENGINES": "1"}),
                 dict(mode="proj", quick=14, thorough=280, workers=14, driver_workers=2, timeout=3000, env={"VH_VALID_ONLY": "1", "VH_ALL_ENGINES": "1"}),
                 dict(mode="rig", quick=20, thorough=150, workers=10, driver_workers=1, timeout=3000)],
        rule=IR_RULE + " with ALL FIVE engines rendered for every document; the five go/ast extractions are compared with each other (implementation vs implementation) and with the engine-free model; non-trivial = at least one route and at least two engines rendered; distinct = distinct document",
        trusted_base=COMMON_TB + IR_TB + ["go/ast extraction + the per-engine accessor table (Gleece.Router.accessorTable) that erases engine-specific atoms"],
        partial=["AccessorsAgree (the five frameworks hand the handler the same raw strings / presence bits and dispatch the same requests) is not provable in Lean; sampled by the rig stream"],
        assumptions=[],
    ),
    "C11": dict(
        streams=[dict(mode="ir", quick=1200, thorough=30000, workers=14, driver_workers=8),
                 dict(mode="proj", quick=42, thorough=800, workers=14, driver_workers=2, timeout=3000, env={"VH_VALID_ONLY": "1"}),
                 dict(mode="proj", quick=56, thorough=800, workers=14, driver_workers=2, timeout=3000, env={"VH_TYPES": "1", "VH_RFC_NAME": "1"})],
        rule=IR_RULE + "; (third stream: type-graph projects - declarations over four packages, same bare name in two packages, a user struct named like the built-in error model - whose two documents of ONE run are diffed the same way); the 3.0 and the 3.1 document of the SAME IR are translated to a dialect-free form (exclusive bounds, empty required/parameters/security, blank descriptions) and diffed member by member (implementation vs implementation); the converter-written members (format, bounds, lengths, pattern, item counts, uniqueness, enum) of every builtin-typed parameter, form field, JSON body and struct field are compared in BOTH real documents with the Lean converter model (`conv30` / `conv31`, parsers instantiated with decimal-literal parsers; a tag outside that oracle is counted and skipped), and for every agreeable tag the instantiated `converters_agree` is evaluated; a difference under a tag that holds a value only one converter reads (unparsable / negative length, unparsable bound) is outside the quantifier (`validator tags the converters understand`) and counted as excused; non-trivial = both documents emitted with at least one operation; distinct = distinct document",
        trusted_base=COMMON_TB + IR_TB + ["the dialect translation normDoc (Lean, driver side) - its numeric-bound part is the proved `dialect`",
                                         "strconv.ParseFloat / ParseUint / ParseInt / ParseBool and the YAML resolution of an untagged scalar are PARAMETERS of the converter model (`Parsers`): the theorems hold for all of them; the driver's decimal-literal instance is trusted to agree with Go on the generated values",
                                         "render30 / render31 (driver): which members kin-openapi / libopenapi print (omitempty, zero counts dropped by libopenapi)"],
        partial=["`converters_agree` needs `Agreeable`: each numeric side constrained at most once (else finding C11-F3), every value readable by both converters, no upper count of zero (else finding C11-F8); all three shown necessary by witnesses",
                 "findings C11-F1 (3.0-only `default` response), C11-F2 (non-string enum COMPONENT members rendered as strings in 3.0), C11-F3 (two bounds of one side), C11-F4 (3.1 refuses a required self-reference), C11-F8 (zero upper count dropped by the 3.1 renderer)"],
        assumptions=[],
    ),
    "C08": dict(
        streams=[dict(mode="ir", quick=1200, thorough=30000, workers=14, driver_workers=8),
                 dict(mode="cfg", quick=4, thorough=60, workers=8, driver_workers=1, timeout=3000),
                 dict(mode="proj", quick=112, thorough=1100, workers=14, driver_workers=2, timeout=3000, env={"VH_ODD_FIELDS": "1"}),
                 dict(mode="proj", quick=42, thorough=400, workers=14, driver_workers=2, timeout=3000, env={"VH_TYPES": "1", "VH_TIME_ALIAS": "1"})],
        rule=IR_RULE + "; (fourth stream: type-graph projects - enums over every scalar base with negative, fractional and large members); since round 11 the checker also demands that every `type` of a schema is a JSON Schema type (clause schema-types), and the type-graph stream declares aliases over time.Time; every emitted document (3.0 and 3.1) is read back into the abstract Doc and the decidable well-formedness checker (proved sound) runs on it: $ref closure, path-template/parameter bijection with required path parameters, parameter names unique per location, responses described, enum members typed, info/servers/securitySchemes = configuration; non-trivial = at least one document emitted; distinct = distinct document",
        trusted_base=COMMON_TB + IR_TB + ["docOfJson (driver): reading the real JSON into Gleece.Doc.Doc", "kin-openapi openapi3.T.Validate and libopenapi-validator are trusted to reject what they reject"],
        partial=["finding C08-F1 (= C11-F2): 3.0 lists the members of a non-string enum component as JSON strings"],
        assumptions=[],
    ),
    "C14": dict(
        streams=[dict(mode="ir", quick=1500, thorough=40000, workers=14, driver_workers=8, env={"VH_BAD_VALIDATORS": "1"}),
                 dict(mode="proj", quick=42, thorough=800, workers=14, driver_workers=2, timeout=3000, env={"VH_TYPES": "1", "VH_ARRAYS": "1", "VH_OP_TIMEOUT": "120"}),
                 dict(mode="proj", quick=56, thorough=1100, workers=14, driver_workers=2, timeout=3000, env={"VH_GENERIC": "1", "VH_CRASHY": "1", "VH_OP_TIMEOUT": "120"}),
                 dict(mode="cli", quick=50, thorough=600, workers=8, driver_workers=1, timeout=3000, env={"VH_GENERIC": "1"})],
        rule=IR_RULE + " with arbitrary / malformed validator tags on a third of the rules (unparsable, negative, empty and overflowing numbers, empty oneof/enum, unknown rules, stray separators, unicode) and struct fields referring to structs declared later (unresolved $ref while emitting); a recovered panic, a dead worker or a timeout is a failure; the `cli` stream runs the REAL program (built from the working tree) in child processes - bare, `generate spec`, `generate routes`, `generate spec-and-routes` - on well-formed, perturbed and config-less projects and evaluates the decidable contract `Gleece.Cli.Contract` (bounded time, no panic text, exit 0 with the command's artifacts or non-zero with a message) and the agreement of the exit status with the in-process verdict of the same command; non-trivial = every case (each exercises both emitters); distinct = distinct document; every operation of the project streams runs under a watchdog (VH_OP_TIMEOUT=120 s): an analysis that does not return ends the worker with `HANG: operation N`, which is recorded as an operation the implementation did not answer; the type-graph stream writes fixed-size arrays (`[2]T`, `[][2]T`, `*[3]T`)",
        trusted_base=COMMON_TB + IR_TB + ["translator harness/cmd/vh/extract_rules.go (go/ast over both converters)"],
        partial=["crash-freedom of go/packages, raymond, kin-openapi, libopenapi and the AST visitors on arbitrary Go source cannot be proved here; it is explored (ir stream with bad tags; CLI stream)"],
        assumptions=[],
    ),
    "C10": dict(
        compare_on_known=True,  # the views compared are independent of the recorded findings: a finding never masks a divergence
        streams=[dict(mode="proj", quick=252, thorough=2400, workers=14, driver_workers=4, timeout=1800)],
        rule=PROJ_RULE + "; the multiset of (controller, receiver, code, severity) of the real diagnostics is compared with the model's and the property's `wellLinked` is evaluated against the real verdict for every route; non-trivial = at least one route; distinct = distinct project",
        trusted_base=COMMON_TB + ["model Gleece/Model/Validate.lean is hand-written; the annotation table and HTTP tables are regenerated from the harness build of /repo (configuration.ValidatorConfigMap, definitions.Get*); tie = exact multiset equality of diagnostics on every generated project",
                                  "the project printer (harness/cmd/vh/proj.go) and go/packages (type loading, error-embedding check)"],
        partial=["both directions for the link validator: `link_accepts_iff_partial` (`linkValidate = [] <-> WellLinked` under hF2 = open finding C10-F2, no empty alias, distinct parameter names); complete direction: `wellLinked_accepted` proves that the LINK validator reports nothing for a well-linked route (the property's wording as the structure `WellLinked`, decidable form `wellLinkedB`); `receiver_accepts` extends it to the whole receiver validator, and `commonValidate_complete` (C10Common.lean) proves that the annotation-table checks report no error for annotations satisfying the declarative rules `AnnotsWellFormed` (known, valued, not mutually exclusive, unique values, supported verb, 32-bit decimal status code): `well_formed_route_accepted` has no hypothesis that mentions a validator, and `commonValidate_accepts_iff` shows the rules are exactly what the annotation-level validator accepts (needs `exclusion_symmetric_lookup`, decided over the regenerated annotation table); the decidable form `annotsWellFormedB` is evaluated on every generated route against the model's and the implementation's verdict",
                 "the bijection theorems carry hypothesis hF2 (every un-aliased @Path names a {name}) = open finding C10-F2; `unaliased_outside_route_is_accepted` shows the validator does not establish it"],
        assumptions=["no user type embeds error in generated projects (errorEmbedders = [])"],
    ),
    "C18": dict(
        compare_on_known=True,  # the views compared are independent of the recorded findings: a finding never masks a divergence
        streams=[dict(mode="proj", quick=252, thorough=2400, workers=14, driver_workers=4, timeout=1800)],
        rule=PROJ_RULE + ", printed at indent '' or tab, several controllers per file and methods spread over a.go/b.go/c.go; for every real diagnostic the harness slices the real source by the reported range; checked: file, range inside the file and inside the entity's comment+declaration, start<=end, covered text for value / url-parameter diagnostics, no duplicate in the list nor in the error text, codes+severities = validator model; non-trivial = at least one diagnostic; distinct = distinct project",
        trusted_base=COMMON_TB + ["token.FileSet positions and gast.MapDocListToCommentBlock are exercised, not modelled (byte columns for the comment start, rune offsets inside the comment)",
                                  "the harness's own location of each entity's comment+declaration in the printed source (entitySpans)"],
        partial=["finding C18-F1: an entity block is printed once per error it carries in the command's error text (pinned by test/diagnostics/diagnostics_test.go: `Entities with diagnostics: 4`)"],
        assumptions=["`covers text equal to that value` is read literally: GetValueRange takes the FIRST occurrence of the value text in the comment"],
    ),
    "C13": dict(
        streams=[dict(mode="proj", quick=28, thorough=210, workers=14, driver_workers=2, timeout=14000, env={"VH_DETERMINISM": "1", "VH_VALID_ONLY": "1"})],
        rule="well-formed generated projects (several controllers, methods spread over files a.go/b.go/c.go, types in two packages); for each, FIVE brand-new sessions (LoadGleeceConfig, pipeline.Run, routes.GenerateRoutes, swagen.GenerateSpec) per OpenAPI version plus one per engine: the byte contents of the routes file and of the spec are collected; Go randomises every map iteration, so each session samples new iteration orders of facade.files, the graph's node map and the sets; non-trivial = accepted project; distinct = distinct project",
        trusted_base=COMMON_TB + ["Go's own randomisation of map iteration is the source of order variation (no injection hooks)", "translator harness/cmd/vh/extract_order.go for the position of the sorts",
                                  "translator harness/cmd/vh/extract_cmp.go: the expressions every slices.SortFunc / SortStableFunc comparator hands to strings.Compare / cmp.Compare (Generated/Comparators.lean); the key order (bytewise string comparison) is a parameter of the theorems, assumed total, transitive and antisymmetric"],
        partial=["packages.Load order and glob order are exercised only as far as the file-name sort and the controller sort canonicalise them",
                 "models are sorted by bare name only (`models_sorted_by_name_only`): two declarations with one name in two packages are not told apart - finding C07-F4"],
        assumptions=[],
    ),
    "C19": dict(
        streams=[dict(mode="proj", quick=42, thorough=600, workers=14, driver_workers=2, timeout=3000, env={"VH_REPEAT": "1", "VH_VALID_ONLY": "1"}),
                 dict(mode="proj", quick=28, thorough=400, workers=14, driver_workers=2, timeout=3000, env={"VH_REPEAT": "1", "VH_TYPES": "1"})],
        rule="well-formed generated projects; on ONE GleecePipeline the analysis (GenerateGraph, Validate, GenerateIntermediate) is repeated 1-3 more times: canonical flattened metadata (controllers, routes, models, import serials; set-valued import lists sorted) after every round, the same from a brand-new pipeline, and the number of graph nodes after every round; non-trivial = accepted project; distinct = distinct project; cache transparency of the file versions: every struct / enum / alias / controller node of the graph must be keyed under the file that declares it (a cached file version that is not the file's own shows as `misfiled`)",
        trusted_base=COMMON_TB + ["canonIR (harness): sorting of set-valued import lists before comparison"],
        partial=["the metadata cache (core/arbitrators/caching) is exercised, not modelled"],
        assumptions=[],
    ),
    "C20": dict(
        compare_on_known=True,  # the views compared are independent of the recorded findings: a finding never masks a divergence
        streams=[dict(mode="cfg", quick=24, thorough=400, workers=8, driver_workers=1, timeout=3000)],
        rule="configuration documents run through the REAL command (cmd.GenerateSpecAndRoutes) next to a fixed two-controller project: the valid base; every deletion of a section / field; every listed value of every constrained field (all engines, both OpenAPI versions, 19 permission strings, URL / e-mail / scheme / letter corruptions, glob sets); ill-typed members; random double corruptions (quick/thorough count); a malformed document; the empty object. Compared: the (field, tag) rejection reports in order; nothing written when rejected; paths + file modes + package clause + engine + openapi + info/servers/securitySchemes + contributing controllers when accepted; PermissionStringToFileMod on the configured string. non-trivial = a rejection or a completed generation; distinct = distinct document",
        trusted_base=COMMON_TB + ["ConfigSchema translator (reflection over definitions.GleeceConfig in the harness build of /repo)", "go-playground's own url / email / filepath predicates and unicode.IsLetter for non-ASCII first characters are model parameters, evaluated by the harness with the same library", "glob matcher of the driver (`*` within one segment only; the generated globs use nothing else)", "umask cleared by the harness while the command runs"],
        partial=["go-playground's traversal (declaration order, first failing tag per field, nil pointer skipped, dive) is the driver's interpreter, not a Lean theorem", "JSON5 syntax beyond JSON is not generated"],
        assumptions=[],
    ),
    "C07": dict(
        compare_on_known=True,  # the views compared are independent of the recorded findings: a finding never masks a divergence
        streams=[dict(mode="proj", quick=70, thorough=1500, workers=14, driver_workers=2, timeout=3000, env={"VH_TYPES": "1", "VH_STD_ENUM": "1"})],
        rule="type-graph projects printed as real Go source and run through the real pipeline: 2-10 declarations over three packages (structs with fields over primitives, time.Time, []byte, any, earlier types and the struct itself behind pointers / slices / string-keyed maps nested up to depth 3, embedded structs by value and by pointer, every spelling of the json tag, unexported fields, validate tags; enums of every basic kind with decoy constants of other types; typedef and assigned aliases, alias of alias), 1-2 controllers using a random subset as body / result / query / header / path / form parameters with and without usage-site validators (oneof on enum types) and descriptions; unused types stay. Compared for BOTH documents: the component key set (= reachable declarations + Rfc7807Error iff a route returns a plain error), the closure spec (roots present, closed, nothing unreachable) on the implementation's own key set, and every component's canonical structure (title, description, type, format, $ref, items, additionalProperties, properties, required, allOf, enum members as text). non-trivial = accepted project with at least one component; distinct = distinct project",
        trusted_base=COMMON_TB + ["parseTExpr / tagValue (driver): Go type text and struct tags of the GENERATED sources to the model's TExpr / Field", "canonComponent (driver): projection of a schema to its structural keywords; numeric / boolean enum members compared as text (3.0 renders them as strings: C08-F1 / C11-F2)"],
        partial=["constraint keywords (minimum, minLength, ...) of field-level validators are C11's subject and ignored here", "generic types, mutually recursive structs (rejected by the tool) and aliases of composite types (rejected by the tool) are not generated"],
        assumptions=[],
    ),
    "C09": dict(
        compare_on_known=True,  # the views compared are independent of the recorded findings: a finding never masks a divergence
        streams=[dict(mode="rig", quick=16, thorough=200, workers=8, driver_workers=1, timeout=3000)],
        rule="rig projects (1-2 controllers x 2-5 routes; path / query / header / form / body parameters of every integer width, bool, string, string enum, pointers, query slices; aliased wire names; 0-2 security alternatives at method / controller / default level; hidden routes; context parameters; one project in twelve carries a route text no Go string literal can hold) rendered by the real generator for ALL FIVE engines, then COMPILED together with the printed project, a recording package and an authorization package per engine (`go build`); checked per engine: generation result, file written, go/parser accepts it, package clause = configured name, format.Source fixed point, and the build of the whole module; a refused generation must leave no file. non-trivial = every case; distinct = distinct project",
        trusted_base=COMMON_TB + ["the Go toolchain (go build, go/parser, go/format) is the oracle for `compilable`", "PipelineOrder translator for the GenerateRoutes skeleton"],
        partial=["type-checking is run (compiled), not proved; experimental flags and validateResponsePayload are not varied", "aliases: ASCII identifiers"],
        assumptions=[],
    ),
}
