/-
  gmdriver — runs the Lean model's executable definitions on ops.jsonl (stdin) and evaluates each
  property's decidable spec on the model's answer and on the implementation's answer
  (impl.jsonl, path given as the first argument; answers are matched by line order).
-/
import Gleece.Driver.Common
import Gleece.Driver.Paths
import Gleece.Driver.Graph
import Gleece.Driver.Annot
import Gleece.Driver.IRHandler
import Gleece.Driver.ReduceCheck
import Gleece.Driver.Cfg
import Gleece.Driver.Rig
import Gleece.Driver.Cli
open Lean Gleece.Driver

def handlers : List (String × Handler) := [
  ("paths", pathsHandler),
  ("graph", graphHandler),
  ("annot", annotHandler),
  ("ir", irHandler),
  ("proj", projHandler3),
  ("cfg", cfgHandler),
  ("rig", rigHandler),
  ("cli", cliHandler)
]

def processLine (prop : String) (line : String) (implLine : Option String) : Json :=
  match Json.parse line with
  | .error e => Json.mkObj [("id", (-1 : Int)), ("error", s!"bad op: {e}")]
  | .ok op =>
    let id := (jnat op "id").toOption.getD 0
    let mode := jstrD op "mode"
    let input := (op.getObjVal? "in").toOption.getD Json.null
    let implOut : Option Json := do
      let l ← implLine
      let j ← (Json.parse l).toOption
      let iid ← (jnat j "id").toOption
      if iid ≠ id then none else
      (j.getObjVal? "out").toOption
    match handlers.lookup mode with
    | none => Json.mkObj [("id", id), ("error", s!"unknown mode {mode}")]
    | some h =>
      match h prop input implOut with
      | .ok v => v.toJson id
      | .error e => Json.mkObj [("id", id), ("error", e)]

partial def loop (prop : String) (inp : IO.FS.Stream) (impl : Option IO.FS.Handle) (out : IO.FS.Stream) : IO Unit := do
  let line ← inp.getLine
  if line.isEmpty then return ()
  let implLine ← match impl with
    | some h => do let l ← h.getLine; pure (if l.isEmpty then none else some l)
    | none => pure none
  if line.trimAscii.isEmpty then loop prop inp impl out else
  out.putStrLn (processLine prop line implLine).compress
  loop prop inp impl out

def main (args : List String) : IO Unit := do
  let inp ← IO.getStdin
  let out ← IO.getStdout
  let impl ← match args with
    | p :: _ => some <$> IO.FS.Handle.mk p .read
    | [] => pure none
  let prop := match args with
    | _ :: p :: _ => p
    | _ => ""
  loop prop inp impl out
  out.flush
