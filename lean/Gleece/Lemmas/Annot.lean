/-
  C16 helper lemmas: scanners (`span`, `dropSpaces`, `pickClose`) and their characterisations.
-/
import Gleece.Model.Annot
namespace Gleece.Annot
open Gleece.Text

theorem span_append (p : Char → Bool) (s : Str) : (span p s).1 ++ (span p s).2 = s := by
  induction s with
  | nil => simp [span]
  | cons c t ih =>
    unfold span
    split
    · simp [ih]
    · simp

theorem span_all (p : Char → Bool) (s : Str) : (span p s).1.all p = true := by
  induction s with
  | nil => simp [span]
  | cons c t ih =>
    unfold span
    split
    · rename_i h; simp [h, ih]
    · simp

/-- `span` returns the maximal prefix: `a` all satisfy `p`, and `b` does not start with a `p` character -/
theorem span_eq_of (p : Char → Bool) (a b : Str) (ha : a.all p = true)
    (hb : ∀ c, b.head? = some c → p c = false) : span p (a ++ b) = (a, b) := by
  induction a with
  | nil =>
    cases b with
    | nil => simp [span]
    | cons c t => simp only [List.nil_append]; unfold span; simp [hb c rfl]
  | cons x xs ih =>
    simp only [List.all_cons, Bool.and_eq_true] at ha
    simp only [List.cons_append]
    unfold span
    simp [ha.1, ih ha.2]

theorem dropSpaces_eq_of (ws rest : Str) (hws : ws.all isReSpace = true)
    (hr : ∀ c, rest.head? = some c → isReSpace c = false) : dropSpaces (ws ++ rest) = rest := by
  induction ws with
  | nil =>
    cases rest with
    | nil => rfl
    | cons c t => simp [dropSpaces, List.dropWhile, hr c rfl]
  | cons x xs ih =>
    simp only [List.all_cons, Bool.and_eq_true] at hws
    simp only [dropSpaces, List.cons_append, List.dropWhile, hws.1] at ih ⊢
    exact ih hws.2

theorem dropSpaces_suffix (s : Str) : ∃ ws, ws.all isReSpace = true ∧ s = ws ++ dropSpaces s := by
  induction s with
  | nil => exact ⟨[], rfl, rfl⟩
  | cons c t ih =>
    by_cases h : isReSpace c = true
    · obtain ⟨ws, h1, h2⟩ := ih
      refine ⟨c :: ws, by simp [h, h1], ?_⟩
      simp only [dropSpaces, List.dropWhile, h, List.cons_append] at h2 ⊢
      rw [← h2]
    · refine ⟨[], rfl, ?_⟩
      simp [dropSpaces, List.dropWhile, h]

/-- whatever `pickClose` returns is a genuine split `s = a ++ ")" ++ b` with `a` ending in `}` and an
    acceptable tail -/
theorem pickClose_sound (s a b : Str) (h : pickClose s = some (a, b)) :
    s = a ++ ')' :: b ∧ a.getLast? = some '}' ∧ tailOk b = true := by
  induction s generalizing a b with
  | nil => simp [pickClose] at h
  | cons c t ih =>
    unfold pickClose at h
    split at h
    · rename_i a' b' hrec
      simp only [Option.some.injEq, Prod.mk.injEq] at h
      obtain ⟨h1, h2, h3⟩ := ih a' b' hrec
      rw [← h.1, ← h.2]
      refine ⟨by simp [h1], ?_, h3⟩
      cases a' with
      | nil => simp at h2
      | cons x xs => simpa [List.getLast?_cons_cons] using h2
    · split at h
      · rename_i d b'
        split at h
        · rename_i hc
          simp only [Bool.and_eq_true, decide_eq_true_eq] at hc
          simp only [Option.some.injEq, Prod.mk.injEq] at h
          rw [← h.1, ← h.2, hc.1.1, hc.1.2]
          exact ⟨rfl, rfl, hc.2⟩
        · simp at h
      · simp at h

/-- the intended close is chosen when nothing further to the right qualifies -/
theorem pickClose_intended (body tail : Str) (htail : tailOk tail = true) (hnone : pickClose tail = none) :
    pickClose (body ++ '}' :: ')' :: tail) = some (body ++ ['}'], tail) := by
  induction body with
  | nil =>
    have h1 : pickClose (')' :: tail) = none := by
      unfold pickClose
      rw [hnone]
      cases tail <;> simp
    simp only [List.nil_append]
    unfold pickClose
    rw [h1]
    simp [htail]
  | cons c cs ih =>
    simp only [List.cons_append]
    unfold pickClose
    rw [ih]

theorem hasPrefix_append (p s : Str) : hasPrefix (p ++ s) p = true := by
  induction p with
  | nil => cases s <;> simp [hasPrefix]
  | cons c cs ih => simp [hasPrefix, ih]

theorem hasPrefix_iff (s p : Str) : hasPrefix s p = true ↔ ∃ r, s = p ++ r := by
  induction p generalizing s with
  | nil => cases s <;> simp [hasPrefix]
  | cons c cs ih =>
    cases s with
    | nil => simp [hasPrefix]
    | cons d ds =>
      simp only [hasPrefix, Bool.and_eq_true, beq_iff_eq, ih, List.cons_append, List.cons.injEq]
      constructor
      · rintro ⟨rfl, r, rfl⟩; exact ⟨r, rfl, rfl⟩
      · rintro ⟨r, rfl, rfl⟩; exact ⟨rfl, r, rfl⟩

end Gleece.Annot
