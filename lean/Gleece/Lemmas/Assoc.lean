import Gleece.Model.Assoc
namespace Gleece.Assoc

variable {κ : Type} {ν : Type} [DecidableEq κ]

theorem get?_append_single (m : List (κ × ν)) (k k' : κ) (v : ν) (h : m.any (fun x => x.1 = k) = false) :
    get? (m ++ [(k, v)]) k' = if k' = k then (match get? m k' with | some w => some w | none => some v) else get? m k' := by
  unfold get?
  rw [List.find?_append]
  by_cases hk : k' = k
  · subst hk
    have : m.find? (fun x => decide (x.1 = k')) = none := by
      rw [List.find?_eq_none]
      intro x hx
      have := List.any_eq_false.1 h x hx
      simpa using this
    simp [this]
  · simp only [hk, if_false]
    cases hf : m.find? (fun x => decide (x.1 = k')) with
    | some w => simp
    | none =>
      have : ¬ k = k' := fun e => hk e.symm
      simp [List.find?, this]

theorem get?_map_replace (m : List (κ × ν)) (k k' : κ) (v : ν) :
    get? (m.map fun x => if x.1 = k then (k, v) else x) k' =
      if k' = k then (if m.any (fun x => x.1 = k) then some v else none) else get? m k' := by
  induction m with
  | nil => simp [get?]
  | cons x xs ih =>
    unfold get? at ih ⊢
    simp only [List.map_cons, List.find?_cons, List.any_cons]
    by_cases hx : x.1 = k
    · by_cases hk : k' = k
      · subst hk; simp [hx]
      · have : ¬ k = k' := fun e => hk e.symm
        have hx' : ¬ x.1 = k' := by rw [hx]; exact this
        simp only [hx, if_true, this, decide_false, hk, if_false, hx'] at ih ⊢
        simpa [hk] using ih
    · by_cases hk : k' = k
      · subst hk
        simp only [hx, if_false, decide_false, Bool.false_or] at ih ⊢
        simpa using ih
      · simp only [hx, if_false, hk] at ih ⊢
        by_cases hxk : x.1 = k'
        · simp [hxk]
        · simp only [hxk, decide_false]
          simpa [hk] using ih

/-- reading a key after `upsert`: the new value for that key, everything else untouched -/
theorem get?_upsert (m : List (κ × ν)) (k k' : κ) (v : ν) :
    get? (upsert m k v) k' = if k' = k then some v else get? m k' := by
  unfold upsert
  by_cases h : m.any (fun x => decide (x.1 = k)) = true
  · simp only [h, if_true]
    rw [get?_map_replace]
    simp [h]
  · have h' : m.any (fun x => decide (x.1 = k)) = false := by
      cases hb : m.any (fun x => decide (x.1 = k)) with
      | true => exact absurd hb h
      | false => rfl
    simp only [h', Bool.false_eq_true, if_false]
    rw [get?_append_single m k k' v h']
    by_cases hk : k' = k
    · subst hk
      have : get? m k' = none := by
        unfold get?
        have : m.find? (fun x => decide (x.1 = k')) = none := by
          rw [List.find?_eq_none]; intro x hx
          simpa using List.any_eq_false.1 h' x hx
        simp [this]
      simp [this]
    · simp [hk]

/-- **last binding wins**: after setting a list of bindings in order, a key reads its LAST binding in
    the list, or the old map's binding when the list has none -/
theorem get?_setAll (m : List (κ × ν)) (kvs : List (κ × ν)) (k : κ) :
    get? (setAll m kvs) k = match get? kvs.reverse k with | some v => some v | none => get? m k := by
  induction kvs generalizing m with
  | nil => simp [setAll, get?]
  | cons kv kvs ih =>
    simp only [setAll, List.foldl_cons] at ih ⊢
    rw [ih]
    simp only [List.reverse_cons]
    unfold get? at *
    rw [List.find?_append]
    cases hf : kvs.reverse.find? (fun x => decide (x.1 = k)) with
    | some w => simp
    | none =>
      simp only [Option.map_none, Option.none_or]
      have := get?_upsert m kv.1 k kv.2
      unfold get? at this
      rw [this]
      by_cases hk : k = kv.1
      · simp [hk]
      · have : ¬ kv.1 = k := fun e => hk e.symm
        simp [hk, List.find?, this]

theorem keys_upsert (m : List (κ × ν)) (k : κ) (v : ν) (k' : κ) :
    (upsert m k v).any (fun x => x.1 = k') = (m.any (fun x => x.1 = k') || decide (k' = k)) := by
  have h1 := get?_upsert m k k' v
  have iso : ∀ (l : List (κ × ν)), l.any (fun x => decide (x.1 = k')) = (get? l k').isSome := by
    intro l
    unfold get?
    induction l with
    | nil => simp
    | cons x xs ih =>
      simp only [List.any_cons, List.find?_cons]
      by_cases hx : x.1 = k' <;> simp [hx, ih]
  rw [iso, iso, h1]
  by_cases hk : k' = k <;> simp [hk]

/-- with pairwise distinct keys nothing is ever replaced: the result is the list itself -/
theorem setAll_nodup (kvs : List (κ × ν)) (h : (kvs.map (·.1)).Nodup) : setAll [] kvs = kvs := by
  suffices ∀ (m : List (κ × ν)), (∀ x ∈ m, ∀ y ∈ kvs, x.1 ≠ y.1) → setAll m kvs = m ++ kvs by
    simpa using this [] (by simp)
  induction kvs with
  | nil => intro m _; simp [setAll]
  | cons kv kvs ih =>
    intro m hm
    simp only [List.map_cons, List.nodup_cons, List.mem_map, not_exists, not_and] at h
    simp only [setAll, List.foldl_cons]
    have hnot : m.any (fun x => decide (x.1 = kv.1)) = false := by
      rw [List.any_eq_false]; intro x hx
      simpa using hm x hx kv (by simp)
    have hup : upsert m kv.1 kv.2 = m ++ [kv] := by
      unfold upsert; simp [hnot]
    rw [hup]
    have := ih h.2 (m ++ [kv]) (by
      intro x hx y hy
      rcases List.mem_append.1 hx with hx | hx
      · exact hm x hx y (by simp [hy])
      · simp only [List.mem_singleton] at hx; subst hx
        intro e; exact h.1 y hy e.symm)
    simpa [setAll] using this

end Gleece.Assoc
