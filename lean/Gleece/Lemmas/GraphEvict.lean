/-
  C17 — the eviction set of the plain specification (`Gleece.Graph.evictSet`) IS the least fixed point of the
  eviction rule: it contains the removed node, is closed under the rule ("a node all of whose dependencies
  lead into the set — or nowhere — and at least one of which leads into it, goes too"), every member other
  than the removed node satisfies the rule, and every closed set containing the removed node contains it.
  No assumption on the graph (duplicates, dangling edges, a removed node that is not a node): the fuel
  `|nodes| + 1` always suffices because every productive round covers one more entry of `nodes`.
-/
import Gleece.Model.Graph
namespace Gleece.Graph

/-- the eviction rule for one node `x` against a set `r` -/
def evictable (a : A) (r : List Nat) (x : Nat) : Bool :=
  a.edges.any (fun e => e.src = x && r.contains e.dst) &&
  a.edges.all (fun e => !(e.src = x) || r.contains e.dst || !a.has e.dst)

theorem evictRound_eq (a : A) (r : List Nat) :
    evictRound a r = r ++ (a.nodes.map (·.1)).filter fun x => !r.contains x && evictable a r x := by
  unfold evictRound evictable
  congr 1
  apply List.filter_congr
  intro x _
  simp [Bool.and_assoc]

theorem subset_evictRound (a : A) (r : List Nat) : ∀ x ∈ r, x ∈ evictRound a r := by
  intro x hx; rw [evictRound_eq]; exact List.mem_append_left _ hx

theorem mem_evictRound (a : A) (r : List Nat) (x : Nat) :
    x ∈ evictRound a r ↔ x ∈ r ∨ (x ∈ a.nodes.map (·.1) ∧ x ∉ r ∧ evictable a r x = true) := by
  rw [evictRound_eq, List.mem_append, List.mem_filter]
  simp [List.contains_iff_mem]

/-- the rule is monotone in the set -/
theorem evictable_mono (a : A) (r s : List Nat) (h : ∀ x ∈ r, x ∈ s) (x : Nat) (hx : evictable a r x = true) :
    evictable a s x = true := by
  unfold evictable at *
  rw [Bool.and_eq_true, List.any_eq_true, List.all_eq_true] at *
  obtain ⟨⟨e, he, hc⟩, hall⟩ := hx
  refine ⟨⟨e, he, ?_⟩, ?_⟩
  · rw [Bool.and_eq_true, List.contains_iff_mem] at *
    exact ⟨hc.1, h _ hc.2⟩
  · intro e he
    have := hall e he
    rw [Bool.or_eq_true, Bool.or_eq_true] at *
    rcases this with (h1 | h2) | h3
    · exact Or.inl (Or.inl h1)
    · rw [List.contains_iff_mem] at h2; exact Or.inl (Or.inr (by rw [List.contains_iff_mem]; exact h _ h2))
    · exact Or.inr h3

/-- `r` is closed: nothing more is evictable -/
def Stable (a : A) (r : List Nat) : Prop := ∀ x ∈ a.nodes.map (·.1), evictable a r x = true → x ∈ r

theorem stable_iff_round (a : A) (r : List Nat) : Stable a r ↔ evictRound a r = r := by
  rw [evictRound_eq]
  constructor
  · intro h
    have : ((a.nodes.map (·.1)).filter fun x => !r.contains x && evictable a r x) = [] := by
      rw [List.filter_eq_nil_iff]
      intro x hx hc
      rw [Bool.and_eq_true, Bool.not_eq_true', ← Bool.not_eq_true, List.contains_iff_mem] at hc
      exact hc.1 (h x hx hc.2)
    rw [this, List.append_nil]
  · intro h x hx he
    have hnil : ((a.nodes.map (·.1)).filter fun x => !r.contains x && evictable a r x) = [] := by
      have := congrArg List.length h
      rw [List.length_append] at this
      exact List.eq_nil_of_length_eq_zero (by omega)
    rw [List.filter_eq_nil_iff] at hnil
    have := hnil x hx
    rw [Bool.and_eq_true, Bool.not_eq_true', ← Bool.not_eq_true, List.contains_iff_mem] at this
    exact Classical.byContradiction fun hn => this ⟨hn, he⟩

theorem stable_of_length_eq (a : A) (r : List Nat) (h : (evictRound a r).length = r.length) : Stable a r := by
  rw [stable_iff_round]
  rw [evictRound_eq] at h ⊢
  rw [List.length_append] at h
  have : ((a.nodes.map (·.1)).filter fun x => !r.contains x && evictable a r x) = [] :=
    List.eq_nil_of_length_eq_zero (by omega)
  rw [this, List.append_nil]

/-- entries of `nodes` whose base id is not (yet) in `r` -/
def uncovered (a : A) (r : List Nat) : Nat := (a.nodes.filter fun x => !r.contains x.1).length

theorem filter_length_lt {α} (p q : α → Bool) (l : List α) (h : ∀ a ∈ l, q a = true → p a = true)
    (hex : ∃ a ∈ l, p a = true ∧ q a = false) : (l.filter q).length < (l.filter p).length := by
  induction l with
  | nil => obtain ⟨a, ha, _⟩ := hex; cases ha
  | cons x xs ih =>
    have hle : ∀ (ys : List α), (∀ a ∈ ys, q a = true → p a = true) → (ys.filter q).length ≤ (ys.filter p).length := by
      intro ys hy
      induction ys with
      | nil => simp
      | cons y ys ih2 =>
        have := ih2 (fun a ha => hy a (List.mem_cons_of_mem _ ha))
        cases hq : q y <;> cases hp : p y <;> simp [List.filter, hq, hp] <;> try omega
        have := hy y (by simp) hq
        rw [hp] at this; cases this
    have hxs := hle xs (fun a ha => h a (List.mem_cons_of_mem _ ha))
    obtain ⟨a, ha, hpa, hqa⟩ := hex
    rcases List.mem_cons.1 ha with rfl | hin
    · simp [List.filter, hpa, hqa]; omega
    · have := ih (fun b hb => h b (List.mem_cons_of_mem _ hb)) ⟨a, hin, hpa, hqa⟩
      cases hq : q x <;> cases hp : p x <;> simp [List.filter, hq, hp] <;> try omega
      have := h x (by simp) hq
      rw [hp] at this; cases this

/-- a productive round covers at least one more entry of `nodes` -/
theorem uncovered_lt (a : A) (r : List Nat) (h : (evictRound a r).length ≠ r.length) :
    uncovered a (evictRound a r) < uncovered a r := by
  unfold uncovered
  apply filter_length_lt
  · intro n _ hq
    rw [Bool.not_eq_true', ← Bool.not_eq_true, List.contains_iff_mem] at *
    exact fun hr => hq (subset_evictRound a r _ hr)
  · -- some x was added
    have hne : ((a.nodes.map (·.1)).filter fun x => !r.contains x && evictable a r x) ≠ [] := by
      intro hnil
      apply h
      rw [evictRound_eq, hnil, List.append_nil]
    obtain ⟨x, hx⟩ := List.exists_mem_of_ne_nil _ hne
    rw [List.mem_filter, List.mem_map] at hx
    obtain ⟨⟨n, hn, rfl⟩, hc⟩ := hx
    refine ⟨n, hn, ?_, ?_⟩
    · rw [Bool.and_eq_true] at hc; exact hc.1
    · rw [Bool.not_eq_false', List.contains_iff_mem, evictRound_eq]
      apply List.mem_append_right
      rw [List.mem_filter, List.mem_map]
      exact ⟨⟨n, hn, rfl⟩, hc⟩

theorem go_stable (a : A) : ∀ (fuel : Nat) (r : List Nat), uncovered a r < fuel → Stable a (evictSet.go a fuel r) := by
  intro fuel
  induction fuel with
  | zero => intro r h; omega
  | succ k ih =>
    intro r h
    unfold evictSet.go
    by_cases hl : (evictRound a r).length = r.length
    · simp only [hl, if_true]; exact stable_of_length_eq a r hl
    · simp only [hl, if_false]
      apply ih
      have := uncovered_lt a r hl
      omega

theorem uncovered_le (a : A) (r : List Nat) : uncovered a r ≤ a.nodes.length := List.length_filter_le _ _

/-- **closed**: nothing outside the eviction set is evictable -/
theorem evictSet_stable (a : A) (n : Nat) : Stable a (evictSet a n) := by
  unfold evictSet
  apply go_stable
  have := uncovered_le a [n]
  omega

theorem go_superset (a : A) : ∀ (fuel : Nat) (r : List Nat), ∀ x ∈ r, x ∈ evictSet.go a fuel r := by
  intro fuel
  induction fuel with
  | zero => intro r x hx; exact hx
  | succ k ih =>
    intro r x hx
    unfold evictSet.go
    by_cases hl : (evictRound a r).length = r.length
    · simp only [hl, if_true]; exact hx
    · simp only [hl, if_false]; exact ih _ x (subset_evictRound a r x hx)

/-- the removed node is in the set -/
theorem mem_evictSet_self (a : A) (n : Nat) : n ∈ evictSet a n := go_superset a _ [n] n (by simp)

/-- **least**: every closed set that contains the removed node contains the eviction set -/
theorem go_least (a : A) (s : List Nat) (hs : Stable a s) :
    ∀ (fuel : Nat) (r : List Nat), (∀ x ∈ r, x ∈ s) → ∀ x ∈ evictSet.go a fuel r, x ∈ s := by
  intro fuel
  induction fuel with
  | zero => intro r hr x hx; exact hr x hx
  | succ k ih =>
    intro r hr x hx
    unfold evictSet.go at hx
    by_cases hl : (evictRound a r).length = r.length
    · simp only [hl, if_true] at hx; exact hr x hx
    · simp only [hl, if_false] at hx
      apply ih (evictRound a r) _ x hx
      intro y hy
      rcases (mem_evictRound a r y).1 hy with h1 | ⟨hn, _, he⟩
      · exact hr y h1
      · exact hs y hn (evictable_mono a r s hr y he)

theorem evictSet_least (a : A) (n : Nat) (s : List Nat) (hs : Stable a s) (hn : n ∈ s) : ∀ x ∈ evictSet a n, x ∈ s :=
  go_least a s hs _ [n] (by intro x hx; simp at hx; subst hx; exact hn)

/-- **only what the rule demands**: every member other than the removed node is a node all of whose
    dependencies lead into the set (or nowhere), at least one of them into it -/
theorem go_members (a : A) (n : Nat) : ∀ (fuel : Nat) (r : List Nat),
    (∀ x ∈ r, x = n ∨ (x ∈ a.nodes.map (·.1) ∧ evictable a r x = true)) →
    ∀ x ∈ evictSet.go a fuel r, x = n ∨ (x ∈ a.nodes.map (·.1) ∧ evictable a (evictSet.go a fuel r) x = true) := by
  intro fuel
  induction fuel with
  | zero => intro r hr x hx; exact hr x hx
  | succ k ih =>
    intro r hr x hx
    unfold evictSet.go at hx ⊢
    by_cases hl : (evictRound a r).length = r.length
    · simp only [hl, if_true] at hx ⊢; exact hr x hx
    · simp only [hl, if_false] at hx ⊢
      apply ih (evictRound a r) _ x hx
      intro y hy
      rcases (mem_evictRound a r y).1 hy with h1 | ⟨hn, _, he⟩
      · rcases hr y h1 with h2 | ⟨h3, h4⟩
        · exact Or.inl h2
        · exact Or.inr ⟨h3, evictable_mono a r _ (subset_evictRound a r) y h4⟩
      · exact Or.inr ⟨hn, evictable_mono a r _ (subset_evictRound a r) y he⟩

theorem evictSet_members (a : A) (n : Nat) :
    ∀ x ∈ evictSet a n, x = n ∨ (x ∈ a.nodes.map (·.1) ∧ evictable a (evictSet a n) x = true) :=
  go_members a n _ [n] (by intro x hx; simp at hx; exact Or.inl hx)

end Gleece.Graph
