/-
  C17: the index-consistency invariant of the symbol graph and its preservation by the primitive
  operations `addEdge`, `removeEdge`, `rawAddNode`.
-/
import Gleece.Model.Graph
namespace Gleece.Graph

def depHas (g : G) (fb tb : Nat) : Prop := ∃ d ∈ g.deps, d.1 = fb ∧ d.2.base = tb
def revHas (g : G) (tb fb : Nat) : Prop := ∃ d ∈ g.revDeps, d.1 = tb ∧ d.2.base = fb
def edgeBetween (g : G) (fb tb : Nat) : Prop := ∃ e ∈ g.edges, e.src.base = fb ∧ e.dst.base = tb

def sameSlot (e e' : Edge) : Prop := e.src.base = e'.src.base ∧ e.kind = e'.kind ∧ e.dst.base = e'.dst.base

/-- the three indices describe the same set of edges -/
structure Inv (g : G) : Prop where
  /-- one descriptor per (from base id, kind, to base id) -/
  uniq : g.edges.Pairwise fun e e' => ¬ sameSlot e e'
  /-- `deps` is exactly the base-level projection of `edges` -/
  dep : ∀ fb tb, depHas g fb tb ↔ edgeBetween g fb tb
  /-- `revDeps` is exactly the reversed base-level projection of `edges` -/
  rev : ∀ fb tb, revHas g tb fb ↔ edgeBetween g fb tb
  /-- ordinals are fresh … -/
  ordLt : ∀ e ∈ g.edges, e.ord < g.nextSeq
  /-- … and identify the edge -/
  ordInj : g.edges.Pairwise fun e e' => e.ord ≠ e'.ord

theorem inv_init : Inv {} := by
  constructor <;> simp [depHas, revHas, edgeBetween]

theorem mem_insertSet {α} [DecidableEq α] (l : List α) (a x : α) : x ∈ insertSet l a ↔ x ∈ l ∨ x = a := by
  unfold insertSet
  split
  · constructor
    · exact Or.inl
    · rintro (h | h)
      · exact h
      · subst h; assumption
  · simp

theorem inv_rawAddNode {g : G} (inv : Inv g) (n : Node) : Inv (rawAddNode g n) := by
  constructor
  · exact inv.uniq
  · exact inv.dep
  · exact inv.rev
  · exact inv.ordLt
  · exact inv.ordInj

/-! ### addEdge -/

theorem edgeMatches_iff (fb : Nat) (kind : String) (tb : Nat) (e : Edge) :
    edgeMatches fb kind tb e = true ↔ e.src.base = fb ∧ e.kind = kind ∧ e.dst.base = tb := by
  simp [edgeMatches, and_assoc]

theorem inv_addEdge {g : G} (inv : Inv g) (f t : Key) (kind : String) : Inv (addEdge g f t kind) := by
  unfold addEdge
  simp only
  split
  · -- duplicate (same from, to base, kind): only the adjacency sets may grow, by a pair already joined
    rename_i hany
    obtain ⟨e0, he0, hm⟩ := List.any_eq_true.1 hany
    obtain ⟨h1, h2, h3⟩ := (edgeMatches_iff _ _ _ _).1 hm
    have hb : edgeBetween g f.base t.base := ⟨e0, he0, h1, h3⟩
    constructor
    · exact inv.uniq
    · intro fb tb
      simp only [depHas, mem_insertSet]
      constructor
      · rintro ⟨d, hd | hd, h⟩
        · exact (inv.dep fb tb).1 ⟨d, hd, h⟩
        · subst hd; simp only at h; rw [← h.1, ← h.2]; exact hb
      · intro h
        obtain ⟨d, hd, hh⟩ := (inv.dep fb tb).2 h
        exact ⟨d, Or.inl hd, hh⟩
    · intro fb tb
      simp only [revHas, mem_insertSet]
      constructor
      · rintro ⟨d, hd | hd, h⟩
        · exact (inv.rev fb tb).1 ⟨d, hd, h⟩
        · subst hd; simp only at h; rw [← h.1, ← h.2]; exact hb
      · intro h
        obtain ⟨d, hd, hh⟩ := (inv.rev fb tb).2 h
        exact ⟨d, Or.inl hd, hh⟩
    · exact inv.ordLt
    · exact inv.ordInj
  · rename_i hany
    have hnone : ∀ e ∈ g.edges, ¬ (e.src.base = f.base ∧ e.kind = kind ∧ e.dst.base = t.base) := by
      intro e he hm
      apply hany
      exact List.any_eq_true.2 ⟨e, he, (edgeMatches_iff _ _ _ _).2 hm⟩
    constructor
    · simp only [List.pairwise_append, List.pairwise_cons, List.Pairwise.nil, List.mem_singleton]
      refine ⟨inv.uniq, ⟨by simp, trivial⟩, ?_⟩
      intro a ha b hb
      subst hb
      intro hs
      exact hnone a ha ⟨hs.1, hs.2.1, hs.2.2⟩
    · intro fb tb
      simp only [depHas, edgeBetween, mem_insertSet, List.mem_append, List.mem_singleton]
      constructor
      · rintro ⟨d, hd | hd, h⟩
        · obtain ⟨e, he, hh⟩ := (inv.dep fb tb).1 ⟨d, hd, h⟩
          exact ⟨e, Or.inl he, hh⟩
        · subst hd; exact ⟨_, Or.inr rfl, h⟩
      · rintro ⟨e, he | he, h⟩
        · obtain ⟨d, hd, hh⟩ := (inv.dep fb tb).2 ⟨e, he, h⟩
          exact ⟨d, Or.inl hd, hh⟩
        · subst he; exact ⟨(f.base, t), Or.inr rfl, h⟩
    · intro fb tb
      simp only [revHas, edgeBetween, mem_insertSet, List.mem_append, List.mem_singleton]
      constructor
      · rintro ⟨d, hd | hd, h⟩
        · obtain ⟨e, he, hh⟩ := (inv.rev fb tb).1 ⟨d, hd, h⟩
          exact ⟨e, Or.inl he, hh⟩
        · subst hd; exact ⟨_, Or.inr rfl, h.2, h.1⟩
      · rintro ⟨e, he | he, h⟩
        · obtain ⟨d, hd, hh⟩ := (inv.rev fb tb).2 ⟨e, he, h⟩
          exact ⟨d, Or.inl hd, hh⟩
        · subst he; exact ⟨(t.base, f), Or.inr rfl, h.2, h.1⟩
    · intro e he
      simp only [List.mem_append, List.mem_singleton] at he
      rcases he with he | he
      · exact Nat.lt_succ_of_lt (inv.ordLt e he)
      · subst he; exact Nat.lt_succ_self _
    · simp only [List.pairwise_append, List.pairwise_cons, List.Pairwise.nil, List.mem_singleton]
      refine ⟨inv.ordInj, ⟨by simp, trivial⟩, ?_⟩
      intro a ha b hb
      subst hb
      exact Nat.ne_of_lt (inv.ordLt a ha)

/-! ### removeEdge -/

def removed (f t : Key) (kind : Option String) (e : Edge) : Bool :=
  e.src.base = f.base && e.dst.base = t.base && kindSelected kind e

theorem removeEdge_edges (g : G) (f t : Key) (kind : Option String) :
    (removeEdge g f t kind).edges = g.edges.filter (fun e => !removed f t kind e) := by
  unfold removeEdge removed
  simp only
  split <;> rfl

theorem removeEdge_nodes (g : G) (f t : Key) (kind : Option String) : (removeEdge g f t kind).nodes = g.nodes := by
  unfold removeEdge; simp only; split <;> rfl

theorem removeEdge_nextSeq (g : G) (f t : Key) (kind : Option String) : (removeEdge g f t kind).nextSeq = g.nextSeq := by
  unfold removeEdge; simp only; split <;> rfl

theorem mem_removeEdge_edges {g : G} {f t : Key} {kind : Option String} {e : Edge} :
    e ∈ (removeEdge g f t kind).edges ↔ e ∈ g.edges ∧ removed f t kind e = false := by
  rw [removeEdge_edges]; simp [List.mem_filter]

theorem removed_pair {f t : Key} {kind : Option String} {e : Edge} (h : removed f t kind e = true) :
    e.src.base = f.base ∧ e.dst.base = t.base := by
  simp [removed] at h; exact ⟨h.1.1, h.1.2⟩

theorem inv_removeEdge {g : G} (inv : Inv g) (f t : Key) (kind : Option String) : Inv (removeEdge g f t kind) := by
  have hedges := removeEdge_edges g f t kind
  have hsub : ∀ e ∈ (removeEdge g f t kind).edges, e ∈ g.edges := fun e he => (mem_removeEdge_edges.1 he).1
  -- edges between any OTHER pair are untouched
  have hother : ∀ fb tb, ¬ (fb = f.base ∧ tb = t.base) →
      (edgeBetween (removeEdge g f t kind) fb tb ↔ edgeBetween g fb tb) := by
    intro fb tb hne
    constructor
    · rintro ⟨e, he, h⟩; exact ⟨e, hsub e he, h⟩
    · rintro ⟨e, he, h⟩
      refine ⟨e, mem_removeEdge_edges.2 ⟨he, ?_⟩, h⟩
      cases hr : removed f t kind e with
      | false => rfl
      | true =>
        have := removed_pair hr
        exact absurd ⟨h.1 ▸ this.1, h.2 ▸ this.2⟩ hne
  have huniq : (removeEdge g f t kind).edges.Pairwise fun e e' => ¬ sameSlot e e' := by
    rw [hedges]; exact inv.uniq.filter _
  have hordInj : (removeEdge g f t kind).edges.Pairwise fun e e' => e.ord ≠ e'.ord := by
    rw [hedges]; exact inv.ordInj.filter _
  have hordLt : ∀ e ∈ (removeEdge g f t kind).edges, e.ord < (removeEdge g f t kind).nextSeq := by
    intro e he; rw [removeEdge_nextSeq]; exact inv.ordLt e (hsub e he)
  by_cases hrem : ((g.edges.filter fun e => !(e.src.base = f.base && e.dst.base = t.base && kindSelected kind e)).any
      (fun e => e.src.base = f.base && e.dst.base = t.base)) = true
  · -- another edge still joins the pair: adjacency untouched
    have hdeps : (removeEdge g f t kind).deps = g.deps := by unfold removeEdge; simp only [hrem, if_true]
    have hrev : (removeEdge g f t kind).revDeps = g.revDeps := by unfold removeEdge; simp only [hrem, if_true]
    have hstill : edgeBetween (removeEdge g f t kind) f.base t.base := by
      obtain ⟨e, he, h⟩ := List.any_eq_true.1 hrem
      simp only [Bool.and_eq_true, decide_eq_true_eq] at h
      refine ⟨e, ?_, h⟩
      rw [hedges]; exact he
    have hold : edgeBetween g f.base t.base := by
      obtain ⟨e, he, h⟩ := hstill; exact ⟨e, hsub e he, h⟩
    have hbetween : ∀ fb tb, edgeBetween (removeEdge g f t kind) fb tb ↔ edgeBetween g fb tb := by
      intro fb tb
      by_cases hp : fb = f.base ∧ tb = t.base
      · rw [hp.1, hp.2]; exact ⟨fun _ => hold, fun _ => hstill⟩
      · exact hother fb tb hp
    constructor
    · exact huniq
    · intro fb tb; rw [hbetween]; unfold depHas; rw [hdeps]; exact inv.dep fb tb
    · intro fb tb; rw [hbetween]; unfold revHas; rw [hrev]; exact inv.rev fb tb
    · exact hordLt
    · exact hordInj
  · have hdeps : (removeEdge g f t kind).deps = g.deps.filter (fun d => !(d.1 = f.base && d.2.base = t.base)) := by
      unfold removeEdge; simp only [hrem]; rfl
    have hrev : (removeEdge g f t kind).revDeps = g.revDeps.filter (fun d => !(d.1 = t.base && d.2.base = f.base)) := by
      unfold removeEdge; simp only [hrem]; rfl
    have hgone : ¬ edgeBetween (removeEdge g f t kind) f.base t.base := by
      rintro ⟨e, he, h⟩
      apply hrem
      rw [hedges] at he
      exact List.any_eq_true.2 ⟨e, he, by simp [h.1, h.2]⟩
    constructor
    · exact huniq
    · intro fb tb
      by_cases hp : fb = f.base ∧ tb = t.base
      · rw [hp.1, hp.2]
        constructor
        · rintro ⟨d, hd, h⟩
          rw [hdeps, List.mem_filter] at hd
          simp [h.1, h.2] at hd
        · intro h; exact absurd h hgone
      · rw [hother fb tb hp, ← inv.dep fb tb]
        unfold depHas; rw [hdeps]
        constructor
        · rintro ⟨d, hd, h⟩; exact ⟨d, (List.mem_filter.1 hd).1, h⟩
        · rintro ⟨d, hd, h⟩
          refine ⟨d, List.mem_filter.2 ⟨hd, ?_⟩, h⟩
          simp only [Bool.not_eq_true', Bool.and_eq_false_iff, decide_eq_false_iff_not]
          by_cases h1 : d.1 = f.base
          · right; intro h2; exact hp ⟨h.1 ▸ h1, h.2 ▸ h2⟩
          · left; exact h1
    · intro fb tb
      by_cases hp : fb = f.base ∧ tb = t.base
      · rw [hp.1, hp.2]
        constructor
        · rintro ⟨d, hd, h⟩
          rw [hrev, List.mem_filter] at hd
          simp [h.1, h.2] at hd
        · intro h; exact absurd h hgone
      · rw [hother fb tb hp, ← inv.rev fb tb]
        unfold revHas; rw [hrev]
        constructor
        · rintro ⟨d, hd, h⟩; exact ⟨d, (List.mem_filter.1 hd).1, h⟩
        · rintro ⟨d, hd, h⟩
          refine ⟨d, List.mem_filter.2 ⟨hd, ?_⟩, h⟩
          simp only [Bool.not_eq_true', Bool.and_eq_false_iff, decide_eq_false_iff_not]
          by_cases h1 : d.1 = t.base
          · right; intro h2; exact hp ⟨h.2 ▸ h2, h.1 ▸ h1⟩
          · left; exact h1
    · exact hordLt
    · exact hordInj

end Gleece.Graph
