/- what an error-free `commonValidate` establishes about a list of annotations (C10; used by the cross-layer
   theorems of `Properties/Link.lean`) -/
import Gleece.Model.Validate
namespace Gleece.Validate

theorem hasError_append (a b : List Diag) : hasError (a ++ b) = (hasError a || hasError b) := by
  simp [hasError, List.any_append]

theorem commonValidate_go_noerr (source : String) (as : List Annot) (counts : List (String × Nat)) (uniq : List String)
    (h : hasError (commonValidate.go source as counts uniq) = false) :
    (∀ a ∈ as, (lookupDef a.name).isSome = true) ∧
    (∀ pre a post, as = pre ++ a :: post → requiresUnique a = true → a.value.isEmpty = false →
        uniq.contains a.value = false ∧ ∀ b ∈ pre, b.value ≠ a.value) := by
  induction as generalizing counts uniq with
  | nil =>
    refine ⟨by simp, ?_⟩
    intro pre a post hsplit
    cases pre <;> simp at hsplit
  | cons x rest ih =>
    unfold commonValidate.go at h
    simp only at h
    cases hd : lookupDef x.name with
    | none =>
      rw [hd] at h
      simp [hasError, err] at h
    | some d =>
      rw [hd] at h
      simp only [hasError_append, Bool.or_eq_false_iff] at h
      obtain ⟨hds, hrest⟩ := h
      obtain ⟨ih1, ih2⟩ := ih _ _ hrest
      refine ⟨?_, ?_⟩
      · intro a ha
        rcases List.mem_cons.1 ha with rfl | ha'
        · rw [hd]; rfl
        · exact ih1 a ha'
      · intro pre a post hsplit hreq hne
        cases pre with
        | nil =>
          simp only [List.nil_append, List.cons.injEq] at hsplit
          obtain ⟨hxa, _⟩ := hsplit
          subst hxa
          refine ⟨?_, by simp⟩
          have hr : d.requiresUniqueValue = true := by
            unfold requiresUnique at hreq; rw [hd] at hreq; exact hreq
          obtain ⟨⟨_, hu⟩, _⟩ := hds
          cases hc : uniq.contains x.value with
          | false => rfl
          | true =>
            rw [hr, hne, hc] at hu
            simp [hasError, err] at hu
        | cons b pre' =>
          simp only [List.cons_append, List.cons.injEq] at hsplit
          obtain ⟨hxb, hrestsplit⟩ := hsplit
          subst hxb
          obtain ⟨hnc, hpre⟩ := ih2 pre' a post hrestsplit hreq hne
          have hnm : a.value ∉ uniq ++ [x.value] := by
            intro hm
            have : (uniq ++ [x.value]).contains a.value = true := by simpa using hm
            rw [this] at hnc; cases hnc
          refine ⟨?_, ?_⟩
          · cases hc : uniq.contains a.value with
            | false => rfl
            | true =>
              exfalso; apply hnm
              have : a.value ∈ uniq := by simpa using hc
              simp [this]
          · intro c hc
            rcases List.mem_cons.1 hc with rfl | hc'
            · intro heq; apply hnm; simp [heq]
            · exact hpre c hc'

end Gleece.Validate
