/-
  C16: the round-trip `parseTrimmed (render w)` for well-formed written annotations.
-/
import Gleece.Lemmas.Annot
namespace Gleece.Annot
open Gleece.Text

theorem reSpace_not_word (c : Char) (h : isReSpace c = true) : isReWord c = false := by
  simp only [isReSpace, Bool.or_eq_true, decide_eq_true_eq] at h
  rcases h with (((h | h) | h) | h) | h <;> subst h <;> decide

theorem reSpace_ne_paren (c : Char) (h : isReSpace c = true) : c ≠ '(' := by
  intro hc; subst hc; revert h; decide

/-- the description part `D` of a rendered line is an acceptable tail and yields the description back -/
theorem tail_ok (gap desc : Str)
    (h : desc.isEmpty = true ∨ (gap.isEmpty = false ∧ gap.all isReSpace = true ∧
          (∀ c, desc.head? = some c → isReSpace c = false))) :
    tailOk (if desc.isEmpty then [] else gap ++ desc) = true ∧
    tailDesc (if desc.isEmpty then [] else gap ++ desc) = desc := by
  by_cases hd : desc.isEmpty = true
  · simp only [hd, if_true]
    have : desc = [] := by simpa using hd
    subst this
    exact ⟨rfl, rfl⟩
  · rcases h with h | ⟨hg, hall, hhead⟩
    · exact absurd h hd
    · simp only [hd]
      have hdrop : dropSpaces (gap ++ desc) = desc := by
        exact dropSpaces_eq_of gap desc hall hhead
      cases gap with
      | nil => simp at hg
      | cons g gs =>
        simp only [List.all_cons, Bool.and_eq_true] at hall
        refine ⟨?_, hdrop⟩
        simp only [Bool.false_eq_true, if_false, List.cons_append, tailOk, hall.1, Bool.true_and]
        have : dropSpaces (g :: (gs ++ desc)) = desc := by simpa using hdrop
        rw [this]
        simpa using hd

theorem tryJson_none_of_paren (D : Str) : tryJson (')' :: D) = none := by
  have : dropSpaces (')' :: D) = ')' :: D := by simp [dropSpaces, List.dropWhile, isReSpace]
  unfold tryJson
  rw [this]
  simp

theorem tryJson_intended (sep1 sep2 body D : Str) (h1 : sep1.all isReSpace = true) (h2 : sep2.all isReSpace = true)
    (hD : tailOk D = true) (hnone : pickClose D = none) :
    (tryJson (sep1 ++ ',' :: sep2 ++ ('{' :: body ++ ['}']) ++ ')' :: D)).map (fun x => (x.1, x.2.1))
      = some ('{' :: body ++ ['}'], D) := by
  have e1 : dropSpaces (sep1 ++ ',' :: sep2 ++ ('{' :: body ++ ['}']) ++ ')' :: D)
      = ',' :: (sep2 ++ ('{' :: (body ++ ['}'] ++ ')' :: D))) := by
    have := dropSpaces_eq_of sep1 (',' :: (sep2 ++ ('{' :: (body ++ ['}'] ++ ')' :: D)))) h1
      (by intro c hc; simp at hc; subst hc; decide)
    simpa using this
  have e2 : dropSpaces (sep2 ++ ('{' :: (body ++ ['}'] ++ ')' :: D))) = '{' :: (body ++ ['}'] ++ ')' :: D) :=
    dropSpaces_eq_of sep2 _ h2 (by intro c hc; simp at hc; subst hc; decide)
  have e3 : pickClose ('{' :: (body ++ ['}'] ++ ')' :: D)) = some ('{' :: (body ++ ['}']), D) := by
    have := pickClose_intended ('{' :: body) D hD hnone
    simpa using this
  unfold tryJson
  rw [e1]
  simp only [if_true, e2, List.head?_cons, e3, Option.map_some]
  simp

end Gleece.Annot
