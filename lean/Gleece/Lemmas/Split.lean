/- `strings.Split` lemmas used by the C06 required-rule theorem -/
import Gleece.Model.Text
namespace Gleece.Text

theorem splitOn_cons_sep (sep : Char) (t : Str) : splitOn sep (sep :: t) = [] :: splitOn sep t := by
  simp [splitOn]

theorem splitOn_cons (sep c : Char) (t : Str) :
    splitOn sep (c :: t) = if c = sep then [] :: splitOn sep t
      else match splitOn sep t with
        | h :: r => (c :: h) :: r
        | [] => [[c]] := by
  rw [splitOn]; rfl

/-- splitting `a ++ sep :: b` = splitting `a`, then splitting `b` -/
theorem splitOn_append_sep (sep : Char) (a b : Str) :
    splitOn sep (a ++ sep :: b) = splitOn sep a ++ splitOn sep b := by
  induction a with
  | nil => simp [splitOn_cons_sep, splitOn]
  | cons c t ih =>
    simp only [List.cons_append]
    rw [splitOn_cons sep c (t ++ sep :: b), splitOn_cons sep c t, ih]
    by_cases hc : c = sep
    · simp [hc]
    · simp only [hc, if_false]
      cases h1 : splitOn sep t with
      | nil => exact absurd h1 (splitOn_ne_nil sep t)
      | cons h r => simp

theorem splitOn_no_sep (sep : Char) (s : Str) (h : ∀ c ∈ s, c ≠ sep) : splitOn sep s = [s] := by
  induction s with
  | nil => rfl
  | cons c t ih =>
    have hc : c ≠ sep := h c (by simp)
    rw [splitOn_cons, ih (fun x hx => h x (by simp [hx]))]
    simp [hc]

end Gleece.Text
