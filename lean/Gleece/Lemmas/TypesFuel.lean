/-
  C07 — the closure computed with `ds.length + 1` rounds is closed, for every list of declarations and every
  root set (no assumption that references are declared).  Idea: let `E s` be the declared names inside `s`.
  `E` only grows along the rounds and is bounded by the number of declarations, so within `ds.length + 1` rounds
  some round leaves `E` unchanged; one round after that the set is closed, and closed sets stay closed.
-/
import Gleece.Lemmas.Types
namespace Gleece.Types

/-- the names of `base` that occur in `s` -/
def declaredIn (base s : List TName) : List TName := base.filter fun n => s.contains n

theorem declaredIn_length_le (base s : List TName) : (declaredIn base s).length ≤ base.length :=
  List.length_filter_le _ _

theorem declaredIn_mono {base s t : List TName} (h : ∀ n ∈ s, n ∈ t) :
    ∀ n ∈ declaredIn base s, n ∈ declaredIn base t := by
  intro n hn
  simp only [declaredIn, List.mem_filter, List.contains_iff_mem] at hn ⊢
  exact ⟨hn.1, h n hn.2⟩

theorem filter_length_mono {α} (p q : α → Bool) (l : List α) (h : ∀ a ∈ l, p a = true → q a = true) :
    (l.filter p).length ≤ (l.filter q).length := by
  induction l with
  | nil => simp
  | cons a as ih =>
    have ih' := ih (fun b hb => h b (List.mem_cons_of_mem _ hb))
    by_cases hp : p a = true
    · have hq := h a (by simp) hp
      simp [List.filter, hp, hq]; omega
    · by_cases hq : q a = true
      · simp [List.filter, hp, hq]; omega
      · simp [List.filter, hp, hq]; exact ih'

theorem filter_eq_of_length_eq {α} (p q : α → Bool) (l : List α) (h : ∀ a ∈ l, p a = true → q a = true)
    (hl : (l.filter p).length = (l.filter q).length) : ∀ a ∈ l, q a = true → p a = true := by
  induction l with
  | nil => intro a ha; cases ha
  | cons x xs ih =>
    have hmono := filter_length_mono p q xs (fun b hb => h b (List.mem_cons_of_mem _ hb))
    intro a ha hqa
    by_cases hp : p x = true
    · have hq := h x (by simp) hp
      simp only [List.filter, hp, hq, List.length_cons, Nat.add_right_cancel_iff] at hl
      rcases List.mem_cons.1 ha with rfl | hin
      · exact hp
      · exact ih (fun b hb => h b (List.mem_cons_of_mem _ hb)) hl a hin hqa
    · by_cases hq : q x = true
      · simp only [Bool.not_eq_true] at hp
        simp only [List.filter, hp, hq, List.length_cons] at hl
        omega
      · simp only [Bool.not_eq_true] at hp hq
        simp only [List.filter, hp, hq] at hl
        rcases List.mem_cons.1 ha with rfl | hin
        · rw [hq] at hqa; cases hqa
        · exact ih (fun b hb => h b (List.mem_cons_of_mem _ hb)) hl a hin hqa

/-- a nondecreasing sequence bounded by `m` repeats a value within its first `m + 2` terms -/
theorem exists_stall (f : Nat → Nat) (m : Nat) (hmono : ∀ k, f k ≤ f (k + 1)) (hb : ∀ k, f k ≤ m) :
    ∃ k, k ≤ m ∧ f (k + 1) = f k := by
  by_cases h : ∃ k, k ≤ m ∧ f (k + 1) = f k
  · exact h
  · exfalso
    have hstrict : ∀ k, k ≤ m → f k + 1 ≤ f (k + 1) := by
      intro k hk
      have := hmono k
      have hne : f (k + 1) ≠ f k := fun e => h ⟨k, hk, e⟩
      omega
    have hgrow : ∀ k, k ≤ m + 1 → f 0 + k ≤ f k := by
      intro k
      induction k with
      | zero => intro _; omega
      | succ k ih =>
        intro hk
        have := ih (by omega)
        have := hstrict k (by omega)
        omega
    have := hgrow (m + 1) (Nat.le_refl _)
    have := hb (m + 1)
    omega

def iter (ds : List Decl) (roots : List TName) : Nat → List TName
  | 0 => roots
  | k + 1 => expand ds (iter ds roots k)

theorem closure_eq_iter (ds : List Decl) (k : Nat) (s : List TName) :
    closure ds k s = iter ds s k := by
  induction k generalizing s with
  | zero => rfl
  | succ k ih =>
    show closure ds k (expand ds s) = expand ds (iter ds s k)
    rw [ih]
    clear ih
    induction k generalizing s with
    | zero => rfl
    | succ k ih2 => show expand ds (iter ds (expand ds s) k) = expand ds (expand ds (iter ds s k)); rw [ih2]

def names (ds : List Decl) : List TName := ds.map (·.name)

theorem lookup_mem_names {ds : List Decl} {n : TName} {d : Decl} (h : lookup ds n = some d) : n ∈ names ds := by
  have hm := List.mem_of_find?_eq_some h
  have hn := lookup_name h
  unfold names
  rw [List.mem_map]
  exact ⟨d, hm, hn⟩

/-- if a round adds no declared name, the result of that round is closed -/
theorem closed_after_stall (ds : List Decl) (s : List TName)
    (hst : ∀ n ∈ names ds, n ∈ expand ds s → n ∈ s) : isClosed ds (expand ds s) = true := by
  unfold isClosed
  rw [List.all_eq_true]
  intro m hm
  cases hl : lookup ds m with
  | none => rfl
  | some d =>
    simp only [List.all_eq_true]
    intro r hr
    rw [List.contains_iff_mem]
    -- m is declared and in expand s, hence already in s; so its references were added by this round
    have hms : m ∈ s := hst m (lookup_mem_names hl) hm
    exact mem_expand.2 (Or.inr ⟨m, hms, d, hl, hr⟩)

theorem closed_expand (ds : List Decl) (s : List TName) (h : isClosed ds s = true) : isClosed ds (expand ds s) = true := by
  apply closed_after_stall
  intro n _ hn
  rcases mem_expand.1 hn with h1 | ⟨m, hm, d, hl, hr⟩
  · exact h1
  · exact isClosed_spec h hm hl hr

theorem closed_iter_of_le (ds : List Decl) (roots : List TName) (k j : Nat) (h : isClosed ds (iter ds roots k) = true) (hle : k ≤ j) :
    isClosed ds (iter ds roots j) = true := by
  induction j with
  | zero => have : k = 0 := by omega
            subst this; exact h
  | succ j ih =>
    by_cases hk : k = j + 1
    · subst hk; exact h
    · exact closed_expand ds _ (ih (by omega))

/-- **fuel sufficiency**: `ds.length + 1` rounds always reach a closed set -/
theorem closure_closed (ds : List Decl) (roots : List TName) :
    isClosed ds (closure ds (ds.length + 1) roots) = true := by
  rw [closure_eq_iter]
  let f : Nat → Nat := fun k => (declaredIn (names ds) (iter ds roots k)).length
  have hsub : ∀ k, ∀ n ∈ iter ds roots k, n ∈ iter ds roots (k + 1) := fun k n hn => subset_expand hn
  have hmono : ∀ k, f k ≤ f (k + 1) := by
    intro k
    exact filter_length_mono _ _ _ (fun a _ ha => by
      rw [List.contains_iff_mem] at ha ⊢
      exact hsub k a ha)
  have hb : ∀ k, f k ≤ ds.length := by
    intro k
    have h1 := declaredIn_length_le (names ds) (iter ds roots k)
    have h2 : (names ds).length = ds.length := by simp [names]
    show (declaredIn (names ds) (iter ds roots k)).length ≤ ds.length
    omega
  obtain ⟨k, hk, hstall⟩ := exists_stall f ds.length hmono hb
  -- round k adds no declared name: iter (k+1) is closed
  have hback := filter_eq_of_length_eq (fun n => (iter ds roots k).contains n) (fun n => (iter ds roots (k + 1)).contains n) (names ds)
    (fun a _ ha => by rw [List.contains_iff_mem] at ha ⊢; exact hsub k a ha) hstall.symm
  have hclosed : isClosed ds (iter ds roots (k + 1)) = true := by
    apply closed_after_stall
    intro n hn hin
    have := hback n hn (by rw [List.contains_iff_mem]; exact hin)
    rwa [List.contains_iff_mem] at this
  exact closed_iter_of_le ds roots (k + 1) (ds.length + 1) hclosed (by omega)

end Gleece.Types
