/-
  C17: `removeNode` (the eviction cascade) preserves the index-consistency invariant, never adds
  an edge, and leaves no edge touching the removed node.
-/
import Gleece.Lemmas.Graph
namespace Gleece.Graph

def noEdge (g : G) (fb tb : Nat) : Prop := ∀ e ∈ g.edges, ¬ (e.src.base = fb ∧ e.dst.base = tb)

/-- what one step of a removal loop guarantees relative to the state it started from -/
structure Shrinks (g g' : G) : Prop where
  inv : Inv g'
  sub : ∀ e ∈ g'.edges, e ∈ g.edges
  nodes : ∀ n ∈ g'.nodes, n ∈ g.nodes

theorem Shrinks.refl {g : G} (inv : Inv g) : Shrinks g g := ⟨inv, fun _ h => h, fun _ h => h⟩

theorem Shrinks.trans {a b c : G} (h1 : Shrinks a b) (h2 : Shrinks b c) : Shrinks a c :=
  ⟨h2.inv, fun e he => h1.sub e (h2.sub e he), fun n hn => h1.nodes n (h2.nodes n hn)⟩

theorem shrinks_removeEdge {g : G} (inv : Inv g) (f t : Key) (kind : Option String) :
    Shrinks g (removeEdge g f t kind) :=
  ⟨inv_removeEdge inv f t kind, fun e he => (mem_removeEdge_edges.1 he).1, by rw [removeEdge_nodes]; exact fun _ h => h⟩

theorem noEdge_removeEdge_none (g : G) (f t : Key) : noEdge (removeEdge g f t none) f.base t.base := by
  intro e he h
  have := (mem_removeEdge_edges.1 he).2
  simp [removed, kindSelected, h.1, h.2] at this

theorem noEdge_of_sub {g g' : G} (hs : ∀ e ∈ g'.edges, e ∈ g.edges) {fb tb : Nat} (h : noEdge g fb tb) :
    noEdge g' fb tb := fun e he => h e (hs e he)

/-- the final clean-up of `RemoveNode` (`delete(g.deps, id)`, `delete(g.revDeps, id)`, `delete(g.nodes, id)`)
    keeps the invariant once no edge touches `id` any more -/
theorem inv_cleanup {g : G} (inv : Inv g) (id : Nat)
    (hfrom : ∀ e ∈ g.edges, e.src.base ≠ id) (hto : ∀ e ∈ g.edges, e.dst.base ≠ id) :
    Inv { g with deps := g.deps.filter (·.1 ≠ id), revDeps := g.revDeps.filter (·.1 ≠ id),
                 nodes := g.nodes.filter (·.key.base ≠ id) } := by
  constructor
  · exact inv.uniq
  · intro fb tb
    constructor
    · rintro ⟨d, hd, h⟩
      exact (inv.dep fb tb).1 ⟨d, (List.mem_filter.1 hd).1, h⟩
    · intro h
      obtain ⟨d, hd, hh⟩ := (inv.dep fb tb).2 h
      obtain ⟨e, he, h1, _⟩ := h
      refine ⟨d, List.mem_filter.2 ⟨hd, ?_⟩, hh⟩
      have : fb ≠ id := h1 ▸ hfrom e he
      simpa [hh.1] using this
  · intro fb tb
    constructor
    · rintro ⟨d, hd, h⟩
      exact (inv.rev fb tb).1 ⟨d, (List.mem_filter.1 hd).1, h⟩
    · intro h
      obtain ⟨d, hd, hh⟩ := (inv.rev fb tb).2 h
      obtain ⟨e, he, _, h2⟩ := h
      refine ⟨d, List.mem_filter.2 ⟨hd, ?_⟩, hh⟩
      have : tb ≠ id := h2 ▸ hto e he
      simpa [hh.1] using this
  · exact inv.ordLt
  · exact inv.ordInj

/-- the loop over the snapshot of outgoing edges -/
theorem outgoing_loop (key : Key) (l : List Edge) (g : G) (inv : Inv g) :
    Shrinks g (l.foldl (fun g e => removeEdge g key e.dst (some e.kind)) g) ∧
    ∀ e ∈ l, e.src.base = key.base → e ∉ (l.foldl (fun g e => removeEdge g key e.dst (some e.kind)) g).edges := by
  induction l generalizing g with
  | nil => exact ⟨Shrinks.refl inv, by simp⟩
  | cons x xs ih =>
    have s1 := shrinks_removeEdge inv key x.dst (some x.kind)
    obtain ⟨s2, h2⟩ := ih (removeEdge g key x.dst (some x.kind)) s1.inv
    refine ⟨s1.trans s2, ?_⟩
    intro e he hsrc
    rcases List.mem_cons.1 he with rfl | he'
    · intro hmem
      have := (mem_removeEdge_edges.1 (s2.sub _ hmem)).2
      simp [removed, kindSelected, hsrc] at this
    · exact h2 e he' hsrc

/-- `RemoveNode` by induction on the recursion depth -/
theorem removeNode_shrinks : ∀ (fuel : Nat) (g : G) (key : Key) (g' : G), Inv g →
    removeNode fuel g key = some g' →
    Shrinks g g' ∧ (g.hasNode key.base = true → ∀ e ∈ g'.edges, e.src.base ≠ key.base ∧ e.dst.base ≠ key.base) := by
  intro fuel
  induction fuel with
  | zero => intro g key g' _ h; simp [removeNode] at h
  | succ fuel ih =>
    intro g key g' inv h
    unfold removeNode at h
    simp only at h
    split at h
    · -- node absent: nothing happens
      rename_i hno
      simp only [Option.some.injEq] at h
      subst h
      refine ⟨Shrinks.refl inv, ?_⟩
      intro hyes; rw [hyes] at hno; simp at hno
    ·
      -- the dependents loop, generalised over the list and the current state
      have loop : ∀ (l : List Key) (g0 : G) (gl : G), Inv g0 →
          l.foldl (fun og fk => og.bind fun g =>
              let g := removeEdge g fk key none
              if isOrphan g fk then removeNode fuel g fk else some g) (some g0) = some gl →
          Shrinks g0 gl ∧ ∀ fk ∈ l, noEdge gl fk.base key.base := by
        intro l
        induction l with
        | nil =>
          intro g0 gl inv0 hl
          simp only [List.foldl_nil, Option.some.injEq] at hl
          subst hl
          exact ⟨Shrinks.refl inv0, by simp⟩
        | cons fk l ihl =>
          intro g0 gl inv0 hl
          simp only [List.foldl_cons, Option.bind_some] at hl
          have s1 := shrinks_removeEdge inv0 fk key none
          have n1 := noEdge_removeEdge_none g0 fk key
          -- state after processing fk
          cases hmid : (if isOrphan (removeEdge g0 fk key none) fk then removeNode fuel (removeEdge g0 fk key none) fk
                        else some (removeEdge g0 fk key none)) with
          | none =>
            rw [hmid] at hl
            have : ∀ (l : List Key), l.foldl (fun og fk => og.bind fun g =>
                let g := removeEdge g fk key none
                if isOrphan g fk then removeNode fuel g fk else some g) none = none := by
              intro l; induction l with
              | nil => rfl
              | cons _ _ ih' => simpa using ih'
            rw [this] at hl; simp at hl
          | some gm =>
            rw [hmid] at hl
            have sm : Shrinks (removeEdge g0 fk key none) gm := by
              split at hmid
              · exact (ih _ _ _ s1.inv hmid).1
              · simp only [Option.some.injEq] at hmid; subst hmid; exact Shrinks.refl s1.inv
            obtain ⟨s3, h3⟩ := ihl gm gl sm.inv hl
            refine ⟨(s1.trans sm).trans s3, ?_⟩
            intro k hk
            rcases List.mem_cons.1 hk with rfl | hk'
            · exact noEdge_of_sub (fun e he => sm.sub e (s3.sub e he)) n1
            · exact h3 k hk'
      cases hdep : ((g.revDeps.filter (·.1 = key.base)).map (·.2)).foldl (fun og fk => og.bind fun g =>
              let g := removeEdge g fk key none
              if isOrphan g fk then removeNode fuel g fk else some g) (some g) with
      | none => rw [hdep] at h; simp at h
      | some g1 =>
        rw [hdep] at h
        simp only [Option.map_some, Option.some.injEq] at h
        obtain ⟨s1, hno⟩ := loop _ g g1 inv hdep
        obtain ⟨s2, hout⟩ := outgoing_loop key (g1.edges.filter (·.src.base = key.base)) g1 s1.inv
        -- no edge into key.base after the dependents loop
        have hto1 : ∀ e ∈ g1.edges, e.dst.base ≠ key.base := by
          intro e he hd
          have heg : e ∈ g.edges := s1.sub e he
          obtain ⟨d, hdm, hd1, hd2⟩ := (inv.rev e.src.base key.base).2 ⟨e, heg, rfl, hd⟩
          have : d.2 ∈ (g.revDeps.filter (·.1 = key.base)).map (·.2) :=
            List.mem_map.2 ⟨d, List.mem_filter.2 ⟨hdm, by simpa using hd1⟩, rfl⟩
          exact hno d.2 this e he ⟨hd2.symm, hd⟩
        let g2 := (g1.edges.filter (·.src.base = key.base)).foldl (fun g e => removeEdge g key e.dst (some e.kind)) g1
        have hfrom2 : ∀ e ∈ g2.edges, e.src.base ≠ key.base := by
          intro e he hs
          have he1 : e ∈ g1.edges := s2.sub e he
          exact hout e (List.mem_filter.2 ⟨he1, by simpa using hs⟩) hs he
        have hto2 : ∀ e ∈ g2.edges, e.dst.base ≠ key.base := fun e he => hto1 e (s2.sub e he)
        have invc := inv_cleanup s2.inv key.base hfrom2 hto2
        subst h
        refine ⟨⟨invc, fun e he => s1.sub e (s2.sub e he), ?_⟩, fun _ e he => ⟨hfrom2 e he, hto2 e he⟩⟩
        intro n hn
        exact s1.nodes n (s2.nodes n (List.mem_filter.1 hn).1)

end Gleece.Graph
