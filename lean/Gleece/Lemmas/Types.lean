import Gleece.Model.Types
namespace Gleece.Types

theorem mem_expand {ds : List Decl} {s : List TName} {n : TName} :
    n ∈ expand ds s ↔ n ∈ s ∨ ∃ m ∈ s, ∃ d, lookup ds m = some d ∧ n ∈ d.refs := by
  unfold expand
  rw [List.mem_eraseDups, List.mem_append, List.mem_flatMap]
  constructor
  · rintro (h | ⟨m, hm, h⟩)
    · exact Or.inl h
    · right
      refine ⟨m, hm, ?_⟩
      cases hl : lookup ds m with
      | none => rw [hl] at h; simp at h
      | some d => rw [hl] at h; exact ⟨d, rfl, h⟩
  · rintro (h | ⟨m, hm, d, hl, h⟩)
    · exact Or.inl h
    · right
      exact ⟨m, hm, by rw [hl]; exact h⟩

theorem subset_expand {ds : List Decl} {s : List TName} {n : TName} (h : n ∈ s) : n ∈ expand ds s :=
  mem_expand.2 (Or.inl h)

theorem subset_closure {ds : List Decl} (k : Nat) {s : List TName} {n : TName} (h : n ∈ s) : n ∈ closure ds k s := by
  induction k generalizing s with
  | zero => exact h
  | succ k ih => exact ih (subset_expand h)

/-- every member of the computed closure is reachable, provided every starting member is -/
theorem closure_reach {ds : List Decl} {roots : List TName} (k : Nat) (s : List TName)
    (hs : ∀ n ∈ s, Reach ds roots n) : ∀ n ∈ closure ds k s, Reach ds roots n := by
  induction k generalizing s with
  | zero => exact hs
  | succ k ih =>
    apply ih
    intro n hn
    rcases mem_expand.1 hn with h | ⟨m, hm, d, hl, h⟩
    · exact hs n h
    · exact Reach.step (hs m hm) hl h

theorem isClosed_spec {ds : List Decl} {s : List TName} (h : isClosed ds s = true)
    {m : TName} (hm : m ∈ s) {d : Decl} (hl : lookup ds m = some d) {n : TName} (hn : n ∈ d.refs) : n ∈ s := by
  unfold isClosed at h
  rw [List.all_eq_true] at h
  have := h m hm
  rw [hl] at this
  simp only [List.all_eq_true] at this
  have := this n hn
  simpa using this

/-- a closed set containing the roots contains everything reachable -/
theorem closed_contains_reach {ds : List Decl} {roots s : List TName}
    (hr : ∀ n ∈ roots, n ∈ s) (hc : isClosed ds s = true) {n : TName} (h : Reach ds roots n) : n ∈ s := by
  induction h with
  | root h => exact hr _ h
  | step _ hl hn ih => exact isClosed_spec hc ih hl hn

theorem lookup_name {ds : List Decl} {n : TName} {d : Decl} (h : lookup ds n = some d) : d.name = n := by
  unfold lookup at h
  have := List.find?_some h
  simpa using this

end Gleece.Types
