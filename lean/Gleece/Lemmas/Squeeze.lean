/- `RemoveDuplicateSlash` does not change the `{names}` of a template whose names contain no slash -/
import Gleece.Model.Doc
namespace Gleece.Doc
open Gleece.IR

def slashFree (n : String) : Prop := '/' ∉ n.toList

def tpaNext : Option (List Char) → Char → Option (List Char)
  | none, c => if c = '{' then some [] else none
  | some b, c => if c = '}' then none else if c = '{' then some [] else some (b ++ [c])

def tpaEmit : Option (List Char) → Char → List String
  | none, _ => []
  | some b, c => if c = '}' then [String.ofList b] else []

theorem tpa_cons (st : Option (List Char)) (c : Char) (rest : List Char) :
    templateParamsAux st (c :: rest) = tpaEmit st c ++ templateParamsAux (tpaNext st c) rest := by
  cases st with
  | none => by_cases h : c = '{' <;> simp [templateParamsAux, tpaNext, tpaEmit, h]
  | some b =>
    by_cases h1 : c = '}'
    · simp [templateParamsAux, tpaNext, tpaEmit, h1]
    · by_cases h2 : c = '{' <;> simp [templateParamsAux, tpaNext, tpaEmit, h1, h2]

/-- a group whose buffer already holds a slash cannot complete without producing a name with a slash: if all names are
    slash-free the group is abandoned, and what the buffer held does not matter -/
theorem tpa_buffer_irrelevant (t : List Char) : ∀ (b b' : List Char), '/' ∈ b →
    (∀ n ∈ templateParamsAux (some b) t, slashFree n) →
    templateParamsAux (some b) t = templateParamsAux (some b') t := by
  induction t with
  | nil => intro b b' _ _; simp [templateParamsAux]
  | cons c t ih =>
    intro b b' hb hall
    by_cases h1 : c = '}'
    · subst h1
      exfalso
      have : String.ofList b ∈ templateParamsAux (some b) ('}' :: t) := by simp [templateParamsAux]
      exact hall _ this (by simpa using hb)
    · by_cases h2 : c = '{'
      · subst h2
        simp [templateParamsAux]
      · have hstep : ∀ x, templateParamsAux (some x) (c :: t) = templateParamsAux (some (x ++ [c])) t := by
          intro x; simp [templateParamsAux, h1, h2]
        rw [hstep b, hstep b']
        rw [hstep b] at hall
        exact ih (b ++ [c]) (b' ++ [c]) (by simp [hb]) hall

theorem tpa_squeeze : ∀ (n : Nat) (s : List Char), s.length ≤ n → ∀ (st : Option (List Char)),
    (∀ x ∈ templateParamsAux st s, slashFree x) → templateParamsAux st (squeeze s) = templateParamsAux st s := by
  intro n
  induction n with
  | zero => intro s hs st _; cases s <;> simp_all [squeeze]
  | succ n ih =>
    intro s hs st hall
    match s, hs, hall with
    | [], _, _ => simp [squeeze]
    | [c], _, _ => simp [squeeze]
    | c :: d :: t, hs, hall =>
      have hlen : (d :: t).length ≤ n := by simp only [List.length_cons] at hs ⊢; omega
      by_cases hcd : c = '/' ∧ d = '/'
      · obtain ⟨hc, hd⟩ := hcd
        subst hc; subst hd
        have hsq : squeeze ('/' :: '/' :: t) = squeeze ('/' :: t) := by simp [squeeze]
        rw [hsq]
        cases st with
        | none =>
          have e : templateParamsAux none ('/' :: '/' :: t) = templateParamsAux none ('/' :: t) := by simp [templateParamsAux]
          rw [e] at hall ⊢
          exact ih _ hlen none hall
        | some b =>
          have e1 : templateParamsAux (some b) ('/' :: '/' :: t) = templateParamsAux (some (b ++ ['/'] ++ ['/'])) t := by
            simp [templateParamsAux]
          have e2 : templateParamsAux (some b) ('/' :: t) = templateParamsAux (some (b ++ ['/'])) t := by
            simp [templateParamsAux]
          rw [e1] at hall
          have hirr := tpa_buffer_irrelevant t (b ++ ['/'] ++ ['/']) (b ++ ['/']) (by simp) hall
          rw [e1, hirr, ← e2]
          apply ih _ hlen (some b)
          rw [e2, ← hirr]; exact hall
      · have hsq : squeeze (c :: d :: t) = c :: squeeze (d :: t) := by simp [squeeze, hcd]
        rw [hsq, tpa_cons st c (squeeze (d :: t)), tpa_cons st c (d :: t)]
        rw [tpa_cons st c (d :: t)] at hall
        congr 1
        exact ih _ hlen _ (fun x hx => hall x (List.mem_append_right _ hx))

/-- **`RemoveDuplicateSlash` keeps the template variables**: the `{names}` of the normalised path are those of the path
    as written, provided no name contains a slash -/
theorem templateParams_normPath (s : String) (h : ∀ x ∈ templateParams s, slashFree x) :
    templateParams (normPath s) = templateParams s := by
  unfold templateParams normPath at *
  rw [String.toList_ofList]
  exact tpa_squeeze _ _ (Nat.le_refl _) none h

end Gleece.Doc
