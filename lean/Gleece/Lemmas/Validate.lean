/- C10 helper lemmas: what an empty diagnostic list of each validator part implies -/
import Gleece.Model.Validate
namespace Gleece.Validate

theorem of_ite_cons_nil {α} {c : Prop} [Decidable c] {x : α} (h : (if c then [x] else []) = []) : ¬ c := by
  intro hc; simp [hc] at h

theorem of_ite_nil_cons {α} {c : Prop} [Decidable c] {x : α} (h : (if c then [] else [x]) = []) : c := by
  by_cases hc : c
  · exact hc
  · simp [hc] at h

theorem goUrl_nil (referenced : List String) (ps seen : List String)
    (h : linkValidate.goUrl referenced ps seen = []) : ∀ p ∈ ps, referenced.contains p = true := by
  induction ps generalizing seen with
  | nil => simp
  | cons p rest ih =>
    unfold linkValidate.goUrl at h
    simp only [List.append_eq_nil_iff] at h
    obtain ⟨⟨_, h2⟩, h3⟩ := h
    intro q hq
    rcases List.mem_cons.1 hq with rfl | hq'
    · exact of_ite_nil_cons h2
    · exact ih _ h3 q hq'

/-- the @Path pass: every @Path value is a parameter, no parameter / value / alias is used twice, every
    non-empty alias names a url parameter -/
theorem goPath_nil (funcParams urlParams : List String) (as : List Annot) (sp sv sa : List String)
    (h : (linkValidate.goPath urlParams funcParams as sp sv sa).1 = []) :
    ∀ a ∈ as, funcParams.contains a.value = true ∧ aliasOf a ≠ .bad ∧
      (∀ al, aliasOf a = .ok al → al ≠ "" → urlParams.contains al = true) := by
  induction as generalizing sp sv sa with
  | nil => simp
  | cons a rest ih =>
    unfold linkValidate.goPath at h
    simp only at h
    generalize hrec : linkValidate.goPath urlParams funcParams rest _ _ _ = rec at h
    obtain ⟨r, spr⟩ := rec
    simp only [List.append_eq_nil_iff] at h
    obtain ⟨⟨⟨hA, _hB⟩, hC⟩, hr⟩ := h
    have hknown : funcParams.contains a.value = true := by
      cases hk : funcParams.contains a.value with
      | true => rfl
      | false => rw [hk] at hA; simp at hA
    have hrest := ih _ _ _ (by rw [hrec]; exact hr)
    intro b hb
    rcases List.mem_cons.1 hb with rfl | hb'
    · refine ⟨hknown, ?_, ?_⟩
      · intro hbad; rw [hbad] at hC; simp at hC
      · intro al hal hne
        rw [hal] at hC
        have hne' : al.isEmpty = false := by
          cases he : al.isEmpty with
          | false => rfl
          | true => exact absurd (String.isEmpty_iff.1 he) hne
        simp only [hne', Bool.false_eq_true, if_false, List.append_eq_nil_iff] at hC
        exact of_ite_nil_cons hC.2
    · exact hrest b hb'

/-- the name a @Path goes by in the URL: its non-empty `name` property, otherwise the parameter's own name
    (`wireName` of the reducer; `getPathAliasOrName` of the validator for a non-empty alias) -/
def urlName (a : Annot) : String :=
  match aliasOf a with
  | .ok v => if v.isEmpty then a.value else v
  | _ => a.value

theorem contains_false_of_not_mem {l : List String} {x : String} (h : l.contains x = false) : x ∉ l := by
  intro hm
  have : l.contains x = true := by simpa using hm
  rw [this] at h; cases h

/-- the url-parameter pass reports a repeated `{name}`: an empty result means the names are pairwise distinct
    (and none of them was seen before) -/
theorem goUrl_nodup (referenced : List String) (ps seen : List String)
    (h : linkValidate.goUrl referenced ps seen = []) : ps.Nodup ∧ ∀ p ∈ ps, p ∉ seen := by
  induction ps generalizing seen with
  | nil => simp
  | cons p rest ih =>
    unfold linkValidate.goUrl at h
    simp only [List.append_eq_nil_iff] at h
    obtain ⟨⟨h1, _⟩, h3⟩ := h
    have hns : seen.contains p = false := by
      cases hc : seen.contains p with
      | false => rfl
      | true => rw [hc] at h1; simp at h1
    simp only [hns, Bool.false_eq_true, if_false] at h3
    obtain ⟨hnd, hdisj⟩ := ih _ h3
    refine ⟨List.nodup_cons.2 ⟨?_, hnd⟩, ?_⟩
    · intro hm
      exact hdisj p hm (by simp)
    · intro q hq
      rcases List.mem_cons.1 hq with rfl | hq'
      · exact contains_false_of_not_mem hns
      · intro hqs; exact hdisj q hq' (by simp [hqs])

/-- the @Path pass (since the fix for C10-F5): an empty result means the URL names of the @Path annotations
    are pairwise distinct, whether they come from an alias or from the parameter's own name -/
theorem goPath_names_nodup (funcParams urlParams : List String) (as : List Annot) (sp sv sa : List String)
    (h : (linkValidate.goPath urlParams funcParams as sp sv sa).1 = []) :
    (as.map urlName).Nodup ∧ ∀ a ∈ as, urlName a ∉ sa := by
  induction as generalizing sp sv sa with
  | nil => simp
  | cons a rest ih =>
    unfold linkValidate.goPath at h
    simp only at h
    generalize hrec : linkValidate.goPath urlParams funcParams rest _ _ _ = rec at h
    obtain ⟨r, spr⟩ := rec
    simp only [List.append_eq_nil_iff] at h
    obtain ⟨⟨⟨_hA, hB⟩, hC⟩, hr⟩ := h
    have hsv : sv.contains a.value = false := by
      cases hc : sv.contains a.value with
      | false => rfl
      | true => rw [hc] at hB; simp at hB
    -- the name of `a` is new, and it is what the accumulator grows by
    have key : sa.contains (urlName a) = false ∧
        ∃ sa', linkValidate.goPath urlParams funcParams rest
          (if (funcParams.contains a.value && !sp.contains a.value) = true then sp ++ [a.value] else sp)
          (if sv.contains a.value = true then sv else sv ++ [a.value]) sa' = (r, spr) ∧ sa' = sa ++ [urlName a] := by
      unfold urlName
      cases hal : aliasOf a with
      | bad => rw [hal] at hC; simp at hC
      | none =>
        rw [hal] at hC hrec
        simp only [hsv, Bool.not_false, Bool.and_true] at hC
        have hsa : sa.contains a.value = false := by
          cases hc : sa.contains a.value with
          | false => rfl
          | true => rw [hc] at hC; simp at hC
        refine ⟨hsa, _, ?_, rfl⟩
        simpa [contains_false_of_not_mem hsa] using hrec
      | ok al =>
        rw [hal] at hC hrec
        by_cases he : al.isEmpty = true
        · simp only [he, if_true, hsv, Bool.not_false, Bool.and_true] at hC hrec ⊢
          have hsa : sa.contains a.value = false := by
            cases hc : sa.contains a.value with
            | false => rfl
            | true => rw [hc] at hC; simp at hC
          refine ⟨hsa, _, ?_, rfl⟩
          simpa [contains_false_of_not_mem hsa] using hrec
        · simp only [he, Bool.false_eq_true, if_false, List.append_eq_nil_iff] at hC hrec ⊢
          have hsa : sa.contains al = false := by
            cases hc : sa.contains al with
            | false => rfl
            | true => rw [hc] at hC; simp at hC
          refine ⟨hsa, _, ?_, rfl⟩
          simpa [contains_false_of_not_mem hsa] using hrec
    obtain ⟨hnew, sa', hrec', hsa'⟩ := key
    subst hsa'
    obtain ⟨hnd, hdisj⟩ := ih _ _ _ (by rw [hrec']; exact hr)
    refine ⟨?_, ?_⟩
    · rw [List.map_cons]
      refine List.nodup_cons.2 ⟨?_, hnd⟩
      intro hm
      obtain ⟨b, hb, hbn⟩ := List.mem_map.1 hm
      exact hdisj b hb (by simp [hbn])
    · intro b hb
      rcases List.mem_cons.1 hb with rfl | hb'
      · exact contains_false_of_not_mem hnew
      · intro hbs; exact hdisj b hb' (by simp [hbs])

/-- the @Path pass reports nothing only if the annotations carry pairwise different values (parameter names) -/
theorem goPath_values_nodup (funcParams urlParams : List String) (as : List Annot) (sp sv sa : List String)
    (h : (linkValidate.goPath urlParams funcParams as sp sv sa).1 = []) :
    (as.map (·.value)).Nodup ∧ ∀ a ∈ as, a.value ∉ sv := by
  induction as generalizing sp sv sa with
  | nil => simp
  | cons a rest ih =>
    unfold linkValidate.goPath at h
    simp only at h
    generalize hrec : linkValidate.goPath urlParams funcParams rest _ _ _ = rec at h
    obtain ⟨r, spr⟩ := rec
    simp only [List.append_eq_nil_iff] at h
    obtain ⟨⟨⟨_hA, hB⟩, _hC⟩, hr⟩ := h
    have hsv : sv.contains a.value = false := by
      cases hc : sv.contains a.value with
      | false => rfl
      | true => rw [hc] at hB; simp at hB
    rw [hsv] at hrec
    simp only [Bool.false_eq_true, if_false] at hrec
    obtain ⟨hnd, hdisj⟩ := ih _ _ _ (by rw [hrec]; exact hr)
    refine ⟨?_, ?_⟩
    · rw [List.map_cons]
      refine List.nodup_cons.2 ⟨?_, hnd⟩
      intro hm
      obtain ⟨b, hb, hbv⟩ := List.mem_map.1 hm
      exact hdisj b hb (by simp [hbv])
    · intro b hb
      rcases List.mem_cons.1 hb with rfl | hb'
      · exact contains_false_of_not_mem hsv
      · intro hbs; exact hdisj b hb' (by simp [hbs])

end Gleece.Validate
