/- C10 helper lemmas: what an empty diagnostic list of each validator part implies -/
import Gleece.Model.Validate
namespace Gleece.Validate

theorem of_ite_cons_nil {α} {c : Prop} [Decidable c] {x : α} (h : (if c then [x] else []) = []) : ¬ c := by
  intro hc; simp [hc] at h

theorem of_ite_nil_cons {α} {c : Prop} [Decidable c] {x : α} (h : (if c then [] else [x]) = []) : c := by
  by_cases hc : c
  · exact hc
  · simp [hc] at h

theorem goUrl_nil (referenced : List String) (ps seen : List String)
    (h : linkValidate.goUrl referenced ps seen = []) : ∀ p ∈ ps, referenced.contains p = true := by
  induction ps generalizing seen with
  | nil => simp
  | cons p rest ih =>
    unfold linkValidate.goUrl at h
    simp only [List.append_eq_nil_iff] at h
    obtain ⟨⟨_, h2⟩, h3⟩ := h
    intro q hq
    rcases List.mem_cons.1 hq with rfl | hq'
    · exact of_ite_nil_cons h2
    · exact ih _ h3 q hq'

/-- the @Path pass: every @Path value is a parameter, no parameter / value / alias is used twice, every
    non-empty alias names a url parameter -/
theorem goPath_nil (funcParams urlParams : List String) (as : List Annot) (sp sv sa : List String)
    (h : (linkValidate.goPath urlParams funcParams as sp sv sa).1 = []) :
    ∀ a ∈ as, funcParams.contains a.value = true ∧ aliasOf a ≠ .bad ∧
      (∀ al, aliasOf a = .ok al → al ≠ "" → urlParams.contains al = true) := by
  induction as generalizing sp sv sa with
  | nil => simp
  | cons a rest ih =>
    unfold linkValidate.goPath at h
    simp only at h
    generalize hrec : linkValidate.goPath urlParams funcParams rest _ _ _ = rec at h
    obtain ⟨r, spr⟩ := rec
    simp only [List.append_eq_nil_iff] at h
    obtain ⟨⟨⟨hA, _hB⟩, hC⟩, hr⟩ := h
    have hknown : funcParams.contains a.value = true := by
      cases hk : funcParams.contains a.value with
      | true => rfl
      | false => rw [hk] at hA; simp at hA
    have hrest := ih _ _ _ (by rw [hrec]; exact hr)
    intro b hb
    rcases List.mem_cons.1 hb with rfl | hb'
    · refine ⟨hknown, ?_, ?_⟩
      · intro hbad; rw [hbad] at hC; simp at hC
      · intro al hal hne
        rw [hal] at hC
        have hne' : al.isEmpty = false := by
          cases he : al.isEmpty with
          | false => rfl
          | true => exact absurd (String.isEmpty_iff.1 he) hne
        simp only [hne', Bool.false_eq_true, if_false, List.append_eq_nil_iff] at hC
        exact of_ite_nil_cons hC.2
    · exact hrest b hb'

end Gleece.Validate
