import Gleece.Model.Session
namespace Gleece.Session

/-- a memo is well-formed when its ids are below `next` (so fresh ids never collide) -/
def Memo.WF (m : Memo) : Prop := ∀ p ∈ m.table, p.2 < m.next

theorem getId_wf (m : Memo) (k : Nat) (h : m.WF) : (getId m k).2.WF := by
  unfold getId
  cases hf : m.table.find? (fun p => decide (p.1 = k)) with
  | some p => simpa using h
  | none =>
    intro q hq
    simp only [List.mem_append, List.mem_singleton] at hq
    rcases hq with hq | rfl
    · exact Nat.lt_succ_of_lt (h q hq)
    · exact Nat.lt_succ_self _

/-- once a key has been seen, asking again returns the same id and changes nothing -/
theorem getId_memo (m : Memo) (k : Nat) : getId (getId m k).2 k = ((getId m k).1, (getId m k).2) := by
  unfold getId
  cases hf : m.table.find? (fun p => decide (p.1 = k)) with
  | some p => simp [hf]
  | none =>
    simp only
    have : (m.table ++ [(k, m.next)]).find? (fun p => decide (p.1 = k)) = some (k, m.next) := by
      rw [List.find?_append, hf]; simp
    simp [this]

/-- a key already in the table keeps its id whatever else is asked afterwards -/
theorem getId_preserves (m : Memo) (k k' : Nat) (id : Nat) (h : m.table.find? (fun p => decide (p.1 = k)) = some (k, id)) :
    (getId m k').2.table.find? (fun p => decide (p.1 = k)) = some (k, id) := by
  unfold getId
  cases hf : m.table.find? (fun p => decide (p.1 = k')) with
  | some p => simpa using h
  | none => simp only; rw [List.find?_append, h]; rfl

theorem insertSorted_perm (x : Nat) (l : List Nat) : (insertSorted x l).Perm (x :: l) := by
  induction l with
  | nil => exact List.Perm.refl _
  | cons y ys ih =>
    unfold insertSorted
    split
    · exact List.Perm.refl _
    · exact (List.Perm.cons y ih).trans (List.Perm.swap x y ys)

theorem sortNat_perm (l : List Nat) : (sortNat l).Perm l := by
  induction l with
  | nil => exact List.Perm.refl _
  | cons x xs ih => exact (insertSorted_perm x (sortNat xs)).trans (List.Perm.cons x ih)

def Sorted : List Nat → Prop
  | [] => True
  | [_] => True
  | x :: y :: r => x ≤ y ∧ Sorted (y :: r)

theorem insertSorted_sorted (x : Nat) (l : List Nat) (h : Sorted l) : Sorted (insertSorted x l) := by
  induction l with
  | nil => trivial
  | cons y ys ih =>
    unfold insertSorted
    split
    · rename_i hle; exact ⟨hle, h⟩
    · rename_i hnle
      have hyx : y ≤ x := Nat.le_of_not_le hnle
      cases ys with
      | nil => exact ⟨hyx, trivial⟩
      | cons z zs =>
        have hs : Sorted (z :: zs) := h.2
        have := ih hs
        unfold insertSorted at this ⊢
        split
        · exact ⟨hyx, by simpa [*] using this⟩
        · rename_i hxz
          simp only [hxz, if_false] at this
          exact ⟨h.1, this⟩

theorem sortNat_sorted (l : List Nat) : Sorted (sortNat l) := by
  induction l with
  | nil => trivial
  | cons x xs ih => exact insertSorted_sorted x _ ih

theorem sorted_head_le (x : Nat) (l : List Nat) (h : Sorted (x :: l)) : ∀ y ∈ l, x ≤ y := by
  induction l generalizing x with
  | nil => simp
  | cons z zs ih =>
    intro y hy
    rcases List.mem_cons.1 hy with rfl | hy'
    · exact h.1
    · exact Nat.le_trans h.1 (ih z h.2 y hy')

/-- two sorted permutations of each other are equal -/
theorem sorted_perm_eq : ∀ (l₁ l₂ : List Nat), Sorted l₁ → Sorted l₂ → l₁.Perm l₂ → l₁ = l₂
  | [], l₂, _, _, hp => by simpa using hp.symm.eq_nil
  | x :: xs, [], _, _, hp => by simpa using hp.eq_nil
  | x :: xs, y :: ys, h1, h2, hp => by
    have hx : x ∈ y :: ys := hp.subset (by simp)
    have hy : y ∈ x :: xs := hp.symm.subset (by simp)
    have hxy : x = y := by
      rcases List.mem_cons.1 hx with h | h
      · exact h
      · rcases List.mem_cons.1 hy with h' | h'
        · exact h'.symm
        · exact Nat.le_antisymm (sorted_head_le x xs h1 y h') (sorted_head_le y ys h2 x h)
    subst hxy
    have h1' : Sorted xs := by cases xs with | nil => trivial | cons _ _ => exact h1.2
    have h2' : Sorted ys := by cases ys with | nil => trivial | cons _ _ => exact h2.2
    rw [sorted_perm_eq xs ys h1' h2' (List.Perm.cons_inv hp)]

end Gleece.Session
