/-
  C15: the invariant of the `FindConflicts` loop and its preservation by one iteration.
-/
import Gleece.Lemmas.Paths
namespace Gleece.Paths
open Gleece.Text

/-- loop invariant after the entries `pre` have been processed -/
structure Inv (pre : List Entry) (s : State) : Prop where
  nodup : (pre.map (·.id)).Nodup
  /-- only processed entries are registered -/
  regSub : ∀ r ∈ s.reg, r ∈ pre
  /-- every processed entry has a registrant at its trie node for its verb -/
  regCover : ∀ e ∈ pre, ∃ r ∈ s.reg, r.verb = e.verb ∧ r.tp = e.tp
  /-- one endpoint per (trie node, verb) -/
  regUniq : ∀ r ∈ s.reg, ∀ r' ∈ s.reg, r.verb = r'.verb → r.tp = r'.tp → r = r'
  sound : ∀ c ∈ s.out, c.a ∈ pre ∧ c.b ∈ pre ∧ c.a.id ≠ c.b.id ∧ c.a.verb = c.b.verb ∧
            patternsConflict c.a.segs c.b.segs = true
  complete : ∀ e ∈ pre, ∀ e' ∈ pre, overlaps e e' = true → namedId s.out e.id

theorem inv_init : Inv [] {} := by
  constructor <;> simp

theorem overlaps_iff (a b : Entry) : overlaps a b = true ↔
    a.id ≠ b.id ∧ a.verb = b.verb ∧ patternsConflict a.segs b.segs = true := by
  simp [overlaps, and_assoc]

/-- the output of one iteration -/
def stepOut (s : State) (e : Entry) : List Conflict := addAll s.out e (attempts s.reg e)

theorem step_eq (s : State) (e : Entry) : step s e =
    match existing s.reg e with
    | some r => { reg := s.reg, out := addConflict (stepOut s e) e r dupReason }
    | none => { reg := s.reg ++ [e], out := stepOut s e } := rfl

theorem out_subset_step (s : State) (e : Entry) : ∀ c ∈ s.out, c ∈ (step s e).out := by
  intro c hc
  have h1 : c ∈ stepOut s e := subset_addAll _ _ _ c hc
  rw [step_eq]
  split
  · exact subset_addConflict _ _ _ _ c h1
  · exact h1

theorem stepOut_subset_step (s : State) (e : Entry) : ∀ c ∈ stepOut s e, c ∈ (step s e).out := by
  intro c h1
  rw [step_eq]
  split
  · exact subset_addConflict _ _ _ _ c h1
  · exact h1

/-- every conflict added in one iteration pairs the new entry with a registered, same-verb,
    overlapping entry -/
theorem mem_step_out {s : State} {e : Entry} {c : Conflict} (h : c ∈ (step s e).out) :
    c ∈ s.out ∨ ∃ r ∈ s.reg, r.verb = e.verb ∧ patternsConflict e.segs r.segs = true ∧
      (c.a = e ∧ c.b = r ∨ c.a = r ∧ c.b = e) := by
  have key : ∀ c, c ∈ stepOut s e → c ∈ s.out ∨ ∃ r ∈ s.reg, r.verb = e.verb ∧
      patternsConflict e.segs r.segs = true ∧ (c.a = e ∧ c.b = r ∨ c.a = r ∧ c.b = e) := by
    intro c hc
    rcases mem_addAll hc with h | ⟨p, hp, rfl⟩
    · exact Or.inl h
    · right
      obtain ⟨hr, hreason⟩ := mem_attempts.1 (show (p.1, p.2) ∈ attempts s.reg e from hp)
      obtain ⟨hv, hpc⟩ := attemptsFor_sound hreason
      refine ⟨p.1, hr, hv, hpc, ?_⟩
      rcases mkConflict_cases e p.1 p.2 with h | h <;> rw [h] <;> simp
  rw [step_eq] at h
  split at h
  · rename_i r hex
    rcases mem_addConflict h with h | rfl
    · exact key c h
    · right
      obtain ⟨hr, hv, ht⟩ := existing_some hex
      refine ⟨r, hr, hv, patternsConflict_of_tpath_eq _ _ ht.symm, ?_⟩
      rcases mkConflict_cases e r dupReason with h | h <;> rw [h] <;> simp
  · exact key c h

/-- the new entry and a registered, same-verb, overlapping entry are both named after the iteration -/
theorem step_names {s : State} {e r : Entry} (hr : r ∈ s.reg) (hv : r.verb = e.verb)
    (hc : patternsConflict e.segs r.segs = true)
    (huniq : ∀ r ∈ s.reg, ∀ r' ∈ s.reg, r.verb = r'.verb → r.tp = r'.tp → r = r') :
    namedId (step s e).out e.id ∧ namedId (step s e).out r.id := by
  by_cases ht : e.tp = r.tp
  · -- same trie node: the endpoint stored there is `r`; "duplicate method/path combination"
    obtain ⟨r', hex⟩ := existing_isSome_of hr hv ht.symm
    obtain ⟨hr', hv', ht'⟩ := existing_some hex
    have : r' = r := huniq r' hr' r hr (hv'.trans hv.symm) (ht'.trans ht)
    subst this
    rw [step_eq, hex]
    exact addConflict_names _ e r' dupReason
  · obtain ⟨reason, hreason⟩ := attemptsFor_complete hv hc ht
    have hmem : (r, reason) ∈ attempts s.reg e := mem_attempts.2 ⟨hr, hreason⟩
    have := addAll_names s.out e _ _ hmem
    exact ⟨namedId_mono (stepOut_subset_step s e) this.1, namedId_mono (stepOut_subset_step s e) this.2⟩

theorem reg_step (s : State) (e : Entry) :
    (step s e).reg = s.reg ∨ (existing s.reg e = none ∧ (step s e).reg = s.reg ++ [e]) := by
  rw [step_eq]
  cases h : existing s.reg e <;> simp

theorem inv_step {pre : List Entry} {s : State} (inv : Inv pre s) (e : Entry)
    (hid : e.id ∉ pre.map (·.id)) : Inv (pre ++ [e]) (step s e) := by
  have hne : ∀ x ∈ pre, x.id ≠ e.id := by
    intro x hx heq
    exact hid (List.mem_map.2 ⟨x, hx, heq⟩)
  constructor
  · -- nodup
    simp only [List.map_append, List.map_cons, List.map_nil]
    rw [List.nodup_append]
    refine ⟨inv.nodup, by simp, ?_⟩
    intro a ha b hb
    simp only [List.mem_singleton] at hb
    subst hb
    intro h; exact hid (h ▸ ha)
  · -- regSub
    intro r hr
    rcases reg_step s e with h | ⟨_, h⟩ <;> rw [h] at hr
    · exact List.mem_append_left _ (inv.regSub r hr)
    · rcases List.mem_append.1 hr with h' | h'
      · exact List.mem_append_left _ (inv.regSub r h')
      · exact List.mem_append_right _ h'
  · -- regCover
    intro x hx
    rcases List.mem_append.1 hx with hx | hx
    · obtain ⟨r, hr, h1, h2⟩ := inv.regCover x hx
      refine ⟨r, ?_, h1, h2⟩
      rcases reg_step s e with h | ⟨_, h⟩ <;> rw [h]
      · exact hr
      · exact List.mem_append_left _ hr
    · simp only [List.mem_singleton] at hx
      subst hx
      rw [step_eq]
      cases hex : existing s.reg x with
      | some r =>
        obtain ⟨hr, hv, ht⟩ := existing_some hex
        exact ⟨r, hr, hv, ht⟩
      | none => exact ⟨x, by simp, rfl, rfl⟩
  · -- regUniq
    intro r hr r' hr' hv ht
    rcases reg_step s e with h | ⟨hex, h⟩ <;> rw [h] at hr hr'
    · exact inv.regUniq r hr r' hr' hv ht
    · have hnone := existing_none hex
      rcases List.mem_append.1 hr with h1 | h1 <;> rcases List.mem_append.1 hr' with h2 | h2
      · exact inv.regUniq r h1 r' h2 hv ht
      · simp only [List.mem_singleton] at h2; subst h2
        exact absurd ⟨hv, ht⟩ (hnone r h1)
      · simp only [List.mem_singleton] at h1; subst h1
        exact absurd ⟨hv.symm, ht.symm⟩ (hnone r' h2)
      · simp only [List.mem_singleton] at h1 h2; rw [h1, h2]
  · -- sound
    intro c hc
    rcases mem_step_out hc with h | ⟨r, hr, hv, hpc, hab⟩
    · obtain ⟨h1, h2, h3⟩ := inv.sound c h
      exact ⟨List.mem_append_left _ h1, List.mem_append_left _ h2, h3⟩
    · have hrpre := inv.regSub r hr
      have hrid := hne r hrpre
      rcases hab with ⟨ha, hb⟩ | ⟨ha, hb⟩ <;> rw [ha, hb]
      · exact ⟨by simp, List.mem_append_left _ hrpre, fun h => hrid h.symm, hv.symm, hpc⟩
      · exact ⟨List.mem_append_left _ hrpre, by simp, hrid, hv, by rw [patternsConflict_comm]; exact hpc⟩
  · -- complete
    intro x hx y hy hov
    obtain ⟨hidne, hverb, hpc⟩ := (overlaps_iff x y).1 hov
    rcases List.mem_append.1 hx with hx' | hx' <;> rcases List.mem_append.1 hy with hy' | hy'
    · exact namedId_mono (out_subset_step s e) (inv.complete x hx' y hy' hov)
    · -- x processed earlier, y = e the new entry
      have hye : e = y := (List.mem_singleton.1 hy').symm
      subst hye
      obtain ⟨r, hr, hrv, hrt⟩ := inv.regCover x hx'
      by_cases hxr : x = r
      · subst hxr
        have hpc' : patternsConflict e.segs x.segs = true := by rw [patternsConflict_comm]; exact hpc
        exact (step_names hr hverb hpc' inv.regUniq).2
      · -- x is a duplicate of its registrant r: it was named when it was inserted
        have hrpre := inv.regSub r hr
        have hidr : x.id ≠ r.id := fun h => hxr (eq_of_id_eq inv.nodup hx' hrpre h)
        have hov' : overlaps x r = true :=
          (overlaps_iff x r).2 ⟨hidr, hrv.symm, patternsConflict_of_tpath_eq _ _ hrt.symm⟩
        exact namedId_mono (out_subset_step s e) (inv.complete x hx' r hrpre hov')
    · -- x = e the new entry, y processed earlier: e overlaps y's registrant too
      have hxe : e = x := (List.mem_singleton.1 hx').symm
      subst hxe
      obtain ⟨r, hr, hrv, hrt⟩ := inv.regCover y hy'
      have hpc' : patternsConflict e.segs r.segs = true :=
        patternsConflict_transfer e.segs y.segs r.segs hrt.symm hpc
      exact (step_names hr (hrv.trans hverb.symm) hpc' inv.regUniq).1
    · simp only [List.mem_singleton] at hx' hy'
      rw [hx', hy'] at hidne
      exact absurd rfl hidne

/-- the invariant holds after any number of iterations (induction over the list of routes) -/
theorem inv_foldl (l pre : List Entry) (s : State) (inv : Inv pre s)
    (hnd : ((pre ++ l).map (·.id)).Nodup) : Inv (pre ++ l) (l.foldl step s) := by
  induction l generalizing pre s with
  | nil => simpa using inv
  | cons e l ih =>
    have hid : e.id ∉ pre.map (·.id) := by
      simp only [List.map_append, List.map_cons] at hnd
      have := (List.nodup_append.1 hnd).2.2
      intro h
      exact this _ h _ (by simp) rfl
    have h1 := inv_step inv e hid
    have : pre ++ e :: l = (pre ++ [e]) ++ l := by simp
    rw [this] at hnd ⊢
    exact ih (pre ++ [e]) (step s e) h1 hnd

end Gleece.Paths
