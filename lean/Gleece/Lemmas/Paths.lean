/-
  Helper lemmas for C15 (route-conflict detection).  Property theorems live in
  `Gleece/Properties/C15.lean`.
-/
import Gleece.Model.Paths
namespace Gleece.Paths
open Gleece.Text

/-! ### patternsConflict -/

theorem patternsConflict_comm (a b : List Str) : patternsConflict a b = patternsConflict b a := by
  induction a generalizing b with
  | nil => cases b <;> simp [patternsConflict]
  | cons x xs ih =>
    cases b with
    | nil => simp [patternsConflict]
    | cons y ys =>
      simp only [patternsConflict, ih ys]
      congr 1
      by_cases h : x = y
      · subst h; simp
      · have h' : ¬ y = x := fun e => h e.symm
        simp [h, h', Bool.or_comm]

theorem toT_eq_iff (x y : Str) : toT x = toT y ↔
    (isParamSegment x = true ∧ isParamSegment y = true) ∨ (isParamSegment x = false ∧ isParamSegment y = false ∧ x = y) := by
  unfold toT
  by_cases hx : isParamSegment x = true <;> by_cases hy : isParamSegment y = true <;> simp [hx, hy]

/-- equal trie paths overlap (the "duplicate method/path combination" report is sound) -/
theorem patternsConflict_of_tpath_eq (a b : List Str) (h : tpath a = tpath b) : patternsConflict a b = true := by
  induction a generalizing b with
  | nil => cases b <;> simp_all [tpath, patternsConflict]
  | cons x xs ih =>
    cases b with
    | nil => simp [tpath] at h
    | cons y ys =>
      simp only [tpath, List.map_cons, List.cons.injEq] at h
      simp only [patternsConflict, Bool.and_eq_true, Bool.or_eq_true, decide_eq_true_eq]
      refine ⟨?_, ih ys h.2⟩
      rcases (toT_eq_iff x y).1 h.1 with ⟨hx, _⟩ | ⟨_, _, hxy⟩
      · exact Or.inl (Or.inr hx)
      · exact Or.inl (Or.inl hxy)

/-- overlap only depends on the other side's trie path -/
theorem patternsConflict_transfer (j a b : List Str) (h : tpath a = tpath b)
    (hc : patternsConflict j a = true) : patternsConflict j b = true := by
  induction j generalizing a b with
  | nil =>
    cases a with
    | nil => cases b <;> simp_all [tpath, patternsConflict]
    | cons => simp [patternsConflict] at hc
  | cons z zs ih =>
    cases a with
    | nil => simp [patternsConflict] at hc
    | cons x xs =>
      cases b with
      | nil => simp [tpath] at h
      | cons y ys =>
        simp only [tpath, List.map_cons, List.cons.injEq] at h
        simp only [patternsConflict, Bool.and_eq_true, Bool.or_eq_true, decide_eq_true_eq] at hc ⊢
        refine ⟨?_, ih xs ys h.2 hc.2⟩
        rcases (toT_eq_iff x y).1 h.1 with ⟨hx, hy⟩ | ⟨hx, hy, hxy⟩
        · exact Or.inr hy
        · subst hxy; exact hc.1

/-! ### the walk -/

/-- if the two templates overlap but address different trie nodes, the walk reports the pair -/
theorem walk_ne_nil (e r : Entry) (ss ts : List Str)
    (hc : patternsConflict ss ts = true) (hne : tpath ss ≠ tpath ts) : walk e r ss ts ≠ [] := by
  induction ss generalizing ts with
  | nil =>
    cases ts with
    | nil => simp [tpath] at hne
    | cons => simp [patternsConflict] at hc
  | cons s ss ih =>
    cases ts with
    | nil => simp [patternsConflict] at hc
    | cons t ts =>
      simp only [patternsConflict, Bool.and_eq_true, Bool.or_eq_true, decide_eq_true_eq] at hc
      unfold walk
      by_cases hs : isParamSegment s = true
      · by_cases ht : isParamSegment t = true <;> simp [hs, ht]
      · by_cases ht : isParamSegment t = true
        · simp [hs, ht]
        · have hst : s = t := by
            rcases hc.1 with (h | h) | h
            · exact h
            · exact absurd h hs
            · exact absurd h ht
          subst hst
          simp only [hs, ht, Bool.false_eq_true, if_false, if_true]
          apply ih ts hc.2
          intro heq
          apply hne
          simp [tpath] at heq ⊢
          exact heq

theorem mem_attempts {reg : List Entry} {e r : Entry} {reason : String} :
    (r, reason) ∈ attempts reg e ↔ r ∈ reg ∧ reason ∈ attemptsFor e r := by
  simp only [attempts, List.mem_flatMap, List.mem_map, Prod.mk.injEq]
  constructor
  · rintro ⟨r', hr', reason', hreason', rfl, rfl⟩; exact ⟨hr', hreason'⟩
  · rintro ⟨h1, h2⟩; exact ⟨r, h1, reason, h2, rfl, rfl⟩

theorem attemptsFor_sound {e r : Entry} {reason : String} (h : reason ∈ attemptsFor e r) :
    r.verb = e.verb ∧ patternsConflict e.segs r.segs = true := by
  unfold attemptsFor at h
  split at h
  · rename_i hc; simpa using hc
  · simp at h

theorem attemptsFor_complete {e r : Entry} (hv : r.verb = e.verb)
    (hc : patternsConflict e.segs r.segs = true) (hne : e.tp ≠ r.tp) : ∃ reason, reason ∈ attemptsFor e r := by
  have := walk_ne_nil e r e.segs r.segs hc hne
  unfold attemptsFor
  simp only [hv, hc, decide_true, Bool.and_self, if_true]
  cases hw : walk e r e.segs r.segs with
  | nil => exact absurd hw this
  | cons x xs => exact ⟨x, by simp⟩

/-! ### addConflict -/

/-- some reported conflict names the entry with identity `i` -/
def namedId (out : List Conflict) (i : Nat) : Prop := ∃ c ∈ out, c.a.id = i ∨ c.b.id = i

theorem mkConflict_cases (a b : Entry) (reason : String) :
    mkConflict a b reason = ⟨a, b, reason⟩ ∨ mkConflict a b reason = ⟨b, a, reason⟩ := by
  unfold mkConflict; split <;> simp

theorem subset_addConflict (out : List Conflict) (a b : Entry) (reason : String) :
    ∀ c ∈ out, c ∈ addConflict out a b reason := by
  intro c hc
  unfold addConflict
  simp only
  split
  · exact hc
  · exact List.mem_append_left _ hc

theorem mem_addConflict {out : List Conflict} {a b : Entry} {reason : String} {c : Conflict}
    (h : c ∈ addConflict out a b reason) : c ∈ out ∨ c = mkConflict a b reason := by
  unfold addConflict at h
  simp only at h
  split at h
  · exact Or.inl h
  · simpa using h

theorem namedId_mono {out out' : List Conflict} (h : ∀ c ∈ out, c ∈ out') {i : Nat} (hn : namedId out i) :
    namedId out' i := by
  obtain ⟨c, hc, hi⟩ := hn
  exact ⟨c, h c hc, hi⟩

/-- after `addConflict out a b reason` both `a` and `b` are named (either by the new conflict or by the
    earlier one with the same identity key) -/
theorem addConflict_names (out : List Conflict) (a b : Entry) (reason : String) :
    namedId (addConflict out a b reason) a.id ∧ namedId (addConflict out a b reason) b.id := by
  unfold addConflict
  simp only
  split
  · rename_i hany
    obtain ⟨d, hd, hk⟩ := List.any_eq_true.1 hany
    simp only [sameKey, Bool.and_eq_true, decide_eq_true_eq] at hk
    rcases mkConflict_cases a b reason with h | h <;> rw [h] at hk <;> simp only at hk
    · exact ⟨⟨d, hd, Or.inl hk.1.1.symm⟩, ⟨d, hd, Or.inr hk.1.2.symm⟩⟩
    · exact ⟨⟨d, hd, Or.inr hk.1.2.symm⟩, ⟨d, hd, Or.inl hk.1.1.symm⟩⟩
  · rcases mkConflict_cases a b reason with h | h <;> rw [h]
    · exact ⟨⟨_, List.mem_append_right _ (List.mem_singleton.2 rfl), Or.inl rfl⟩,
             ⟨_, List.mem_append_right _ (List.mem_singleton.2 rfl), Or.inr rfl⟩⟩
    · exact ⟨⟨_, List.mem_append_right _ (List.mem_singleton.2 rfl), Or.inr rfl⟩,
             ⟨_, List.mem_append_right _ (List.mem_singleton.2 rfl), Or.inl rfl⟩⟩

/-- folding `addConflict` over a list of attempts -/
def addAll (out : List Conflict) (e : Entry) (l : List (Entry × String)) : List Conflict :=
  l.foldl (fun o (p : Entry × String) => addConflict o e p.1 p.2) out

theorem subset_addAll (out : List Conflict) (e : Entry) (l : List (Entry × String)) :
    ∀ c ∈ out, c ∈ addAll out e l := by
  induction l generalizing out with
  | nil => intro c hc; exact hc
  | cons p l ih =>
    intro c hc
    exact ih _ c (subset_addConflict out e p.1 p.2 c hc)

theorem mem_addAll {out : List Conflict} {e : Entry} {l : List (Entry × String)} {c : Conflict}
    (h : c ∈ addAll out e l) : c ∈ out ∨ ∃ p ∈ l, c = mkConflict e p.1 p.2 := by
  induction l generalizing out with
  | nil => exact Or.inl h
  | cons p l ih =>
    rcases ih (out := addConflict out e p.1 p.2) h with h1 | ⟨q, hq, hc⟩
    · rcases mem_addConflict h1 with h2 | h2
      · exact Or.inl h2
      · exact Or.inr ⟨p, by simp, h2⟩
    · exact Or.inr ⟨q, by simp [hq], hc⟩

theorem addAll_names (out : List Conflict) (e : Entry) (l : List (Entry × String)) (p : Entry × String)
    (hp : p ∈ l) : namedId (addAll out e l) e.id ∧ namedId (addAll out e l) p.1.id := by
  induction l generalizing out with
  | nil => simp at hp
  | cons q l ih =>
    rcases List.mem_cons.1 hp with rfl | h
    · have := addConflict_names out e p.1 p.2
      exact ⟨namedId_mono (subset_addAll _ e l) this.1, namedId_mono (subset_addAll _ e l) this.2⟩
    · exact ih _ h

/-! ### existing -/

theorem existing_some {reg : List Entry} {e r : Entry} (h : existing reg e = some r) :
    r ∈ reg ∧ r.verb = e.verb ∧ r.tp = e.tp := by
  unfold existing at h
  have h1 := List.mem_of_find?_eq_some h
  have h2 := List.find?_some h
  simp only [Bool.and_eq_true, decide_eq_true_eq] at h2
  exact ⟨h1, h2.1, h2.2⟩

theorem existing_none {reg : List Entry} {e : Entry} (h : existing reg e = none) :
    ∀ r ∈ reg, ¬ (r.verb = e.verb ∧ r.tp = e.tp) := by
  unfold existing at h
  intro r hr
  have := List.find?_eq_none.1 h r hr
  simpa using this

theorem existing_isSome_of {reg : List Entry} {e r : Entry} (hr : r ∈ reg) (hv : r.verb = e.verb)
    (ht : r.tp = e.tp) : ∃ r', existing reg e = some r' := by
  cases h : existing reg e with
  | some r' => exact ⟨r', rfl⟩
  | none => exact absurd ⟨hv, ht⟩ (existing_none h r hr)

/-! ### identities -/

theorem eq_of_id_eq {l : List Entry} (hnd : (l.map (·.id)).Nodup) {a b : Entry} (ha : a ∈ l) (hb : b ∈ l)
    (h : a.id = b.id) : a = b := by
  induction l with
  | nil => simp at ha
  | cons x xs ih =>
    simp only [List.map_cons, List.nodup_cons, List.mem_map, not_exists, not_and] at hnd
    rcases List.mem_cons.1 ha with rfl | ha' <;> rcases List.mem_cons.1 hb with rfl | hb'
    · rfl
    · exact absurd h.symm (hnd.1 b hb')
    · exact absurd h (hnd.1 a ha')
    · exact ih hnd.2 ha' hb'

end Gleece.Paths
