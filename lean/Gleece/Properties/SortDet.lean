/-
  C13 — sorting by a lexicographic comparator makes the order a function of the SET of elements.
  The statements are about ANY sorted permutation, so they hold whichever algorithm `slices.SortFunc` runs.
-/
import Gleece.Model.Sort
import Gleece.Generated.Comparators
namespace Gleece.Sort

section
variable {α K : Type} (kle : K → K → Bool)

theorem lexLe_total (total : ∀ x y : K, kle x y || kle y x) (keys : List (α → K)) (a b : α) :
    lexLe kle keys a b || lexLe kle keys b a := by
  induction keys with
  | nil => simp [lexLe]
  | cons k ks ih =>
    unfold lexLe
    have ht := total (k a) (k b)
    cases h1 : kle (k a) (k b) <;> cases h2 : kle (k b) (k a) <;> simp_all

theorem lexLe_trans (trans : ∀ x y z : K, kle x y → kle y z → kle x z) (keys : List (α → K)) (a b c : α)
    (hab : lexLe kle keys a b = true) (hbc : lexLe kle keys b c = true) : lexLe kle keys a c = true := by
  induction keys with
  | nil => simp [lexLe]
  | cons k ks ih =>
    unfold lexLe at hab hbc ⊢
    have h1 : kle (k a) (k b) = true := by
      cases h : kle (k a) (k b) with
      | true => rfl
      | false => simp [h] at hab
    have h3 : kle (k b) (k c) = true := by
      cases h : kle (k b) (k c) with
      | true => rfl
      | false => simp [h] at hbc
    have hac := trans _ _ _ h1 h3
    cases hca : kle (k c) (k a) with
    | false => simp [hac]
    | true =>
      have h4 : kle (k c) (k b) = true := trans _ _ _ hca h1
      have h2 : kle (k b) (k a) = true := trans _ _ _ h3 hca
      simp only [h1, h2, h3, h4, Bool.and_true, if_true] at hab hbc
      simp only [hac, Bool.and_true, if_true]
      exact ih hab hbc

/-- two elements that sort no later than each other agree on every key the comparator looks at -/
theorem lexLe_both_keys_eq (antisymm : ∀ x y : K, kle x y → kle y x → x = y) (keys : List (α → K)) (a b : α)
    (hab : lexLe kle keys a b = true) (hba : lexLe kle keys b a = true) : ∀ k ∈ keys, k a = k b := by
  induction keys with
  | nil => simp
  | cons k ks ih =>
    unfold lexLe at hab hba
    cases h1 : kle (k a) (k b) <;> cases h2 : kle (k b) (k a) <;>
      simp only [h1, h2, Bool.and_true, Bool.and_false, Bool.true_and, Bool.false_and, if_true, if_false, Bool.false_eq_true] at hab hba <;>
      first
      | (cases hab; done)
      | (cases hba; done)
      | skip
    intro k' hk'
    rcases List.mem_cons.1 hk' with rfl | hk''
    · exact antisymm _ _ h1 h2
    · exact ih hab hba k' hk''

/-- **Any two sorted arrangements of the same elements are the same list**, provided the keys the comparator looks at
    tell the elements apart.  `s` and `s'` stand for what two runs of ANY correct sorting algorithm return on two
    enumerations `l`, `l'` of the same elements. -/
theorem sorted_canonical (antisymm : ∀ x y : K, kle x y → kle y x → x = y) (keys : List (α → K))
    (l l' s s' : List α) (hl : l.Perm l') (hs : s.Perm l) (hs' : s'.Perm l')
    (hsorted : s.Pairwise (fun a b => lexLe kle keys a b = true)) (hsorted' : s'.Pairwise (fun a b => lexLe kle keys a b = true))
    (hinj : ∀ a ∈ l, ∀ b ∈ l, (∀ k ∈ keys, k a = k b) → a = b) : s = s' := by
  have hperm : s.Perm s' := hs.trans (hl.trans hs'.symm)
  refine List.Perm.eq_of_pairwise (le := fun a b => lexLe kle keys a b = true) ?_ hsorted hsorted' hperm
  intro a b ha hb hab hba
  have ha' : a ∈ l := hs.subset ha
  have hb' : b ∈ l := (hl.symm.subset (hs'.subset hb))
  exact hinj a ha' b hb' (lexLe_both_keys_eq kle antisymm keys a b hab hba)

/-- the same for `List.mergeSort` (a concrete correct algorithm): its result is a function of the set of elements -/
theorem mergeSort_canonical (total : ∀ x y : K, kle x y || kle y x) (trans : ∀ x y z : K, kle x y → kle y z → kle x z)
    (antisymm : ∀ x y : K, kle x y → kle y x → x = y) (keys : List (α → K)) (l l' : List α) (hl : l.Perm l')
    (hinj : ∀ a ∈ l, ∀ b ∈ l, (∀ k ∈ keys, k a = k b) → a = b) :
    l.mergeSort (lexLe kle keys) = l'.mergeSort (lexLe kle keys) :=
  sorted_canonical kle antisymm keys l l' _ _ hl (List.mergeSort_perm l _) (List.mergeSort_perm l' _)
    (List.pairwise_mergeSort (fun a b c => lexLe_trans kle trans keys a b c) (fun a b => lexLe_total kle total keys a b) l)
    (List.pairwise_mergeSort (fun a b c => lexLe_trans kle trans keys a b c) (fun a b => lexLe_total kle total keys a b) l')
    hinj
end

/-! ### the call sites (regenerated from the source on every run) -/

/-- every `slices.SortFunc` / `SortStableFunc` comparator of the non-test sources is a lexicographic comparison of
    keys - each `Compare(x, y)` hands over THE SAME key of the two DIFFERENT elements - except the hand-written
    three-level comparator of `paths.inPlaceSortConflicts` (relational operators; a stable sort of diagnostics) -/
theorem comparators_well_shaped :
    (Gleece.Generated.comparators.all fun row =>
      wellShaped row || row.1 == "core/validators/paths/paths.go:inPlaceSortConflicts#0") = true := by decide +kernel

/-- the order in which controllers are validated and reduced (and import serials handed out) is fixed by the package
    path and then the name: a key that tells any two controllers of a Go program apart -/
theorem controllers_sorted_by_package_and_name :
    (Gleece.Generated.comparators.find? (·.1 == "core/pipeline/pipeline.go:getControllers#0")).map keyPaths
      = some ["Struct.PkgPath", "Struct.Name"] := by decide +kernel

/-- structs and enums of the models section are ordered by their bare NAME only: two declarations with one name in two
    packages are not told apart by it (their relative order is whatever the graph hands out: finding C07-F4) -/
theorem models_sorted_by_name_only :
    ((Gleece.Generated.comparators.filter (fun r => r.1.startsWith "core/pipeline/pipeline.go:getModels#")).map keyPaths)
      = [["Name"], ["Name"]] := by decide +kernel

/-- non-vacuity of `sorted_canonical`'s hypotheses: numbers under `≤` with the identity key -/
example : [3, 1, 2].mergeSort (lexLe (fun x y : Nat => decide (x ≤ y)) [fun n => n]) =
          [2, 3, 1].mergeSort (lexLe (fun x y : Nat => decide (x ≤ y)) [fun n => n]) :=
  mergeSort_canonical _ (by intro x y; simp; omega) (by intro x y z; simp; omega) (by intro x y; simp; omega) _ _ _
    (by decide) (by intro a _ b _ h; exact h (fun n => n) (by simp))

end Gleece.Sort
