/-
  C10 - the converse for the annotation-level validator: annotations that satisfy the documented rules are never
  reported with an ERROR by `commonValidate` (warnings - wrong context, stray or mistyped properties, a repeated
  single-use annotation, an unlisted status code - do not reject a project).  Together with `receiver_accepts`
  (`C10Complete.lean`) this removes the last hypothesis that mentions a validator of the model itself:
  `well_formed_route_accepted`.
-/
import Gleece.Properties.C10Complete
import Gleece.Lemmas.Common
namespace Gleece.Validate

/-- the rules, stated over the list as a whole (no running counters) -/
structure AnnotsWellFormed (as : List Annot) : Prop where
  /-- every annotation is one of the table -/
  known : ∀ a ∈ as, (lookupDef a.name).isSome = true
  /-- an annotation the table wants a value for has one -/
  valued : ∀ a ∈ as, ∀ d, lookupDef a.name = some d → d.requiresValue = true → a.value.isEmpty = false
  /-- no annotation that another one excludes is present (the table is symmetric: @Body / @FormField) -/
  exclusive : ∀ a ∈ as, ∀ d, lookupDef a.name = some d → ∀ x ∈ d.mutuallyExclusive, ∀ b ∈ as, b.name ≠ x
  /-- an annotation with a unique value does not repeat the value of an EARLIER annotation (of any kind) -/
  unique : ∀ pre a post, as = pre ++ a :: post → requiresUnique a = true → a.value.isEmpty = false → ∀ b ∈ pre, b.value ≠ a.value
  /-- @Method names a verb the routers support -/
  verb : ∀ a ∈ as, a.name = "Method" → Gleece.Generated.routeSupportedHttpVerbs.contains a.value = true
  /-- @Response / @ErrorResponse carry a 32-bit decimal number (an unlisted code is a warning only) -/
  status : ∀ a ∈ as, a.name = "Response" ∨ a.name = "ErrorResponse" → ∃ n, Gleece.Text.parseUint a.value = some n ∧ n < 4294967296

theorem hasError_nil : hasError [] = false := rfl
theorem hasError_warn (c : String) : hasError [warn c] = false := rfl

theorem commonValidate_go_complete (source : String) (as pre rest : List Annot) (hsplit : as = pre ++ rest)
    (wf : AnnotsWellFormed as) (counts : List (String × Nat)) (uniq : List String)
    (hc : ∀ p ∈ counts, ∃ b ∈ as, b.name = p.1) (hu : ∀ v ∈ uniq, ∃ b ∈ pre, b.value = v) :
    hasError (commonValidate.go source rest counts uniq) = false := by
  induction rest generalizing pre counts uniq with
  | nil => unfold commonValidate.go; rfl
  | cons a rest ih =>
    have ha : a ∈ as := by rw [hsplit]; simp
    unfold commonValidate.go
    simp only
    have hk := wf.known a ha
    cases hd : lookupDef a.name with
    | none => rw [hd] at hk; cases hk
    | some d =>
      simp only
      have hc' : ∀ p ∈ counts.filter (·.1 ≠ a.name) ++ [(a.name, ((counts.find? (·.1 = a.name)).map (·.2)).getD 0 + 1)],
          ∃ b ∈ as, b.name = p.1 := by
        intro p hp
        rcases List.mem_append.1 hp with h | h
        · exact hc p (List.mem_filter.1 h).1
        · simp only [List.mem_singleton] at h; subst h; exact ⟨a, ha, rfl⟩
      have hrest := ih (pre ++ [a]) (by rw [hsplit]; simp) _ (uniq ++ [a.value]) hc' (by
        intro v hv
        rcases List.mem_append.1 hv with h | h
        · obtain ⟨b, hb, hbv⟩ := hu v h; exact ⟨b, List.mem_append_left _ hb, hbv⟩
        · simp only [List.mem_singleton] at h; subst h; exact ⟨a, by simp, rfl⟩)
      rw [hasError_append, hrest, Bool.or_false]
      simp only [hasError_append, Bool.or_eq_false_iff]
      refine ⟨⟨⟨⟨⟨⟨?_, ?_⟩, ?_⟩, ?_⟩, ?_⟩, ?_⟩, ?_⟩
      · split <;> rfl
      · cases hrv : d.requiresValue with
        | false => rfl
        | true => rw [wf.valued a ha d hd hrv]; rfl
      · split
        · rfl
        · split
          · rfl
          · split
            · rename_i w hw
              obtain ⟨x, _, hx⟩ := List.exists_of_findSome?_eq_some hw
              obtain ⟨k, kind, v⟩ := x
              simp only at hx
              split at hx
              · simp only [Option.some.injEq] at hx; subst hx; rfl
              · split at hx
                · cases hx
                · simp only [Option.some.injEq] at hx; subst hx; rfl
            · rfl
      · split <;> rfl
      · have : (d.mutuallyExclusive.any fun x =>
            ((((counts.filter (·.1 ≠ a.name) ++ [(a.name, ((counts.find? (·.1 = a.name)).map (·.2)).getD 0 + 1)]).find? (·.1 = x)).map (·.2)).getD 0 > 0)) = false := by
          rw [List.any_eq_false]
          intro x hx
          cases hf : (counts.filter (·.1 ≠ a.name) ++ [(a.name, ((counts.find? (·.1 = a.name)).map (·.2)).getD 0 + 1)]).find? (·.1 = x) with
          | none => simp
          | some p =>
            exfalso
            have hm := List.mem_of_find?_eq_some hf
            have hp := List.find?_some hf
            obtain ⟨b, hb, hbn⟩ := hc' p hm
            simp only [decide_eq_true_eq] at hp
            exact wf.exclusive a ha d hd x hx b hb (by rw [hbn, hp])
        rw [this]; rfl
      · cases hr : d.requiresUniqueValue with
        | false => rfl
        | true =>
          cases hv : a.value.isEmpty with
          | true => rfl
          | false =>
            have : uniq.contains a.value = false := by
              cases hcn : uniq.contains a.value with
              | false => rfl
              | true =>
                exfalso
                obtain ⟨b, hb, hbv⟩ := hu a.value (List.contains_iff_mem.1 hcn)
                exact wf.unique pre a rest hsplit (by unfold requiresUnique; rw [hd]; exact hr) hv b hb hbv
            rw [this]; rfl
      · split
        · rename_i hm
          rw [wf.verb a ha hm]; rfl
        · split
          · rename_i hs
            obtain ⟨n, hn, hlt⟩ := wf.status a ha (by simpa using hs)
            rw [hn]
            simp only [hlt, if_true]
            split <;> rfl
          · rfl

/-- **well-formed annotations are never reported with an error** -/
theorem commonValidate_complete (source : String) (as : List Annot) (wf : AnnotsWellFormed as) :
    hasError (commonValidate source as) = false := by
  unfold commonValidate
  exact commonValidate_go_complete source as [] as rfl wf [] [] (by simp) (by simp)

/-- **A route that satisfies the documented rules is accepted** - no hypothesis mentions a validator of the model. -/
theorem well_formed_route_accepted (env : TypeEnv) (emb : List String) (enforce hasDefault : Bool) (ctrlAnnots : List Annot) (m : Method)
    (hread : (enforce && (securityUnreadable ctrlAnnots || securityUnreadable m.annots)) = false)
    (wf : AnnotsWellFormed m.annots)
    (hexp : isExportedName m.name = true)
    (hnoerr : ∀ p ∈ m.params, isContextType p.type = false → ∀ e, passedInOf m.annots p.name ≠ some (.error e))
    (htype : ∀ p ∈ m.params, isContextType p.type = false → ∀ loc, passedInOf m.annots p.name = some (.ok loc) → typeOk env p loc = true)
    (hcombo : comboOk (locsOf m m.params) = true)
    (hret : (∃ e, m.results = [e] ∧ isErrorType e = true) ∨ (∃ t e, m.results = [t, e] ∧ isErrorType e = true))
    (hsec : enforce = false ∨ securityOf m.annots > 0 ∨ securityOf ctrlAnnots > 0 ∨ hasDefault = true)
    (hlink : WellLinked (((ctrlAnnots.find? (·.name = "Route")).map (·.value)).getD "") m) :
    ∃ ds, validateReceiver env emb enforce hasDefault ctrlAnnots m = some ds ∧ hasError ds = false :=
  receiver_accepts env emb enforce hasDefault ctrlAnnots m hread (commonValidate_complete "route" m.annots wf) hexp hnoerr htype hcombo hret hsec hlink

/-! ### a decidable form (what the driver evaluates on every generated route, and the non-vacuity witness) -/

theorem uniqueB_sound (as : List Annot) (seen : List String) (h : uniqueB as seen = true) :
    ∀ pre a post, as = pre ++ a :: post → requiresUnique a = true → a.value.isEmpty = false →
      a.value ∉ seen ∧ ∀ b ∈ pre, b.value ≠ a.value := by
  induction as generalizing seen with
  | nil => intro pre a post hs; cases pre <;> simp at hs
  | cons x rest ih =>
    unfold uniqueB at h
    rw [Bool.and_eq_true] at h
    obtain ⟨hx, hrest⟩ := h
    intro pre a post hs hreq hne
    cases pre with
    | nil =>
      simp only [List.nil_append, List.cons.injEq] at hs
      obtain ⟨rfl, _⟩ := hs
      refine ⟨?_, by simp⟩
      rw [hreq, hne] at hx
      intro hm
      rw [List.contains_iff_mem.2 hm] at hx
      cases hx
    | cons b pre' =>
      simp only [List.cons_append, List.cons.injEq] at hs
      obtain ⟨rfl, hs'⟩ := hs
      obtain ⟨hns, hpre⟩ := ih (seen ++ [x.value]) hrest pre' a post hs' hreq hne
      refine ⟨fun hm => hns (List.mem_append_left _ hm), ?_⟩
      intro c hc
      rcases List.mem_cons.1 hc with rfl | hc'
      · intro heq; exact hns (by simp [heq])
      · exact hpre c hc'

theorem annotsWellFormedB_sound (as : List Annot) (h : annotsWellFormedB as = true) : AnnotsWellFormed as := by
  unfold annotsWellFormedB at h
  simp only [Bool.and_eq_true] at h
  obtain ⟨⟨⟨h1, h2⟩, h3⟩, h4⟩ := h
  rw [List.all_eq_true] at h1 h3 h4
  refine ⟨?_, ?_, ?_, ?_, ?_, ?_⟩
  · intro a ha
    have := h1 a ha
    cases hd : lookupDef a.name with
    | none => rw [hd] at this; cases this
    | some d => rfl
  · intro a ha d hd hrv
    have := h1 a ha
    rw [hd] at this
    simp only [Bool.and_eq_true, hrv, Bool.not_true, Bool.false_or, Bool.not_eq_true'] at this
    exact this.1
  · intro a ha d hd x hx b hb
    have := h1 a ha
    rw [hd] at this
    simp only [Bool.and_eq_true, List.all_eq_true] at this
    have := this.2 x hx b hb
    simpa using this
  · intro pre a post hs hreq hne
    exact (uniqueB_sound as [] h2 pre a post hs hreq hne).2
  · intro a ha hm
    have := h3 a ha
    simpa [hm] using this
  · intro a ha hs
    have := h4 a ha
    have hs' : (decide (a.name = "Response") || decide (a.name = "ErrorResponse")) = true := by simpa using hs
    rw [hs'] at this
    simp only [Bool.not_true, Bool.false_or] at this
    cases hn : Gleece.Text.parseUint a.value with
    | none => rw [hn] at this; cases this
    | some n => rw [hn] at this; exact ⟨n, rfl, by simpa using this⟩

/-- non-vacuity: `@Method(GET) @Route(/a/{id}) @Path(id) @Response(200)` satisfies the rules … -/
example : AnnotsWellFormed [⟨"Method", "GET", [], ""⟩, ⟨"Route", "/a/{id}", [], ""⟩, ⟨"Path", "id", [], ""⟩, ⟨"Response", "200", [], ""⟩] :=
  annotsWellFormedB_sound _ (by decide +kernel)
/-- … and a second `@Path(id)` or a `@Body` next to a `@FormField` does not -/
example : annotsWellFormedB [⟨"Path", "id", [], ""⟩, ⟨"Query", "id", [], ""⟩] = false ∧
    annotsWellFormedB [⟨"Body", "b", [], ""⟩, ⟨"FormField", "f", [], ""⟩] = false := by decide +kernel

end Gleece.Validate

/-! ### … and exactly those: an error-free verdict establishes every rule (the converse of `commonValidate_complete`) -/
namespace Gleece.Validate

/-- the exclusion lists of the annotation table are symmetric (regenerated table: @Body / @FormField) -/
theorem exclusion_symmetric :
    ∀ r ∈ Gleece.Generated.annotTable, ∀ x ∈ r.2.2.2.2.2.2.1,
      ∃ r' ∈ Gleece.Generated.annotTable, r'.1 = x ∧ r.1 ∈ r'.2.2.2.2.2.2.1 := by decide +kernel

def countOf (counts : List (String × Nat)) (n : String) : Nat := ((counts.find? (·.1 = n)).map (·.2)).getD 0

theorem countOf_step_self (counts : List (String × Nat)) (n : String) (c : Nat) :
    countOf (counts.filter (·.1 ≠ n) ++ [(n, c)]) n = c := by
  unfold countOf
  have : (counts.filter (·.1 ≠ n)).find? (·.1 = n) = none := by
    rw [List.find?_eq_none]
    intro p hp
    have := (List.mem_filter.1 hp).2
    simpa using this
  rw [List.find?_append, this]
  simp

theorem countOf_step_other (counts : List (String × Nat)) (n m : String) (c : Nat) (h : m ≠ n) :
    countOf (counts.filter (·.1 ≠ n) ++ [(n, c)]) m = countOf counts m := by
  unfold countOf
  rw [List.find?_append]
  have h1 : (counts.filter (·.1 ≠ n)).find? (·.1 = m) = counts.find? (·.1 = m) := by
    induction counts with
    | nil => rfl
    | cons p t ih =>
      rw [List.filter_cons]
      by_cases hp : p.1 = n
      · have hpm : ¬ p.1 = m := fun e => h (e.symm.trans hp)
        have hd : (decide (p.1 ≠ n)) = false := by simp [hp]
        rw [hd]; simp only [Bool.false_eq_true, if_false]
        rw [List.find?_cons_of_neg (by simpa using hpm)]; exact ih
      · have hd : (decide (p.1 ≠ n)) = true := by simp [hp]
        rw [hd]; simp only [if_true]
        by_cases hm : p.1 = m
        · rw [List.find?_cons_of_pos (by simpa using hm), List.find?_cons_of_pos (by simpa using hm)]
        · rw [List.find?_cons_of_neg (by simpa using hm), List.find?_cons_of_neg (by simpa using hm)]; exact ih
  rw [h1]
  cases hf : counts.find? (·.1 = m) with
  | some p => simp
  | none =>
    have : ¬ (n = m) := fun e => h e.symm
    simp [List.find?, this]


theorem hasError_err (c : String) : hasError [err c] = true := rfl

/-- what an error-free run of the validator's loop establishes, given that every earlier annotation is counted and
    every earlier value is remembered -/
theorem commonValidate_go_sound (source : String) (pre rest : List Annot) (counts : List (String × Nat)) (uniq : List String)
    (hc : ∀ b ∈ pre, countOf counts b.name > 0) (hu : ∀ b ∈ pre, b.value ∈ uniq)
    (h : hasError (commonValidate.go source rest counts uniq) = false) :
    (∀ a ∈ rest, (lookupDef a.name).isSome = true) ∧
    (∀ a ∈ rest, ∀ d, lookupDef a.name = some d → d.requiresValue = true → a.value.isEmpty = false) ∧
    (∀ p a q, rest = p ++ a :: q → ∀ d, lookupDef a.name = some d → ∀ x ∈ d.mutuallyExclusive, ∀ b ∈ pre ++ p ++ [a], b.name ≠ x) ∧
    (∀ p a q, rest = p ++ a :: q → requiresUnique a = true → a.value.isEmpty = false → ∀ b ∈ pre ++ p, b.value ≠ a.value) ∧
    (∀ a ∈ rest, a.name = "Method" → Gleece.Generated.routeSupportedHttpVerbs.contains a.value = true) ∧
    (∀ a ∈ rest, a.name = "Response" ∨ a.name = "ErrorResponse" → ∃ n, Gleece.Text.parseUint a.value = some n ∧ n < 4294967296) := by
  induction rest generalizing pre counts uniq with
  | nil =>
    refine ⟨by simp, by simp, ?_, ?_, by simp, by simp⟩
    · intro p a q hs; cases p <;> simp at hs
    · intro p a q hs; cases p <;> simp at hs
  | cons a rest ih =>
    unfold commonValidate.go at h
    simp only at h
    cases hd : lookupDef a.name with
    | none => rw [hd] at h; simp [hasError, err] at h
    | some d =>
      rw [hd] at h
      simp only [hasError_append, Bool.or_eq_false_iff] at h
      obtain ⟨⟨⟨⟨⟨⟨⟨_, c2⟩, _⟩, _⟩, c5⟩, c6⟩, c7⟩, hrest⟩ := h
      -- the counters after this annotation
      have hself : countOf (counts.filter (·.1 ≠ a.name) ++ [(a.name, ((counts.find? (·.1 = a.name)).map (·.2)).getD 0 + 1)]) a.name > 0 := by
        rw [countOf_step_self]; omega
      have hc' : ∀ b ∈ pre ++ [a], countOf (counts.filter (·.1 ≠ a.name) ++ [(a.name, ((counts.find? (·.1 = a.name)).map (·.2)).getD 0 + 1)]) b.name > 0 := by
        intro b hb
        by_cases hn : b.name = a.name
        · rw [hn]; exact hself
        · rw [countOf_step_other _ _ _ _ hn]
          rcases List.mem_append.1 hb with hb | hb
          · exact hc b hb
          · simp only [List.mem_singleton] at hb; subst hb; exact absurd rfl hn
      have hu' : ∀ b ∈ pre ++ [a], b.value ∈ uniq ++ [a.value] := by
        intro b hb
        rcases List.mem_append.1 hb with hb | hb
        · exact List.mem_append_left _ (hu b hb)
        · simp only [List.mem_singleton] at hb; subst hb; simp
      obtain ⟨i1, i2, i3, i4, i5, i6⟩ := ih (pre ++ [a]) _ _ hc' hu' hrest
      -- the head's own facts
      have f2 : d.requiresValue = true → a.value.isEmpty = false := by
        intro hrv
        cases hv : a.value.isEmpty with
        | false => rfl
        | true => rw [hrv, hv] at c2; simp [hasError, err] at c2
      have f3 : ∀ x ∈ d.mutuallyExclusive, ∀ b ∈ pre ++ [a], b.name ≠ x := by
        intro x hx b hb hbx
        have hany : (d.mutuallyExclusive.any fun x =>
            decide (countOf (counts.filter (·.1 ≠ a.name) ++ [(a.name, ((counts.find? (·.1 = a.name)).map (·.2)).getD 0 + 1)]) x > 0)) = true := by
          rw [List.any_eq_true]
          exact ⟨x, hx, by rw [← hbx]; simpa using hc' b hb⟩
        unfold countOf at hany
        rw [hany] at c5
        simp [hasError, err] at c5
      have f4 : requiresUnique a = true → a.value.isEmpty = false → ∀ b ∈ pre, b.value ≠ a.value := by
        intro hreq hne b hb hbv
        have hr : d.requiresUniqueValue = true := by unfold requiresUnique at hreq; rw [hd] at hreq; exact hreq
        have : uniq.contains a.value = true := List.contains_iff_mem.2 (hbv ▸ hu b hb)
        rw [hr, hne, this] at c6
        simp [hasError, err] at c6
      have f5 : a.name = "Method" → Gleece.Generated.routeSupportedHttpVerbs.contains a.value = true := by
        intro hm
        rw [if_pos hm] at c7
        cases hcn : Gleece.Generated.routeSupportedHttpVerbs.contains a.value with
        | true => rfl
        | false =>
          rw [hcn] at c7
          simp only [Bool.false_eq_true, if_false] at c7
          split at c7 <;> simp [hasError, err] at c7
      have f6 : a.name = "Response" ∨ a.name = "ErrorResponse" → ∃ n, Gleece.Text.parseUint a.value = some n ∧ n < 4294967296 := by
        intro hs
        have hnm : ¬ a.name = "Method" := by rcases hs with e | e <;> rw [e] <;> decide
        rw [if_neg hnm, if_pos (by simpa using hs)] at c7
        cases hp : Gleece.Text.parseUint a.value with
        | none => rw [hp] at c7; simp [hasError, err] at c7
        | some n =>
          rw [hp] at c7
          simp only at c7
          by_cases hlt : n < 4294967296
          · exact ⟨n, rfl, hlt⟩
          · rw [if_neg hlt] at c7; simp [hasError, err] at c7
      refine ⟨?_, ?_, ?_, ?_, ?_, ?_⟩
      · intro b hb
        rcases List.mem_cons.1 hb with rfl | hb
        · rw [hd]; rfl
        · exact i1 b hb
      · intro b hb d' hd' hrv
        rcases List.mem_cons.1 hb with rfl | hb
        · rw [hd] at hd'; cases hd'; exact f2 hrv
        · exact i2 b hb d' hd' hrv
      · intro p b q hs d' hd' x hx c hcm
        cases p with
        | nil =>
          simp only [List.nil_append, List.cons.injEq] at hs
          obtain ⟨rfl, _⟩ := hs
          rw [hd] at hd'; cases hd'
          exact f3 x hx c (by simpa using hcm)
        | cons a' p' =>
          simp only [List.cons_append, List.cons.injEq] at hs
          obtain ⟨rfl, hs'⟩ := hs
          exact i3 p' b q hs' d' hd' x hx c (by simpa [List.append_assoc] using hcm)
      · intro p b q hs hreq hne c hcm
        cases p with
        | nil =>
          simp only [List.nil_append, List.cons.injEq] at hs
          obtain ⟨rfl, _⟩ := hs
          exact f4 hreq hne c (by simpa using hcm)
        | cons a' p' =>
          simp only [List.cons_append, List.cons.injEq] at hs
          obtain ⟨rfl, hs'⟩ := hs
          exact i4 p' b q hs' hreq hne c (by simpa [List.append_assoc] using hcm)
      · intro b hb hm
        rcases List.mem_cons.1 hb with rfl | hb
        · exact f5 hm
        · exact i5 b hb hm
      · intro b hb hs
        rcases List.mem_cons.1 hb with rfl | hb
        · exact f6 hs
        · exact i6 b hb hs


/-- symmetry, through `lookupDef` (the first row of a name is the one that counts) -/
theorem exclusion_symmetric_lookup :
    ∀ r ∈ Gleece.Generated.annotTable, ∀ x ∈ r.2.2.2.2.2.2.1,
      ((lookupDef x).map fun d => d.mutuallyExclusive.contains r.1) = some true := by decide +kernel

theorem lookupDef_row {n : String} {d : AnnotDef} (h : lookupDef n = some d) :
    ∃ r ∈ Gleece.Generated.annotTable, r.1 = n ∧ d.mutuallyExclusive = r.2.2.2.2.2.2.1 := by
  unfold lookupDef at h
  cases hf : Gleece.Generated.annotTable.find? (·.1 = n) with
  | none => rw [hf] at h; cases h
  | some r =>
    rw [hf] at h
    obtain ⟨n', ctx, rv, anyP, props, multi, excl, uq⟩ := r
    simp only [Option.map_some, Option.some.injEq] at h
    subst h
    exact ⟨_, List.mem_of_find?_eq_some hf, by simpa using List.find?_some hf, rfl⟩

/-- **an error-free verdict establishes every rule**: with `commonValidate_complete`, the annotation-level validator
    accepts EXACTLY the lists that satisfy `AnnotsWellFormed` -/
theorem commonValidate_sound (source : String) (as : List Annot) (h : hasError (commonValidate source as) = false) :
    AnnotsWellFormed as := by
  unfold commonValidate at h
  obtain ⟨s1, s2, s3, s4, s5, s6⟩ := commonValidate_go_sound source [] as [] [] (by simp) (by simp) h
  refine ⟨s1, s2, ?_, ?_, s5, s6⟩
  · intro a ha d hd x hx b hb hbx
    obtain ⟨pb, qb, hsb⟩ := List.append_of_mem hb
    by_cases hbefore : a ∈ pb ++ [b]
    · -- a is at or before b: by the symmetry of the table b excludes a's name
      obtain ⟨r, hr, hrn, hre⟩ := lookupDef_row hd
      have hsym := exclusion_symmetric_lookup r hr x (hre ▸ hx)
      cases hdb : lookupDef x with
      | none => rw [hdb] at hsym; cases hsym
      | some d' =>
        rw [hdb] at hsym
        simp only [Option.map_some, Option.some.injEq] at hsym
        have hmem : a.name ∈ d'.mutuallyExclusive := by rw [← hrn]; exact List.contains_iff_mem.1 hsym
        exact s3 pb b qb hsb d' (hbx ▸ hdb) a.name hmem a (by simpa using hbefore) rfl
    · -- a comes after b: take that occurrence of a
      have ha' : a ∈ pb ++ b :: qb := hsb ▸ ha
      have haq : a ∈ qb := by
        rcases List.mem_append.1 ha' with h1 | h1
        · exact absurd (List.mem_append_left _ h1) hbefore
        · rcases List.mem_cons.1 h1 with h2 | h2
          · exact absurd (by simp [h2]) hbefore
          · exact h2
      obtain ⟨p2, q2, hq⟩ := List.append_of_mem haq
      have hsplit : as = (pb ++ b :: p2) ++ a :: q2 := by rw [hsb, hq]; simp
      exact s3 (pb ++ b :: p2) a q2 hsplit d hd x hx b (by simp) hbx
  · intro pre a post hs hreq hne b hb
    exact s4 pre a post hs hreq hne b (by simpa using hb)


/-- **The annotation-level validator reports no error EXACTLY for the lists that satisfy the rules.** -/
theorem commonValidate_accepts_iff (source : String) (as : List Annot) :
    hasError (commonValidate source as) = false ↔ AnnotsWellFormed as :=
  ⟨commonValidate_sound source as, commonValidate_complete source as⟩

/-- … hence the decidable form and the validator agree on every list (what the driver used to only evaluate) -/
theorem annotsWellFormedB_of_no_error (source : String) (as : List Annot) (h : annotsWellFormedB as = true) :
    hasError (commonValidate source as) = false :=
  commonValidate_complete source as (annotsWellFormedB_sound as h)

/-- non-vacuity of the converse: a list the validator rejects for each rule -/
example : hasError (commonValidate "route" [⟨"Body", "b", [], ""⟩, ⟨"FormField", "f", [], ""⟩]) = true ∧
    hasError (commonValidate "route" [⟨"FormField", "f", [], ""⟩, ⟨"Body", "b", [], ""⟩]) = true ∧
    hasError (commonValidate "route" [⟨"Method", "OPTIONS", [], ""⟩]) = true ∧
    hasError (commonValidate "route" [⟨"Response", "2_00", [], ""⟩]) = true ∧
    hasError (commonValidate "route" [⟨"Query", "", [], ""⟩]) = true ∧
    hasError (commonValidate "route" [⟨"Nope", "x", [], ""⟩]) = true := by decide +kernel

end Gleece.Validate
