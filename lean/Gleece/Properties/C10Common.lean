/-
  C10 - the converse for the annotation-level validator: annotations that satisfy the documented rules are never
  reported with an ERROR by `commonValidate` (warnings - wrong context, stray or mistyped properties, a repeated
  single-use annotation, an unlisted status code - do not reject a project).  Together with `receiver_accepts`
  (`C10Complete.lean`) this removes the last hypothesis that mentions a validator of the model itself:
  `well_formed_route_accepted`.
-/
import Gleece.Properties.C10Complete
import Gleece.Lemmas.Common
namespace Gleece.Validate

/-- the rules, stated over the list as a whole (no running counters) -/
structure AnnotsWellFormed (as : List Annot) : Prop where
  /-- every annotation is one of the table -/
  known : ∀ a ∈ as, (lookupDef a.name).isSome = true
  /-- an annotation the table wants a value for has one -/
  valued : ∀ a ∈ as, ∀ d, lookupDef a.name = some d → d.requiresValue = true → a.value.isEmpty = false
  /-- no annotation that another one excludes is present (the table is symmetric: @Body / @FormField) -/
  exclusive : ∀ a ∈ as, ∀ d, lookupDef a.name = some d → ∀ x ∈ d.mutuallyExclusive, ∀ b ∈ as, b.name ≠ x
  /-- an annotation with a unique value does not repeat the value of an EARLIER annotation (of any kind) -/
  unique : ∀ pre a post, as = pre ++ a :: post → requiresUnique a = true → a.value.isEmpty = false → ∀ b ∈ pre, b.value ≠ a.value
  /-- @Method names a verb the routers support -/
  verb : ∀ a ∈ as, a.name = "Method" → Gleece.Generated.routeSupportedHttpVerbs.contains a.value = true
  /-- @Response / @ErrorResponse carry a 32-bit decimal number (an unlisted code is a warning only) -/
  status : ∀ a ∈ as, a.name = "Response" ∨ a.name = "ErrorResponse" → ∃ n, Gleece.Text.parseUint a.value = some n ∧ n < 4294967296

theorem hasError_nil : hasError [] = false := rfl
theorem hasError_warn (c : String) : hasError [warn c] = false := rfl

theorem commonValidate_go_complete (source : String) (as pre rest : List Annot) (hsplit : as = pre ++ rest)
    (wf : AnnotsWellFormed as) (counts : List (String × Nat)) (uniq : List String)
    (hc : ∀ p ∈ counts, ∃ b ∈ as, b.name = p.1) (hu : ∀ v ∈ uniq, ∃ b ∈ pre, b.value = v) :
    hasError (commonValidate.go source rest counts uniq) = false := by
  induction rest generalizing pre counts uniq with
  | nil => unfold commonValidate.go; rfl
  | cons a rest ih =>
    have ha : a ∈ as := by rw [hsplit]; simp
    unfold commonValidate.go
    simp only
    have hk := wf.known a ha
    cases hd : lookupDef a.name with
    | none => rw [hd] at hk; cases hk
    | some d =>
      simp only
      have hc' : ∀ p ∈ counts.filter (·.1 ≠ a.name) ++ [(a.name, ((counts.find? (·.1 = a.name)).map (·.2)).getD 0 + 1)],
          ∃ b ∈ as, b.name = p.1 := by
        intro p hp
        rcases List.mem_append.1 hp with h | h
        · exact hc p (List.mem_filter.1 h).1
        · simp only [List.mem_singleton] at h; subst h; exact ⟨a, ha, rfl⟩
      have hrest := ih (pre ++ [a]) (by rw [hsplit]; simp) _ (uniq ++ [a.value]) hc' (by
        intro v hv
        rcases List.mem_append.1 hv with h | h
        · obtain ⟨b, hb, hbv⟩ := hu v h; exact ⟨b, List.mem_append_left _ hb, hbv⟩
        · simp only [List.mem_singleton] at h; subst h; exact ⟨a, by simp, rfl⟩)
      rw [hasError_append, hrest, Bool.or_false]
      simp only [hasError_append, Bool.or_eq_false_iff]
      refine ⟨⟨⟨⟨⟨⟨?_, ?_⟩, ?_⟩, ?_⟩, ?_⟩, ?_⟩, ?_⟩
      · split <;> rfl
      · cases hrv : d.requiresValue with
        | false => rfl
        | true => rw [wf.valued a ha d hd hrv]; rfl
      · split
        · rfl
        · split
          · rfl
          · split
            · rename_i w hw
              obtain ⟨x, _, hx⟩ := List.exists_of_findSome?_eq_some hw
              obtain ⟨k, kind, v⟩ := x
              simp only at hx
              split at hx
              · simp only [Option.some.injEq] at hx; subst hx; rfl
              · split at hx
                · cases hx
                · simp only [Option.some.injEq] at hx; subst hx; rfl
            · rfl
      · split <;> rfl
      · have : (d.mutuallyExclusive.any fun x =>
            ((((counts.filter (·.1 ≠ a.name) ++ [(a.name, ((counts.find? (·.1 = a.name)).map (·.2)).getD 0 + 1)]).find? (·.1 = x)).map (·.2)).getD 0 > 0)) = false := by
          rw [List.any_eq_false]
          intro x hx
          cases hf : (counts.filter (·.1 ≠ a.name) ++ [(a.name, ((counts.find? (·.1 = a.name)).map (·.2)).getD 0 + 1)]).find? (·.1 = x) with
          | none => simp
          | some p =>
            exfalso
            have hm := List.mem_of_find?_eq_some hf
            have hp := List.find?_some hf
            obtain ⟨b, hb, hbn⟩ := hc' p hm
            simp only [decide_eq_true_eq] at hp
            exact wf.exclusive a ha d hd x hx b hb (by rw [hbn, hp])
        rw [this]; rfl
      · cases hr : d.requiresUniqueValue with
        | false => rfl
        | true =>
          cases hv : a.value.isEmpty with
          | true => rfl
          | false =>
            have : uniq.contains a.value = false := by
              cases hcn : uniq.contains a.value with
              | false => rfl
              | true =>
                exfalso
                obtain ⟨b, hb, hbv⟩ := hu a.value (List.contains_iff_mem.1 hcn)
                exact wf.unique pre a rest hsplit (by unfold requiresUnique; rw [hd]; exact hr) hv b hb hbv
            rw [this]; rfl
      · split
        · rename_i hm
          rw [wf.verb a ha hm]; rfl
        · split
          · rename_i hs
            obtain ⟨n, hn, hlt⟩ := wf.status a ha (by simpa using hs)
            rw [hn]
            simp only [hlt, if_true]
            split <;> rfl
          · rfl

/-- **well-formed annotations are never reported with an error** -/
theorem commonValidate_complete (source : String) (as : List Annot) (wf : AnnotsWellFormed as) :
    hasError (commonValidate source as) = false := by
  unfold commonValidate
  exact commonValidate_go_complete source as [] as rfl wf [] [] (by simp) (by simp)

/-- **A route that satisfies the documented rules is accepted** - no hypothesis mentions a validator of the model. -/
theorem well_formed_route_accepted (env : TypeEnv) (emb : List String) (enforce hasDefault : Bool) (ctrlAnnots : List Annot) (m : Method)
    (hread : (enforce && (securityUnreadable ctrlAnnots || securityUnreadable m.annots)) = false)
    (wf : AnnotsWellFormed m.annots)
    (hexp : isExportedName m.name = true)
    (hnoerr : ∀ p ∈ m.params, isContextType p.type = false → ∀ e, passedInOf m.annots p.name ≠ some (.error e))
    (htype : ∀ p ∈ m.params, isContextType p.type = false → ∀ loc, passedInOf m.annots p.name = some (.ok loc) → typeOk env p loc = true)
    (hcombo : comboOk (locsOf m m.params) = true)
    (hret : (∃ e, m.results = [e] ∧ isErrorType e = true) ∨ (∃ t e, m.results = [t, e] ∧ isErrorType e = true))
    (hsec : enforce = false ∨ securityOf m.annots > 0 ∨ securityOf ctrlAnnots > 0 ∨ hasDefault = true)
    (hlink : WellLinked (((ctrlAnnots.find? (·.name = "Route")).map (·.value)).getD "") m) :
    ∃ ds, validateReceiver env emb enforce hasDefault ctrlAnnots m = some ds ∧ hasError ds = false :=
  receiver_accepts env emb enforce hasDefault ctrlAnnots m hread (commonValidate_complete "route" m.annots wf) hexp hnoerr htype hcombo hret hsec hlink

/-! ### a decidable form (what the driver evaluates on every generated route, and the non-vacuity witness) -/

theorem uniqueB_sound (as : List Annot) (seen : List String) (h : uniqueB as seen = true) :
    ∀ pre a post, as = pre ++ a :: post → requiresUnique a = true → a.value.isEmpty = false →
      a.value ∉ seen ∧ ∀ b ∈ pre, b.value ≠ a.value := by
  induction as generalizing seen with
  | nil => intro pre a post hs; cases pre <;> simp at hs
  | cons x rest ih =>
    unfold uniqueB at h
    rw [Bool.and_eq_true] at h
    obtain ⟨hx, hrest⟩ := h
    intro pre a post hs hreq hne
    cases pre with
    | nil =>
      simp only [List.nil_append, List.cons.injEq] at hs
      obtain ⟨rfl, _⟩ := hs
      refine ⟨?_, by simp⟩
      rw [hreq, hne] at hx
      intro hm
      rw [List.contains_iff_mem.2 hm] at hx
      cases hx
    | cons b pre' =>
      simp only [List.cons_append, List.cons.injEq] at hs
      obtain ⟨rfl, hs'⟩ := hs
      obtain ⟨hns, hpre⟩ := ih (seen ++ [x.value]) hrest pre' a post hs' hreq hne
      refine ⟨fun hm => hns (List.mem_append_left _ hm), ?_⟩
      intro c hc
      rcases List.mem_cons.1 hc with rfl | hc'
      · intro heq; exact hns (by simp [heq])
      · exact hpre c hc'

theorem annotsWellFormedB_sound (as : List Annot) (h : annotsWellFormedB as = true) : AnnotsWellFormed as := by
  unfold annotsWellFormedB at h
  simp only [Bool.and_eq_true] at h
  obtain ⟨⟨⟨h1, h2⟩, h3⟩, h4⟩ := h
  rw [List.all_eq_true] at h1 h3 h4
  refine ⟨?_, ?_, ?_, ?_, ?_, ?_⟩
  · intro a ha
    have := h1 a ha
    cases hd : lookupDef a.name with
    | none => rw [hd] at this; cases this
    | some d => rfl
  · intro a ha d hd hrv
    have := h1 a ha
    rw [hd] at this
    simp only [Bool.and_eq_true, hrv, Bool.not_true, Bool.false_or, Bool.not_eq_true'] at this
    exact this.1
  · intro a ha d hd x hx b hb
    have := h1 a ha
    rw [hd] at this
    simp only [Bool.and_eq_true, List.all_eq_true] at this
    have := this.2 x hx b hb
    simpa using this
  · intro pre a post hs hreq hne
    exact (uniqueB_sound as [] h2 pre a post hs hreq hne).2
  · intro a ha hm
    have := h3 a ha
    simpa [hm] using this
  · intro a ha hs
    have := h4 a ha
    have hs' : (decide (a.name = "Response") || decide (a.name = "ErrorResponse")) = true := by simpa using hs
    rw [hs'] at this
    simp only [Bool.not_true, Bool.false_or] at this
    cases hn : Gleece.Text.parseUint a.value with
    | none => rw [hn] at this; cases this
    | some n => rw [hn] at this; exact ⟨n, rfl, by simpa using this⟩

/-- non-vacuity: `@Method(GET) @Route(/a/{id}) @Path(id) @Response(200)` satisfies the rules … -/
example : AnnotsWellFormed [⟨"Method", "GET", [], ""⟩, ⟨"Route", "/a/{id}", [], ""⟩, ⟨"Path", "id", [], ""⟩, ⟨"Response", "200", [], ""⟩] :=
  annotsWellFormedB_sound _ (by decide +kernel)
/-- … and a second `@Path(id)` or a `@Body` next to a `@FormField` does not -/
example : annotsWellFormedB [⟨"Path", "id", [], ""⟩, ⟨"Query", "id", [], ""⟩] = false ∧
    annotsWellFormedB [⟨"Body", "b", [], ""⟩, ⟨"FormField", "f", [], ""⟩] = false := by decide +kernel

end Gleece.Validate
