/-
  C03 — No controller code runs unless the route's effective security approved it.

  Model: `Gleece/Model/Router.lean` (`handlerOf`, `authorize`, `runList`, `exec`).  Ties: (static) the
  go/ast extraction of every rendered routes file is compared with `handlerOf` for all five engines, and
  the shape of the rendered `authorize()` (loop over lists, loop over checks, break on refusal, nil on
  the first clean list, last error otherwise) is checked on every run; (dynamic) the compiled routers
  are driven with scripted authorization callbacks (`rig` stream).  `effective_def` is in C04.lean.
-/
import Gleece.Properties.Reduce
import Gleece.Model.Router
import Gleece.Properties.C04
namespace Gleece.Router
open Gleece.IR

/-- **Gate first, for every route of every controller**: the authorization call and its guard are the
    first two steps of the handler; InitController, parameter parsing, validators and the operation all
    come after the guard. -/
theorem gateFirst_handlerOf (c : Controller) (r : Route) : gateFirst (handlerOf c r) = true := by
  unfold handlerOf gateFirst
  simp only [List.cons_append, List.nil_append, List.all_cons, List.all_append, Bool.and_eq_true, List.all_eq_true,
    List.mem_flatMap, List.all_nil, Bool.and_true, and_true, true_and, Step.notGate]
  rintro s ⟨p, _, hs⟩
  unfold paramSteps at hs
  split at hs
  · simp at hs
  · split at hs
    · simp only [List.mem_cons, List.not_mem_nil, or_false] at hs
      rcases hs with rfl | rfl <;> rfl
    · simp only [List.mem_append, List.mem_cons, List.not_mem_nil, or_false] at hs
      rcases hs with ((rfl | rfl) | hs) | hs
      · rfl
      · rfl
      · split at hs
        · split at hs
          · simp only [List.mem_cons, List.not_mem_nil, or_false] at hs; subst hs; rfl
          · simp at hs
        · simp at hs
      · split at hs
        · simp at hs
        · simp only [List.mem_cons, List.not_mem_nil, or_false] at hs; subst hs; rfl

/-! ### `authorize()` for every callback (stateful, adversarial) -/

/-- every check of the list was asked in order and approved, starting from history `hist` -/
def approvesAll (cb : Callback) : List Check → List Check → Prop
  | _, [] => True
  | hist, c :: cs => cb hist c = none ∧ approvesAll cb (hist ++ [c]) cs

theorem runList_none_iff (cb : Callback) (hist : List Check) (l : List Check) :
    (runList cb hist l).1 = none ↔ approvesAll cb hist l := by
  induction l generalizing hist with
  | nil => simp [runList, approvesAll]
  | cons c cs ih =>
    unfold runList approvesAll
    cases h : cb hist c with
    | some e => simp
    | none => simp [ih]

/-- **Approval means some alternative was fully approved.**  If `authorize` lets the request through,
    then either the route has no security alternatives at all, or there is an alternative every check
    of which the callback approved (in the order asked, at the history reached). -/
theorem authorize_none_gen (cb : Callback) (lists : List (List Check)) :
    ∀ (last : Option String) (hist : List Check), (authorize cb hist last lists).1 = none →
      (lists = [] ∧ last = none) ∨ ∃ l ∈ lists, ∃ h0, approvesAll cb h0 l := by
  induction lists with
  | nil => intro last hist h; simp [authorize] at h; exact Or.inl ⟨rfl, h⟩
  | cons l ls ih =>
    intro last hist h
    unfold authorize at h
    cases hr : runList cb hist l with
    | mk res hist' =>
      rw [hr] at h
      cases res with
      | none =>
        right
        exact ⟨l, by simp, hist, (runList_none_iff cb hist l).1 (by rw [hr])⟩
      | some e =>
        simp only at h
        rcases ih (some e) hist' h with ⟨_, h2⟩ | ⟨l', hl', h0, ha⟩
        · simp at h2
        · exact Or.inr ⟨l', by simp [hl'], h0, ha⟩

theorem authorize_none (cb : Callback) (hist : List Check) (lists : List (List Check))
    (h : (authorize cb hist none lists).1 = none) :
    lists = [] ∨ ∃ l ∈ lists, ∃ h0, approvesAll cb h0 l := by
  rcases authorize_none_gen cb lists none hist h with ⟨h1, _⟩ | h2
  · exact Or.inl h1
  · exact Or.inr h2

theorem authorize_some_gen (cb : Callback) (lists : List (List Check)) :
    ∀ (last : Option String) (hist : List Check) (e : String), (authorize cb hist last lists).1 = some e →
      (lists = [] ∧ last = some e) ∨ (lists ≠ [] ∧ ∀ l ∈ lists, ∃ h0, ¬ approvesAll cb h0 l) := by
  induction lists with
  | nil => intro last hist e h; simp [authorize] at h; exact Or.inl ⟨rfl, h⟩
  | cons l ls ih =>
    intro last hist e h
    unfold authorize at h
    cases hr : runList cb hist l with
    | mk res hist' =>
      rw [hr] at h
      cases res with
      | none => simp at h
      | some e' =>
        simp only at h
        right
        refine ⟨by simp, ?_⟩
        have hl : ¬ approvesAll cb hist l := by
          intro ha
          have := (runList_none_iff cb hist l).2 ha
          rw [hr] at this; simp at this
        intro l' hl'
        rcases List.mem_cons.1 hl' with rfl | hin
        · exact ⟨hist, hl⟩
        · rcases ih (some e') hist' e h with ⟨h1, _⟩ | ⟨_, h2⟩
          · subst h1; simp at hin
          · exact h2 l' hin

/-- **Refusal means every alternative was refused**, and there was at least one. -/
theorem authorize_some (cb : Callback) (hist : List Check) (lists : List (List Check)) (e : String)
    (h : (authorize cb hist none lists).1 = some e) :
    lists ≠ [] ∧ ∀ l ∈ lists, ∃ h0, ¬ approvesAll cb h0 l := by
  rcases authorize_some_gen cb lists none hist e h with ⟨_, h2⟩ | h2
  · simp at h2
  · exact h2

/-- no security alternatives: approved without asking anything (the property allows this only when
    method, controller and default security are all absent — `effective_empty_iff`) -/
theorem authorize_empty (cb : Callback) (hist : List Check) : authorize cb hist none [] = (none, hist) := rfl

/-! ### the handler against the callback -/

def isControllerEvent : Event → Bool
  | .controllerStep _ => true
  | _ => false

theorem exec_go_no_auth (cb : Callback) (authErr : Option String) (rest : List Step)
    (h : rest.all Step.notGate = true) :
    exec.go cb authErr rest = rest.map Event.controllerStep := by
  induction rest with
  | nil => simp [exec.go]
  | cons s ss ih =>
    simp only [List.all_cons, Bool.and_eq_true] at h
    cases s <;> simp_all [exec.go, Step.notGate]

/-- what a gate-first handler does: ask the callback; on refusal answer with the refusal and run nothing
    else; on approval run the remaining steps -/
theorem exec_gateFirst (cb : Callback) (lists : Security) (rest : List Step)
    (h : gateFirst (.auth lists :: .guard :: rest) = true) :
    exec cb (.auth lists :: .guard :: rest) =
      (authorize cb [] none (lists.map checksOf)).2.map Event.asked ++
      (match (authorize cb [] none (lists.map checksOf)).1 with
       | some e => [Event.refused e]
       | none => rest.map Event.controllerStep) := by
  unfold exec
  simp only [exec.go]
  cases hres : authorize cb [] none (lists.map checksOf) with
  | mk res hist =>
    simp only
    cases res with
    | some e => simp [exec.go]
    | none =>
      simp only [exec.go]
      rw [exec_go_no_auth cb none rest (by simpa [gateFirst] using h)]

/-- **No controller code unless approved.**  For every route, every callback: if any parsing or
    controller step runs, `authorize` approved, hence (`authorize_none`) the route has no effective
    security or some alternative was approved check by check. -/
theorem controller_only_if_approved (cb : Callback) (c : Controller) (r : Route)
    (h : (exec cb (handlerOf c r)).any isControllerEvent = true) :
    (authorize cb [] none ((enforcedSecurity r).map checksOf)).1 = none := by
  have hg := gateFirst_handlerOf c r
  unfold handlerOf at h hg
  simp only [List.cons_append, List.nil_append] at h hg
  rw [exec_gateFirst cb _ _ hg] at h
  cases hres : (authorize cb [] none ((enforcedSecurity r).map checksOf)).1 with
  | none => rfl
  | some e =>
    rw [hres] at h
    simp [isControllerEvent, List.any_append, List.any_map] at h

/-- **Refused: the controller is not invoked and the response carries the refusal.** -/
theorem refused_no_controller (cb : Callback) (c : Controller) (r : Route) (e : String)
    (h : (authorize cb [] none ((enforcedSecurity r).map checksOf)).1 = some e) :
    (exec cb (handlerOf c r)).any isControllerEvent = false ∧
    (exec cb (handlerOf c r)).getLast? = some (Event.refused e) := by
  have hg := gateFirst_handlerOf c r
  unfold handlerOf at hg ⊢
  simp only [List.cons_append, List.nil_append] at hg ⊢
  rw [exec_gateFirst cb _ _ hg, h]
  constructor
  · simp [isControllerEvent, List.any_append, List.any_map]
  · simp

/-! ### non-vacuity: an adversarial, history-dependent callback -/
private def flaky : Callback := fun hist c => if hist.length % 2 = 0 && c.scheme = "a" then some "no" else none
example : (authorize flaky [] none [[⟨"a", []⟩], [⟨"a", []⟩, ⟨"b", []⟩]]).1 = none := by decide
example : (authorize flaky [] none [[⟨"a", []⟩]]).1 = some "no" := by decide

end Gleece.Router
