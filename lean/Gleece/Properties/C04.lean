/-
  C04 — Documented security equals enforced security; the enforce flag leaves no open route.
  (The IR-level half of C03's `effective_def` lives here too.)

  Model: `docSecurity` (both emitters' `generateOperationSecurity`), `enforcedSecurity` (the
  `SecurityCheckList` literal the router templates pass to `authorize()`), `effectiveSecurity`
  (`ControllerMeta.Reduce` + `GetRouteSecurityWithInheritance` + `GetDefaultSecurity`).
-/
import Gleece.Properties.Reduce
import Gleece.Model.IR
namespace Gleece.IR

/-- the route as the reducer builds it from the three annotation levels -/
def reducedRoute (r : Route) (method controller : Security) (dflt : Option SecComp) : Route :=
  { r with security := effectiveSecurity method controller dflt }

/-- **Effective security**: the method's own alternatives if it has any, otherwise the controller's,
    otherwise the configured default; empty only if all three are absent. -/
theorem effective_def (m c : Security) (d : Option SecComp) :
    effectiveSecurity m c d = (if m ≠ [] then m else if c ≠ [] then c else d.toList.map fun x => [x]) := by
  unfold effectiveSecurity
  cases m with
  | cons x xs => simp
  | nil =>
    cases c with
    | cons y ys => simp
    | nil => cases d <;> simp

theorem effective_empty_iff (m c : Security) (d : Option SecComp) :
    effectiveSecurity m c d = [] ↔ m = [] ∧ c = [] ∧ d = none := by
  rw [effective_def]
  cases m with
  | cons x xs => simp
  | nil =>
    cases c with
    | cons y ys => simp
    | nil => cases d <;> simp

/-- **Documented = enforced** for every route the reducer can produce: same schemes, same scopes, same
    order — whatever the three levels contain (present, absent, multiple, repeated scheme). -/
theorem doc_eq_enforced (cfg : Cfg) (r : Route) (m c : Security) :
    docSecurity cfg (reducedRoute r m c cfg.defaultSecurity) = enforcedSecurity (reducedRoute r m c cfg.defaultSecurity) := by
  unfold docSecurity enforcedSecurity reducedRoute
  simp only
  by_cases h : (effectiveSecurity m c cfg.defaultSecurity).isEmpty = true
  · have hnil : effectiveSecurity m c cfg.defaultSecurity = [] := by simpa using h
    have := (effective_empty_iff m c cfg.defaultSecurity).1 hnil
    simp [h, this.2.2, hnil]
  · simp [h]

/-- the general form, for arbitrary IR: the documented list differs from the enforced one only when the
    route carries no security while a default is configured (unreachable from the reducer) -/
theorem doc_eq_enforced_of (cfg : Cfg) (r : Route) (h : r.security ≠ [] ∨ cfg.defaultSecurity = none) :
    docSecurity cfg r = enforcedSecurity r := by
  unfold docSecurity enforcedSecurity
  rcases h with h | h
  · have : r.security.isEmpty = false := by cases hs : r.security <;> simp_all
    simp [this]
  · cases hs : r.security <;> simp [h]

/-- the security part of both emitters: one entry per documented route, or failure at the first
    route that names an undeclared scheme -/
def emitSecurity (cfg : Cfg) (cs : List Controller) : Option (List (String × Security)) :=
  (cs.flatMap fun c => c.routes.filter fun r => !r.hidden).mapM fun r =>
    if unknownScheme cfg (docSecurity cfg r) then none else some (r.opId, docSecurity cfg r)

/-- **A project that names an undeclared scheme yields no spec** (and only such a project fails here). -/
theorem unknown_scheme_no_spec (cfg : Cfg) (cs : List Controller) :
    emitSecurity cfg cs = none ↔ securityError cfg cs = true := by
  unfold emitSecurity securityError
  generalize hl : (cs.flatMap fun c => c.routes.filter fun r => !r.hidden) = l
  have hiff : (cs.any fun c => c.routes.any fun r => !r.hidden && unknownScheme cfg (docSecurity cfg r)) = true ↔
      ∃ r ∈ l, unknownScheme cfg (docSecurity cfg r) = true := by
    rw [← hl]
    simp only [List.any_eq_true, Bool.and_eq_true, Bool.not_eq_true', List.mem_flatMap, List.mem_filter]
    constructor
    · rintro ⟨c, hc, r, hr, hh, hu⟩; exact ⟨r, ⟨c, hc, hr, hh⟩, hu⟩
    · rintro ⟨r, ⟨c, hc, hr, hh⟩, hu⟩; exact ⟨c, hc, r, hr, hh, hu⟩
  rw [hiff]
  clear hiff hl
  induction l with
  | nil => simp
  | cons x xs ih =>
    simp only [List.mapM_cons, List.mem_cons, exists_eq_or_imp]
    by_cases hx : unknownScheme cfg (docSecurity cfg x) = true
    · simp [hx]
    · simp only [hx, Bool.false_eq_true, if_false, false_or]
      cases hm : xs.mapM (fun r => if unknownScheme cfg (docSecurity cfg r) = true then none else some (r.opId, docSecurity cfg r)) with
      | none =>
        have := ih.1 hm
        simp [this]
      | some rest =>
        have hn : ¬ ∃ r ∈ xs, unknownScheme cfg (docSecurity cfg r) = true := fun he => by
          have := ih.2 he; rw [hm] at this; simp at this
        simp [hn]

/-- when a spec is emitted, every scheme named in any operation's `security` is declared -/
theorem schemes_declared (cfg : Cfg) (cs : List Controller) (out : List (String × Security))
    (h : emitSecurity cfg cs = some out) :
    ∀ e ∈ out, ∀ l ∈ e.2, ∀ c ∈ l, c.name ∈ cfg.schemes := by
  unfold emitSecurity at h
  generalize (cs.flatMap fun c => c.routes.filter fun r => !r.hidden) = l at h
  induction l generalizing out with
  | nil => simp at h; subst h; simp
  | cons x xs ih =>
    simp only [List.mapM_cons] at h
    by_cases hx : unknownScheme cfg (docSecurity cfg x) = true
    · simp [hx] at h
    · simp only [hx, Bool.false_eq_true, if_false] at h
      cases hm : xs.mapM (fun r => if unknownScheme cfg (docSecurity cfg r) = true then none else some (r.opId, docSecurity cfg r)) with
      | none => rw [hm] at h; simp at h
      | some rest =>
        rw [hm] at h
        simp at h
        subst h
        intro e he
        rcases List.mem_cons.1 he with rfl | he'
        · intro l hl c hc
          have : unknownScheme cfg (docSecurity cfg x) = false := by simpa using hx
          unfold unknownScheme at this
          rw [List.any_eq_false] at this
          have h1 := this l hl
          rw [Bool.not_eq_true, List.any_eq_false] at h1
          have h2 := h1 c hc
          simpa using h2
        · exact ih rest hm e he'

/-- `validateSecurity` with `enforceSecurityOnAllRoutes`: a project is accepted only if every route has
    a non-empty effective security -/
def enforceAccepts (cfg : Cfg) (cs : List Controller) : Bool :=
  !cfg.enforce || cs.all fun c => c.routes.all fun r => !r.security.isEmpty

theorem enforce_airtight (cfg : Cfg) (cs : List Controller) (he : cfg.enforce = true)
    (h : enforceAccepts cfg cs = true) : ∀ c ∈ cs, ∀ r ∈ c.routes, r.security ≠ [] := by
  intro c hc r hr
  simp only [enforceAccepts, he, Bool.not_true, Bool.false_or, List.all_eq_true, Bool.not_eq_true',
    List.isEmpty_eq_false_iff] at h
  exact h c hc r hr

/-! ### non-vacuity -/
example : effectiveSecurity [] [[⟨"s", ["r"]⟩]] (some ⟨"d", []⟩) = [[⟨"s", ["r"]⟩]] := by decide
example : effectiveSecurity [] [] (some ⟨"d", []⟩) = [[⟨"d", []⟩]] := by decide
example : securityError { schemes := ["a"] } [{ name := "C", path := "/", routes := [{ opId := "o", verb := "GET", path := "/", security := [[⟨"ghost", []⟩]] }] }] = true := by decide

end Gleece.IR
