/-
  C16 — Annotation comments parse back to exactly what was written.

  Model: `Gleece/Model/Annot.lean` (`parseLine`, `holderOf`, `getDescription`), tied to
  `core/annotations/holder.go` by (a) the pinned regex source text (`Gleece/Generated/Regexes.lean`,
  regenerated from holder.go on every run) and (b) the differential correspondence on
  `annotations.NewAnnotationHolder` (mode `annot`).
-/
import Gleece.Lemmas.AnnotRender
import Gleece.Generated.Regexes
namespace Gleece.Annot
open Gleece.Text

/-- The matcher was derived from exactly this regular expression; a changed regex in holder.go breaks
    this obligation at `lake build`. -/
theorem regex_text_is_modelled :
    Gleece.Generated.parsingRegex =
      "^// @(\\w+)(?:(?:\\(([\\w-_/\\\\{} ]+))(?:\\s*,\\s*(\\{.*\\}))?\\))?(?:\\s+(.+))?$" := by decide

theorem parseTrimmed_pfx (name R : Str) (hn : name.isEmpty = false) (hw : name.all isReWord = true)
    (hR : ∀ c, R.head? = some c → isReWord c = false) :
    parseTrimmed (pfx ++ name ++ R) = parseRest name R := by
  unfold parseTrimmed
  have h1 : hasPrefix (pfx ++ name ++ R) pfx = true := by
    rw [List.append_assoc]; exact hasPrefix_append _ _
  have h2 : (pfx ++ name ++ R).drop pfx.length = name ++ R := by
    rw [List.append_assoc, List.drop_left]
  have h3 : span isReWord (name ++ R) = (name, R) := span_eq_of _ _ _ hw hR
  simp only [h1, h2, h3, Bool.not_true, Bool.false_eq_true, if_false, hn]

/-- json = `{` … `}` -/
theorem json_shape (j : Str) (hne : j.isEmpty = false) (hh : j.head? = some '{') (hl : j.getLast? = some '}') :
    ∃ body, j = '{' :: body ++ ['}'] := by
  cases j with
  | nil => simp at hne
  | cons c t =>
    simp only [List.head?_cons, Option.some.injEq] at hh
    subst hh
    cases t with
    | nil => simp at hl
    | cons d ds =>
      have hl' : (d :: ds).getLast? = some '}' := by simpa [List.getLast?_cons_cons] using hl
      have hne' : d :: ds ≠ [] := by simp
      refine ⟨(d :: ds).dropLast, ?_⟩
      have h1 : (d :: ds).dropLast ++ [(d :: ds).getLast hne'] = d :: ds := List.dropLast_concat_getLast hne'
      have h2 : (d :: ds).getLast hne' = '}' := by
        rw [List.getLast?_eq_some_getLast hne'] at hl'
        exact Option.some.inj hl'
      rw [h2] at h1
      simp only [List.cons_append]
      rw [h1]

/-- the paren branch on a rendered value / JSON / description -/
theorem parseParen_render (name value sep1 sep2 json D desc : Str) (v : Nat)
    (hv1 : value.isEmpty = false) (hv2 : value.all isValueChar = true)
    (hjson : json.isEmpty = true ∨ (json.head? = some '{' ∧ json.getLast? = some '}'))
    (hs1 : sep1.all isReSpace = true) (hs2 : sep2.all isReSpace = true)
    (hs1h : ∀ c, sep1.head? = some c → isValueChar c = false)
    (hD1 : tailOk D = true) (hD2 : tailDesc D = desc)
    (hamb : json.isEmpty = true ∨ pickClose D = none) :
    (parseParen name v (value ++ ((if json.isEmpty then [] else sep1 ++ ',' :: sep2 ++ json) ++ ')' :: D))).map RawAttr.core
      = some (name, value, json, desc) := by
  unfold parseParen
  by_cases hj : json.isEmpty = true
  · have hj' : json = [] := by simpa using hj
    simp only [hj, if_true, List.nil_append]
    have hs : span isValueChar (value ++ ')' :: D) = (value, ')' :: D) :=
      span_eq_of _ _ _ hv2 (by intro c hc; simp at hc; subst hc; decide)
    rw [hs]
    simp [hv1, tryJson_none_of_paren, hD1, RawAttr.core, hD2, hj']
  · simp only [hj, Bool.false_eq_true, if_false]
    have hjs := hjson.resolve_left hj
    obtain ⟨body, hbody⟩ := json_shape json (by simpa using hj) hjs.1 hjs.2
    have hamb' : pickClose D = none := hamb.resolve_left hj
    have hhead : ∀ c, (sep1 ++ ',' :: sep2 ++ json ++ ')' :: D).head? = some c → isValueChar c = false := by
      intro c hc
      cases hs1e : sep1 with
      | nil => rw [hs1e] at hc; simp at hc; subst hc; decide
      | cons x xs => rw [hs1e] at hc; simp at hc; subst hc; exact hs1h x (by rw [hs1e]; rfl)
    have hs : span isValueChar (value ++ (sep1 ++ ',' :: sep2 ++ json ++ ')' :: D))
        = (value, sep1 ++ ',' :: sep2 ++ json ++ ')' :: D) := span_eq_of _ _ _ hv2 hhead
    rw [hs]
    have htj := tryJson_intended sep1 sep2 body D hs1 hs2 hD1 hamb'
    rw [← hbody] at htj
    simp only [hv1, Bool.false_eq_true, if_false]
    cases htje : tryJson (sep1 ++ ',' :: sep2 ++ json ++ ')' :: D) with
    | none => rw [htje] at htj; simp at htj
    | some x =>
      rw [htje] at htj
      simp only [Option.map_some, Option.some.injEq, Prod.mk.injEq] at htj
      obtain ⟨j, tl, skip⟩ := x
      simp only at htj
      simp only [Option.map_some, RawAttr.core, htj.1, htj.2, hD2]

/-- **Round trip.** A well-formed written annotation parses back to exactly its name, value, JSON5 text
    and description. -/
theorem parseTrimmed_render (w : Written) (h : WF w = true) :
    (parseTrimmed (render w)).map RawAttr.core = some (w.name, w.value, w.json, w.desc) := by
  simp only [WF, Bool.and_eq_true] at h
  obtain ⟨⟨⟨⟨⟨⟨⟨⟨⟨hn1, hn2⟩, hparen⟩, hjson⟩, hs1⟩, hs2⟩, hs1h⟩, hdesc⟩, _htrim⟩, hamb⟩ := h
  have hn1' : w.name.isEmpty = false := by simpa using hn1
  have hD := tail_ok w.gap w.desc (by
    simp only [Bool.or_eq_true, Bool.and_eq_true, Bool.not_eq_true'] at hdesc
    rcases hdesc with h | ⟨⟨h1, h2⟩, h3⟩
    · exact Or.inl h
    · refine Or.inr ⟨h1, h2, ?_⟩
      intro c hc
      cases hd : w.desc with
      | nil => rw [hd] at hc; simp at hc
      | cons x t => rw [hd] at hc h3; simp at hc; subst hc; simpa using h3)
  have hamb' : w.json.isEmpty = true ∨ pickClose (if w.desc.isEmpty then [] else w.gap ++ w.desc) = none := by
    simp only [Bool.or_eq_true, Option.isNone_iff_eq_none] at hamb; exact hamb
  have hjson' : w.json.isEmpty = true ∨ (w.json.head? = some '{' ∧ w.json.getLast? = some '}') := by
    simp only [Bool.or_eq_true, Bool.and_eq_true, decide_eq_true_eq] at hjson; exact hjson
  have hs1h' : ∀ c, w.sep1.head? = some c → isValueChar c = false := by
    intro c hc
    cases hs1e : w.sep1 with
    | nil => rw [hs1e] at hc; simp at hc
    | cons x xs => rw [hs1e] at hc hs1h; simp at hc; subst hc; simpa using hs1h
  obtain ⟨D, hDdef⟩ : ∃ D, D = (if w.desc.isEmpty then [] else w.gap ++ w.desc) := ⟨_, rfl⟩
  rw [← hDdef] at hD hamb'
  suffices hmain : (render w = pfx ++ w.name ++
      ((if w.paren then '(' :: w.value ++ (if w.json.isEmpty then [] else w.sep1 ++ ',' :: w.sep2 ++ w.json) ++ [')'] else []) ++ D)) →
      (parseTrimmed (render w)).map RawAttr.core = some (w.name, w.value, w.json, w.desc) by
    apply hmain
    unfold render
    rw [hDdef]
    simp
  have hDhead : ∀ c, D.head? = some c → isReSpace c = true := by
    intro c hc
    cases hDe : D with
    | nil => rw [hDe] at hc; simp at hc
    | cons x t =>
      rw [hDe] at hc; simp at hc; subst hc
      have := hD.1; rw [hDe] at this
      simp only [tailOk, Bool.and_eq_true] at this; exact this.1
  by_cases hp : w.paren = true
  · simp only [hp, if_true, Bool.and_eq_true, Bool.not_eq_true'] at hparen
    have key := parseParen_render w.name w.value w.sep1 w.sep2 w.json D w.desc (pfx.length + w.name.length + 1)
      hparen.1 hparen.2 hjson' hs1 hs2 hs1h' hD.1 hD.2 hamb'
    have hR : parseRest w.name ('(' :: (w.value ++ ((if w.json.isEmpty then [] else w.sep1 ++ ',' :: w.sep2 ++ w.json) ++ ')' :: D)))
        = parseParen w.name (pfx.length + w.name.length + 1)
            (w.value ++ ((if w.json.isEmpty then [] else w.sep1 ++ ',' :: w.sep2 ++ w.json) ++ ')' :: D)) := by
      simp [parseRest]
    have hpt := parseTrimmed_pfx w.name
      ('(' :: (w.value ++ ((if w.json.isEmpty then [] else w.sep1 ++ ',' :: w.sep2 ++ w.json) ++ ')' :: D))) hn1' hn2
      (by intro c hc; simp at hc; subst hc; decide)
    rw [hR] at hpt
    intro hrender
    have : render w = pfx ++ w.name ++
        ('(' :: (w.value ++ ((if w.json.isEmpty then [] else w.sep1 ++ ',' :: w.sep2 ++ w.json) ++ ')' :: D))) := by
      rw [hrender]; simp [hp]
    rw [this, hpt]; exact key
  · have hp' : w.paren = false := by simpa using hp
    simp only [hp', Bool.false_eq_true, if_false, Bool.and_eq_true, List.isEmpty_iff] at hparen
    intro hrender
    have hr2 : render w = pfx ++ w.name ++ D := by rw [hrender]; simp [hp']
    have hDword : ∀ c, D.head? = some c → isReWord c = false := fun c hc => reSpace_not_word c (hDhead c hc)
    rw [hr2, parseTrimmed_pfx _ _ hn1' hn2 hDword]
    unfold parseRest
    cases hDe : D with
    | nil =>
      have : w.desc = [] := by have := hD.2; rw [hDe] at this; simpa [tailDesc, dropSpaces] using this.symm
      simp [RawAttr.core, hparen.1, hparen.2, this]
    | cons c t =>
      have hc := hDhead c (by rw [hDe]; rfl)
      have hne := reSpace_ne_paren c hc
      have h1 := hD.1; have h2 := hD.2
      rw [hDe] at h1 h2
      simp only [hne, if_false, hc, h1, Bool.and_self, if_true, Option.map_some, RawAttr.core, h2, hparen.1, hparen.2]

/-- … and therefore through `parseLine`, which trims first. -/
theorem parse_render (w : Written) (h : WF w = true) :
    (parseLine (render w)).map RawAttr.core = some (w.name, w.value, w.json, w.desc) := by
  have htrim : trimSpace (render w) = render w := by
    have h' := h
    simp only [WF, Bool.and_eq_true] at h'
    exact beq_iff_eq.1 h'.1.2
  unfold parseLine
  rw [htrim]
  exact parseTrimmed_render w h

/-! ### nothing is invented: every captured part is a substring of the line, in order -/

theorem parseParen_sound (name r1 : Str) (v : Nat) (a : RawAttr) (h : parseParen name v r1 = some a) :
    a.name = name ∧ a.value ≠ [] ∧ a.value.all isValueChar = true ∧
    ((a.json = [] ∧ ∃ tl, r1 = a.value ++ ')' :: tl ∧ tailOk tl = true ∧ a.desc = tailDesc tl) ∨
     (a.json.head? = some '{' ∧ a.json.getLast? = some '}' ∧ ∃ s1 s2 tl, s1.all isReSpace = true ∧ s2.all isReSpace = true ∧
        r1 = a.value ++ (s1 ++ ',' :: (s2 ++ (a.json ++ ')' :: tl))) ∧ tailOk tl = true ∧ a.desc = tailDesc tl)) := by
  unfold parseParen at h
  have hsp := span_append isValueChar r1
  have hall := span_all isValueChar r1
  simp only at h
  generalize (span isValueChar r1).1 = value at h hsp hall
  generalize (span isValueChar r1).2 = r2 at h hsp
  subst hsp
  split at h
  · simp at h
  · rename_i hve
    have hve' : value ≠ [] := by simpa using hve
    split at h
    · rename_i j tl skip htj
      simp only [Option.some.injEq] at h
      subst h
      refine ⟨rfl, hve', hall, Or.inr ?_⟩
      unfold tryJson at htj
      obtain ⟨s1, hs1, hr2⟩ := dropSpaces_suffix r2
      split at htj
      · simp at htj
      · rename_i c r4 hd
        split at htj
        · rename_i hc
          obtain ⟨s2, hs2, hr4⟩ := dropSpaces_suffix r4
          simp only at htj
          split at htj
          · rename_i hhead
            cases hpc : pickClose (dropSpaces r4) with
            | none => rw [hpc] at htj; simp at htj
            | some p =>
              rw [hpc] at htj
              simp only [Option.map_some, Option.some.injEq, Prod.mk.injEq] at htj
              obtain ⟨pa, pb⟩ := p
              obtain ⟨e1, e2, e3⟩ := pickClose_sound _ _ _ hpc
              simp only at htj
              obtain ⟨rfl, rfl, _⟩ := htj
              have hh : pa.head? = some '{' := by
                rw [e1] at hhead
                cases pa with
                | nil => simp at e2
                | cons x xs => simpa using hhead
              refine ⟨hh, e2, s1, s2, pb, hs1, hs2, ?_, e3, rfl⟩
              rw [hr2, hd, hc, hr4, e1]
          · simp at htj
        · simp at htj
    · split at h
      · simp at h
      · rename_i c tl hr2e
        split at h
        · rename_i hc
          simp only [Bool.and_eq_true, decide_eq_true_eq] at hc
          simp only [Option.some.injEq] at h
          subst h
          refine ⟨rfl, hve', hall, Or.inl ⟨rfl, tl, ?_, hc.2, rfl⟩⟩
          rw [hc.1]
        · simp at h

/-- **Soundness of the matcher**: whatever `parseTrimmed` returns re-assembles to the text it was given —
    `// @name`, optionally `(value[ws , ws json])`, optionally white space and the description.  Nothing is
    invented: every captured part is a contiguous piece of the line, in order. -/
theorem parseTrimmed_sound (t : Str) (a : RawAttr) (h : parseTrimmed t = some a) :
    a.name ≠ [] ∧ a.name.all isReWord = true ∧
    ∃ rest, t = pfx ++ a.name ++ rest ∧
      ((rest = [] ∧ a.value = [] ∧ a.json = [] ∧ a.desc = []) ∨
       (tailOk rest = true ∧ rest ≠ [] ∧ a.value = [] ∧ a.json = [] ∧ a.desc = tailDesc rest) ∨
       (∃ r1, rest = '(' :: r1 ∧ parseParen a.name (pfx.length + a.name.length + 1) r1 = some a)) := by
  unfold parseTrimmed at h
  split at h
  · simp at h
  · rename_i hpre
    obtain ⟨r0, hr0⟩ := (hasPrefix_iff t pfx).1 (by simpa using hpre)
    have hdrop : t.drop pfx.length = r0 := by rw [hr0, List.drop_left]
    rw [hdrop] at h
    have hsp := span_append isReWord r0
    have hall := span_all isReWord r0
    simp only at h
    generalize (span isReWord r0).1 = name at h hsp hall
    generalize (span isReWord r0).2 = r at h hsp
    subst hsp
    split at h
    · simp at h
    · rename_i hne
      have hne' : name ≠ [] := by simpa using hne
      unfold parseRest at h
      cases r with
      | nil =>
        simp only [Option.some.injEq] at h; subst h
        refine ⟨hne', hall, [], ?_, Or.inl ⟨rfl, rfl, rfl, rfl⟩⟩
        rw [hr0]; simp
      | cons c r1 =>
        simp only at h
        split at h
        · rename_i hc
          subst hc
          have hname : a.name = name := (parseParen_sound _ _ _ _ h).1
          refine ⟨by rw [hname]; exact hne', by rw [hname]; exact hall, '(' :: r1, ?_, ?_⟩
          · rw [hr0, hname]; simp
          · exact Or.inr (Or.inr ⟨r1, rfl, by rw [hname]; exact h⟩)
        · split at h
          · rename_i hc
            simp only [Bool.and_eq_true] at hc
            simp only [Option.some.injEq] at h; subst h
            refine ⟨hne', hall, c :: r1, ?_, Or.inr (Or.inl ⟨hc.2, by simp, rfl, rfl, rfl⟩)⟩
            rw [hr0]; simp
          · simp at h

/-! ### the holder: source order, description rule, JSON5 errors are never dropped -/

/-- what `holderOf.go` has accumulated agrees with a left-to-right scan -/
def scanAttrs (i : Nat) : List Str → List (Nat × RawAttr)
  | [] => []
  | l :: rest => (match parseLine l with | some a => [(i, a)] | none => []) ++ scanAttrs (i + 1) rest

def scanFree (i : Nat) : List Str → List (Nat × Str)
  | [] => []
  | l :: rest => (match parseLine l with | some _ => [] | none => [(i, freeText l)]) ++ scanFree (i + 1) rest

theorem holderOf_go_ok (jsonOk : Str → Bool) (ls : List Str) (i : Nat) (h0 h : Holder)
    (hok : holderOf.go jsonOk i ls h0 = .ok h) :
    h.attrs = h0.attrs ++ scanAttrs i ls ∧ h.free = h0.free ++ scanFree i ls := by
  induction ls generalizing i h0 with
  | nil =>
    simp only [holderOf.go, HolderResult.ok.injEq] at hok
    subst hok; simp [scanAttrs, scanFree]
  | cons l rest ih =>
    unfold holderOf.go at hok
    cases hp : parseLine l with
    | none =>
      rw [hp] at hok
      obtain ⟨h1, h2⟩ := ih _ _ hok
      simp only [scanAttrs, scanFree, hp, List.nil_append]
      exact ⟨h1, by rw [h2]; simp⟩
    | some a =>
      rw [hp] at hok
      simp only at hok
      split at hok
      · cases hok
      · obtain ⟨h1, h2⟩ := ih _ _ hok
        simp only [scanAttrs, scanFree, hp, List.nil_append]
        exact ⟨by rw [h1]; simp, h2⟩

/-- **Attribute order is source order**; lines that do not match are kept as free text (trimmed of the
    `//` prefix and surrounding blanks) and never yield attributes. -/
theorem holder_order (jsonOk : Str → Bool) (lines : List Str) (h : Holder) (hok : holderOf jsonOk lines = .ok h) :
    h.attrs = scanAttrs 0 lines ∧ h.free = scanFree 0 lines := by
  have := holderOf_go_ok jsonOk lines 0 {} h hok
  simpa using this

/-- **Malformed JSON5 is reported, never silently dropped**: the holder is an error exactly when some
    annotation line carries a JSON5 part the parser rejects. -/
theorem json_error_not_dropped (jsonOk : Str → Bool) (lines : List Str) :
    (∃ i, holderOf jsonOk lines = .jsonError i) ↔
    ∃ l ∈ lines, ∃ a, parseLine l = some a ∧ a.json ≠ [] ∧ jsonOk a.json = false := by
  unfold holderOf
  generalize (0 : Nat) = i0
  generalize ({} : Holder) = h0
  induction lines generalizing i0 h0 with
  | nil => simp [holderOf.go]
  | cons l rest ih =>
    unfold holderOf.go
    cases hp : parseLine l with
    | none =>
      simp only [List.mem_cons, exists_eq_or_imp, hp]
      rw [ih]
      simp
    | some a =>
      simp only [List.mem_cons, exists_eq_or_imp, hp, Option.some.injEq, exists_eq_left']
      by_cases hbad : (!a.json.isEmpty && !jsonOk a.json) = true
      · simp only [hbad, if_true]
        simp only [Bool.and_eq_true, Bool.not_eq_true', List.isEmpty_eq_false_iff] at hbad
        constructor
        · intro _; exact Or.inl ⟨by simpa using hbad.1, hbad.2⟩
        · intro _; exact ⟨i0, rfl⟩
      · simp only [hbad, Bool.false_eq_true, if_false]
        rw [ih]
        constructor
        · intro hx; exact Or.inr hx
        · rintro (⟨h1, h2⟩ | hx)
          · exfalso; apply hbad
            simp only [Bool.and_eq_true, Bool.not_eq_true', List.isEmpty_eq_false_iff]
            exact ⟨by simpa using h1, h2⟩
          · exact hx

/-- the property's wording of the description rule, stated over the source lines -/
def specDescription (lines : List Str) : Str :=
  match (lines.filterMap parseLine).find? (fun a => a.name = descriptionName) with
  | some a => a.desc
  | none => joinLines (dropTrailingEmpty ((lines.takeWhile fun l => (parseLine l).isNone).map freeText))

theorem leadingFree_scanFree (i : Nat) (ls : List Str) :
    leadingFree i (scanFree i ls) = (ls.takeWhile fun l => (parseLine l).isNone).map freeText := by
  induction ls generalizing i with
  | nil => simp [scanFree, leadingFree]
  | cons l rest ih =>
    cases hp : parseLine l with
    | none =>
      simp only [scanFree, hp, List.singleton_append, leadingFree, Nat.lt_irrefl, if_false, ih,
        List.takeWhile_cons, Option.isNone_none, if_true, List.map_cons]
    | some a =>
      simp only [scanFree, hp, List.nil_append, List.takeWhile_cons, Option.isNone_some, Bool.false_eq_true,
        if_false, List.map_nil]
      -- every index in `scanFree (i+1) rest` exceeds `i`
      have hgt : ∀ (j : Nat) (ls : List Str), ∀ p ∈ scanFree j ls, j ≤ p.1 := by
        intro j ls
        induction ls generalizing j with
        | nil => simp [scanFree]
        | cons x xs ih' =>
          intro p hp'
          simp only [scanFree, List.mem_append] at hp'
          rcases hp' with h1 | h1
          · split at h1
            · simp at h1
            · simp only [List.mem_singleton] at h1; subst h1; exact Nat.le_refl _
          · exact Nat.le_of_succ_le (ih' (j + 1) p h1)
      cases hs : scanFree (i + 1) rest with
      | nil => simp [leadingFree]
      | cons p ps =>
        have := hgt (i + 1) rest p (by rw [hs]; simp)
        obtain ⟨pi, pv⟩ := p
        simp only [leadingFree]
        have : pi > i := this
        simp [this]

theorem scanAttrs_map (i : Nat) (ls : List Str) : (scanAttrs i ls).map (·.2) = ls.filterMap parseLine := by
  induction ls generalizing i with
  | nil => simp [scanAttrs]
  | cons l rest ih =>
    cases hp : parseLine l <;> simp [scanAttrs, hp, ih]

/-- **Description rule**: the entity description is the `@Description` text if present, otherwise the
    leading contiguous free-text lines (trailing empty ones dropped). -/
theorem description_rule (jsonOk : Str → Bool) (lines : List Str) (h : Holder)
    (hok : holderOf jsonOk lines = .ok h) : getDescription h = specDescription lines := by
  obtain ⟨ha, hf⟩ := holder_order jsonOk lines h hok
  unfold getDescription specDescription
  rw [ha, hf, leadingFree_scanFree, ← scanAttrs_map 0 lines]
  rw [List.find?_map]
  have hfun : ((fun a : RawAttr => decide (a.name = descriptionName)) ∘ fun x : Nat × RawAttr => x.2)
      = fun p : Nat × RawAttr => decide (p.2.name = descriptionName) := rfl
  rw [hfun]
  cases hfind : (scanAttrs 0 lines).find? (fun p => decide (p.2.name = descriptionName)) with
  | none => simp
  | some p => simp

/-! ### non-vacuity -/

private def exW : Written :=
  { name := "Query".toList, paren := true, value := "name".toList, json := "{ validate: \"})\" }".toList,
    desc := "The name é".toList, sep2 := [' '] }
example : WF exW = true := by decide +kernel
example : render exW = "// @Query(name, { validate: \"})\" }) The name é".toList := by decide +kernel
/-- outside `WF` (ambiguous description, finding C16-F1) the round trip is FALSE: the greedy group
    swallows the description -/
example : (parseLine "// @Query(name, {a: 1}) see {b}) foo".toList).map RawAttr.core
    = some ("Query".toList, "name".toList, "{a: 1}) see {b}".toList, "foo".toList) := by decide +kernel

end Gleece.Annot
