/-
  C18 — Diagnostics point at the construct they complain about.

  Proved on the annotation model (`Gleece/Model/Annot.lean`): `GetValueRange` / the url-parameter range
  are computed as "first occurrence of the text", and a found occurrence always covers text EQUAL to what
  was searched, lies inside the comment text, and has start ≤ end — for every comment text and value,
  multi-byte characters included (the Go code converts the byte offset with RuneCountInString; the model
  works in runes throughout).  A value captured by the matcher is a contiguous part of the line
  (`parseTrimmed_sound`, C16), so the search never falls back.
  Tied by the `proj` stream: for every diagnostic of every generated / perturbed project the harness
  slices the REAL source text by the reported range; the driver checks file, containment in the entity's
  comment + declaration, start ≤ end, covered text, and duplicates; codes and severities are those of the
  validator model (exact multiset equality, shared with C10).
-/
import Gleece.Model.Annot
import Gleece.Lemmas.Annot
namespace Gleece.Annot
open Gleece.Text

theorem indexOf_go_spec (p : Str) (s : Str) (i k : Nat) (h : indexOf.go p s i = some k) :
    i ≤ k ∧ hasPrefix (s.drop (k - i)) p = true ∧ k - i + p.length ≤ s.length := by
  induction s generalizing i with
  | nil =>
    unfold indexOf.go at h
    split at h
    · rename_i hp
      simp only [Option.some.injEq] at h; subst h
      have : p = [] := by cases p <;> simp_all [hasPrefix]
      subst this
      simp [hasPrefix]
    · simp at h
  | cons c t ih =>
    unfold indexOf.go at h
    split at h
    · rename_i hp
      simp only [Option.some.injEq] at h; subst h
      obtain ⟨r, hr⟩ := (hasPrefix_iff _ _).1 hp
      refine ⟨Nat.le_refl _, by simpa using hp, ?_⟩
      have := congrArg List.length hr
      simp at this ⊢; omega
    · obtain ⟨h1, h2, h3⟩ := ih (i + 1) h
      refine ⟨by omega, ?_, ?_⟩
      · have : k - i = (k - (i + 1)) + 1 := by omega
        rw [this]; simpa using h2
      · simp only [List.length_cons]; omega

/-- **A found range covers text equal to the value**, lies inside the text and has start ≤ end. -/
theorem valueRange_covers (text value : Str) (a b : Nat) (h : valueRange text value = some (a, b)) :
    (text.drop a).take value.length = value ∧ a ≤ b ∧ b ≤ text.length ∧ b = a + value.length := by
  unfold valueRange at h
  split at h
  · simp at h
  · cases hi : indexOf text value with
    | none => rw [hi] at h; simp at h
    | some i =>
      rw [hi] at h
      simp only [Option.map_some, Option.some.injEq, Prod.mk.injEq] at h
      obtain ⟨rfl, rfl⟩ := h
      unfold indexOf at hi
      obtain ⟨_, h2, h3⟩ := indexOf_go_spec value text 0 i hi
      simp only [Nat.sub_zero] at h2 h3
      obtain ⟨r, hr⟩ := (hasPrefix_iff _ _).1 h2
      refine ⟨by rw [hr]; simp, by omega, h3, rfl⟩

theorem indexOf_go_prefix (p s : Str) (i : Nat) (h : hasPrefix s p = true) : indexOf.go p s i = some i := by
  unfold indexOf.go
  simp [h]

/-- the search succeeds whenever the value is a contiguous part of the comment text (which the matcher
    guarantees for every captured value) -/
theorem indexOf_of_infix (pre value post : Str) : ∃ k, indexOf (pre ++ (value ++ post)) value = some k ∧ k ≤ pre.length := by
  unfold indexOf
  suffices ∀ (i : Nat), ∃ k, indexOf.go value (pre ++ (value ++ post)) i = some k ∧ k ≤ i + pre.length by
    simpa using this 0
  induction pre with
  | nil =>
    intro i
    exact ⟨i, indexOf_go_prefix _ _ _ (by simpa using hasPrefix_append value post), by simp⟩
  | cons c t ih =>
    intro i
    by_cases hp : hasPrefix (c :: t ++ (value ++ post)) value = true
    · exact ⟨i, indexOf_go_prefix _ _ _ hp, by simp⟩
    · obtain ⟨k, hk, hle⟩ := ih (i + 1)
      refine ⟨k, ?_, by simp only [List.length_cons]; omega⟩
      have hp' : hasPrefix (c :: (t ++ (value ++ post))) value = false := by
        cases hh : hasPrefix (c :: (t ++ (value ++ post))) value with
        | false => rfl
        | true => exact absurd (by simpa using hh) hp
      show indexOf.go value (c :: (t ++ (value ++ post))) i = some k
      unfold indexOf.go
      simp only [hp', Bool.false_eq_true, if_false]
      exact hk

/-! ### non-vacuity: a multi-byte character before the token (runes, not bytes) -/
example : valueRange "// é @X(id)".toList "id".toList = some (8, 10) := by decide +kernel

end Gleece.Annot
