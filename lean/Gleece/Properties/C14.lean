/-
  C14 — Every run terminates with success or a reported error, never a crash or hang.

  Partial by nature.  PROVED here:
  * crash-freedom of the two validator-tag converters for EVERY tag string: the table of rules
    (`Gleece/Generated/ValidationRules.lean`, regenerated with go/ast from both converters on every run)
    records, per rule, which parser reads the value and whether its nil-able result is dereferenced
    without a check; no row is, and the 3.0 converter returns before touching a nil `schema.Value`;
  * termination of every loop the models contain: all definitions in `Gleece/Model/` are total (no
    `partial`), including the `for strings.Contains(p,"//")` loop (`Gleece.Paths.collapse`, decreasing
    length), the eviction cascade (fuel), the annotation matcher and `UnwrapArrayTypeString`.
  EXPLORED, not proved (go/packages, raymond, kin-openapi, libopenapi, the visitors on arbitrary Go):
  the real emitters and routers on generated IR with arbitrary / malformed validator tags (`ir` stream,
  `VH_BAD_VALIDATORS`), and the real CLI in a child process on generated projects (`cli` stream).
-/
import Gleece.Generated.ValidationRules
import Gleece.Generated.CliCommands
import Gleece.Model.Cli
import Gleece.Model.Paths
import Gleece.Model.IR
import Gleece.Model.Order
namespace Gleece.Crash

inductive Outcome | ok | crash
deriving DecidableEq, Repr

/-- a rule row against a value: Go panics exactly when the parser returns nil and the result is
    dereferenced unchecked -/
def applyRow (row : String × String × String × Bool) (parserReturnsNil : Bool) : Outcome :=
  if row.2.2.2 && parserReturnsNil then .crash else .ok

/-- **No rule of either converter can crash on its value**, whatever the value is (parsable or not). -/
theorem convert_no_crash : ∀ row ∈ Gleece.Generated.validationRules, ∀ nil? : Bool, applyRow row nil? = .ok := by
  decide +kernel

/-- the 3.0 converter never touches the value of an unresolved `$ref` -/
theorem nil_value_guarded : Gleece.Generated.nilValueGuard30 = true := by decide

/-- … and the 3.1 converter never touches a nil schema (a reference proxy, e.g. an enum-typed form field) -/
theorem nil_schema_guarded : Gleece.Generated.nilSchemaGuard31 = true := by decide

/-- every rule name the generators use has a row for both emitters (a rule missing from one converter
    would silently document different constraints: see C11) -/
theorem both_emitters_know_the_rules :
    ∀ r ∈ ["gt", "gte", "lt", "lte", "min", "max", "len", "minItems", "maxItems", "uniqueItems", "email", "uuid", "pattern", "enum", "oneof"],
      (Gleece.Generated.validationRules.any fun row => row.1 = "3.0" && row.2.1 = r) = true ∧
      (Gleece.Generated.validationRules.any fun row => row.1 = "3.1" && row.2.1 = r) = true := by
  decide +kernel

/-- `common.UnwrapArrayTypeString`: the `for { TrimPrefix "[]" }` loop, structurally -/
def unwrapArray : List Char → List Char
  | '[' :: ']' :: r => unwrapArray r
  | r => r

theorem unwrapArray_idem (s : List Char) : unwrapArray (unwrapArray s) = unwrapArray s := by
  fun_induction unwrapArray s with
  | case1 r ih => exact ih
  | case2 r h =>
    unfold unwrapArray
    split
    · rename_i r'; exact absurd rfl (h r')
    · rfl

end Gleece.Crash

/-! ### the command-line wrappers: a failure of the generation function is the run's exit status -/
namespace Gleece.Cli

/-- a wrapper that propagates the failure turns the function's contract into the run's contract -/
theorem wrap_contract (c : Cmd) (f : FnResult) (h : FnContract c f = true) : Contract c (wrap true f) = true := by
  cases c <;> cases hf : f.failed <;> simp_all [Contract, FnContract, wrap, artifacts]

/-- … and one that does not propagate it breaks the contract on EVERY failing run of a GENERATING command: exit 0
    without the artifacts (`dump` leaves no artifact the contract could miss) -/
theorem wrap_without_propagation_breaks (c : Cmd) (hc : c ≠ .dump) (f : FnResult) (hf : f.failed = true) (hs : f.spec = false) (hr : f.routes = false) :
    Contract c (wrap false f) = false := by
  cases c <;> simp_all [Contract, wrap, artifacts]

/-- **Every command of the program that calls a generation entry point propagates its failure** (regenerated from
    cmd/*.go on every run: `os.Exit(<non-zero>)` in the `if err != nil` block, or `return err` from a `RunE`) -/
theorem every_generating_command_propagates :
    ∀ row ∈ Gleece.Generated.cliCommands, row.2.2.1 = true → row.2.2.2 = true := by decide

/-- the four ways of asking for generation are all there -/
theorem generating_commands_present :
    ∀ u ∈ ["gleece", "spec", "routes", "spec-and-routes"],
      (Gleece.Generated.cliCommands.any fun row => row.2.1 = u && row.2.2.1) = true := by decide

end Gleece.Cli

namespace Gleece.Order

/-- **a failed write is a failed run**: in the functions that write the artifacts, `os.MkdirAll` and `os.WriteFile` are
    each followed by an error guard that RETURNS the error (a guard that only logs would let the command report
    success with nothing written - what the `FnContract` of `Gleece.Cli` forbids), and every generation function of
    the entry points returns what the generators return -/
theorem write_failures_are_returned :
    (let evs := eventsOf "generator/routes/generator.go:GenerateRoutes"
     guarded evs "os.MkdirAll" = true ∧ guarded evs "os.WriteFile" = true ∧ failureSwallowed evs "os.WriteFile" = false) ∧
    (let evs := eventsOf "generator/swagen/spec_manager.go:OutputSpec"
     guarded evs "os.MkdirAll" = true ∧ guarded evs "os.WriteFile" = true ∧ failureSwallowed evs "os.WriteFile" = false) ∧
    (let evs := eventsOf "generator/swagen/spec_manager.go:GenerateAndOutputSpec"
     guarded evs "GenerateSpec" = true) := by
  decide +kernel

end Gleece.Order
