/-
  C13 — Output is a deterministic function of project and configuration.

  What varies between runs of the real program is ORDER: the iteration order of `facade.files`
  (file visiting), of the symbol graph's node map (`FindByKind`), of `packages.Load`, of sets.
  Proved: sorting makes the visiting order a function of the SET of files (any two enumerations of the
  same files are sorted to the same list), hence the import serials — assigned on first use while
  reducing in that order — are the same in every run; the spec emitters have no engine parameter.
  Decided on the call skeletons regenerated from the source on every run: the sorts exist and sit after
  the map iterations they canonicalise.  Tied by the `proj` stream: five brand-new sessions per project
  (config load, pipeline, routes, spec) must produce ONE byte content per artifact, the spec must not
  change with the engine, and the dated routes file may differ from the undated one only in the date line.
-/
import Gleece.Lemmas.Session
import Gleece.Model.Order
import Gleece.Model.IR
namespace Gleece.Session

/-- **Any two enumerations of the same files are visited in the same order.** -/
theorem visit_order_deterministic (σ σ' : List Nat) (h : σ.Perm σ') : sortNat σ = sortNat σ' :=
  sorted_perm_eq _ _ (sortNat_sorted σ) (sortNat_sorted σ')
    ((sortNat_perm σ).trans (h.trans (sortNat_perm σ').symm))

/-- **Import serials do not depend on the enumeration order**: they are handed out on first use while
    walking the sorted order, whatever keys (`keysMet`) each visited item contributes. -/
theorem serials_deterministic (σ σ' : List Nat) (h : σ.Perm σ') (keysMet : List Nat → List Nat) :
    runKeys {} (keysMet (sortNat σ)) = runKeys {} (keysMet (sortNat σ')) := by
  rw [visit_order_deterministic σ σ' h]

end Gleece.Session

namespace Gleece.Order

/-- the sorts are in place, after the map iterations they canonicalise -/
theorem sorts_in_place :
    (let evs := eventsOf "core/arbitrators/packages.facade.go:GetAllSourceFiles"
     -- the map is ranged over BEFORE the sort and the result is built from the sorted names after it
     sortedBetweenRanges evs "facade.files" "slices.Sort" "fileNames" = true) ∧
    (let evs := eventsOf "core/pipeline/pipeline.go:getControllers"
     before evs "p.symGraph.FindByKind" "slices.SortFunc" = true) ∧
    (let evs := eventsOf "core/pipeline/pipeline.go:getReducedControllers"
     before evs "p.reduceControllers" "slices.SortFunc" = true) ∧
    (let evs := eventsOf "core/pipeline/pipeline.go:getModels"
     before evs "symboldg.ComposeStructs" "slices.SortFunc" = true) := by
  decide +kernel

end Gleece.Order

/- That the document does not depend on the routing engine is not a theorem here (the spec model simply has no
   engine argument, which proves nothing about the code): the check renders the document under all five
   engines in fresh sessions and counts the distinct byte strings (`specDistinctAcrossEngines`). -/
