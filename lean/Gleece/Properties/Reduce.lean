/-
  Theorems about the reducers (source annotations → flattened metadata), used by C01 (hidden routes),
  C03 / C04 (effective security) and C06 (requiredness).  For every annotation list — no bound on the
  number, order or content of annotations.
-/
import Gleece.Model.Reduce
namespace Gleece.Reduce
open Gleece.Validate Gleece.IR Gleece.Text

/-- **C01**: a route is hidden iff it carries an @Hidden annotation — with or without a value -/
theorem hidden_iff (meth : List Annot) : hidden meth = true ↔ ∃ a ∈ meth, a.name = "Hidden" := by
  unfold hidden getFirst
  rw [List.find?_isSome]
  simp

theorem securityFromContext_empty_iff (attrs : List Annot) :
    securityFromContext attrs = [] ↔ ∀ a ∈ attrs, a.name ≠ "Security" := by
  unfold securityFromContext getAll
  rw [List.map_eq_nil_iff, List.filter_eq_nil_iff]
  simp

/-- **C03 / C04 — effective security**: the route's own annotations if any, else the controller's, else
    the configured default, else empty. -/
theorem effective_security (meth ctrl : List Annot) (d : Option SecComp) :
    routeSecurity meth (controllerSecurity ctrl d) =
      if securityFromContext meth ≠ [] then securityFromContext meth
      else if securityFromContext ctrl ≠ [] then securityFromContext ctrl
      else defaultSecurity d := by
  unfold routeSecurity controllerSecurity
  by_cases h1 : securityFromContext meth = [] <;> by_cases h2 : securityFromContext ctrl = [] <;> simp [h1, h2]

/-- a configured default applies to every route without @Security of its own or of its controller —
    **whatever its scopes are** (an empty scope list does not switch it off) -/
theorem default_applies (meth ctrl : List Annot) (c : SecComp)
    (hm : ∀ a ∈ meth, a.name ≠ "Security") (hc : ∀ a ∈ ctrl, a.name ≠ "Security") :
    routeSecurity meth (controllerSecurity ctrl (some c)) = [[c]] := by
  rw [effective_security]
  simp [(securityFromContext_empty_iff meth).2 hm, (securityFromContext_empty_iff ctrl).2 hc, defaultSecurity]

/-- the effective security is empty only when nothing at all is configured -/
theorem effective_empty_iff (meth ctrl : List Annot) (d : Option SecComp) :
    routeSecurity meth (controllerSecurity ctrl d) = [] ↔
      (∀ a ∈ meth, a.name ≠ "Security") ∧ (∀ a ∈ ctrl, a.name ≠ "Security") ∧ d = none := by
  rw [effective_security, ← securityFromContext_empty_iff, ← securityFromContext_empty_iff]
  by_cases h1 : securityFromContext meth = []
  · by_cases h2 : securityFromContext ctrl = []
    · cases d <;> simp [h1, h2, defaultSecurity]
    · simp [h1, h2]
  · simp [h1]

/-- every alternative of a route's own security is one @Security annotation, in source order -/
theorem own_security_in_order (meth : List Annot) :
    (securityFromContext meth).map (fun alt => alt.map (·.name)) = (getAll meth "Security").map fun a => [a.value] := by
  unfold securityFromContext
  simp [List.map_map, Function.comp_def]

/-- the reducers compute exactly the property's `effectiveSecurity` (IR model) of the three written levels -/
theorem reduce_is_effective (meth ctrl : List Annot) (d : Option SecComp) :
    routeSecurity meth (controllerSecurity ctrl d) =
      effectiveSecurity (securityFromContext meth) (securityFromContext ctrl) d := by
  rw [effective_security]
  unfold effectiveSecurity defaultSecurity
  by_cases h1 : securityFromContext meth = [] <;> by_cases h2 : securityFromContext ctrl = [] <;> cases d <;> simp [h1, h2]

/-- **C04 end to end (source → document / router)**: for a route reduced from ANY annotation lists, what the
    document states (`docSecurity`, which falls back to the configured default) is what the router enforces
    (`enforcedSecurity`) — the emitters' fallback can only fire when the reducer already applied it. -/
theorem source_doc_eq_enforced (meth ctrl : List Annot) (cfg : Cfg) (r : Route)
    (hr : r.security = routeSecurity meth (controllerSecurity ctrl cfg.defaultSecurity)) :
    docSecurity cfg r = enforcedSecurity r := by
  unfold docSecurity enforcedSecurity
  by_cases he : r.security.isEmpty = true
  · have hnil : r.security = [] := by simpa using he
    have := (effective_empty_iff meth ctrl cfg.defaultSecurity).1 (hr ▸ hnil)
    simp [he, this.2.2, hnil]
  · simp [he]

/-- non-vacuity: a default with EMPTY scopes protects an unannotated route; @Hidden with a value hides -/
example : routeSecurity [⟨"Method", "GET", [], ""⟩] (controllerSecurity [⟨"Tag", "T", [], ""⟩] (some ⟨"sec0", []⟩)) = [[⟨"sec0", []⟩]] := by
  decide +kernel
example : hidden [⟨"Method", "GET", [], ""⟩, ⟨"Hidden", "internal", [], ""⟩] = true := by decide +kernel

end Gleece.Reduce
