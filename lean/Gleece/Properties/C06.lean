/-
  C06 — Documented parameters, bodies and responses equal the declared method signature.
-/
import Gleece.Model.Reduce
import Gleece.Model.IR
import Gleece.Lemmas.Assoc
import Gleece.Lemmas.Split
namespace Gleece.IR
open Gleece.Text Gleece.Assoc

theorem requiredTok_no_comma : ∀ c ∈ requiredTok, c ≠ ',' := by decide

/-- **Requiredness rule**, for EVERY validator string `v`: after the reducer's
    `appendParamRequiredValidation`, a parameter is documented (and validated) as required iff it is a
    non-pointer, a path parameter, or was explicitly validated as required. -/
theorem required_rule (v : Str) (isPtr isPath : Bool) :
    isFieldRequired (appendRequired v isPtr isPath) = (!isPtr || isPath || isFieldRequired v) := by
  unfold appendRequired
  by_cases h1 : (isPtr && !isPath) = true
  · simp only [h1, if_true]
    simp only [Bool.and_eq_true, Bool.not_eq_true'] at h1
    simp [h1.1, h1.2]
  · simp only [h1, Bool.false_eq_true, if_false]
    have hl : (!isPtr || isPath) = true := by
      cases isPtr <;> cases isPath <;> simp_all
    have hgoal : (!isPtr || isPath || isFieldRequired v) = true := by simp [hl]
    rw [hgoal]
    by_cases h2 : v.isEmpty = true
    · simp only [h2, if_true]
      unfold isFieldRequired
      rw [splitOn_no_sep ',' _ requiredTok_no_comma]
      simp
    · simp only [h2, Bool.false_eq_true, if_false]
      by_cases h3 : (splitOn ',' v).contains requiredTok = true
      · simp only [h3, if_true]; exact h3
      · simp only [h3, Bool.false_eq_true, if_false]
        unfold isFieldRequired
        rw [splitOn_append_sep, splitOn_no_sep ',' _ requiredTok_no_comma]
        simp

/-- the `parameters` of an operation are the non-context path/query/header parameters, under their wire
    names, in signature order -/
theorem docParams_names (r : Route) :
    (docParams r).map (·.name) =
      (r.params.filter fun p => !p.isContext && p.passedIn ≠ "Body" && p.passedIn ≠ "Form").map (·.nameInSchema) := by
  simp [docParams, List.map_map, Function.comp]

/-- **Context parameters never appear**, nor do body / form parameters, among `parameters`. -/
theorem docParams_sound (r : Route) (s : ParamSig) (h : s ∈ docParams r) :
    ∃ p ∈ r.params, p.isContext = false ∧ p.passedIn ≠ "Body" ∧ p.passedIn ≠ "Form" ∧
      s.name = p.nameInSchema ∧ s.loc = lowerLoc p.passedIn ∧ s.typeName = p.type.name ∧
      s.required = isFieldRequired p.validator.toList := by
  simp only [docParams, List.mem_map, List.mem_filter, Bool.and_eq_true, Bool.not_eq_true', decide_eq_true_eq] at h
  obtain ⟨p, ⟨hp, ⟨h1, h2⟩, h3⟩, rfl⟩ := h
  exact ⟨p, hp, h1, by simpa using h2, by simpa using h3, rfl, rfl, rfl, rfl⟩

theorem docParams_complete (r : Route) (p : Param) (hp : p ∈ r.params) (h1 : p.isContext = false)
    (h2 : p.passedIn ≠ "Body") (h3 : p.passedIn ≠ "Form") :
    (⟨p.nameInSchema, lowerLoc p.passedIn, isFieldRequired p.validator.toList, p.type.name, p.deprecated⟩ : ParamSig) ∈ docParams r := by
  simp only [docParams, List.mem_map, List.mem_filter, Bool.and_eq_true, Bool.not_eq_true', decide_eq_true_eq]
  exact ⟨p, ⟨hp, ⟨h1, by simpa using h2⟩, by simpa using h3⟩, rfl⟩

/-- **The success response**: listed under the success code with the value type's schema when the method
    returns a value and without content otherwise. -/
theorem success_response (r : Route) : get? (docResponses r) r.successCode = some (valueTypeName r) := by
  unfold docResponses
  rw [get?_setAll]
  simp [get?]

/-- **Each `@ErrorResponse` code is listed** with the error type's schema (`error` ↦ Rfc7807Error),
    unless it coincides with the success code. -/
theorem error_response (r : Route) (e : ErrResp) (he : e ∈ r.errorResponses) (hne : e.code ≠ r.successCode) :
    get? (docResponses r) e.code = some (some (errTypeName r)) := by
  unfold docResponses
  rw [get?_setAll]
  unfold get?
  simp only [List.reverse_append, List.reverse_cons, List.reverse_nil, List.nil_append, List.singleton_append,
    List.find?_cons]
  have hne' : ¬ r.successCode = e.code := fun h => hne h.symm
  simp only [hne', decide_false]
  cases hf : (List.map (fun e => (e.code, some (errTypeName r))) r.errorResponses).reverse.find? (fun x => decide (x.1 = e.code)) with
  | some kv =>
    have hm := List.mem_of_find?_eq_some hf
    simp only [List.mem_reverse, List.mem_map] at hm
    obtain ⟨e', _, rfl⟩ := hm
    simp
  | none =>
    exfalso
    rw [List.find?_eq_none] at hf
    have := hf (e.code, some (errTypeName r)) (by simp only [List.mem_reverse, List.mem_map]; exact ⟨e, he, rfl⟩)
    simp at this

/-- value type: `(T, error)` documents `T`; a lone `error` documents no content -/
theorem valueType_cases (r : Route) :
    (r.responses.length ≤ 1 → valueTypeName r = none) ∧
    (∀ t e, r.responses = [t, e] → valueTypeName r = some t.name) := by
  constructor
  · intro h; simp [valueTypeName, h]
  · intro t e h; simp [valueTypeName, h]

/-! ### non-vacuity -/
example : isFieldRequired (appendRequired "gt=1".toList false false) = true := by decide +kernel
example : isFieldRequired (appendRequired "gt=1".toList true false) = false := by decide +kernel
example : isFieldRequired (appendRequired "notrequired".toList true false) = false := by decide +kernel


section Reduced
open Gleece.Reduce Gleece.Validate

/-- **C06 — requiredness after reduction**: for every written validator string, a reduced (non-context)
    parameter validates as required iff it is a non-pointer, a path parameter, or was written `required`. -/
theorem reduced_param_required (meth : List Annot) (p : MParam) (r : RParam) (a : Annot) (loc : PassedIn)
    (hctx : isContextType p.type = false)
    (ha : findFirstByValue meth p.name = some a) (hl : passedInOf meth p.name = some (.ok loc))
    (h : reduceParam meth p = some r) :
    ∃ written : String, isFieldRequired r.validator.toList =
      (!(p.type.startsWith "*") || decide (loc = .path) || isFieldRequired written.toList) := by
  unfold reduceParam at h
  simp only [hctx, Bool.false_eq_true, if_false, ha, hl] at h
  split at h
  · simp at h
  · simp only [Option.some.injEq] at h
    subst h
    refine ⟨strProp a "validate", ?_⟩
    simp only [mkParam, String.toList_ofList]
    exact required_rule _ _ _

end Reduced

end Gleece.IR
