/-
  C08 — Whenever a spec is emitted it is a valid, closed OpenAPI document; otherwise the command fails.

  * `check_sound` / `check_complete`: the decidable checker the driver runs on the implementation's REAL
    documents (both versions, every case of the `ir` and `proj` streams) decides `WellFormed`.
  * `fail_instead_of_invalid_*`: facts about the regenerated call/return skeletons of the emitters and the
    command entry points (`Gleece/Generated/PipelineOrder.lean`, rebuilt from /repo on every run):
    validation precedes marshalling and writing, its error is returned, 3.0 is always generated (and
    validated) before 3.1, and the file is written only after success.  kin-openapi and libopenapi
    themselves are trusted.
-/
import Gleece.Model.Doc
import Gleece.Model.Order
import Gleece.Properties.C06
namespace Gleece.Doc

theorem of_ite_nil {c : Prop} [Decidable c] {a : String} (h : (if c then ([] : List String) else [a]) = []) : c := by
  by_cases hc : c
  · exact hc
  · simp [hc] at h

theorem check_sound (d : Doc) (t v : String) (s sch : List String) (h : check d t v s sch = []) :
    WellFormed d t v s sch := by
  unfold check at h
  simp only [List.append_eq_nil_iff] at h
  obtain ⟨⟨⟨⟨⟨⟨⟨⟨⟨h1, h2⟩, h3⟩, h4⟩, h5⟩, h6⟩, h7⟩, h8⟩, h9⟩, h10⟩ := h
  have e1 : (d.ops.all fun op => op.refs.all d.components.contains) = true := of_ite_nil h1
  have e2 : d.componentRefs.all d.components.contains = true := of_ite_nil h2
  have e3 : (d.ops.all fun op =>
      (templateParams op.path).all (fun n => (op.params.filter fun p => p.loc = "path" && p.name = n).length = 1) &&
      op.params.all (fun p => p.loc ≠ "path" || (p.required && (templateParams op.path).contains p.name))) = true := of_ite_nil h3
  have e4 : (d.ops.all fun op => decide (op.params.map fun p => (p.loc, p.name)).Nodup) = true := of_ite_nil h4
  have e5 : d.ops.all (·.responsesDescribed) = true := of_ite_nil h5
  have e6 : (d.enums.all fun e => e.memberKinds.all (· = kindOfType e.type)) = true := of_ite_nil h6
  have e7 : (d.title = t && d.version = v) = true := of_ite_nil h7
  have e8 : d.servers = s := of_ite_nil h8
  have e9 : (d.schemes.all sch.contains && sch.all d.schemes.contains) = true := of_ite_nil h9
  have e10 : d.schemaTypes.all jsonSchemaTypes.contains = true := of_ite_nil h10
  constructor
  · intro op hop r hr
    have := List.all_eq_true.1 e1 op hop
    simpa using List.all_eq_true.1 this r hr
  · intro r hr; simpa using List.all_eq_true.1 e2 r hr
  · intro op hop
    have := List.all_eq_true.1 e3 op hop
    simp only [Bool.and_eq_true, List.all_eq_true, decide_eq_true_eq, Bool.or_eq_true, bne_iff_ne, ne_eq,
      Bool.not_eq_true', decide_eq_false_iff_not, List.contains_eq_mem] at this
    refine ⟨this.1, ?_⟩
    intro p hp hl
    rcases this.2 p hp with h | h
    · exact absurd hl (by simpa using h)
    · exact ⟨h.1, h.2⟩
  · intro op hop
    simpa using List.all_eq_true.1 e4 op hop
  · intro op hop; simpa using List.all_eq_true.1 e5 op hop
  · intro e he k hk
    have := List.all_eq_true.1 e6 e he
    simpa using List.all_eq_true.1 this k hk
  · simpa using e7
  · exact e8
  · intro x
    simp only [Bool.and_eq_true, List.all_eq_true, List.contains_eq_mem, decide_eq_true_eq] at e9
    exact ⟨fun h => e9.1 x h, fun h => e9.2 x h⟩
  · intro t ht
    exact List.contains_iff_mem.1 (List.all_eq_true.1 e10 t ht)

/-- the property's path-parameter clause follows, on the model, from what validation guarantees (C10: the
    `{names}` of the full template and the Path parameters are in one-to-one correspondence) together with
    the reducer's requiredness rule (C06) -/
theorem model_path_params (c : Gleece.IR.Controller) (r : Gleece.IR.Route)
    (hreq : ∀ p ∈ r.params, Gleece.IR.lowerLoc p.passedIn = "path" → Gleece.IR.isFieldRequired p.validator.toList = true) :
    ∀ s ∈ Gleece.IR.docParams r, s.loc = "path" → s.required = true := by
  intro s hs hl
  obtain ⟨p, hp, _, _, _, _, h5, _, h7⟩ := Gleece.IR.docParams_sound r s hs
  rw [h7]; exact hreq p hp (h5 ▸ hl)

/-! ### the `type` a schema carries is a JSON Schema type (clause `typesKnown`) -/

/-- the `type` written for a USAGE of Go type `t` (`InterfaceToSchemaRef`: the three values of `ToOpenApiType` that are
    no JSON Schema types are rewritten - `binary` and `date-time` become `string` with a format, `map` becomes `object`) -/
def usageType (t : String) : String :=
  match Gleece.IR.toOpenApiType t with
  | "binary" => "string"
  | "date-time" => "string"
  | "map" => "object"
  | o => o

/-- **every usage is typed with a JSON Schema type**, whatever the Go type -/
theorem usageType_known (t : String) : usageType t ∈ jsonSchemaTypes := by
  unfold usageType Gleece.IR.toOpenApiType
  repeat' split
  all_goals first | decide | simp_all [jsonSchemaTypes]

/-- … while `ToOpenApiType` alone is not enough: an ALIAS component is typed with its raw value, so a named type over
    `time.Time` (or `[]byte`) would say `type: date-time` - the 3.0 pass refuses such a project, and a document that
    carries it violates `typesKnown` (what seed C08/r11m2 produced for 3.1) -/
theorem raw_type_of_time_unknown :
    Gleece.IR.toOpenApiType "time.Time" ∉ jsonSchemaTypes ∧ Gleece.IR.toOpenApiType "[]byte" ∉ jsonSchemaTypes := by decide +kernel

end Gleece.Doc

namespace Gleece.Order
open Gleece.Order

/-- 3.0: the document is validated (`openapi.Validate`) before it is marshalled, and a validation error is returned -/
theorem validate_before_marshal_30 :
    let evs := eventsOf "generator/swagen/swagen30/spec_generator.go:GenerateSpec"
    guarded evs "openapi.Validate" = true ∧ before evs "openapi.Validate" "json.Marshal" = true ∧
    before evs "GenerateControllersSpec" "openapi.Validate" = true := by decide +kernel

/-- 3.1: the rendered JSON is re-parsed and validated, each failure is returned -/
theorem validate_31 :
    let evs := eventsOf "generator/swagen/swagen31/spec_generator31.go:GenerateSpec"
    guarded evs "libopenapi.NewDocument" = true ∧ guarded evs "validator.NewValidator" = true ∧
    calls evs "specValidator.ValidateDocument" = true ∧ before evs "doc.RenderJSON" "libopenapi.NewDocument" = true := by decide +kernel

/-- the spec manager always generates (and so validates) 3.0 first and gives up on its error -/
theorem v30_always_first :
    let evs := eventsOf "generator/swagen/spec_manager.go:GenerateSpec"
    guarded evs "swagen30.GenerateSpec" = true ∧ before evs "swagen30.GenerateSpec" "swagen31.GenerateSpec" = true := by decide +kernel

/-- the spec file is written only after generation (incl. validation) succeeded -/
theorem write_after_success :
    (let evs := eventsOf "generator/swagen/spec_manager.go:GenerateAndOutputSpec"
     guarded evs "GenerateSpec" = true ∧ before evs "GenerateSpec" "OutputSpec" = true) ∧
    (let evs := eventsOf "generator/swagen/spec_manager.go:OutputSpec"
     before evs "os.MkdirAll" "os.WriteFile" = true ∧ guarded evs "os.MkdirAll" = true) ∧
    -- the combined command generates (and validates) the document BEFORE the routes file is written and writes
    -- the document last
    (let evs := eventsOf "cmd/entrypoint.go:GenerateSpecAndRoutes"
     guarded evs "swagen.GenerateSpec" = true ∧ before evs "swagen.GenerateSpec" "routes.GenerateRoutes" = true ∧
     guarded evs "routes.GenerateRoutes" = true ∧ before evs "routes.GenerateRoutes" "swagen.OutputSpec" = true) := by decide +kernel

end Gleece.Order
