/-
  C15 — Route-conflict detection flags exactly the overlapping same-verb routes.

  Property theorems only (helper lemmas: `Gleece/Lemmas/Paths*.lean`).  The model is
  `Gleece/Model/Paths.lean` (`findConflicts`), tied to `core/validators/paths/paths.go` by the
  differential correspondence check (mode `paths`).  All theorems quantify over every finite list of
  entries with pairwise distinct identities — any length, any verbs, any path text, duplicates included.
-/
import Gleece.Lemmas.PathsInv
namespace Gleece.Paths
open Gleece.Text

/-- identities handed out by `mkEntries` (positions in the input list) are pairwise distinct, so the
    hypotheses of the theorems below are met by every input the driver builds -/
theorem mkEntries_ids_nodup (l : List (String × String)) : ((mkEntries l).map (·.id)).Nodup := by
  have : (mkEntries l).map (·.id) = List.range' 0 l.length := by
    unfold mkEntries
    rw [List.map_map]
    have h : ((fun x : Entry => x.id) ∘ fun (x : (String × String) × Nat) => (⟨x.2, x.1.1, x.1.2⟩ : Entry))
        = Prod.snd := by funext x; rfl
    rw [h]
    simp [List.zipIdx_eq_zip_range', List.map_snd_zip]
  rw [this]
  exact List.nodup_range'

theorem mem_findConflicts {es : List Entry} {c : Conflict} :
    c ∈ findConflicts es ↔ c ∈ (es.foldl step {}).out := by
  unfold findConflicts
  exact (List.mergeSort_perm _ _).mem_iff

/-- **Soundness.** Every reported conflict names two distinct entries of the list that have the same
    verb and whose normalised templates can match a common concrete path. -/
theorem findConflicts_sound (es : List Entry) (hnd : (es.map (·.id)).Nodup) :
    ∀ c ∈ findConflicts es,
      c.a ∈ es ∧ c.b ∈ es ∧ c.a.id ≠ c.b.id ∧ c.a.verb = c.b.verb ∧
      patternsConflict c.a.segs c.b.segs = true := by
  intro c hc
  have inv := inv_foldl es [] {} inv_init (by simpa using hnd)
  simp only [List.nil_append] at inv
  exact inv.sound c (mem_findConflicts.1 hc)

/-- an entry is flagged when some reported conflict names it -/
def flagged (es : List Entry) (e : Entry) : Prop := ∃ c ∈ findConflicts es, c.a = e ∨ c.b = e

/-- **Completeness.** Every entry that overlaps some other same-verb entry is named in at least one
    reported conflict (so each offending method receives a warning). -/
theorem findConflicts_complete (es : List Entry) (hnd : (es.map (·.id)).Nodup) :
    ∀ e ∈ es, (∃ e' ∈ es, overlaps e e' = true) → flagged es e := by
  intro e he ⟨e', he', hov⟩
  have inv := inv_foldl es [] {} inv_init (by simpa using hnd)
  simp only [List.nil_append] at inv
  obtain ⟨c, hc, hi⟩ := inv.complete e he e' he' hov
  obtain ⟨ha, hb, _⟩ := inv.sound c hc
  refine ⟨c, mem_findConflicts.2 hc, ?_⟩
  rcases hi with h | h
  · exact Or.inl (eq_of_id_eq hnd ha he h)
  · exact Or.inr (eq_of_id_eq hnd hb he h)

/-- **Exactness**: an entry of the list is flagged iff it overlaps another same-verb entry. -/
theorem flagged_iff (es : List Entry) (hnd : (es.map (·.id)).Nodup) (e : Entry) (he : e ∈ es) :
    flagged es e ↔ ∃ e' ∈ es, overlaps e e' = true := by
  constructor
  · rintro ⟨c, hc, hi⟩
    obtain ⟨ha, hb, hid, hv, hpc⟩ := findConflicts_sound es hnd c hc
    rcases hi with h | h
    · subst h
      exact ⟨c.b, hb, (overlaps_iff _ _).2 ⟨hid, hv, hpc⟩⟩
    · subst h
      exact ⟨c.a, ha, (overlaps_iff _ _).2 ⟨fun h => hid h.symm, hv.symm, by rw [patternsConflict_comm]; exact hpc⟩⟩
  · exact findConflicts_complete es hnd e he

/-- **Order-independence.** The set of entries flagged does not depend on the order in which the
    routes were discovered: for every permutation of the list the same entries are flagged. -/
theorem flagged_perm (es es' : List Entry) (hp : es.Perm es') (hnd : (es.map (·.id)).Nodup) (e : Entry) :
    flagged es e ↔ flagged es' e := by
  have hnd' : (es'.map (·.id)).Nodup := (hp.map _).nodup_iff.1 hnd
  by_cases he : e ∈ es
  · have he' : e ∈ es' := hp.mem_iff.1 he
    rw [flagged_iff es hnd e he, flagged_iff es' hnd' e he']
    constructor <;> rintro ⟨x, hx, h⟩
    · exact ⟨x, hp.mem_iff.1 hx, h⟩
    · exact ⟨x, hp.mem_iff.2 hx, h⟩
  · have he' : e ∉ es' := fun h => he (hp.mem_iff.2 h)
    constructor <;> rintro ⟨c, hc, hi⟩
    · obtain ⟨ha, hb, _⟩ := findConflicts_sound es hnd c hc
      rcases hi with h | h <;> subst h <;> contradiction
    · obtain ⟨ha, hb, _⟩ := findConflicts_sound es' hnd' c hc
      rcases hi with h | h <;> subst h <;> contradiction

/-- The decidable checker the driver runs on the implementation's answer decides the soundness clause:
    every named pair consists of two overlapping entries of the list. -/
theorem specSound_iff (es : List Entry) (named : List (Nat × Nat)) :
    specSound es named = true ↔
      ∀ p ∈ named, ∃ a b, es.find? (·.id = p.1) = some a ∧ es.find? (·.id = p.2) = some b ∧ overlaps a b = true := by
  unfold specSound
  rw [List.all_eq_true]
  constructor
  · intro h p hp
    have := h p hp
    obtain ⟨i, j⟩ := p
    simp only at this ⊢
    split at this
    · rename_i a b ha hb; exact ⟨a, b, ha, hb, this⟩
    · simp at this
  · intro h p hp
    obtain ⟨a, b, ha, hb, hov⟩ := h p hp
    obtain ⟨i, j⟩ := p
    simp only at ha hb ⊢
    simp [ha, hb, hov]

/-- … and the completeness clause. -/
theorem specComplete_iff (es : List Entry) (named : List (Nat × Nat)) :
    specComplete es named = true ↔
      ∀ e ∈ es, (∃ e' ∈ es, overlaps e e' = true) → ∃ p ∈ named, p.1 = e.id ∨ p.2 = e.id := by
  unfold specComplete
  rw [List.all_eq_true]
  constructor
  · intro h e he ⟨e', he', hov⟩
    have := h e he
    simp only [Bool.or_eq_true, Bool.not_eq_true', List.any_eq_true, decide_eq_true_eq] at this
    rcases this with h1 | ⟨p, hp, h2⟩
    · have h3 : es.any (overlaps e) = true := List.any_eq_true.2 ⟨e', he', hov⟩
      rw [h1] at h3; exact absurd h3 (by simp)
    · exact ⟨p, hp, h2⟩
  · intro h e he
    simp only [Bool.or_eq_true, Bool.not_eq_true', List.any_eq_true, decide_eq_true_eq]
    by_cases hex : ∃ e' ∈ es, overlaps e e' = true
    · obtain ⟨p, hp, h2⟩ := h e he hex
      exact Or.inr ⟨p, hp, h2⟩
    · left
      cases hany : es.any (overlaps e) with
      | false => rfl
      | true => exact absurd (List.any_eq_true.1 hany) hex

/-! ### `normalizePath`: the `for strings.Contains(p, "//")` loop terminates (it is a total Lean
    function by the decreasing-length argument in the model) and leaves no doubled slash. -/

theorem hasDD_collapse (p : Str) : hasDD (collapse p) = false := by
  fun_induction collapse p with
  | case1 p h ih => exact ih
  | case2 p h => simpa using h

/-! ### non-vacuity: concrete lists meeting the hypotheses, with a non-trivial verdict -/

private def ex1 : List Entry := mkEntries [("GET", "/a/{x}"), ("GET", "/a/b"), ("POST", "/a/b")]
example : (ex1.map (·.id)).Nodup := mkEntries_ids_nodup _
example : (findConflicts ex1).map (fun c => (c.a.id, c.b.id)) = [(1, 0)] := by decide +kernel
example : ex1.any (fun e => ex1.any (overlaps e)) = true := by decide +kernel
/-- the witness of the repaired defect (F-15a): every one of the five entries is now named -/
example : let es := mkEntries [("GET", "/a"), ("GET", "/a"), ("GET", "/a"), ("POST", "/a"), ("POST", "/a")]
    specComplete es (((es.foldl step {}).out).map fun c => (c.a.id, c.b.id)) = true := by decide +kernel

end Gleece.Paths
