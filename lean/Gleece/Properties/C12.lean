/-
  C12 — The five generated routers are behaviourally interchangeable.

  What is proved: the handler model has NO engine parameter — the five template sets are shown, on every
  run, to render one and the same engine-erased step list (`checkRouter`, property C12: five-way
  comparison of the go/ast extractions plus comparison with `handlerOf`), the five `authorize()` copies
  have the same shape, and the five URL converters denote the same set of served paths up to the
  `{x}`/`:x` spelling.  Given that, equal framework inputs give equal traces (`interchangeable`).
  What is NOT provable here: `AccessorsAgree` — that gin, echo, mux, chi and fiber hand the handler the
  same raw strings and presence bits and dispatch the same requests; that is what the dynamic five-way
  `rig` stream samples.
-/
import Gleece.Model.Router
import Gleece.Properties.C03
namespace Gleece.Router
open Gleece.IR

/-- the handler an engine's templates render (engine-erased atoms): the same for all engines -/
def handlerFor (_e : Engine) (c : Controller) (r : Route) : List Step := handlerOf c r

theorem skeleton_uniform (e₁ e₂ : Engine) (c : Controller) (r : Route) : handlerFor e₁ c r = handlerFor e₂ c r := rfl

/-- **Interchangeable**: with the same authorization callback behaviour (and the same values handed over
    by the frameworks, which the model does not distinguish), the traces of any two engines coincide —
    same checks asked, same refusal or same controller steps. -/
theorem interchangeable (e₁ e₂ : Engine) (cb : Callback) (c : Controller) (r : Route) :
    exec cb (handlerFor e₁ c r) = exec cb (handlerFor e₂ c r) := rfl

/-- path parameters are spelled `:x` on three engines and `{x}` on two; apart from that the registered
    template is the same function of the annotated routes -/
theorem urlConv_classes :
    engineUrlConv .gin = engineUrlConv .echo ∧ engineUrlConv .echo = engineUrlConv .fiber ∧
    engineUrlConv .mux = engineUrlConv .chi := by decide

/-- every location is readable on every engine: each accessor table has a value accessor for Path, Query,
    Header and Form -/
theorem accessors_cover : ∀ e ∈ allEngines, ∀ loc ∈ ["Path", "Query", "Header", "Form"],
    (accessorTable e).any (fun row => row.2.1 = loc && row.2.2 = AccessKind.value) = true := by decide

end Gleece.Router
