/-
  C12 — The five generated routers are behaviourally interchangeable.

  What is proved: the handler model has NO engine parameter — the five template sets are shown, on every
  run, to render one and the same engine-erased step list (`checkRouter`, property C12: five-way
  comparison of the go/ast extractions plus comparison with `handlerOf`), the five `authorize()` copies
  have the same shape, and the five URL converters denote the same set of served paths up to the
  `{x}`/`:x` spelling.  Given that, equal framework inputs give equal outcomes
  (`Serve.interchangeable_of_accessors_agree`).
  What is NOT provable here: `AccessorsAgree` — that gin, echo, mux, chi and fiber hand the handler the
  same raw strings and presence bits and dispatch the same requests; that is what the dynamic five-way
  `rig` stream samples.
-/
import Gleece.Model.Router
import Gleece.Properties.C03
namespace Gleece.Router
open Gleece.IR

/- The handler skeleton has no engine parameter in this model (`handlerOf c r`): that all five template sets
   render it is NOT a Lean statement — it is the five-way comparison of the go/ast extractions of the rendered
   files with each other and with `handlerOf` (`checkRouter`, property C12) on every run.  The Lean content of
   "interchangeable" is `Serve.interchangeable_of_accessors_agree` (Properties/Serve.lean): the outcome of a
   request is ONE function of the authorization callback and of what the framework hands over; two engines
   that deliver the same raw values for a route's parameters answer identically, for every callback. -/

/-- path parameters are spelled `:x` on three engines and `{x}` on two; apart from that the registered
    template is the same function of the annotated routes -/
theorem urlConv_classes :
    engineUrlConv .gin = engineUrlConv .echo ∧ engineUrlConv .echo = engineUrlConv .fiber ∧
    engineUrlConv .mux = engineUrlConv .chi := by decide

/-- every location is readable on every engine: each accessor table has a value accessor for Path, Query,
    Header and Form -/
theorem accessors_cover : ∀ e ∈ allEngines, ∀ loc ∈ ["Path", "Query", "Header", "Form"],
    (accessorTable e).any (fun row => row.2.1 = loc && row.2.2 = AccessKind.value) = true := by decide

end Gleece.Router
