/-
  Cross-layer theorems (C10 × C06 × C08): what the validators accept, the reducer turns into path parameters that
  match the route template.

  `Validate.linkValidate` / `commonValidate` (the validators), `Reduce.reduceRoute` (the reducer) and the url
  template are three separately modelled pieces of code, each tied to the implementation by its own correspondence
  stream.  The theorems here connect them: for an ACCEPTED route the path parameters the emitters and the router
  templates receive are, one to one, the `{names}` of the full template.  Proving this is what exposed findings
  C10-F4 and C10-F5; the hypothesis that remains (`hF2`) is exactly the open finding C10-F2.
-/
import Gleece.Model.Reduce
import Gleece.Lemmas.Validate
import Gleece.Lemmas.Common
import Gleece.Properties.C10
import Gleece.Properties.C06
import Gleece.Lemmas.Squeeze
namespace Gleece.Link
open Gleece.Validate Gleece.Reduce Gleece.IR

def bindingLower : List String := ["query", "header", "path", "body", "formfield"]
def bindingNames : List String := ["Query", "Header", "Path", "Body", "FormField"]

/-- a fact about the REGENERATED annotation table: an annotation the table knows and whose lower-cased name is a
    binding kind is spelled exactly like that kind, and the table demands a unique value for it -/
theorem binding_rows :
    (Gleece.Generated.annotTable.all fun row =>
      !(bindingLower.contains row.1.toLower) || (bindingNames.contains row.1 && row.2.2.2.2.2.2.2)) = true := by
  decide +kernel

theorem path_only_spelling : (bindingNames.all fun n => !(n.toLower == "path") || n == "Path") = true := by decide +kernel

theorem lookup_binding (a : Annot) (hk : (lookupDef a.name).isSome = true) (hb : bindingLower.contains a.name.toLower = true) :
    bindingNames.contains a.name = true ∧ requiresUnique a = true := by
  unfold requiresUnique
  unfold lookupDef at hk ⊢
  cases hf : Gleece.Generated.annotTable.find? (·.1 = a.name) with
  | none => rw [hf] at hk; simp at hk
  | some row =>
    have hmem := List.mem_of_find?_eq_some hf
    have hp := List.find?_some hf
    have hname : row.1 = a.name := by simpa using hp
    have hrow := (List.all_eq_true.1 binding_rows) row hmem
    rw [hname, hb] at hrow
    simp only [Bool.not_true, Bool.false_or, Bool.and_eq_true] at hrow
    obtain ⟨r1, r2⟩ := hrow
    refine ⟨r1, ?_⟩
    obtain ⟨n, c, rv, ap, props, multi, excl, uniq⟩ := row
    simpa using r2

def isBindingLower (a : Annot) : Bool := bindingLower.contains a.name.toLower

theorem findFirstByValue_eq (attrs : List Annot) (v : String) :
    findFirstByValue attrs v = attrs.find? fun a => a.value = v && isBindingLower a := rfl

/-- in an error-free annotation list a binding annotation is THE annotation its parameter is bound by -/
theorem findFirst_of_mem (attrs : List Annot) (hc : hasError (commonValidate "route" attrs) = false)
    (a : Annot) (ha : a ∈ attrs) (hb : isBindingLower a = true) (hv : a.value.isEmpty = false) :
    findFirstByValue attrs a.value = some a := by
  obtain ⟨hknown, huniq⟩ := commonValidate_go_noerr "route" attrs [] [] hc
  obtain ⟨pre, post, hsplit⟩ := List.append_of_mem ha
  have hreq := (lookup_binding a (hknown a ha) hb).2
  obtain ⟨_, hpre⟩ := huniq pre a post hsplit hreq hv
  rw [findFirstByValue_eq, hsplit, List.find?_append]
  have hnone : pre.find? (fun x => x.value = a.value && isBindingLower x) = none := by
    rw [List.find?_eq_none]
    intro b hbm
    simp [hpre b hbm]
  rw [hnone]
  simp [List.find?_cons, hb]

/-- the reducer's wire name of a parameter bound by `a` is the URL name the validator links `a` by -/
theorem wireName_eq_urlName (a : Annot) (hbad : propBad a "name" = false) : wireName a a.value = urlName a := by
  unfold wireName strProp urlName aliasOf propBad at *
  cases hf : a.props.find? (·.1 = "name") with
  | none => simp
  | some kv =>
    obtain ⟨k, kind, v⟩ := kv
    rw [hf] at hbad
    have hk : kind = PropKind.str := by
      cases kind <;> simp_all
    subst hk
    simp

theorem reduceRoute_params (parent : Security) (m : Method) (rr : RRoute) (h : reduceRoute parent m = some rr) :
    (∀ p ∈ m.params, ∃ rp, reduceParam m.annots p = some rp ∧ rp ∈ rr.params) ∧
    (∀ rp ∈ rr.params, ∃ p ∈ m.params, reduceParam m.annots p = some rp) := by
  unfold reduceRoute at h
  simp only at h
  split at h
  · cases h
  · rename_i hany
    simp only [Option.some.injEq] at h
    subst h
    simp only
    constructor
    · intro p hp
      cases hr : reduceParam m.annots p with
      | none =>
        exfalso; apply hany
        simp only [List.any_map, List.any_eq_true]
        exact ⟨p, hp, by simp [hr]⟩
      | some rp =>
        refine ⟨rp, rfl, ?_⟩
        simp only [List.mem_filterMap, List.mem_map, id]
        exact ⟨some rp, ⟨p, hp, hr⟩, rfl⟩
    · intro rp hrp
      simp only [List.mem_filterMap, List.mem_map, id] at hrp
      obtain ⟨o, ⟨p, hp, hpo⟩, ho⟩ := hrp
      subst ho
      exact ⟨p, hp, hpo⟩

/-- **every @Path becomes a path parameter under its URL name.**  For an accepted route (no error from the common
    validator, nothing from the link validator) that the reducer accepts, each `@Path` annotation yields a reduced parameter located in the path, named by the annotation's URL name. -/
theorem path_annotation_reduced (ctrlRoute : String) (parent : Security) (m : Method) (rr : RRoute)
    (hc : hasError (commonValidate "route" m.annots) = false)
    (hl : linkValidate ctrlRoute m = [])
    (hr : reduceRoute parent m = some rr)
    (a : Annot) (ha : a ∈ m.annots.filter (·.name = "Path")) (hv : a.value.isEmpty = false) :
    ∃ rp ∈ rr.params, rp.name = a.value ∧ rp.passedIn = "path" ∧ rp.nameInSchema = urlName a := by
  have ham := (List.mem_filter.1 ha).1
  have hname : a.name = "Path" := by simpa using (List.mem_filter.1 ha).2
  have hb : isBindingLower a = true := by unfold isBindingLower; rw [hname]; decide +kernel
  have hff := findFirst_of_mem m.annots hc a ham hb hv
  -- the @Path names a parameter
  have hparts := linkValidate_nil_parts ctrlRoute m hl
  have hfp : ((m.params.filter fun p => !isContextType p.type).map (·.name)).contains a.value = true := (hparts.2.1 a ha).1
  have hmem : a.value ∈ (m.params.filter fun p => !isContextType p.type).map (·.name) := List.contains_iff_mem.1 hfp
  obtain ⟨p, hpf, hpn⟩ := List.mem_map.1 hmem
  have hp := (List.mem_filter.1 hpf).1
  have hnc : isContextType p.type = false := by simpa using (List.mem_filter.1 hpf).2
  obtain ⟨rp, hrp, hrpm⟩ := (reduceRoute_params parent m rr hr).1 p hp
  refine ⟨rp, hrpm, ?_⟩
  unfold reduceParam at hrp
  simp only [hnc, Bool.false_eq_true, if_false] at hrp
  unfold passedInOf at hrp
  rw [hpn, hff] at hrp
  simp only [Option.map_some] at hrp
  have hlow : a.name.toLower = "path" := by rw [hname]; decide +kernel
  rw [hlow] at hrp
  simp only at hrp
  split at hrp
  · cases hrp
  · rename_i hbad
    simp only [Option.some.injEq] at hrp
    subst hrp
    have hb1 : propBad a "name" = false := by
      cases h1 : propBad a "name" with
      | false => rfl
      | true => simp [h1] at hbad
    refine ⟨hpn, rfl, ?_⟩
    show wireName a p.name = urlName a
    rw [hpn]; exact wireName_eq_urlName a hb1

/-- **every reduced path parameter comes from a @Path.** -/
theorem reduced_path_has_annotation (parent : Security) (m : Method) (rr : RRoute)
    (hc : hasError (commonValidate "route" m.annots) = false)
    (hr : reduceRoute parent m = some rr)
    (rp : RParam) (hrp : rp ∈ rr.params) (hpath : rp.passedIn = "path") :
    ∃ a ∈ m.annots.filter (·.name = "Path"), a.value = rp.name ∧ rp.nameInSchema = urlName a := by
  obtain ⟨p, hp, hred⟩ := (reduceRoute_params parent m rr hr).2 rp hrp
  unfold reduceParam at hred
  by_cases hctx : isContextType p.type = true
  · simp only [hctx, if_true, Option.some.injEq] at hred
    subst hred
    simp at hpath
  · simp only [hctx, Bool.false_eq_true, if_false] at hred
    cases hff : findFirstByValue m.annots p.name with
    | none => rw [hff] at hred; simp at hred
    | some a =>
      unfold passedInOf at hred
      rw [hff] at hred
      simp only [Option.map_some] at hred
      have hfind := hff
      rw [findFirstByValue_eq] at hfind
      have ham := List.mem_of_find?_eq_some hfind
      have hpred := List.find?_some hfind
      simp only [Bool.and_eq_true, decide_eq_true_eq] at hpred
      obtain ⟨hval, hbl⟩ := hpred
      obtain ⟨hknown, _⟩ := commonValidate_go_noerr "route" m.annots [] [] hc
      have hnm := (lookup_binding a (hknown a ham) hbl).1
      split at hred
      · rename_i a' loc heq1 heq2
        have ha' : a' = a := by simpa using heq1.symm
        subst ha'
        split at hred
        · cases hred
        · rename_i hbad
          simp only [Option.some.injEq] at hred
          subst hred
          have hloc : loc = PassedIn.path := by
            cases loc <;> first | rfl | (exfalso; revert hpath; simp [mkParam, passedInName])
          subst hloc
          -- the annotation is spelled `Path`: it is one of the five binding names, and the only one that maps to `path`
          have hname : a'.name = "Path" := by
            have hcases : a'.name = "Query" ∨ a'.name = "Header" ∨ a'.name = "Path" ∨ a'.name = "Body" ∨ a'.name = "FormField" := by
              simpa [bindingNames] using hnm
            rcases hcases with h | h | h | h | h
            · exfalso; rw [h] at heq2
              have hl : "Query".toLower = "query" := by decide +kernel
              rw [hl] at heq2; simp at heq2
            · exfalso; rw [h] at heq2
              have hl : "Header".toLower = "header" := by decide +kernel
              rw [hl] at heq2; simp at heq2
            · exact h
            · exfalso; rw [h] at heq2
              have hl : "Body".toLower = "body" := by decide +kernel
              rw [hl] at heq2; simp at heq2
            · exfalso; rw [h] at heq2
              have hl : "FormField".toLower = "formfield" := by decide +kernel
              rw [hl] at heq2; simp at heq2
          have hb1 : propBad a' "name" = false := by
            cases h1 : propBad a' "name" with
            | false => rfl
            | true => simp [h1] at hbad
          refine ⟨a', List.mem_filter.2 ⟨ham, by simp [hname]⟩, hval, ?_⟩
          show wireName a' p.name = urlName a'
          rw [← hval]; exact wireName_eq_urlName a' hb1
      · cases hred

/-- a reduced parameter keeps the Go name of the parameter it was reduced from -/
theorem reduceParam_name (meth : List Annot) (p : MParam) (rp : RParam) (h : reduceParam meth p = some rp) : rp.name = p.name := by
  unfold reduceParam at h
  split at h
  · simp only [Option.some.injEq] at h; subst h; rfl
  · split at h
    · split at h
      · cases h
      · simp only [Option.some.injEq] at h; subst h; rfl
    · cases h

theorem filterMap_names (meth : List Annot) (l : List MParam) (h : ∀ p ∈ l, (reduceParam meth p).isSome = true) :
    ((l.map (reduceParam meth)).filterMap id).map (·.name) = l.map (·.name) := by
  induction l with
  | nil => rfl
  | cons p rest ih =>
    have hp := h p (by simp)
    cases hr : reduceParam meth p with
    | none => rw [hr] at hp; simp at hp
    | some rp =>
      simp only [List.map_cons, hr, List.filterMap_cons, id, List.cons.injEq]
      exact ⟨reduceParam_name meth p rp hr, ih (fun q hq => h q (by simp [hq]))⟩

/-- the reduced parameters carry the parameter names of the signature, in signature order -/
theorem reduceRoute_names (parent : Security) (m : Method) (rr : RRoute) (h : reduceRoute parent m = some rr) :
    rr.params.map (·.name) = m.params.map (·.name) := by
  have hall := (reduceRoute_params parent m rr h).1
  unfold reduceRoute at h
  simp only at h
  split at h
  · cases h
  · simp only [Option.some.injEq] at h
    subst h
    exact filterMap_names m.annots m.params (fun p hp => by obtain ⟨rp, hrp, _⟩ := hall p hp; simp [hrp])

theorem nodup_map_of_nodup_map {α β γ : Type} {l : List α} {f : α → β} {g : α → γ} (hg : (l.map g).Nodup)
    (h : ∀ x ∈ l, ∀ y ∈ l, f x = f y → g x = g y) : (l.map f).Nodup := by
  induction l with
  | nil => simp
  | cons a rest ih =>
    rw [List.map_cons, List.nodup_cons] at hg ⊢
    refine ⟨?_, ih hg.2 (fun x hx y hy => h x (by simp [hx]) y (by simp [hy]))⟩
    intro hm
    obtain ⟨y, hy, hfy⟩ := List.mem_map.1 hm
    apply hg.1
    have := h y (by simp [hy]) a (by simp) hfy
    exact List.mem_map.2 ⟨y, hy, this⟩

theorem inj_of_nodup_map {α β : Type} {l : List α} {f : α → β} (h : (l.map f).Nodup) :
    ∀ x ∈ l, ∀ y ∈ l, f x = f y → x = y := by
  induction l with
  | nil => simp
  | cons a rest ih =>
    rw [List.map_cons, List.nodup_cons] at h
    intro x hx y hy hxy
    rcases List.mem_cons.1 hx with rfl | hx' <;> rcases List.mem_cons.1 hy with rfl | hy'
    · rfl
    · exfalso; exact h.1 (List.mem_map.2 ⟨y, hy', hxy.symm⟩)
    · exfalso; exact h.1 (List.mem_map.2 ⟨x, hx', hxy⟩)
    · exact ih h.2 x hx' y hy' hxy

/-- a path parameter is always validated as required (C06's rule, after reduction) -/
theorem reduced_path_required (parent : Security) (m : Method) (rr : RRoute) (hr : reduceRoute parent m = some rr)
    (rp : RParam) (hrp : rp ∈ rr.params) (hpath : rp.passedIn = "path") : isFieldRequired rp.validator.toList = true := by
  obtain ⟨p, _, hred⟩ := (reduceRoute_params parent m rr hr).2 rp hrp
  unfold reduceParam at hred
  split at hred
  · simp only [Option.some.injEq] at hred; subst hred; simp at hpath
  · split at hred
    · rename_i a loc _ _
      split at hred
      · cases hred
      · simp only [Option.some.injEq] at hred
        subst hred
        have hloc : loc = PassedIn.path := by
          cases loc <;> first | rfl | (exfalso; revert hpath; simp [mkParam, passedInName])
        subst hloc
        simp only [mkParam, String.toList_ofList]
        rw [required_rule]
        simp
    · cases hred

/-- **C08 × C10, the path-parameter clause.**  For a route the validators accept and the reducer reduces: the
    parameters documented and bound in the path are pairwise distinct by wire name, every `{name}` of the full
    template (controller prefix + method route) is the wire name of one of them, each of them is required, and -
    under the hypothesis the validator does not establish (finding C10-F2) - each of them names a `{name}`.
    Hypotheses about Go itself: parameter names are non-empty and pairwise distinct.  (That no @Path binds the request
    context used to be a third hypothesis; the validator establishes it since the fix for C10-F6.) -/
theorem accepted_route_path_params_partial (ctrlRoute : String) (parent : Security) (m : Method) (rr : RRoute)
    (hc : hasError (commonValidate "route" m.annots) = false)
    (hl : linkValidate ctrlRoute m = [])
    (hr : reduceRoute parent m = some rr)
    (hnd : (m.params.map (·.name)).Nodup) (hne : ∀ p ∈ m.params, p.name.isEmpty = false)
    (hF2 : ∀ a ∈ m.annots.filter (·.name = "Path"), (∀ al, aliasOf a = .ok al → al = "") →
        a.value ∈ extractUrlParams (ctrlRoute ++ ((m.annots.filter (·.name = "Route")).head?.map (·.value)).getD "")) :
    let urlParams := extractUrlParams (ctrlRoute ++ ((m.annots.filter (·.name = "Route")).head?.map (·.value)).getD "")
    let pathParams := rr.params.filter (·.passedIn = "path")
    (pathParams.map (·.nameInSchema)).Nodup ∧
    (∀ n ∈ urlParams, n ≠ "" → n ∈ pathParams.map (·.nameInSchema)) ∧
    (∀ rp ∈ pathParams, rp.nameInSchema ∈ urlParams ∧ isFieldRequired rp.validator.toList = true) := by
  intro urlParams pathParams
  obtain ⟨_, hnames, hcover, hback⟩ := link_bijection_partial ctrlRoute m hl hF2
  have hparts := linkValidate_nil_parts ctrlRoute m hl
  -- every @Path value is a parameter name, hence non-empty
  have hval : ∀ a ∈ m.annots.filter (·.name = "Path"), a.value.isEmpty = false := by
    intro a ha
    have hfp : ((m.params.filter fun p => !isContextType p.type).map (·.name)).contains a.value = true := (hparts.2.1 a ha).1
    have hmem : a.value ∈ (m.params.filter fun p => !isContextType p.type).map (·.name) := List.contains_iff_mem.1 hfp
    obtain ⟨p, hpf, hpn⟩ := List.mem_map.1 hmem
    rw [← hpn]; exact hne p (List.mem_filter.1 hpf).1
  refine ⟨?_, ?_, ?_⟩
  · -- distinct wire names: equal wire names ⇒ same @Path ⇒ same Go name
    have hg : (pathParams.map (·.name)).Nodup := by
      have hsub : (pathParams.map (·.name)).Sublist (rr.params.map (·.name)) := (List.filter_sublist).map _
      rw [reduceRoute_names parent m rr hr] at hsub
      exact hsub.nodup hnd
    apply nodup_map_of_nodup_map hg
    intro x hx y hy hxy
    have hx' := List.mem_filter.1 hx
    have hy' := List.mem_filter.1 hy
    obtain ⟨a, ha, hav, han⟩ := reduced_path_has_annotation parent m rr hc hr x hx'.1 (by simpa using hx'.2)
    obtain ⟨b, hb, hbv, hbn⟩ := reduced_path_has_annotation parent m rr hc hr y hy'.1 (by simpa using hy'.2)
    have hab : a = b := inj_of_nodup_map hnames a ha b hb (by rw [← han, ← hbn]; exact hxy)
    rw [← hav, ← hbv, hab]
  · intro n hn hne'
    have := hcover n hn hne'
    obtain ⟨a, ha, han⟩ := List.mem_map.1 this
    obtain ⟨rp, hrp, _, hp, hnm⟩ := path_annotation_reduced ctrlRoute parent m rr hc hl hr a ha (hval a ha)
    exact List.mem_map.2 ⟨rp, List.mem_filter.2 ⟨hrp, by simp [hp]⟩, by rw [hnm, han]⟩
  · intro rp hrp
    have hrp' := List.mem_filter.1 hrp
    have hpath : rp.passedIn = "path" := by simpa using hrp'.2
    obtain ⟨a, ha, _, han⟩ := reduced_path_has_annotation parent m rr hc hr rp hrp'.1 hpath
    refine ⟨?_, reduced_path_required parent m rr hr rp hrp'.1 hpath⟩
    rw [han]
    exact hback _ (List.mem_map.2 ⟨a, ha, rfl⟩)

theorem reduceRoute_path (parent : Security) (m : Method) (rr : RRoute) (h : reduceRoute parent m = some rr) :
    rr.path = ((m.annots.filter (·.name = "Route")).head?.map (·.value)).getD "" := by
  unfold reduceRoute at h
  simp only at h
  split at h
  · cases h
  · simp only [Option.some.injEq] at h
    subst h
    simp only [firstValueOrEmpty, getFirst, List.head?_filter]

/-- **from the source to the document** (C08's path-parameter clause, C10 × C06 × C08): for a route the validators
    accept and the reducer reduces, the path the emitters document - `RemoveDuplicateSlash (controller prefix ++ method
    route)` - and the path parameters they document match: every `{name}` of the documented path is the wire name of a
    (required) path parameter, wire names are pairwise distinct, and (under `hF2` = finding C10-F2) every path
    parameter names a `{name}` of the documented path.  `hslash`: no `{name}` contains a slash. -/
theorem accepted_route_document_closed_partial (ctrlRoute : String) (parent : Security) (m : Method) (rr : RRoute)
    (hc : hasError (commonValidate "route" m.annots) = false)
    (hl : linkValidate ctrlRoute m = [])
    (hr : reduceRoute parent m = some rr)
    (hnd : (m.params.map (·.name)).Nodup) (hne : ∀ p ∈ m.params, p.name.isEmpty = false)
    (hslash : ∀ n ∈ Gleece.Doc.templateParams (ctrlRoute ++ rr.path), Gleece.Doc.slashFree n)
    (hF2 : ∀ a ∈ m.annots.filter (·.name = "Path"), (∀ al, aliasOf a = .ok al → al = "") →
        a.value ∈ Gleece.Doc.templateParams (ctrlRoute ++ rr.path)) :
    let documented := Gleece.Doc.templateParams (normPath (ctrlRoute ++ rr.path))
    let pathParams := rr.params.filter (·.passedIn = "path")
    (pathParams.map (·.nameInSchema)).Nodup ∧
    (∀ n ∈ documented, n ≠ "" → n ∈ pathParams.map (·.nameInSchema)) ∧
    (∀ rp ∈ pathParams, rp.nameInSchema ∈ documented ∧ isFieldRequired rp.validator.toList = true) := by
  intro documented pathParams
  have hpath := reduceRoute_path parent m rr hr
  have hdoc : documented = Gleece.Doc.templateParams (ctrlRoute ++ rr.path) := Gleece.Doc.templateParams_normPath _ hslash
  rw [hdoc]
  rw [hpath] at hF2 ⊢
  exact accepted_route_path_params_partial ctrlRoute parent m rr hc hl hr hnd hne hF2

/-- non-vacuity: a concrete accepted route with a prefix parameter, an aliased and an un-aliased @Path, a query
    parameter and the request context meets every hypothesis, and reduces -/
example :
    let m : Method := { name := "Get", annots := [⟨"Method", "GET", [], ""⟩, ⟨"Route", "/{id}/x/{k}", [], ""⟩,
                          ⟨"Path", "tenant", [], ""⟩, ⟨"Path", "id", [], ""⟩, ⟨"Path", "key", [("name", .str, "k")], ""⟩,
                          ⟨"Query", "q", [], ""⟩],
                        params := [⟨"ctx", "context.Context"⟩, ⟨"tenant", "string"⟩, ⟨"id", "int"⟩, ⟨"key", "string"⟩, ⟨"q", "*string"⟩],
                        results := ["error"] }
    hasError (commonValidate "route" m.annots) = false ∧ linkValidate "/t/{tenant}" m = [] ∧
    (reduceRoute [] m).isSome = true ∧
    (((reduceRoute [] m).map fun rr => (rr.params.filter (·.passedIn = "path")).map (·.nameInSchema)) = some ["tenant", "id", "k"]) := by
  decide +kernel

end Gleece.Link
