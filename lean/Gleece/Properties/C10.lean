/-
  C10 — Validation accepts exactly the well-linked routes, else blocks all output.

  Model: `Gleece/Model/Validate.lean` — the common validator interpreting the annotation table
  regenerated from `configuration.go`, the receiver validator, the link validator.  Tie: the `proj`
  stream prints generated projects (well-formed ones and every single / double perturbation of
  annotations and signatures) as real Go source, runs the real `pipeline.Validate()` and compares the
  multiset of (controller, receiver, code, severity) with the model's; the property's own definition
  `wellLinked` is evaluated against the implementation's verdict for every route.

  PROVED (soundness direction, clause by clause, for every method, any annotations / parameters /
  results): a receiver whose link / return / parameter checks report nothing returns `error` or
  `(T, error)`, every @Path / binding annotation references a parameter, every non-context parameter is
  referenced, every `{name}` of the method route has a @Path binding, every @Path alias names a `{name}`
  of the method route, no @Path alias is malformed, and there is never a second body or a body next to
  form fields.
  NOT implied by the code (finding C10-F2, hence a hypothesis of any stronger statement): `{names}` of
  the CONTROLLER prefix are never linked, and a @Path without alias whose name is not in the route is
  never reported.  The converse direction (well-linked ⇒ accepted) is evaluated on every generated
  route, not proved.  `blocks` is decided on the regenerated call skeletons.
-/
import Gleece.Lemmas.Validate
import Gleece.Model.Order
namespace Gleece.Validate
open Gleece.IR

/-- **Returns**: accepted ⇒ `error` or `(T, error)` with an error last (no user type embeds error here) -/
theorem returns_sound (m : Method) (h : validateReturns [] m = []) :
    (∃ e, m.results = [e] ∧ isErrorType e = true) ∨ (∃ t e, m.results = [t, e] ∧ isErrorType e = true) := by
  unfold validateReturns at h
  cases hres : m.results with
  | nil => rw [hres] at h; simp at h
  | cons x xs =>
    cases xs with
    | nil =>
      rw [hres] at h
      left
      refine ⟨x, rfl, ?_⟩
      cases he : isErrorType x with
      | true => rfl
      | false => simp [he] at h
    | cons y ys =>
      cases ys with
      | nil =>
        rw [hres] at h
        right
        refine ⟨x, y, rfl, ?_⟩
        cases he : isErrorType y with
        | true => rfl
        | false => simp [he] at h
      | cons z zs => rw [hres] at h; simp at h

/-- the four passes of the link validator -/
theorem linkValidate_nil_parts (ctrlRoute : String) (m : Method) (h : linkValidate ctrlRoute m = []) :
    let route := ((m.annots.filter (·.name = "Route")).head?.map (·.value)).getD ""
    let urlParams := extractUrlParams (ctrlRoute ++ route)
    let pathAttrs := m.annots.filter (·.name = "Path")
    let funcParams := (m.params.filter fun p => !isContextType p.type).map (·.name)
    -- every {name} of the FULL route (controller prefix + method route) is referenced by a @Path (by alias or by name)
    (∀ p ∈ urlParams, (pathAttrs.map refName).contains p = true) ∧
    -- every @Path names a parameter, carries a well-typed alias, and a non-empty alias is a {name} of the route
    (∀ a ∈ pathAttrs, funcParams.contains a.value = true ∧ aliasOf a ≠ .bad ∧
        ∀ al, aliasOf a = .ok al → al ≠ "" → urlParams.contains al = true) ∧
    -- every other binding annotation with a value names a parameter
    (∀ a ∈ m.annots, isBindingAnnot a.name = true → (a.value.toList.all (· = ' ')) = false → funcParams.contains a.value = true) := by
  intro route urlParams pathAttrs funcParams
  unfold linkValidate at h
  simp only [List.append_eq_nil_iff] at h
  obtain ⟨⟨⟨h1, h2⟩, h3⟩, _h4⟩ := h
  have hbad : (pathAttrs.filter fun a => aliasOf a = .bad) = [] := by
    cases hb : (pathAttrs.filter fun a => aliasOf a = .bad) with
    | nil => rfl
    | cons x xs =>
      exfalso
      have : ((m.annots.filter (·.name = "Path")).filter fun a => aliasOf a = .bad).isEmpty = false := by
        show (pathAttrs.filter fun a => aliasOf a = .bad).isEmpty = false
        rw [hb]; rfl
      simp only [this, Bool.not_false, if_true] at h1
      have : (List.map (fun _ => err "annotation-properties-invalid-value-for-key") (pathAttrs.filter fun a => aliasOf a = .bad)) ≠ [] := by
        rw [hb]; simp
      exact this h1
  refine ⟨?_, ?_, ?_⟩
  · have hempty : ((m.annots.filter (·.name = "Path")).filter fun a => aliasOf a = .bad).isEmpty = true := by
      show (pathAttrs.filter fun a => aliasOf a = .bad).isEmpty = true
      rw [hbad]; rfl
    simp only [hempty, Bool.not_true, Bool.false_eq_true, if_false] at h1
    exact goUrl_nil _ _ _ h1
  · exact goPath_nil funcParams urlParams pathAttrs [] [] [] h2
  · intro a ha hb hv
    have hfil := List.map_eq_nil_iff.1 h3
    have hmem : a ∈ (m.annots.filter fun a => isBindingAnnot a.name && !(a.value.toList.all (· = ' '))) := by
      rw [List.mem_filter]; exact ⟨ha, by rw [hb, hv]; rfl⟩
    have := List.filter_eq_nil_iff.1 hfil a hmem
    cases hc : funcParams.contains a.value with
    | true => rfl
    | false => exfalso; apply this; show (!funcParams.contains a.value) = true; rw [hc]; rfl

/-- **one-to-one**: in an accepted route the `{names}` of the full template are pairwise distinct, the URL names of
    the @Path annotations (alias, else the parameter's name) are pairwise distinct, every `{name}` is the URL name of
    a @Path, and every ALIASED @Path names a `{name}` of the template.  (The fourth inclusion for un-aliased @Path
    annotations is what finding C10-F2 is about: `link_bijection_partial` below needs it as a hypothesis, and
    `unaliased_outside_route_is_accepted` shows the validator does not establish it.) -/
theorem link_injective (ctrlRoute : String) (m : Method) (h : linkValidate ctrlRoute m = []) :
    let route := ((m.annots.filter (·.name = "Route")).head?.map (·.value)).getD ""
    let urlParams := extractUrlParams (ctrlRoute ++ route)
    let pathAttrs := m.annots.filter (·.name = "Path")
    urlParams.Nodup ∧ (pathAttrs.map urlName).Nodup ∧
    (∀ p ∈ urlParams, p ≠ "" → p ∈ pathAttrs.map urlName) ∧
    (∀ a ∈ pathAttrs, ∀ al, aliasOf a = .ok al → al ≠ "" → urlName a ∈ urlParams) := by
  intro route urlParams pathAttrs
  have parts := linkValidate_nil_parts ctrlRoute m h
  obtain ⟨hurl, hpath, _⟩ := parts
  unfold linkValidate at h
  simp only [List.append_eq_nil_iff] at h
  obtain ⟨⟨⟨h1, h2⟩, _h3⟩, _h4⟩ := h
  have hbadEmpty : ((m.annots.filter (·.name = "Path")).filter fun a => aliasOf a = .bad).isEmpty = true := by
    cases hb : ((m.annots.filter (·.name = "Path")).filter fun a => aliasOf a = .bad) with
    | nil => rfl
    | cons x xs =>
      exfalso
      have hx : x ∈ ((m.annots.filter (·.name = "Path")).filter fun a => aliasOf a = .bad) := by rw [hb]; simp
      have hx' := List.mem_filter.1 hx
      exact (hpath x hx'.1).2.1 (by simpa using hx'.2)
  simp only [hbadEmpty, Bool.not_true, Bool.false_eq_true, if_false] at h1
  refine ⟨(goUrl_nodup _ _ _ h1).1, (goPath_names_nodup _ _ _ [] [] [] h2).1, ?_, ?_⟩
  · intro p hp hne
    have hc := hurl p hp
    have hm : p ∈ (m.annots.filter (·.name = "Path")).map refName := List.contains_iff_mem.1 hc
    obtain ⟨a, ha, hap⟩ := List.mem_map.1 hm
    refine List.mem_map.2 ⟨a, ha, ?_⟩
    unfold urlName
    unfold refName at hap
    cases hal : aliasOf a with
    | none => rw [hal] at hap; exact hap
    | bad => rw [hal] at hap; exact hap
    | ok v =>
      rw [hal] at hap
      simp only at hap ⊢
      subst hap
      have : v.isEmpty = false := by
        cases he : v.isEmpty with
        | false => rfl
        | true => exact absurd (String.isEmpty_iff.1 he) hne
      simp [this]
  · intro a ha al hal hne
    have := (hpath a ha).2.2 al hal hne
    unfold urlName
    rw [hal]
    have hne' : al.isEmpty = false := by
      cases he : al.isEmpty with
      | false => rfl
      | true => exact absurd (String.isEmpty_iff.1 he) hne
    simp only [hne', Bool.false_eq_true, if_false]
    exact List.contains_iff_mem.1 this

/-- the property's one-to-one correspondence, under the hypothesis the validator does not check (C10-F2) -/
theorem link_bijection_partial (ctrlRoute : String) (m : Method) (h : linkValidate ctrlRoute m = [])
    (hF2 : ∀ a ∈ m.annots.filter (·.name = "Path"), (∀ al, aliasOf a = .ok al → al = "") →
        a.value ∈ extractUrlParams (ctrlRoute ++ ((m.annots.filter (·.name = "Route")).head?.map (·.value)).getD "")) :
    let route := ((m.annots.filter (·.name = "Route")).head?.map (·.value)).getD ""
    let urlParams := extractUrlParams (ctrlRoute ++ route)
    let pathNames := (m.annots.filter (·.name = "Path")).map urlName
    urlParams.Nodup ∧ pathNames.Nodup ∧ (∀ p ∈ urlParams, p ≠ "" → p ∈ pathNames) ∧ (∀ n ∈ pathNames, n ∈ urlParams) := by
  intro route urlParams pathNames
  obtain ⟨h1, h2, h3, h4⟩ := link_injective ctrlRoute m h
  refine ⟨h1, h2, h3, ?_⟩
  intro n hn
  obtain ⟨a, ha, han⟩ := List.mem_map.1 hn
  subst han
  cases hal : aliasOf a with
  | none =>
    have := hF2 a ha (by intro al h'; rw [hal] at h'; cases h')
    unfold urlName; rw [hal]; exact this
  | bad =>
    have := hF2 a ha (by intro al h'; rw [hal] at h'; cases h')
    unfold urlName; rw [hal]; exact this
  | ok al =>
    by_cases he : al = ""
    · have := hF2 a ha (by intro al' h'; rw [hal] at h'; cases h'; exact he)
      unfold urlName; rw [hal]; subst he
      have e : ("" : String).isEmpty = true := by decide
      simp only [e, if_true]; exact this
    · exact h4 a ha al hal he

/-- C10-F2, as a fact about the model: a route whose un-aliased @Path names no `{name}` of the template passes the
    link validator (the witness of `corpus/C10/unlinked_path.jsonl`) -/
theorem unaliased_outside_route_is_accepted :
    let m : Method := { name := "Get", annots := [⟨"Method", "GET", [], ""⟩, ⟨"Route", "/b", [], ""⟩, ⟨"Path", "id", [], ""⟩],
                        params := [⟨"id", "string"⟩], results := ["error"] }
    linkValidate "/t" m = [] ∧ ¬ (urlName ⟨"Path", "id", [], ""⟩ ∈ extractUrlParams ("/t" ++ "/b")) := by
  decide

/-- non-vacuity: a route with a prefix parameter, an aliased and an un-aliased @Path meets the hypotheses -/
example :
    let m : Method := { name := "Get", annots := [⟨"Method", "GET", [], ""⟩, ⟨"Route", "/{id}/x/{k}", [], ""⟩,
                          ⟨"Path", "tenant", [], ""⟩, ⟨"Path", "id", [], ""⟩, ⟨"Path", "key", [("name", .str, "k")], ""⟩],
                        params := [⟨"tenant", "string"⟩, ⟨"id", "int"⟩, ⟨"key", "string"⟩], results := ["error"] }
    linkValidate "/t/{tenant}" m = [] := by decide

/-- since the fix for C10-F5: an un-aliased @Path whose parameter is named like another @Path's alias is refused -/
example :
    let m : Method := { name := "Get", annots := [⟨"Method", "GET", [], ""⟩, ⟨"Route", "/{b}", [], ""⟩,
                          ⟨"Path", "a", [("name", .str, "b")], ""⟩, ⟨"Path", "b", [], ""⟩],
                        params := [⟨"a", "string"⟩, ⟨"b", "string"⟩], results := ["error"] }
    linkValidate "" m = [err "linker-duplicate-path-alias-ref"] := by decide

/-- **every non-context parameter is referenced** by a @Path or by another binding annotation -/
theorem params_referenced (ctrlRoute : String) (m : Method) (hnd : (m.params.map (·.name)).eraseDups.length = m.params.length)
    (h : linkValidate ctrlRoute m = []) :
    ∀ p ∈ m.params, isContextType p.type = false →
      (∃ a ∈ m.annots, (a.name = "Path" ∨ (isBindingAnnot a.name = true ∧ (a.value.toList.all (· = ' ')) = false)) ∧ a.value = p.name) := by
  intro p hp hctx
  unfold linkValidate at h
  simp only [List.append_eq_nil_iff] at h
  obtain ⟨_, h4⟩ := h
  rw [if_pos hnd] at h4
  -- the filter of unreferenced parameters is empty
  have hf := List.map_eq_nil_iff.1 h4
  have hp' := List.filter_eq_nil_iff.1 hf p hp
  simp only [hctx, Bool.not_false, Bool.and_true, Bool.not_eq_true', Bool.not_eq_false] at hp'
  -- p.name ∈ seen2 ++ values of the other binding annotations that name a parameter
  have hmem : p.name ∈ (linkValidate.goPath (extractUrlParams (ctrlRoute ++ ((m.annots.filter (·.name = "Route")).head?.map (·.value)).getD ""))
      ((m.params.filter fun p => !isContextType p.type).map (·.name)) (m.annots.filter (·.name = "Path")) [] [] []).2 ++
      ((m.annots.filter fun a => isBindingAnnot a.name && !(a.value.toList.all (· = ' '))).filter
        fun a => ((m.params.filter fun p => !isContextType p.type).map (·.name)).contains a.value).map (·.value) := by
    simpa using hp'
  rcases List.mem_append.1 hmem with h1 | h1
  · -- values accumulated by the @Path pass are values of @Path annotations
    have key : ∀ (as : List Annot) (sp sv sa : List String) (x : String),
        x ∈ (linkValidate.goPath (extractUrlParams (ctrlRoute ++ ((m.annots.filter (·.name = "Route")).head?.map (·.value)).getD ""))
              ((m.params.filter fun p => !isContextType p.type).map (·.name)) as sp sv sa).2 → x ∈ sp ∨ ∃ a ∈ as, a.value = x := by
      intro as
      induction as with
      | nil => intro sp sv sa x hx; simp [linkValidate.goPath] at hx; exact Or.inl hx
      | cons a rest ih =>
        intro sp sv sa x hx
        unfold linkValidate.goPath at hx
        simp only at hx
        rcases ih _ _ _ x hx with h | ⟨b, hb, hbv⟩
        · split at h
          · rcases List.mem_append.1 h with h | h
            · exact Or.inl h
            · simp only [List.mem_singleton] at h; exact Or.inr ⟨a, by simp, h.symm⟩
          · exact Or.inl h
        · exact Or.inr ⟨b, by simp [hb], hbv⟩
    rcases key _ [] [] [] p.name h1 with h | ⟨a, ha, hav⟩
    · simp at h
    · exact ⟨a, (List.mem_filter.1 ha).1, Or.inl (by simpa using (List.mem_filter.1 ha).2), hav⟩
  · simp only [List.mem_map, List.mem_filter, Bool.and_eq_true] at h1
    obtain ⟨a, ⟨⟨ha, hb, hnb⟩, _⟩, hav⟩ := h1
    exact ⟨a, ha, Or.inr ⟨hb, by simpa using hnb⟩, hav⟩

/-- **at most one body, never body together with form fields**: the parameter pass reports nothing -/
theorem body_form_sound (env : TypeEnv) (m : Method) (ps : List MParam) (seen : List PassedIn)
    (h : validateParams.go env m ps seen = some []) :
    ∀ p ∈ ps, isContextType p.type = false → ∀ loc, passedInOf m.annots p.name = some (.ok loc) →
      (loc = .body → seen.contains .body = false ∧ seen.contains .form = false) ∧
      (loc = .form → seen.contains .body = false) := by
  induction ps generalizing seen with
  | nil => simp
  | cons q rest ih =>
    intro p hp hctx loc hloc
    unfold validateParams.go at h
    by_cases hq : isContextType q.type = true
    · simp only [hq, if_true] at h
      rcases List.mem_cons.1 hp with rfl | hp'
      · rw [hq] at hctx; simp at hctx
      · exact ih seen h p hp' hctx loc hloc
    · simp only [hq, Bool.false_eq_true, if_false] at h
      cases hpi : passedInOf m.annots q.name with
      | none =>
        rw [hpi] at h
        rcases List.mem_cons.1 hp with rfl | hp'
        · rw [hpi] at hloc; simp at hloc
        · exact ih seen h p hp' hctx loc hloc
      | some res =>
        rw [hpi] at h
        cases res with
        | error e => simp at h
        | ok l =>
          simp only at h
          cases hrec : validateParams.go env m rest (seen ++ [l]) with
          | none => rw [hrec] at h; simp at h
          | some r =>
            rw [hrec] at h
            simp only [Option.map_some, Option.some.injEq, List.append_eq_nil_iff] at h
            obtain ⟨⟨_, hd2⟩, hr⟩ := h
            subst hr
            rcases List.mem_cons.1 hp with rfl | hp'
            · rw [hpi] at hloc
              simp only [Option.some.injEq, Except.ok.injEq] at hloc
              subst hloc
              constructor
              · intro hb
                subst hb
                simp only [true_and] at hd2
                cases h1 : seen.contains PassedIn.body <;> cases h2 : seen.contains PassedIn.form <;> simp_all
              · intro hf
                subst hf
                cases h1 : seen.contains PassedIn.body <;> simp_all
            · have := ih (seen ++ [l]) hrec p hp' hctx loc hloc
              constructor
              · intro hb
                have := this.1 hb
                constructor
                · cases hc : seen.contains PassedIn.body with
                  | false => rfl
                  | true =>
                    have : (seen ++ [l]).contains PassedIn.body = true := by
                      have hm : PassedIn.body ∈ seen := by simpa using hc
                      simp [hm]
                    simp_all
                · cases hc : seen.contains PassedIn.form with
                  | false => rfl
                  | true =>
                    have : (seen ++ [l]).contains PassedIn.form = true := by
                      have hm : PassedIn.form ∈ seen := by simpa using hc
                      simp [hm]
                    simp_all
              · intro hf
                have := this.2 hf
                cases hc : seen.contains PassedIn.body with
                | false => rfl
                | true =>
                  have : (seen ++ [l]).contains PassedIn.body = true := by
                    have hm : PassedIn.body ∈ seen := by simpa using hc
                    simp [hm]
                  simp_all

end Gleece.Validate

namespace Gleece.Order

/-- **Blocks**: an error-severity diagnostic makes the pipeline return an error before the intermediate
    representation is built … -/
theorem run_blocks_on_error_diagnostics :
    let evs := eventsOf "core/pipeline/pipeline.go:Run"
    before evs "p.Validate" "diagnostics.GetDiagnosticsWithSeverity" = true ∧
    guarded evs "diagnostics.GetDiagnosticsWithSeverity" = true ∧
    before evs "diagnostics.GetDiagnosticsWithSeverity" "p.GenerateIntermediate" = true := by decide +kernel

/-- … and every command writes its artifacts only after the pipeline succeeded -/
theorem commands_write_after_success :
    (let evs := eventsOf "cmd/entrypoint.go:GenerateSpecAndRoutes"
     guarded evs "GetConfigAndMetadata" = true ∧ before evs "GetConfigAndMetadata" "routes.GenerateRoutes" = true ∧
     before evs "GetConfigAndMetadata" "swagen.GenerateSpec" = true ∧ before evs "GetConfigAndMetadata" "swagen.OutputSpec" = true) ∧
    (let evs := eventsOf "cmd/entrypoint.go:GenerateRoutes"
     guarded evs "GetConfigAndMetadata" = true ∧ before evs "GetConfigAndMetadata" "routes.GenerateRoutes" = true) ∧
    (let evs := eventsOf "cmd/entrypoint.go:GenerateSpec"
     guarded evs "GetConfigAndMetadata" = true ∧ before evs "GetConfigAndMetadata" "swagen.GenerateAndOutputSpec" = true) := by
  decide +kernel

end Gleece.Order
