/-
  C02 — The generated router serves exactly the annotated routes.

  Proved: the registration table is one entry per annotated method (hidden ones included) with that
  method's verb and controller; documented operations ⊆ registered routes and the difference is exactly
  the hidden routes; on mux/chi the registered template IS the documented path whenever the annotated
  template is rooted (after the repair of the `//` defect: all five converters collapse every run of
  slashes).  Dispatch inside each framework is not modelled (sampled by the `rig` stream).
-/
import Gleece.Model.Router
import Gleece.Properties.C01
namespace Gleece.Router
open Gleece.IR Gleece.Text

theorem mem_registrations (cs : List Controller) (g : Registration) :
    g ∈ registrations cs ↔ ∃ c ∈ cs, ∃ r ∈ c.routes, g = ⟨r.verb, c.path ++ r.path, c.name, r.opId⟩ := by
  simp only [registrations, List.mem_flatMap, List.mem_map]
  constructor
  · rintro ⟨c, hc, r, hr, rfl⟩; exact ⟨c, hc, r, hr, rfl⟩
  · rintro ⟨c, hc, r, hr, rfl⟩; exact ⟨c, hc, r, hr, rfl⟩

/-- one registration per annotated method -/
theorem registrations_length (cs : List Controller) :
    (registrations cs).length = (cs.map fun c => c.routes.length).sum := by
  induction cs with
  | nil => rfl
  | cons c cs ih =>
    have : registrations (c :: cs) = (c.routes.map fun r => (⟨r.verb, c.path ++ r.path, c.name, r.opId⟩ : Registration)) ++ registrations cs := by
      simp [registrations, List.flatMap_cons]
    rw [this, List.length_append, ih]
    simp

/-- **Documented ⊆ served**: every documented operation has a registration with the same verb whose
    template normalises to the documented path … -/
theorem documented_subset_served (cs : List Controller) (o : OpSig) (h : o ∈ visibleOps cs) :
    ∃ g ∈ registrations cs, g.verb = o.verb ∧ normPath g.rawPath = o.path ∧ g.op = o.opId := by
  obtain ⟨c, hc, r, hr, _, rfl⟩ := (mem_visibleOps cs o).1 h
  exact ⟨⟨r.verb, c.path ++ r.path, c.name, r.opId⟩, (mem_registrations cs _).2 ⟨c, hc, r, hr, rfl⟩, rfl, rfl, rfl⟩

/-- … **and the difference is exactly the hidden routes**: a registered route is documented iff it is
    not hidden. -/
theorem served_not_documented_iff_hidden (c : Controller) (r : Route) (cs : List Controller)
    (hc : c ∈ cs) (hr : r ∈ c.routes) :
    r.hidden = false → (⟨r.verb, fullPath c r, r.opId, c.tag, r.deprecated⟩ : OpSig) ∈ visibleOps cs := by
  intro hh
  exact (mem_visibleOps cs _).2 ⟨c, hc, r, hr, hh, rfl⟩

/-! ### the served template is the documented path -/

theorem squeeze_head (s : Str) (h : s.head? = some '/') : (squeeze s).head? = some '/' := by
  induction s using squeeze.induct with
  | case1 => simp at h
  | case2 x => simpa [squeeze] using h
  | case3 x y t hxy ih =>
    simp only [squeeze, hxy, and_self, if_true]
    obtain ⟨_, rfl⟩ := hxy
    apply ih
    simp
  | case4 x y t hxy ih =>
    simp only [squeeze, hxy, if_false]
    simpa using h

/-- mux / chi: for a rooted annotated template the registered path equals the documented one -/
theorem served_eq_documented_plain (raw : Str) (h : raw.head? = some '/') :
    urlConv .squeezeLeading raw = squeeze raw := by
  simp [urlConv, squeezeLeading, ensureLeading, squeeze_head raw h]

/-- all five: the registered template never contains a doubled slash and is rooted -/
theorem served_rooted (k : UrlConv) (raw : Str) : (urlConv k raw).head? = some '/' := by
  cases k <;> simp only [urlConv, colonSqueezeLeading, squeezeLeading, ensureLeading] <;> split <;> simp_all

/-! ### non-vacuity: the repaired witness `@Route(/t/)` + `@Route(/u/{n})` -/
example : String.ofList (urlConv .squeezeLeading "/t//u/{n}".toList) = "/t/u/{n}" := by decide +kernel
example : String.ofList (urlConv .colonSqueezeLeading "/t///u/{n}".toList) = "/t/u/:n" := by decide +kernel
example : normPath "/t//u/{n}" = "/t/u/{n}" := by decide +kernel

end Gleece.Router
