/-
  C20 — Configuration is validated up front and honoured in the output.

  Proved: the permission strings the validator lets through are exactly strings
  `PermissionStringToFileMod` accepts, and the mode is their octal value (≤ 0o777), so the configured
  permissions are honoured; a `required` string field without a preceding `omitempty` rejects the empty
  value and the report names that tag; an `omitempty` field with an empty value is never reported;
  the package name defaults to `routes`.  Decided on the regenerated call skeletons: validation happens
  inside LoadGleeceConfig and its failure is returned before any source analysis; every command loads the
  configuration first.  The struct tree and its tags (`Gleece/Generated/ConfigSchema.lean`) are reflected
  from the harness build of /repo on every run; the interpreter over that schema (driver) is compared
  with the REAL command on an enumerated family of documents: the valid base, every deletion of a
  section / field, every listed value of every constrained field, random double corruptions.
-/
import Gleece.Model.Config
import Gleece.Model.Order
import Gleece.Generated.ConfigSchema
namespace Gleece.Config
open Gleece.Text

theorem isOctal_val (c : Char) (h : isOctal c = true) : octVal c ≤ 7 := by
  simp only [isOctal, Bool.and_eq_true, decide_eq_true_eq] at h
  unfold octVal
  have h1 : '0'.toNat ≤ c.toNat := h.1
  have h2 : c.toNat ≤ '7'.toNat := h.2
  have e0 : '0'.toNat = 48 := by decide
  have e7 : '7'.toNat = 55 := by decide
  omega

/-- **Accepted permission strings are honoured**: whatever the `regex` tag lets through is empty (default
    0644) or parses as an octal mode of at most 0o777, which `PermissionStringToFileMod` accepts. -/
theorem perms_accepted_are_valid (s : Str) (h : permsRegex s = true) :
    s = [] ∨ ∃ n, permToMode s = some n ∧ n ≤ 511 := by
  unfold permsRegex at h
  split at h
  · exact Or.inl rfl
  · rename_i a b c
    right
    simp only [Bool.and_eq_true] at h
    obtain ⟨⟨ha, hb⟩, hc⟩ := h
    have va := isOctal_val a ha; have vb := isOctal_val b hb; have vc := isOctal_val c hc
    refine ⟨(octVal a * 8 + octVal b) * 8 + octVal c, ?_, by omega⟩
    simp [permToMode, parseOctal, ha, hb, hc, List.foldl]
    omega
  · rename_i a b c
    right
    simp only [Bool.and_eq_true] at h
    obtain ⟨⟨ha, hb⟩, hc⟩ := h
    have va := isOctal_val a ha; have vb := isOctal_val b hb; have vc := isOctal_val c hc
    have h0 : isOctal '0' = true := by decide
    have v0 : octVal '0' = 0 := by decide
    refine ⟨(octVal a * 8 + octVal b) * 8 + octVal c, ?_, by omega⟩
    simp [permToMode, parseOctal, ha, hb, hc, h0, v0, List.foldl]
    omega
  · simp at h

/-- the written file mode is the configured one (or 0644 when none is configured) -/
theorem mode_honoured (s : Str) (h : permsRegex s = true) :
    (s = [] ∧ outputFileMode s = 420) ∨ (∃ n, permToMode s = some n ∧ outputFileMode s = n) := by
  rcases perms_accepted_are_valid s h with rfl | ⟨n, hn, _⟩
  · exact Or.inl ⟨rfl, by simp [outputFileMode]⟩
  · right
    refine ⟨n, hn, ?_⟩
    unfold outputFileMode
    have : s.isEmpty = false := by
      cases s with
      | nil => simp [permToMode, parseOctal] at hn
      | cons _ _ => rfl
    simp [this, hn]

/-- **A required field rejects the empty value and the report names `required`** (when no `omitempty`
    precedes it). -/
theorem required_rejects_empty (lib : String → Str → Bool) (rest : List String) :
    firstFailure lib ("required" :: rest) [] = some "required" := by
  simp [firstFailure, evalTag]

/-- an `omitempty` field with an empty value is never reported -/
theorem omitempty_skips (lib : String → Str → Bool) (rest : List String) :
    firstFailure lib ("omitempty" :: rest) [] = none := by
  simp [firstFailure, evalTag]

/-- the reported tag is one of the field's own tags (up to the `name=param` spelling) -/
theorem failure_names_a_tag (lib : String → Str → Bool) (tags : List String) (v : Str) (t : String)
    (h : firstFailure lib tags v = some t) : ∃ tag ∈ tags, t = tag ∨ t = "oneof" ∨ t = "regex" := by
  induction tags with
  | nil => simp [firstFailure] at h
  | cons x xs ih =>
    unfold firstFailure at h
    cases he : evalTag lib x v with
    | none => rw [he] at h; simp at h
    | some b =>
      rw [he] at h
      cases b with
      | true =>
        obtain ⟨tag, ht, hh⟩ := ih h
        exact ⟨tag, by simp [ht], hh⟩
      | false =>
        simp only [Option.some.injEq] at h
        refine ⟨x, by simp, ?_⟩
        split at h
        · exact Or.inr (Or.inl h.symm)
        · split at h
          · exact Or.inr (Or.inr h.symm)
          · exact Or.inl h.symm

theorem packageName_default : packageName "" = "routes" ∧ ∀ p, p ≠ "" → packageName p = p := by
  refine ⟨rfl, ?_⟩
  intro p hp
  unfold packageName
  have : p.isEmpty = false := by
    cases h : p.isEmpty with
    | false => rfl
    | true => exact absurd (String.isEmpty_iff.1 h) hp
  simp [this]

/-- the schema facts the property relies on, against the regenerated struct tree -/
def schemaHas (path field kind tag : String) : Bool :=
  Gleece.Generated.configSchema.any fun r => r.1 == path && r.2.1 == field && r.2.2.1 == kind && r.2.2.2 == tag

theorem schema_facts :
    schemaHas "routesConfig.engine" "Engine" "string" "required,oneof=gin echo mux fiber chi" = true ∧
    schemaHas "openapiGeneratorConfig.openapi" "OpenAPI" "string" "required,oneof=3.0.0 3.1.0" = true ∧
    schemaHas "openapiGeneratorConfig.baseUrl" "BaseURL" "string" "required,url" = true ∧
    schemaHas "openapiGeneratorConfig.info.contact.email" "Email" "string" "email" = true ∧
    schemaHas "routesConfig.outputFilePerms" "OutputFilePerms" "string" "regex=^(0?[0-7]{3})?$" = true ∧
    schemaHas "routesConfig.outputPath" "OutputPath" "string" "required,filepath" = true ∧
    schemaHas "openapiGeneratorConfig.securitySchemes[].type" "Type" "string" "required,security_schema_type" = true := by
  decide +kernel

/-! ### `controllerGlobs` -/

def isMeta (c : Char) : Bool := c = '*' || c = '?'

/-- a component without `*` / `?` selects exactly itself -/
theorem segMatch_literal (p s : Str) (h : p.all (fun c => !isMeta c) = true) : segMatch p s = true ↔ p = s := by
  induction p generalizing s with
  | nil => cases s <;> simp [segMatch]
  | cons c ps ih =>
    simp only [List.all_cons, Bool.and_eq_true, Bool.not_eq_true', isMeta, Bool.or_eq_false_iff, decide_eq_false_iff_not] at h
    obtain ⟨⟨hc1, hc2⟩, hps⟩ := h
    cases s with
    | nil =>
      constructor
      · intro hm; unfold segMatch at hm; split at hm <;> simp_all
      · intro he; cases he
    | cons d ds =>
      have hstep : segMatch (c :: ps) (d :: ds) = (c == d && segMatch ps ds) := by
        conv => lhs; unfold segMatch
        split <;> simp_all
      rw [hstep]
      simp only [Bool.and_eq_true, beq_iff_eq, List.cons.injEq]
      rw [ih ds (by simpa [isMeta] using hps)]

/-- `*` selects every component (and, being matched component-wise, never reaches across a separator) -/
theorem segMatch_star (s : Str) : segMatch ['*'] s = true := by
  unfold segMatch
  simp only [List.any_eq_true, List.mem_range]
  refine ⟨s.length, by omega, ?_⟩
  simp [segMatch]

/-- a `**` component stands for ZERO directories … -/
theorem doublestar_zero (ps s : List Str) (h : segsMatch ps s = true) : segsMatch (['*', '*'] :: ps) s = true := by
  unfold segsMatch
  simp only [if_true, List.any_eq_true, List.mem_range]
  exact ⟨0, by omega, by simpa using h⟩

/-- … or for one more directory than it already does -/
theorem doublestar_more (ps : List Str) (d : Str) (s : List Str) (h : segsMatch (['*', '*'] :: ps) s = true) :
    segsMatch (['*', '*'] :: ps) (d :: s) = true := by
  unfold segsMatch at h ⊢
  simp only [if_true, List.any_eq_true, List.mem_range] at h ⊢
  obtain ⟨k, hk, hm⟩ := h
  exact ⟨k + 1, by simp only [List.length_cons]; omega, by simpa using hm⟩

/-- a pattern of plain components selects exactly the path with those components -/
theorem segsMatch_literal (ps s : List Str) (h : ∀ p ∈ ps, p.all (fun c => !isMeta c) = true) :
    segsMatch ps s = true ↔ ps = s := by
  induction ps generalizing s with
  | nil => cases s <;> simp [segsMatch]
  | cons p ps ih =>
    have hp := h p (by simp)
    have hne : p ≠ ['*', '*'] := by
      intro he; subst he; simp [isMeta] at hp
    cases s with
    | nil => simp [segsMatch, hne]
    | cons c cs =>
      unfold segsMatch
      simp only [hne, if_false, Bool.and_eq_true, List.cons.injEq]
      rw [segMatch_literal p c hp, ih cs (fun q hq => h q (by simp [hq]))]

/-- the shapes the generated configurations use, on the generated tree -/
example : globMatch "./ctl/**/*.go".toList "ctl/a.go".toList = true ∧ globMatch "./ctl/**/*.go".toList "ctl/sub/deep/d.go".toList = true ∧
    globMatch "./ctl/*.go".toList "ctl/sub/c.go".toList = false ∧ globMatch "./ctl/{a,b}.go".toList "ctl/b.go".toList = true ∧
    globMatch "./ctl/{a,b}.go".toList "ctl/sub/c.go".toList = false ∧ globMatch "**/d.go".toList "ctl/sub/deep/d.go".toList = true := by decide

end Gleece.Config

namespace Gleece.Order

/-- **Rejected before any source analysis**: the struct is validated inside LoadGleeceConfig and a
    failure is returned; the metadata pipeline starts only after the configuration was accepted -/
theorem config_rejected_before_analysis :
    (let evs := eventsOf "cmd/entrypoint.go:LoadGleeceConfig"
     guarded evs "json5.Unmarshal" = true ∧ guarded evs "validation.ValidateStruct" = true ∧
     before evs "json5.Unmarshal" "validation.ValidateStruct" = true) ∧
    (let evs := eventsOf "cmd/entrypoint.go:GetConfigAndMetadata"
     guarded evs "LoadGleeceConfig" = true ∧ before evs "LoadGleeceConfig" "getFullMetadata" = true) := by
  decide +kernel

/-- every command loads (and thereby validates) the configuration before it generates anything, and
    returns when that fails -/
theorem every_command_loads_config_first :
    ["cmd/entrypoint.go:GenerateSpec", "cmd/entrypoint.go:GenerateRoutes", "cmd/entrypoint.go:GenerateSpecAndRoutes"].all (fun f =>
      let evs := eventsOf f
      guarded evs "GetConfigAndMetadata" && (evs.head?.map (fun e => e.1 == "call" && e.2.1 == "GetConfigAndMetadata")).getD false) = true := by
  decide +kernel

/-- **nothing is written when the document cannot be generated**: the combined command builds the document first
    and returns on its failure before the routes file is written (this was finding C20-F2) -/
theorem spec_failure_writes_nothing :
    (let evs := eventsOf "cmd/entrypoint.go:GenerateSpecAndRoutes"
     guarded evs "swagen.GenerateSpec" = true ∧ before evs "swagen.GenerateSpec" "routes.GenerateRoutes" = true ∧
     before evs "swagen.GenerateSpec" "swagen.OutputSpec" = true) := by
  decide +kernel

/-- the routes file is written with the mode computed from the configured permission string -/
theorem routes_written_with_configured_mode :
    (let evs := eventsOf "generator/routes/generator.go:GenerateRoutes"
     before evs "getOutputFileMod" "os.WriteFile" = true ∧ before evs "os.MkdirAll" "os.WriteFile" = true) := by
  decide +kernel

end Gleece.Order
