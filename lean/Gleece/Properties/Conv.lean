/-
  C11 / C08 — the two validator-tag converters agree, rule list by rule list.

  `converters_agree`: for EVERY tag whose values both converters understand and which constrains each
  numeric side at most once (`Agreeable`, both parts shown necessary by witnesses below), the 3.0 schema
  and the 3.1 schema say the same thing (`view30 … = view31 …`): same format, bounds, lengths, pattern,
  item counts, uniqueness and enum members — for all parsers (`strconv`, YAML resolution are parameters).
  `members30_typed` / `members31_typed_string`: what the converters write into `enum` belongs to the
  schema's type (C08).
-/
import Gleece.Model.Conv
namespace Gleece.Conv
open Gleece.Text

variable {ν : Type}
set_option linter.unusedSimpArgs false

/-! ### helper lemmas -/

theorem len31_of_agree (P : Parsers ν) (v : String) (n : Nat) (h : P.int v = some (n : Int)) : len31 P v = some n := by
  simp [len31, h]

theorem members30_plain (P : Parsers ν) (t : Ty) (vals : List String)
    (h : ∀ m ∈ vals, members30 P t [m] = [P.yaml m]) : members30 P t vals = vals.map P.yaml := by
  induction vals with
  | nil => cases t <;> rfl
  | cons m ms ih =>
    have hm := h m (by simp)
    have hms := ih (fun x hx => h x (by simp [hx]))
    cases t
    · simp_all [members30]
    · simp only [members30, List.filterMap_cons, List.filterMap_nil] at hm hms ⊢
      cases hp : P.int m <;> simp_all
    · simp only [members30, List.filterMap_cons, List.filterMap_nil] at hm hms ⊢
      cases hp : P.num m <;> simp_all
    · simp only [members30, List.filterMap_cons, List.filterMap_nil] at hm hms ⊢
      cases hp : P.bool m <;> simp_all
    · simp_all [members30]
    · simp_all [members30]

theorem map_memberView_plain (P : Parsers ν) (vals : List String) :
    (vals.map (Member.plain (ν := ν))).map (memberView P) = vals.map P.yaml := by
  simp [List.map_map, Function.comp_def, memberView]

theorem map_memberView_str (P : Parsers ν) (vals : List String) :
    (vals.map (Member.str (ν := ν))).map (memberView P) = vals.map Member.str := by
  simp [List.map_map, Function.comp_def, memberView]

theorem map_memberView_int (P : Parsers ν) (vals : List String) :
    (vals.filterMap fun v => (P.int v).map (Member.int (ν := ν))).map (memberView P) = vals.filterMap fun v => (P.int v).map Member.int := by
  induction vals with
  | nil => rfl
  | cons m ms ih => simp only [List.filterMap_cons]; cases P.int m <;> simp_all [memberView]

theorem map_memberView_num (P : Parsers ν) (vals : List String) :
    (vals.filterMap fun v => (P.num v).map Member.num).map (memberView P) = vals.filterMap fun v => (P.num v).map Member.num := by
  induction vals with
  | nil => rfl
  | cons m ms ih => simp only [List.filterMap_cons]; cases P.num m <;> simp_all [memberView]

/-- the members both converters write for one `enum=` / `oneof=` rule agree under the view -/
theorem enum_members_agree (P : Parsers ν) (t : Ty) (vals : List String)
    (h : t ≠ .string → ∀ m ∈ vals, members30 P t [m] = [P.yaml m]) :
    members30 P t vals = (enum31 t vals).map (memberView P) := by
  by_cases ht : t = .string
  · subst ht; simp only [enum31, if_true, members30, map_memberView_str]
  · simp only [enum31, ht, if_false, map_memberView_plain]
    exact members30_plain P t vals (h ht)

theorem oneof_members_agree (P : Parsers ν) (t : Ty) (vals : List String)
    (h : t = .boolean ∨ t = .array ∨ t = .other → ∀ m ∈ vals, members30 P t [m] = [P.yaml m]) :
    members30 P t vals = (oneof31 P t vals).map (memberView P) := by
  cases t
  · simp only [oneof31, members30, map_memberView_str]
  · simp only [oneof31, members30, map_memberView_int]
  · simp only [oneof31, members30, map_memberView_num]
  · simp only [oneof31, map_memberView_plain]; exact members30_plain P _ vals (h (by simp))
  · simp only [oneof31, map_memberView_plain]; exact members30_plain P _ vals (h (by simp))
  · simp only [oneof31, map_memberView_plain]; exact members30_plain P _ vals (h (by simp))

/-! ### the simulation -/

/-- the lower-bound members of both schemas are still unwritten -/
def lowerEmpty (a : S30 ν) (b : S31 ν) : Prop := a.min = none ∧ a.exclMin = false ∧ b.minimum = none ∧ b.exclMin = none
def upperEmpty (a : S30 ν) (b : S31 ν) : Prop := a.max = none ∧ a.exclMax = false ∧ b.maximum = none ∧ b.exclMax = none

/-- invariant of the run over a rule list: the schemas say the same so far, and a side that some rule of
    the REST still constrains has not been written yet -/
def Sim (P : Parsers ν) (t : Ty) (a : S30 ν) (b : S31 ν) (rest : List (Kind × String)) : Prop :=
  view30 a = view31 P b ∧
  (1 ≤ countP (fun r => lowerRule t r.1) rest → lowerEmpty a b) ∧
  (1 ≤ countP (fun r => upperRule t r.1) rest → upperEmpty a b)

theorem countP_cons {α} (p : α → Bool) (x : α) (l : List α) :
    countP p (x :: l) = (if p x then 1 else 0) + countP p l := by
  unfold countP; cases h : p x <;> simp [List.filter_cons, h]; omega

theorem view_eq_iff (a : S30 ν) (b : S31 ν) (P : Parsers ν) :
    view30 a = view31 P b ↔
      a.format = b.format ∧ (if a.exclMin then none else a.min) = b.minimum ∧ (if a.exclMin then a.min else none) = b.exclMin ∧
      (if a.exclMax then none else a.max) = b.maximum ∧ (if a.exclMax then a.max else none) = b.exclMax ∧
      a.minLength = b.minLength.getD 0 ∧ a.maxLength = dropZero b.maxLength ∧ a.pattern = b.pattern ∧
      a.minItems = b.minItems.getD 0 ∧ a.maxItems = dropZero b.maxItems ∧ a.uniqueItems = b.uniqueItems.getD false ∧
      a.enum = b.enum.map (memberView P) := by
  simp [view30, view31]

/-- the per-rule statement: one rule of kind `k` preserves the invariant -/
def StepOK (P : Parsers ν) (t : Ty) (k : Kind) : Prop :=
  ∀ (a : S30 ν) (b : S31 ν) (v : String) (rest : List (Kind × String)),
    Sim P t a b ((k, v) :: rest) → valueOK P t (k, v) →
    countP (fun r => lowerRule t r.1) ((k, v) :: rest) ≤ 1 → countP (fun r => upperRule t r.1) ((k, v) :: rest) ≤ 1 →
    Sim P t (apply30 P t a (k, v)) (apply31 P t b (k, v)) rest

set_option hygiene false in
macro "step_intro" : tactic => `(tactic| (
  intro a b v rest h hv hl hu
  obtain ⟨hview, hlow, hup⟩ := h
  obtain ⟨hnum, hlen, hbool, hplain⟩ := hv
  rw [countP_cons] at hl hu hlow hup
  rw [view_eq_iff] at hview
  unfold Sim
  rw [view_eq_iff]
  generalize countP (fun r => lowerRule _ r.1) rest = nl at *
  generalize countP (fun r => upperRule _ r.1) rest = nu at *))

theorem step_format (P : Parsers ν) (t : Ty) (f : String) : StepOK P t (.format f) := by
  step_intro
  cases t <;> simp_all [apply30, apply31, lowerRule, upperRule, lowerEmpty, upperEmpty]

theorem step_gt (P : Parsers ν) (t : Ty) : StepOK P t .gt := by
  step_intro
  cases hp : P.num v <;> cases t <;> simp_all [apply30, apply31, lowerRule, upperRule, lengthRule, Ty.numeric, lowerEmpty, upperEmpty, plainMembers, len31, upperCountRule, dropZero] <;> omega

theorem step_gte (P : Parsers ν) (t : Ty) : StepOK P t .gte := by
  step_intro
  cases hp : P.num v <;> cases t <;> simp_all [apply30, apply31, lowerRule, upperRule, lengthRule, Ty.numeric, lowerEmpty, upperEmpty, plainMembers, len31, upperCountRule, dropZero] <;> omega

theorem step_lt (P : Parsers ν) (t : Ty) : StepOK P t .lt := by
  step_intro
  cases hp : P.num v <;> cases t <;> simp_all [apply30, apply31, lowerRule, upperRule, lengthRule, Ty.numeric, lowerEmpty, upperEmpty, plainMembers, len31, upperCountRule, dropZero] <;> omega

theorem step_lte (P : Parsers ν) (t : Ty) : StepOK P t .lte := by
  step_intro
  cases hp : P.num v <;> cases t <;> simp_all [apply30, apply31, lowerRule, upperRule, lengthRule, Ty.numeric, lowerEmpty, upperEmpty, plainMembers, len31, upperCountRule, dropZero] <;> omega

theorem step_min (P : Parsers ν) (t : Ty) : StepOK P t .min := by
  step_intro
  cases hp : P.num v <;> cases hq : P.uint v <;> cases t <;> simp_all [apply30, apply31, lowerRule, upperRule, lengthRule, Ty.numeric, lowerEmpty, upperEmpty, plainMembers, len31, upperCountRule, dropZero] <;> omega

theorem step_max (P : Parsers ν) (t : Ty) : StepOK P t .max := by
  step_intro
  cases hp : P.num v <;> cases hq : P.uint v <;> cases t <;> simp_all [apply30, apply31, lowerRule, upperRule, lengthRule, Ty.numeric, lowerEmpty, upperEmpty, plainMembers, len31, upperCountRule, dropZero] <;> omega

theorem step_len (P : Parsers ν) (t : Ty) : StepOK P t .len := by
  step_intro
  cases hq : P.uint v <;> cases t <;> simp_all [apply30, apply31, lowerRule, upperRule, lengthRule, Ty.numeric, lowerEmpty, upperEmpty, plainMembers, len31, upperCountRule, dropZero]

theorem step_minItems (P : Parsers ν) (t : Ty) : StepOK P t .minItems := by
  step_intro
  cases hq : P.uint v <;> cases t <;> simp_all [apply30, apply31, lowerRule, upperRule, lengthRule, Ty.numeric, lowerEmpty, upperEmpty, plainMembers, len31, upperCountRule, dropZero]

theorem step_maxItems (P : Parsers ν) (t : Ty) : StepOK P t .maxItems := by
  step_intro
  cases hq : P.uint v <;> cases t <;> simp_all [apply30, apply31, lowerRule, upperRule, lengthRule, Ty.numeric, lowerEmpty, upperEmpty, plainMembers, len31, upperCountRule, dropZero]

theorem step_pattern (P : Parsers ν) (t : Ty) : StepOK P t .pattern := by
  step_intro
  cases t <;> simp_all [apply30, apply31, lowerRule, upperRule, lengthRule, Ty.numeric, lowerEmpty, upperEmpty, plainMembers, len31, upperCountRule, dropZero]

theorem step_uniqueItems (P : Parsers ν) (t : Ty) : StepOK P t .uniqueItems := by
  step_intro
  cases hq : P.bool v <;> cases t <;> simp_all [apply30, apply31, lowerRule, upperRule, lengthRule, Ty.numeric, lowerEmpty, upperEmpty, plainMembers, len31, upperCountRule, dropZero]

theorem step_unknown (P : Parsers ν) (t : Ty) : StepOK P t .unknown := by
  step_intro
  simp only [lowerRule, upperRule, Bool.false_eq_true, if_false, Nat.zero_add] at hlow hup
  exact ⟨hview, hlow, hup⟩

theorem step_enum (P : Parsers ν) (t : Ty) : StepOK P t .enum := by
  step_intro
  have hm : ∀ vals, enumValues v = some vals → members30 P t vals = (enum31 t vals).map (memberView P) := by
    intro vals hv
    apply enum_members_agree
    intro ht m hmem
    apply hplain
    simp [plainMembers, ht, hv, hmem]
  cases he : enumValues v with
  | none => simp_all [apply30, apply31, lowerRule, upperRule, lowerEmpty, upperEmpty]
  | some vals =>
    have := hm vals he
    simp_all [apply30, apply31, lowerRule, upperRule, lowerEmpty, upperEmpty]

theorem step_oneof (P : Parsers ν) (t : Ty) : StepOK P t .oneof := by
  step_intro
  have hm : members30 P t (fields v) = (oneof31 P t (fields v)).map (memberView P) := by
    apply oneof_members_agree
    intro ht m hmem
    apply hplain
    simp only [plainMembers]
    rcases ht with h | h | h <;> simp [h, hmem]
  by_cases hf : (fields v).isEmpty
  · simp_all [apply30, apply31, lowerRule, upperRule, lowerEmpty, upperEmpty]
  · simp_all [apply30, apply31, lowerRule, upperRule, lowerEmpty, upperEmpty]

/-- one rule preserves the invariant -/
theorem step_sim (P : Parsers ν) (t : Ty) (k : Kind) : StepOK P t k := by
  cases k
  · exact step_format P t _
  · exact step_gt P t
  · exact step_gte P t
  · exact step_lt P t
  · exact step_lte P t
  · exact step_min P t
  · exact step_max P t
  · exact step_len P t
  · exact step_pattern P t
  · exact step_minItems P t
  · exact step_maxItems P t
  · exact step_uniqueItems P t
  · exact step_enum P t
  · exact step_oneof P t
  · exact step_unknown P t

theorem countP_le_cons {α} (p : α → Bool) (x : α) (l : List α) : countP p l ≤ countP p (x :: l) := by
  rw [countP_cons]; omega

theorem run_sim (P : Parsers ν) (t : Ty) : ∀ (rs : List (Kind × String)) (a : S30 ν) (b : S31 ν),
    Sim P t a b rs → (∀ r ∈ rs, valueOK P t r) →
    countP (fun r => lowerRule t r.1) rs ≤ 1 → countP (fun r => upperRule t r.1) rs ≤ 1 →
    view30 (rs.foldl (apply30 P t) a) = view31 P (rs.foldl (apply31 P t) b) := by
  intro rs
  induction rs with
  | nil => intro a b h _ _ _; exact h.1
  | cons r rest ih =>
    intro a b h hv hl hu
    obtain ⟨k, v⟩ := r
    simp only [List.foldl_cons]
    apply ih
    · exact step_sim P t k a b v rest h (hv _ (by simp)) hl hu
    · intro r hr; exact hv r (by simp [hr])
    · exact Nat.le_trans (countP_le_cons _ _ _) hl
    · exact Nat.le_trans (countP_le_cons _ _ _) hu

/-- **The two converters agree.**  For every rule list both understand (`Agreeable`), of every schema type, and
    for all parsers: the 3.0 schema and the 3.1 schema say the same — format, numeric bounds (after the
    dialect translation), lengths, pattern, item counts, uniqueness, enum members. -/
theorem converters_agree (P : Parsers ν) (t : Ty) (rs : List (Kind × String)) (h : Agreeable P t rs) :
    view30 (rs.foldl (apply30 P t) {}) = view31 P (rs.foldl (apply31 P t) {}) := by
  apply run_sim P t rs {} {} ?_ h.1 h.2.1 h.2.2
  refine ⟨by simp [view30, view31, dropZero], fun _ => ⟨rfl, rfl, rfl, rfl⟩, fun _ => ⟨rfl, rfl, rfl, rfl⟩⟩

/-- … stated on the tag text: `strings.Split(tag, ",")`, `SplitN(rule, "=", 2)`, the `switch` -/
theorem converters_agree_tag (P : Parsers ν) (t : Ty) (tag : String) (h : Agreeable P t (parseRules tag)) :
    view30 (conv30 P t tag) = view31 P (conv31 P t tag) := converters_agree P t _ h

/-! ### both hypotheses are necessary (witnesses on the decimal parsers) -/

/-- two rules on one numeric side: 3.0 keeps the last, 3.1 keeps both (finding C11-F3) -/
theorem two_bounds_one_side_differ :
    view30 ([(Kind.gte, "1"), (Kind.gt, "2")].foldl (apply30 intParsers .integer) {}) ≠
      view31 intParsers ([(Kind.gte, "1"), (Kind.gt, "2")].foldl (apply31 intParsers .integer) {}) := by decide

/-- a value only one converter reads: 3.0 ignores an unparsable length, 3.1 clears the member -/
theorem unparsable_value_differs :
    view30 ([(Kind.min, "2"), (Kind.min, "abc")].foldl (apply30 intParsers .string) {}) ≠
      view31 intParsers ([(Kind.min, "2"), (Kind.min, "abc")].foldl (apply31 intParsers .string) {}) := by decide

/-- an upper count of zero: 3.0 documents `maxItems: 0`, the 3.1 renderer drops it (finding C11-F8) -/
theorem zero_upper_count_differs :
    view30 ([(Kind.maxItems, "0")].foldl (apply30 intParsers .array) {}) ≠
      view31 intParsers ([(Kind.maxItems, "0")].foldl (apply31 intParsers .array) {}) := by decide

/-- `Agreeable` is satisfiable by a tag that uses every slot -/
example : Agreeable intParsers .string
    [(kindOf "email", ""), (kindOf "min", "2"), (kindOf "max", "10"), (kindOf "pattern", "^a+$"), (kindOf "oneof", "1 true x"), (kindOf "required", "")] := by
  refine ⟨?_, by decide, by decide⟩
  intro r hr
  simp only [List.mem_cons, List.not_mem_nil, or_false] at hr
  rcases hr with h | h | h | h | h | h <;> subst h <;>
    refine ⟨by decide, ?_, by decide, by decide⟩ <;> first | (intro h; exact absurd h (by decide)) | exact fun _ => ⟨2, by decide, by decide⟩ | exact fun _ => ⟨10, by decide, by decide⟩

example : Agreeable intParsers .integer [(Kind.gt, "0"), (Kind.lte, "9"), (Kind.enum, "1|2")] := by
  refine ⟨?_, by decide, by decide⟩
  intro r hr
  simp only [List.mem_cons, List.not_mem_nil, or_false] at hr
  rcases hr with h | h | h <;> subst h <;> refine ⟨by decide, fun h => absurd h (by decide), by decide, by decide⟩

/-! ### what is written into `enum` belongs to the schema's type (C08) -/

theorem members30_typed (P : Parsers ν) (t : Ty) (ht : t.scalar = true) (vals : List String) :
    ∀ m ∈ members30 P t vals, memberOfType t m = true := by
  intro m hm
  cases t
  · simp only [members30, List.mem_map] at hm; obtain ⟨v, _, rfl⟩ := hm; rfl
  · simp only [members30, List.mem_filterMap] at hm; obtain ⟨v, _, hv⟩ := hm
    cases hp : P.int v <;> simp [hp] at hv; subst hv; rfl
  · simp only [members30, List.mem_filterMap] at hm; obtain ⟨v, _, hv⟩ := hm
    cases hp : P.num v <;> simp [hp] at hv; subst hv; rfl
  · simp only [members30, List.mem_filterMap] at hm; obtain ⟨v, _, hv⟩ := hm
    cases hp : P.bool v <;> simp [hp] at hv; subst hv; rfl
  · exact absurd ht (by decide)
  · exact absurd ht (by decide)

/-- **3.0**: after any rule list, every enum member of a scalar schema is a value of the schema's type -/
theorem enum30_typed (P : Parsers ν) (t : Ty) (ht : t.scalar = true) (rs : List (Kind × String)) :
    ∀ (a : S30 ν), (∀ m ∈ a.enum, memberOfType t m = true) →
      ∀ m ∈ (rs.foldl (apply30 P t) a).enum, memberOfType t m = true := by
  induction rs with
  | nil => intro a h; exact h
  | cons r rest ih =>
    intro a h
    simp only [List.foldl_cons]
    apply ih
    obtain ⟨k, v⟩ := r
    cases k <;> simp only [apply30] <;> (try split) <;> (try split) <;> (try split) <;> first
      | exact h
      | exact members30_typed P t ht _
      | (intro m hm; cases hm)

/-- **3.1**: after any rule list, every enum member of a STRING schema is text (tagged `!!str`), never an
    untagged scalar the renderer might read as a number or a boolean -/
theorem enum31_string_typed (P : Parsers ν) (rs : List (Kind × String)) :
    ∀ (b : S31 ν), (∀ m ∈ b.enum, memberOfType Ty.string m = true) →
      ∀ m ∈ (rs.foldl (apply31 P .string) b).enum, memberOfType Ty.string m = true := by
  induction rs with
  | nil => intro b h; exact h
  | cons r rest ih =>
    intro b h
    simp only [List.foldl_cons]
    apply ih
    obtain ⟨k, v⟩ := r
    cases k <;> simp only [apply31] <;> (try split) <;> (try split) <;> first
      | exact h
      | (intro m hm; simp [enum31, oneof31] at hm; obtain ⟨_, _, rfl⟩ := hm; rfl)
      | (intro m hm; cases hm)

end Gleece.Conv
