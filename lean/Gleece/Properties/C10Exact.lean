/-
  C10 - every diagnostic of the link validator is an ERROR, so "no error-severity diagnostic" and "no diagnostic" are the
  same thing for it: the receiver-level verdict (`hasError … = false`) hands `linkValidate … = []` to the characterisation
  `link_accepts_iff_partial`.
-/
import Gleece.Properties.C10Common
namespace Gleece.Validate

theorem goUrl_all_err (referenced ps seen : List String) :
    ∀ d ∈ linkValidate.goUrl referenced ps seen, d.severity = 1 := by
  induction ps generalizing seen with
  | nil => intro d hd; simp [linkValidate.goUrl] at hd
  | cons p rest ih =>
    intro d hd
    unfold linkValidate.goUrl at hd
    rcases List.mem_append.1 hd with h | h
    · rcases List.mem_append.1 h with h | h
      · split at h
        · simp only [List.mem_singleton] at h; subst h; rfl
        · cases h
      · split at h
        · cases h
        · simp only [List.mem_singleton] at h; subst h; rfl
    · exact ih _ d h

theorem goPath_all_err (funcParams urlParams : List String) (as : List Annot) (sp sv sa : List String) :
    ∀ d ∈ (linkValidate.goPath urlParams funcParams as sp sv sa).1, d.severity = 1 := by
  induction as generalizing sp sv sa with
  | nil => intro d hd; simp [linkValidate.goPath] at hd
  | cons a rest ih =>
    intro d hd
    unfold linkValidate.goPath at hd
    simp only at hd
    generalize hrec : linkValidate.goPath urlParams funcParams rest _ _ _ = rec at hd
    obtain ⟨r, spr⟩ := rec
    simp only [List.mem_append] at hd
    rcases hd with ((hA | hB) | hC) | hr
    · split at hA
      · simp only [List.mem_singleton] at hA; subst hA; rfl
      · split at hA
        · simp only [List.mem_singleton] at hA; subst hA; rfl
        · cases hA
    · split at hB
      · simp only [List.mem_singleton] at hB; subst hB; rfl
      · cases hB
    · -- the alias part
      revert hC
      cases aliasOf a with
      | bad => intro hC; simp only [List.mem_singleton] at hC; subst hC; rfl
      | none =>
        intro hC
        simp only at hC
        split at hC
        · simp only [List.mem_singleton] at hC; subst hC; rfl
        · cases hC
      | ok al =>
        intro hC
        simp only at hC
        split at hC
        · split at hC
          · simp only [List.mem_singleton] at hC; subst hC; rfl
          · cases hC
        · simp only [List.mem_append] at hC
          rcases hC with h | h
          · split at h
            · simp only [List.mem_singleton] at h; subst h; rfl
            · cases h
          · split at h
            · cases h
            · simp only [List.mem_singleton] at h; subst h; rfl
    · have := ih _ _ _ d (by rw [hrec]; exact hr)
      exact this


theorem linkValidate_all_err (ctrlRoute : String) (m : Method) : ∀ d ∈ linkValidate ctrlRoute m, d.severity = 1 := by
  intro d hd
  unfold linkValidate at hd
  simp only [List.mem_append] at hd
  rcases hd with ((h1 | h2) | h3) | h4
  · split at h1
    · obtain ⟨_, _, rfl⟩ := List.mem_map.1 h1; rfl
    · exact goUrl_all_err _ _ _ d h1
  · exact goPath_all_err _ _ _ _ _ _ d h2
  · obtain ⟨_, _, rfl⟩ := List.mem_map.1 h3; rfl
  · split at h4
    · obtain ⟨_, _, rfl⟩ := List.mem_map.1 h4; rfl
    · have := List.mem_eraseDups.1 h4
      obtain ⟨_, _, rfl⟩ := List.mem_map.1 this; rfl

/-- for the link validator "no error" and "no diagnostic" coincide -/
theorem linkValidate_nil_of_noerr (ctrlRoute : String) (m : Method) (h : hasError (linkValidate ctrlRoute m) = false) :
    linkValidate ctrlRoute m = [] := by
  cases hl : linkValidate ctrlRoute m with
  | nil => rfl
  | cons d rest =>
    exfalso
    have hd := linkValidate_all_err ctrlRoute m d (by rw [hl]; simp)
    rw [hl] at h
    simp [hasError, hd] at h

/-- **What an accepted route is** (the sound direction at the level of the whole receiver validator): no hard error and
    no error-severity diagnostic means the annotations satisfy `AnnotsWellFormed`, the method is exported, and - for
    distinctly named parameters, no empty alias, and up to C10-F2 - the route is `WellLinked`. -/
theorem accepted_route_is_well_formed_partial (env : TypeEnv) (emb : List String) (enforce hasDefault : Bool)
    (ctrlAnnots : List Annot) (m : Method) (ds : List Diag)
    (hv : validateReceiver env emb enforce hasDefault ctrlAnnots m = some ds) (hok : hasError ds = false)
    (hnd : (m.params.map (·.name)).eraseDups.length = m.params.length)
    (hAlias : ∀ a ∈ m.annots.filter (·.name = "Path"), aliasOf a ≠ .ok "")
    (hF2 : ∀ a ∈ m.annots.filter (·.name = "Path"), (∀ al, aliasOf a = .ok al → al = "") →
        a.value ∈ extractUrlParams ((((ctrlAnnots.find? (·.name = "Route")).map (·.value)).getD "") ++
          ((m.annots.filter (·.name = "Route")).head?.map (·.value)).getD "")) :
    AnnotsWellFormed m.annots ∧ isExportedName m.name = true ∧
    WellLinked (((ctrlAnnots.find? (·.name = "Route")).map (·.value)).getD "") m := by
  unfold validateReceiver at hv
  split at hv
  · cases hv
  · cases hp : validateParams env m with
    | none => rw [hp] at hv; cases hv
    | some pd =>
      rw [hp] at hv
      simp only [Option.map_some, Option.some.injEq] at hv
      subst hv
      simp only [hasError_append, Bool.or_eq_false_iff] at hok
      obtain ⟨⟨⟨⟨⟨hc, hexp⟩, _⟩, _⟩, _⟩, hlink⟩ := hok
      refine ⟨commonValidate_sound "route" m.annots hc, ?_, ?_⟩
      · cases he : isExportedName m.name with
        | true => rfl
        | false => rw [he] at hexp; simp [hasError, err] at hexp
      · exact accepted_is_wellLinked_partial _ m (linkValidate_nil_of_noerr _ m hlink) hnd hAlias hF2


/-- non-vacuity: the route of the `wellLinkedB` example IS accepted by the whole receiver validator (prefix parameter,
    aliased and un-aliased @Path, a query parameter, the request context; enforce flag on, secured by the controller) -/
example :
    let m : Method := { name := "Get", annots := [⟨"Method", "GET", [], ""⟩, ⟨"Route", "/{id}/x/{k}", [], ""⟩,
                          ⟨"Path", "tenant", [], ""⟩, ⟨"Path", "id", [], ""⟩, ⟨"Path", "key", [("name", .str, "k")], ""⟩,
                          ⟨"Query", "q", [], ""⟩],
                        params := [⟨"ctx", "context.Context"⟩, ⟨"tenant", "string"⟩, ⟨"id", "int"⟩, ⟨"key", "string"⟩, ⟨"q", "*string"⟩],
                        results := ["error"] }
    let ctrl : List Annot := [⟨"Tag", "T", [], ""⟩, ⟨"Route", "/t/{tenant}", [], ""⟩, ⟨"Security", "sec0", [], ""⟩]
    (validateReceiver {} [] true false ctrl m).map hasError = some false := by decide +kernel

end Gleece.Validate
