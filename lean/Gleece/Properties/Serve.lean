/-
  Request-level theorems (C02 / C03 / C05), for EVERY request and every route — no bound on the number of
  alternatives, parameters, header / query members:
   * the controller method runs only if the route's effective security is empty or some alternative
     consists of schemes the callback approves (`called_only_if_approved`);
   * when every alternative contains a refused scheme nothing is parsed and nothing runs
     (`all_denied_refused`);
   * a request that lacks a required non-body parameter never reaches the controller
     (`missing_required_never_called`);
   * a request whose path matches no registered template is not served (`unmatched_not_served`), and a
     matched request is answered by a route with that verb (`served_by_matching_route`);
   * accepted integer text is in range of the declared width and is printed canonically
     (`parseIntegral_in_range`).
-/
import Gleece.Model.Serve
import Gleece.Properties.C03
namespace Gleece.Serve
open Gleece.Reduce Gleece.Validate Gleece.IR Gleece.Router

/-- an alternative the deny-callback lets through: none of its schemes is refused -/
def altApproved (deny : List String) (l : List Check) : Bool := l.all fun c => !deny.contains c.scheme

theorem approvesAll_deny (deny : List String) (hist : List Check) (l : List Check) :
    approvesAll (denyCallback deny) hist l ↔ altApproved deny l = true := by
  induction l generalizing hist with
  | nil => simp [approvesAll, altApproved]
  | cons c cs ih =>
    simp only [approvesAll, altApproved, List.all_cons, Bool.and_eq_true, Bool.not_eq_true']
    rw [ih]
    simp only [denyCallback, altApproved]
    constructor
    · rintro ⟨h1, h2⟩
      refine ⟨?_, h2⟩
      by_cases hd : deny.contains c.scheme = true
      · exact absurd (List.contains_iff_mem.1 hd) (by simpa using h1)
      · simpa using hd
    · rintro ⟨h1, h2⟩
      refine ⟨?_, h2⟩
      have : ¬ c.scheme ∈ deny := fun hm => by
        have := List.contains_iff_mem.2 hm
        rw [h1] at this
        exact Bool.false_ne_true this
      simp [this]

/-- **C03 at request level**: the controller method is called only when the effective security is empty or
    one alternative is entirely approved -/
theorem called_only_if_approved (enums : List String) (sr : SRoute) (bound : List (String × String)) (rq : Req)
    (asked : List Check) (op : String) (args : List String) (st : Nat)
    (h : serveRoute enums sr bound rq = .called asked op args st) :
    sr.r.security = [] ∨ ∃ alt ∈ sr.r.security, altApproved rq.deny (checksOf alt) = true := by
  unfold serveRoute at h
  cases ha : authorize (denyCallback rq.deny) [] none (sr.r.security.map checksOf) with
  | mk res hist =>
    rw [ha] at h
    cases res with
    | some e => simp at h
    | none =>
      have h1 : (authorize (denyCallback rq.deny) [] none (sr.r.security.map checksOf)).1 = none := by rw [ha]
      rcases authorize_none _ _ _ h1 with hnil | ⟨l, hl, h0, happ⟩
      · left
        simpa using hnil
      · right
        rw [List.mem_map] at hl
        obtain ⟨alt, halt, rfl⟩ := hl
        exact ⟨alt, halt, (approvesAll_deny _ _ _).1 happ⟩

/-- **every alternative refused ⇒ nothing is parsed, nothing runs** -/
theorem all_denied_refused (enums : List String) (sr : SRoute) (bound : List (String × String)) (rq : Req)
    (hne : sr.r.security ≠ [])
    (hden : ∀ alt ∈ sr.r.security, altApproved rq.deny (checksOf alt) = false) :
    ∃ asked, serveRoute enums sr bound rq = .refused asked := by
  unfold serveRoute
  cases ha : authorize (denyCallback rq.deny) [] none (sr.r.security.map checksOf) with
  | mk res hist =>
    cases res with
    | some e => exact ⟨hist, rfl⟩
    | none =>
      exfalso
      have h1 : (authorize (denyCallback rq.deny) [] none (sr.r.security.map checksOf)).1 = none := by rw [ha]
      rcases authorize_none _ _ _ h1 with hnil | ⟨l, hl, h0, happ⟩
      · exact hne (by simpa using hnil)
      · rw [List.mem_map] at hl
        obtain ⟨alt, halt, rfl⟩ := hl
        have := (approvesAll_deny _ _ _).1 happ
        rw [hden alt halt] at this
        exact Bool.false_ne_true this

theorem bindAll_some_each (enums : List String) (bound : List (String × String)) (rq : Req) (infos : List PInfo)
    (args : List String) (h : bindAll enums bound rq infos = some args) :
    ∀ pi ∈ infos, (bindParam enums bound rq pi).isSome = true := by
  induction infos generalizing args with
  | nil => intro pi hpi; cases hpi
  | cons x xs ih =>
    unfold bindAll at h
    cases hx : bindParam enums bound rq x with
    | none => rw [hx] at h; simp at h
    | some a =>
      rw [hx] at h
      cases hr : bindAll enums bound rq xs with
      | none => rw [hr] at h; simp at h
      | some rest =>
        intro pi hpi
        rcases List.mem_cons.1 hpi with rfl | hin
        · simp [hx]
        · exact ih rest hr pi hin

/-- **C05**: a required scalar parameter (query / header / form) that the request does not carry stops the
    request before the controller -/
theorem missing_required_never_called (enums : List String) (sr : SRoute) (bound : List (String × String)) (rq : Req)
    (pi : PInfo) (hin : pi ∈ sr.infos) (hctx : pi.p.isContext = false)
    (hloc : pi.p.passedIn = "query") (hscalar : (stripPtr pi.ty).startsWith "[]" = false)
    (hreq : isFieldRequired pi.p.validator.toList = true)
    (hmiss : rq.query.find? (·.1 = pi.p.nameInSchema) = none) :
    ∀ asked op args st, serveRoute enums sr bound rq ≠ .called asked op args st := by
  intro asked op args st h
  unfold serveRoute at h
  cases ha : authorize (denyCallback rq.deny) [] none (sr.r.security.map checksOf) with
  | mk res hist =>
    rw [ha] at h
    cases res with
    | some e => simp at h
    | none =>
      simp only at h
      cases hb : bindAll enums bound rq sr.infos with
      | none => rw [hb] at h; simp at h
      | some a =>
        have := bindAll_some_each enums bound rq sr.infos a hb pi hin
        unfold bindParam at this
        have hq : pi.p.passedIn ≠ "body" := by rw [hloc]; decide
        have hpath : pi.p.passedIn ≠ "path" := by rw [hloc]; decide
        simp [hctx, hq, hpath, hscalar, hloc, hmiss, hreq] at this

/-- **C02**: a request whose verb + path matches no registered template is not served -/
theorem unmatched_not_served (enums : List String) (routes : List SRoute) (rq : Req)
    (h : ∀ sr ∈ routes, sr.r.verb ≠ rq.method ∨ matchSegs (templateSegs sr.ctrlPath sr.r.path) rq.segs = none) :
    serve enums routes rq = .notServed := by
  unfold serve findRoute
  have : (routes.findSome? fun sr =>
      if sr.r.verb ≠ rq.method then none
      else (matchSegs (templateSegs sr.ctrlPath sr.r.path) rq.segs).map fun b => (sr, b)) = none := by
    rw [List.findSome?_eq_none_iff]
    intro sr hsr
    rcases h sr hsr with hv | hm
    · simp [hv]
    · simp [hm]
  rw [this]

/-- a served request is answered by a registered route with the request's verb whose template matches -/
theorem served_by_matching_route (routes : List SRoute) (rq : Req) (sr : SRoute) (b : List (String × String))
    (h : findRoute routes rq = some (sr, b)) :
    sr ∈ routes ∧ sr.r.verb = rq.method ∧ matchSegs (templateSegs sr.ctrlPath sr.r.path) rq.segs = some b := by
  unfold findRoute at h
  obtain ⟨x, hx, hxe⟩ := List.exists_of_findSome?_eq_some h
  by_cases hv : x.r.verb ≠ rq.method
  · simp [hv] at hxe
  · simp only [hv, if_false, Option.map_eq_some_iff, Prod.mk.injEq] at hxe
    obtain ⟨bb, hm, rfl, rfl⟩ := hxe
    exact ⟨hx, by simpa using hv, hm⟩

/-- a literal template segment is matched only by itself; a variable by any non-empty segment -/
theorem matchSegs_literal (t s : String) (ts ss : List String) (ht : isVar t = false) (hne : t ≠ s) :
    matchSegs (t :: ts) (s :: ss) = none := by
  simp [matchSegs, ht, hne]

/-- **C05 — integer conversion**: accepted text denotes a value inside the declared unsigned width -/
theorem parseIntegral_unsigned_in_range (ty raw out : String) (hu : isUnsignedInt ty = true)
    (h : parseIntegral ty raw = some out) :
    ∃ n, digitsVal raw.toList = some n ∧ n < 2 ^ intWidth ty ∧ out = toString n := by
  unfold parseIntegral at h
  by_cases hw : intWidth ty = 0
  · simp [hw] at h
  · simp only [hw, if_false, hu, if_true] at h
    split at h
    · simp at h
    · cases hd : digitsVal raw.toList with
      | none => simp [hd] at h
      | some n =>
        simp only [hd, Option.bind_some] at h
        by_cases hlt : n < 2 ^ intWidth ty
        · simp only [hlt, if_true, Option.some.injEq] at h
          exact ⟨n, rfl, hlt, h.symm⟩
        · simp [hlt] at h

/-- **the two router models agree on the gate**: the request-level model refuses exactly when the step-list
    model of the rendered handler (`Router.exec` over `handlerOf`, the model the go/ast extraction of the
    rendered file is compared with) runs no parsing / controller step — for every route with the same
    effective security, every request, every deny set. -/
theorem serve_refused_iff_exec_gate (enums : List String) (sr : SRoute) (bound : List (String × String)) (rq : Req)
    (c : Controller) (r : Route) (hsec : enforcedSecurity r = sr.r.security) :
    (∃ asked, serveRoute enums sr bound rq = .refused asked) ↔
      (exec (denyCallback rq.deny) (handlerOf c r)).any isControllerEvent = false := by
  constructor
  · rintro ⟨asked, h⟩
    unfold serveRoute at h
    cases ha : authorize (denyCallback rq.deny) [] none (sr.r.security.map checksOf) with
    | mk res hist =>
      rw [ha] at h
      cases res with
      | none =>
        simp only at h
        cases hb : bindAll enums bound rq sr.infos with
        | none => rw [hb] at h; simp at h
        | some a => rw [hb] at h; simp at h
      | some e =>
        have h1 : (authorize (denyCallback rq.deny) [] none ((enforcedSecurity r).map checksOf)).1 = some e := by rw [hsec, ha]
        exact (refused_no_controller _ c r e h1).1
  · intro h
    unfold serveRoute
    cases ha : authorize (denyCallback rq.deny) [] none (sr.r.security.map checksOf) with
    | mk res hist =>
      cases res with
      | some e => exact ⟨hist, rfl⟩
      | none =>
        exfalso
        -- approved: the handler runs at least the controller construction step
        have hg := gateFirst_handlerOf c r
        unfold handlerOf at h hg
        simp only [List.cons_append, List.nil_append] at h hg
        rw [exec_gateFirst _ _ _ hg] at h
        have h1 : (authorize (denyCallback rq.deny) [] none ((enforcedSecurity r).map checksOf)).1 = none := by rw [hsec, ha]
        rw [h1] at h
        simp [isControllerEvent, List.any_append, List.any_map] at h

/-! ### C12: what exactly the frameworks may differ in -/

theorem bindParam_std (enums : List String) (bound : List (String × String)) (rq : Req) (pi : PInfo) :
    bindParam enums bound rq pi = bindParamA enums (stdAccessors bound rq) pi := by
  unfold bindParam bindParamA stdAccessors
  by_cases hc : pi.p.isContext = true
  · simp [hc]
  · simp only [hc, Bool.false_eq_true, if_false]
    by_cases hb : pi.p.passedIn = "body"
    · simp only [hb, if_true]
      by_cases hok : (rq.hasBody && rq.bodyOk) = true <;> simp [hok]
    · simp only [hb, if_false]

theorem bindAll_std (enums : List String) (bound : List (String × String)) (rq : Req) (infos : List PInfo) :
    bindAll enums bound rq infos = bindAllA enums (stdAccessors bound rq) infos := by
  induction infos with
  | nil => rfl
  | cons x xs ih => unfold bindAll bindAllA; rw [bindParam_std, ih]

/-- `serve` is the handler on top of the faithful framework with the deny-callback -/
theorem serveRoute_std (enums : List String) (sr : SRoute) (bound : List (String × String)) (rq : Req) :
    serveRoute enums sr bound rq = serveRouteA enums (denyCallback rq.deny) (stdAccessors bound rq) sr := by
  unfold serveRoute serveRouteA
  rw [bindAll_std]

/-- two frameworks agree on a request, as far as ONE route's parameters are concerned -/
def AccessorsAgree (a₁ a₂ : Accessors) (infos : List PInfo) : Prop :=
  (∀ pi ∈ infos, a₁.scalar pi = a₂.scalar pi ∧ a₁.multi pi = a₂.multi pi) ∧ a₁.body = a₂.body

theorem bindAllA_congr (enums : List String) (a₁ a₂ : Accessors) (infos : List PInfo) (h : AccessorsAgree a₁ a₂ infos) :
    bindAllA enums a₁ infos = bindAllA enums a₂ infos := by
  induction infos with
  | nil => rfl
  | cons x xs ih =>
    have hx := h.1 x (by simp)
    have hrest : AccessorsAgree a₁ a₂ xs := ⟨fun pi hpi => h.1 pi (List.mem_cons_of_mem _ hpi), h.2⟩
    unfold bindAllA
    have : bindParamA enums a₁ x = bindParamA enums a₂ x := by
      unfold bindParamA
      rw [hx.1, hx.2, h.2]
    rw [this, ih hrest]

/-- **Interchangeable**: the rendered handler is one function of (callback, what the framework hands over).
    Two engines whose accessors deliver the same raw values for a route's parameters give the same outcome —
    same checks asked in the same order, same refusal / 422 / controller call with the same arguments — for
    every callback.  Everything an engine can differ in is therefore an `AccessorsAgree` failure (findings
    C12-F1, C12-F3) or a dispatch difference before the handler is reached (C12-F2, C12-F4). -/
theorem interchangeable_of_accessors_agree (enums : List String) (cb : Callback) (a₁ a₂ : Accessors) (sr : SRoute)
    (h : AccessorsAgree a₁ a₂ sr.infos) : serveRouteA enums cb a₁ sr = serveRouteA enums cb a₂ sr := by
  unfold serveRouteA
  rw [bindAllA_congr enums a₁ a₂ sr.infos h]

/-- the hypothesis is not idle: an accessor that hands over the undecoded path text (fiber, finding C12-F1)
    changes the outcome -/
def exPathRoute : SRoute :=
  { ctrl := "C", ctrlPath := "/c",
    r := { opId := "Op", verb := "GET", path := "/{v}", hidden := false, deprecated := false, security := [],
           params := [], hasReturn := false, successCode := 204, errorCodes := [] },
    infos := [⟨⟨"v", false, "path", "v", "required", ""⟩, "string"⟩] }
def accDecoded : Accessors := { scalar := fun _ => some "a b", multi := fun _ => [], body := none }
def accRaw : Accessors := { scalar := fun _ => some "a%20b", multi := fun _ => [], body := none }
example : serveRouteA [] (denyCallback []) accDecoded exPathRoute ≠ serveRouteA [] (denyCallback []) accRaw exPathRoute := by
  decide +kernel

/-! non-vacuity: a route with two alternatives, the first refused; a missing required query member -/
def exRoute : SRoute :=
  { ctrl := "C", ctrlPath := "/c/",
    r := { opId := "Op", verb := "GET", path := "/a/{id}", hidden := false, deprecated := false,
           security := [[⟨"s0", ["r"]⟩], [⟨"s1", []⟩]],
           params := [], hasReturn := true, successCode := 200, errorCodes := [] },
    infos := [⟨⟨"id", false, "path", "id", "required", ""⟩, "uint8"⟩, ⟨⟨"q", false, "query", "q", "required", ""⟩, "string"⟩, ⟨⟨"o", false, "query", "o", "", ""⟩, "*int"⟩] }

def exReq (deny : List String) (query : List (String × String)) (id : String) : Req :=
  { method := "GET", segs := ["c", "a", id], query := query, headers := [], form := [], hasBody := false, bodyOk := false, body := "", deny := deny }

example : serve [] [exRoute] (exReq ["s0"] [("q", "x")] "255") =
    .called [⟨"s0", ["r"]⟩, ⟨"s1", []⟩] "C.Op" ["255", "\"x\"", "<nil>"] 200 := by decide +kernel
example : serve [] [exRoute] (exReq ["s0", "s1"] [("q", "x")] "255") = .refused [⟨"s0", ["r"]⟩, ⟨"s1", []⟩] := by decide +kernel
example : serve [] [exRoute] (exReq [] [] "255") = .invalid [⟨"s0", ["r"]⟩] := by decide +kernel
example : serve [] [exRoute] (exReq [] [("q", "x")] "256") = .invalid [⟨"s0", ["r"]⟩] := by decide +kernel
example : serve [] [exRoute] { exReq [] [] "1" with segs := ["c", "b", "1"] } = .notServed := by decide +kernel

end Gleece.Serve

namespace Gleece.Serve
open Gleece.Reduce Gleece.Validate Gleece.IR Gleece.Router

/-- **C02 — what "matches" means**: a request path is matched by a template exactly when both have the same number
    of segments, every literal segment is equal, and every `{variable}` stands for a non-empty segment; the binding
    lists the variables in template order with the segments they stand for. -/
theorem matchSegs_spec : ∀ (ts ss : List String) (b : List (String × String)),
    matchSegs ts ss = some b →
      ts.length = ss.length ∧
      (∀ i (h₁ : i < ts.length) (h₂ : i < ss.length), isVar ts[i] = false → ts[i] = ss[i]) ∧
      b.map (·.1) = (ts.filter isVar).map varName
  | [], [], b, h => by
    simp only [matchSegs, Option.some.injEq] at h
    subst h
    exact ⟨rfl, fun i h₁ => absurd h₁ (by simp), rfl⟩
  | [], _ :: _, _, h => by simp [matchSegs] at h
  | _ :: _, [], _, h => by simp [matchSegs] at h
  | t :: ts, s :: ss, b, h => by
    unfold matchSegs at h
    by_cases hv : isVar t = true
    · simp only [hv, if_true] at h
      by_cases hs : s.isEmpty = true
      · simp [hs] at h
      · simp only [hs, Bool.false_eq_true, if_false, Option.map_eq_some_iff] at h
        obtain ⟨b', hb', rfl⟩ := h
        obtain ⟨hl, hlit, hnames⟩ := matchSegs_spec ts ss b' hb'
        refine ⟨by simp [hl], ?_, by simp [List.filter, hv, hnames]⟩
        intro i h₁ h₂ hnv
        cases i with
        | zero => simp only [List.getElem_cons_zero] at hnv; rw [hv] at hnv; cases hnv
        | succ j =>
          simp only [List.getElem_cons_succ] at hnv ⊢
          exact hlit j (by simpa using h₁) (by simpa using h₂) hnv
    · simp only [hv, Bool.false_eq_true, if_false] at h
      by_cases hts : t = s
      · simp only [hts, if_true] at h
        obtain ⟨hl, hlit, hnames⟩ := matchSegs_spec ts ss b h
        have hvf : isVar t = false := by simpa using hv
        refine ⟨by simp [hl], ?_, by simp [List.filter, hvf, hnames]⟩
        intro i h₁ h₂ hnv
        cases i with
        | zero => simpa using hts
        | succ j =>
          simp only [List.getElem_cons_succ] at hnv ⊢
          exact hlit j (by simpa using h₁) (by simpa using h₂) hnv
      · simp [hts] at h

/-- **C05 — signed integers**: accepted text denotes a value inside the declared signed width: below 2^(w-1)
    when there is no minus sign, at most 2^(w-1) in absolute value when there is one -/
theorem parseIntegral_signed_in_range (ty raw out : String) (hs : isUnsignedInt ty = false) (hw : intWidth ty ≠ 0)
    (h : parseIntegral ty raw = some out) :
    ∃ n, digitsVal (splitSign raw.toList).2 = some n ∧
      (if (splitSign raw.toList).1 then n ≤ 2 ^ (intWidth ty - 1) else n < 2 ^ (intWidth ty - 1)) := by
  unfold parseIntegral at h
  simp only [hw, if_false, hs, Bool.false_eq_true] at h
  cases hd : digitsVal (splitSign raw.toList).2 with
  | none => simp [hd] at h
  | some n =>
    simp only [hd, Option.bind_some] at h
    refine ⟨n, rfl, ?_⟩
    by_cases hneg : (splitSign raw.toList).1 = true
    · simp only [hneg, if_true] at h ⊢
      by_cases hle : n ≤ 2 ^ (intWidth ty - 1)
      · exact hle
      · simp [hle] at h
    · simp only [hneg, Bool.false_eq_true, if_false] at h ⊢
      by_cases hlt : n < 2 ^ (intWidth ty - 1)
      · exact hlt
      · simp [hlt] at h

theorem filterMap_reduce_names (annots : List Annot) : ∀ ps : List MParam,
    (∀ p ∈ ps, ∃ r, reduceParam annots p = some r ∧ r.name = p.name) →
    ((ps.map (reduceParam annots)).filterMap id).map (·.name) = ps.map (·.name)
  | [], _ => rfl
  | p :: ps, hall => by
    obtain ⟨r, hr, hn⟩ := hall p (by simp)
    have ih := filterMap_reduce_names annots ps (fun q hq => hall q (List.mem_cons_of_mem _ hq))
    simp only [List.map_cons, hr, List.filterMap_cons, id, hn, ih]

/-- **C06 — signature order survives reduction**: the reduced parameters are the signature's, in order -/
theorem reduceRoute_param_order (parent : Security) (m : Method) (rr : RRoute) (h : reduceRoute parent m = some rr) :
    rr.params.map (·.name) = m.params.map (·.name) := by
  unfold reduceRoute at h
  by_cases hany : (m.params.map (reduceParam m.annots)).any Option.isNone = true
  · simp [hany] at h
  · simp only [hany, Bool.false_eq_true, if_false, Option.some.injEq] at h
    subst h
    apply filterMap_reduce_names
    intro p hp
    cases hr : reduceParam m.annots p with
    | none =>
      exfalso; apply hany
      rw [List.any_eq_true]
      exact ⟨none, List.mem_map.2 ⟨p, hp, hr⟩, rfl⟩
    | some r =>
      refine ⟨r, rfl, ?_⟩
      unfold reduceParam at hr
      by_cases hc : isContextType p.type = true
      · simp only [hc, if_true, Option.some.injEq] at hr; subst hr; rfl
      · simp only [hc, Bool.false_eq_true, if_false] at hr
        split at hr
        · split at hr
          · cases hr
          · simp only [Option.some.injEq] at hr; subst hr; rfl
        · cases hr

end Gleece.Serve

/-! ### the validator tag (C05-F2) -/
namespace Gleece.Serve
open Gleece.Router

def escChar (c : Char) : List Char :=
  if c = '&' then "&amp;".toList else if c = '\'' then "&apos;".toList else if c = '<' then "&lt;".toList
  else if c = '>' then "&gt;".toList else if c = '"' then "&quot;".toList else [c]

def plainChar (c : Char) : Bool := c != '&' && c != '\'' && c != '<' && c != '>' && c != '"'

theorem flatMap_esc_id (l : List Char) (h : l.all plainChar = true) : l.flatMap escChar = l := by
  induction l with
  | nil => rfl
  | cons c t ih =>
    simp only [List.all_cons, Bool.and_eq_true] at h
    have hc : escChar c = [c] := by
      have := h.1
      simp only [plainChar, Bool.and_eq_true, bne_iff_ne, ne_eq] at this
      obtain ⟨⟨⟨⟨h1, h2⟩, h3⟩, h4⟩, h5⟩ := this
      simp [escChar, h1, h2, h3, h4, h5]
    rw [List.flatMap_cons, hc, ih h.2]; rfl

/-- a validate string without `&`, `'`, `<`, `>`, `"` is what it is after HTML escaping … -/
theorem htmlEscape_id (s : String) (h : s.toList.all plainChar = true) : htmlEscape s = s := by
  show String.ofList (s.toList.flatMap escChar) = s
  rw [flatMap_esc_id _ h, String.ofList_toList]

/-- … and one WITH such a character is not, which changes what the validator accepts: the defect that was C05-F2 (the
    declared option `light blue` passes the declared tag and fails the escaped one) -/
theorem escaped_tag_changes_meaning :
    validatorAccepts "oneof='light blue' navy" "light blue" = true ∧
    validatorAccepts (htmlEscape "oneof='light blue' navy") "light blue" = false ∧
    validatorAccepts (htmlEscape "oneof='light blue' navy") "navy" = true := by decide +kernel

end Gleece.Serve
