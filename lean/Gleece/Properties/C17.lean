/-
  C17 — The symbol graph's views stay mutually consistent under any sequence of edits.

  Model: `Gleece/Model/Graph.lean` (the Go state `nodes / edges / deps / revDeps / nextEdgeSeq` and
  every public mutation), tied to `graphs/symboldg/graph.go` by the history-based correspondence
  (mode `graph`: all queries dumped after every operation).  Theorems quantify over every reachable
  state: every finite sequence of operations, any keys, versions and edge kinds.
-/
import Gleece.Lemmas.GraphRemove
import Gleece.Lemmas.GraphEvict
namespace Gleece.Graph

/-! ### the invariant holds in every reachable state -/

theorem inv_guardedAdd {g g' : G} {k id : Key} {kind : String} (inv : Inv g)
    (h : guardedAdd g k kind = some (g', id)) : Inv g' := by
  unfold guardedAdd at h
  split at h
  · split at h
    · simp only [Option.some.injEq, Prod.mk.injEq] at h; rw [← h.1]; exact inv
    · cases hr : removeNode (fuelFor g) g _ with
      | none => rw [hr] at h; simp at h
      | some g1 =>
        rw [hr] at h
        simp only [Option.map_some, Option.some.injEq, Prod.mk.injEq] at h
        rw [← h.1]
        exact inv_rawAddNode (removeNode_shrinks _ _ _ _ inv hr).1.inv _
  · simp only [Option.some.injEq, Prod.mk.injEq] at h; rw [← h.1]; exact inv_rawAddNode inv _

theorem inv_addBuiltin {g : G} (inv : Inv g) (k : Key) (kind : String) : Inv (addBuiltin g k kind) := by
  unfold addBuiltin; split
  · exact inv
  · exact inv_rawAddNode inv _

theorem inv_foldl_addEdge (l : List Key) (g : G) (id : Key) (kind : String) (inv : Inv g) :
    Inv (l.foldl (fun g f => addEdge g id f kind) g) := by
  induction l generalizing g with
  | nil => exact inv
  | cons x xs ih => exact ih _ (inv_addEdge inv id x kind)

/-- **One step.** Every public mutation preserves the consistency of the three indices. -/
theorem inv_step {g g' : G} (inv : Inv g) (op : Op) (h : step g op = some g') : Inv g' := by
  cases op with
  | addNode k kind =>
    simp only [step] at h
    cases hg : guardedAdd g k kind with
    | none => rw [hg] at h; simp at h
    | some p => rw [hg] at h; simp at h; rw [← h]; exact inv_guardedAdd (id := p.2) inv (by rw [hg])
  | addStruct k fields =>
    simp only [step] at h
    cases hg : guardedAdd g k "Struct" with
    | none => rw [hg] at h; simp at h
    | some p =>
      rw [hg] at h; simp at h; rw [← h]
      exact inv_foldl_addEdge _ _ _ _ (inv_guardedAdd (id := p.2) inv (by rw [hg]))
  | addEnum k prim values =>
    simp only [step] at h
    cases hg : guardedAdd g k "Enum" with
    | none => rw [hg] at h; simp at h
    | some p =>
      rw [hg] at h
      simp only [Option.bind_some] at h
      have inv1 : Inv (addBuiltin p.1 prim "Builtin") := inv_addBuiltin (inv_guardedAdd (id := p.2) inv (by rw [hg])) _ _
      revert h
      generalize addBuiltin p.1 prim "Builtin" = g1 at inv1
      induction values generalizing g1 with
      | nil => intro h; simp at h; rw [← h]; exact inv1
      | cons v vs ih =>
        intro h
        simp only [List.foldl_cons, Option.bind_some] at h
        cases hv : guardedAdd g1 v "Constant" with
        | none =>
          rw [hv] at h
          have : ∀ (l : List Key), l.foldl (fun og v => og.bind fun g =>
              (guardedAdd g v "Constant").map fun (x : G × Key) =>
                addEdge (addEdge x.1 p.2 x.2 "val") x.2 prim "ref") none = none := by
            intro l; induction l with
            | nil => rfl
            | cons _ _ ih' => simpa using ih'
          simp only [Option.map_none] at h
          rw [this] at h; simp at h
        | some q =>
          rw [hv] at h
          simp only [Option.map_some] at h
          exact ih _ (inv_addEdge (inv_addEdge (inv_guardedAdd (id := q.2) inv1 (by rw [hv])) _ _ _) _ _ _) h
  | addPrim k => simp only [step, Option.some.injEq] at h; rw [← h]; exact inv_addBuiltin inv _ _
  | addEdge f t kind => simp only [step, Option.some.injEq] at h; rw [← h]; exact inv_addEdge inv _ _ _
  | removeEdge f t kind => simp only [step, Option.some.injEq] at h; rw [← h]; exact inv_removeEdge inv _ _ _
  | removeNode k => simp only [step] at h; exact (removeNode_shrinks _ _ _ _ inv h).1.inv

/-- run a history from a state -/
def run (g : G) : List Op → Option G
  | [] => some g
  | op :: ops => (step g op).bind (run · ops)

/-- **Every reachable state** (induction over the operation history). -/
theorem inv_run (ops : List Op) (g g' : G) (inv : Inv g) (h : run g ops = some g') : Inv g' := by
  induction ops generalizing g with
  | nil => simp only [run, Option.some.injEq] at h; rw [← h]; exact inv
  | cons op ops ih =>
    simp only [run] at h
    cases hs : step g op with
    | none => rw [hs] at h; simp at h
    | some g1 => rw [hs] at h; exact ih g1 (inv_step inv op hs) h

theorem inv_reachable (ops : List Op) (g' : G) (h : run {} ops = some g') : Inv g' := inv_run ops {} g' inv_init h

/-! ### queries agree with the plain set of edges -/

/-- `GetEdges(b)` lists exactly the edges whose source or target is `b`. -/
theorem mem_getEdges {g : G} (inv : Inv g) (b : Nat) (e : Edge) :
    e ∈ getEdges g b ↔ e ∈ g.edges ∧ (e.src.base = b ∨ e.dst.base = b) := by
  unfold getEdges
  simp only [List.mem_append, List.mem_filter, decide_eq_true_eq, Bool.and_eq_true, Bool.not_eq_true',
    List.contains_eq_mem, List.mem_map, decide_eq_false_iff_not]
  constructor
  · rintro (⟨h1, h2⟩ | ⟨⟨h1, h2, _⟩, _⟩)
    · exact ⟨h1, Or.inl h2⟩
    · exact ⟨h1, Or.inr h2⟩
  · rintro ⟨h1, h2 | h2⟩
    · exact Or.inl ⟨h1, h2⟩
    · by_cases hs : e.src.base = b
      · exact Or.inl ⟨h1, hs⟩
      · right
        obtain ⟨d, hd, hd1, hd2⟩ := (inv.rev e.src.base b).2 ⟨e, h1, rfl, h2⟩
        exact ⟨⟨h1, h2, d, ⟨hd, hd1⟩, hd2⟩, fun h => hs h.2⟩

/-- **An edge is listed among its source's edges iff it is listed among its target's edges.** -/
theorem outgoing_iff_incoming {g : G} (inv : Inv g) (e : Edge) :
    e ∈ getEdges g e.src.base ↔ e ∈ getEdges g e.dst.base := by
  rw [mem_getEdges inv, mem_getEdges inv]; simp

theorem mem_sortByOrd (l : List Edge) (e : Edge) : e ∈ sortByOrd l ↔ e ∈ l :=
  (List.mergeSort_perm _ _).mem_iff

/-- `Children(b)` are exactly the existing targets of `b`'s edges. -/
theorem mem_children (g : G) (b c : Nat) :
    c ∈ children g b ↔ ∃ e ∈ g.edges, e.src.base = b ∧ e.dst.base = c ∧ g.hasNode c = true := by
  unfold children
  simp only [List.mem_map, mem_sortByOrd, List.mem_filter, Bool.and_eq_true, decide_eq_true_eq]
  constructor
  · rintro ⟨e, ⟨he, h1, h2⟩, rfl⟩; exact ⟨e, he, h1, rfl, h2⟩
  · rintro ⟨e, he, h1, rfl, h2⟩; exact ⟨e, ⟨he, h1, h2⟩, rfl⟩

theorem node?_isSome_iff (g : G) (b : Nat) : (∃ n, g.node? b = some n) ↔ g.hasNode b = true := by
  unfold G.node? G.hasNode
  constructor
  · rintro ⟨n, h⟩
    exact List.any_eq_true.2 ⟨n, List.mem_of_find?_eq_some h, by simpa using List.find?_some h⟩
  · intro h
    obtain ⟨n, hn, hp⟩ := List.any_eq_true.1 h
    cases hf : g.nodes.find? (fun x => decide (x.key.base = b)) with
    | some m => exact ⟨m, rfl⟩
    | none => exact absurd hp (by simpa using List.find?_eq_none.1 hf n hn)

theorem node?_base {g : G} {b : Nat} {n : Node} (h : g.node? b = some n) : n.key.base = b := by
  unfold G.node? at h; simpa using List.find?_some h

/-- `Parents(b)` are exactly the existing sources of the edges into `b`. -/
theorem mem_parents {g : G} (inv : Inv g) (b p : Nat) :
    p ∈ parents g b ↔ g.hasNode b = true ∧ ∃ e ∈ g.edges, e.dst.base = b ∧ e.src.base = p ∧ g.hasNode p = true := by
  unfold parents
  cases hn : g.node? b with
  | none =>
    simp only [List.not_mem_nil, false_iff, not_and]
    intro h
    obtain ⟨n, hn'⟩ := (node?_isSome_iff g b).2 h
    rw [hn] at hn'; simp at hn'
  | some n =>
    have hb : g.hasNode b = true := (node?_isSome_iff g b).1 ⟨n, hn⟩
    have hnb := node?_base hn
    simp only [List.mem_map, mem_sortByOrd, List.mem_flatMap, List.mem_filter, Bool.and_eq_true, decide_eq_true_eq, hb, true_and]
    constructor
    · rintro ⟨e, ⟨pk, ⟨d, ⟨_, _⟩, rfl⟩, he, ⟨h1, h2⟩, h3⟩, rfl⟩
      exact ⟨e, he, h2.trans hnb, rfl, h1 ▸ h3⟩
    · rintro ⟨e, he, h1, rfl, h3⟩
      obtain ⟨d, hd, hd1, hd2⟩ := (inv.rev e.src.base b).2 ⟨e, he, rfl, h1⟩
      exact ⟨e, ⟨d.2, ⟨d, ⟨hd, hd1⟩, rfl⟩, he, ⟨hd2.symm, h1.trans hnb.symm⟩, hd2 ▸ h3⟩, rfl⟩

/-- **Child and parent queries are dual** in every reachable state. -/
theorem child_parent_dual {g : G} (inv : Inv g) (a b : Nat) (ha : g.hasNode a = true) (hb : g.hasNode b = true) :
    b ∈ children g a ↔ a ∈ parents g b := by
  rw [mem_children, mem_parents inv]
  constructor
  · rintro ⟨e, he, h1, h2, _⟩; exact ⟨hb, e, he, h2, h1, ha⟩
  · rintro ⟨_, e, he, h1, h2, _⟩; exact ⟨e, he, h2, h1, hb⟩

/-! ### re-inserting an existing node or edge changes nothing -/

theorem addEdge_edges_of_exists (g : G) (f t : Key) (kind : String)
    (h : g.edges.any (edgeMatches f.base kind t.base) = true) : (addEdge g f t kind).edges = g.edges := by
  unfold addEdge
  simp only [h, if_true]

theorem addEdge_idem_edges (g : G) (f t : Key) (kind : String) :
    (addEdge (addEdge g f t kind) f t kind).edges = (addEdge g f t kind).edges := by
  apply addEdge_edges_of_exists
  unfold addEdge
  simp only
  split
  · assumption
  · simp [edgeMatches]

theorem guardedAdd_same_version (g : G) (k : Key) (kind : String) (n : Node)
    (h : g.node? k.base = some n) (hv : n.key.ver = k.ver) : guardedAdd g k kind = some (g, n.key) := by
  unfold guardedAdd; rw [h]; simp [hv]

/-! ### the abstraction map commutes with edge insertion / removal -/

def absEdge (e : Edge) : AEdge := ⟨e.src.base, e.kind, e.dst.base⟩
def abs (g : G) : A := { nodes := g.nodes.map (fun n => (n.key.base, n.key.ver, n.kind)), edges := g.edges.map absEdge }

theorem abs_addEdge (g : G) (f t : Key) (kind : String) :
    (abs (addEdge g f t kind)).edges = ((abs g).addEdge f.base kind t.base).edges := by
  have hiff : g.edges.any (edgeMatches f.base kind t.base) = (g.edges.map absEdge).contains ⟨f.base, kind, t.base⟩ := by
    rw [Bool.eq_iff_iff, List.any_eq_true, List.contains_iff_mem, List.mem_map]
    constructor
    · rintro ⟨e, he, hm⟩
      obtain ⟨h1, h2, h3⟩ := (edgeMatches_iff _ _ _ _).1 hm
      exact ⟨e, he, by simp [absEdge, h1, h2, h3]⟩
    · rintro ⟨e, he, hm⟩
      simp only [absEdge, AEdge.mk.injEq] at hm
      exact ⟨e, he, (edgeMatches_iff _ _ _ _).2 ⟨hm.1, hm.2.1, hm.2.2⟩⟩
  unfold addEdge A.addEdge abs
  simp only [hiff]
  split <;> simp [absEdge]

theorem abs_removeEdge (g : G) (f t : Key) (kind : Option String) :
    (abs (removeEdge g f t kind)).edges = ((abs g).removeEdge f.base t.base kind).edges := by
  unfold abs A.removeEdge
  simp only [removeEdge_edges, List.filter_map]
  congr 1

/-! ### removing a node removes it and every edge touching it -/

theorem removeNode_removes {fuel : Nat} {g g' : G} {key : Key} (inv : Inv g)
    (h : removeNode fuel g key = some g') (hex : g.hasNode key.base = true) :
    (∀ e ∈ g'.edges, e.src.base ≠ key.base ∧ e.dst.base ≠ key.base) ∧
    (∀ e ∈ g'.edges, e ∈ g.edges) ∧ (∀ n ∈ g'.nodes, n ∈ g.nodes) :=
  let r := removeNode_shrinks fuel g key g' inv h
  ⟨r.2 hex, r.1.sub, r.1.nodes⟩

/-! ### "exactly those dependants left without any remaining dependency": the specification's eviction set is
    the least fixed point of the eviction rule (`Lemmas/GraphEvict.lean`) — for EVERY abstract graph, with no
    assumption about duplicates or dangling edges; `|nodes| + 1` rounds always suffice -/

/-- **The eviction set of the plain model is the least set that contains the removed node and is closed under
    "all my dependencies lead into the set or nowhere, and at least one leads into it"**; and every member other
    than the removed node is there because the rule demands it. -/
theorem evictSet_is_least_fixed_point (a : A) (n : Nat) :
    n ∈ evictSet a n ∧ Stable a (evictSet a n) ∧
    (∀ s : List Nat, Stable a s → n ∈ s → ∀ x ∈ evictSet a n, x ∈ s) ∧
    (∀ x ∈ evictSet a n, x = n ∨ (x ∈ a.nodes.map (·.1) ∧ evictable a (evictSet a n) x = true)) :=
  ⟨mem_evictSet_self a n, evictSet_stable a n, evictSet_least a n, evictSet_members a n⟩

/-- a node that still has a dependency outside the set (on an existing node) is NOT evicted -/
theorem kept_if_dependency_remains (a : A) (n x : Nat) (hx : x ≠ n) (e : AEdge) (he : e ∈ a.edges) (hs : e.src = x)
    (hout : e.dst ∉ evictSet a n) (hex : a.has e.dst = true) : x ∉ evictSet a n := by
  intro hmem
  rcases evictSet_members a n x hmem with h | ⟨_, hev⟩
  · exact hx h
  · unfold evictable at hev
    rw [Bool.and_eq_true, List.all_eq_true] at hev
    have := hev.2 e he
    simp only [hs, decide_true, Bool.not_true, Bool.false_or, Bool.or_eq_true, List.contains_iff_mem, Bool.not_eq_true'] at this
    rcases this with h1 | h2
    · exact hout h1
    · rw [hex] at h2; cases h2

/-! ### non-vacuity -/

/-- the cascade on a concrete graph: 1 → 0, 2 → 1, 3 → {1, 4}; removing 0 takes 1 and 2 with it, 3 stays (it
    still depends on 4) -/
example : evictSet { nodes := [(0, 1, "S"), (1, 1, "S"), (2, 1, "S"), (3, 1, "S"), (4, 1, "S")],
                     edges := [⟨1, "f", 0⟩, ⟨2, "f", 1⟩, ⟨3, "f", 1⟩, ⟨3, "f", 4⟩] } 0 = [0, 1, 2] := by decide

private def exHist : List Op :=
  [.addNode ⟨0, 1⟩ "Alias", .addNode ⟨1, 1⟩ "Alias", .addEdge ⟨0, 1⟩ ⟨1, 1⟩ "ty", .addEdge ⟨0, 1⟩ ⟨1, 1⟩ "ref",
   .removeEdge ⟨0, 1⟩ ⟨1, 1⟩ (some "ty")]
/-- the witness of the repaired defect F-17a: after removing one of two kinds, the surviving edge is
    still listed on both sides -/
example : ((run {} exHist).map fun g => ((getEdges g 0).length, (getEdges g 1).length, parents g 1)) = some (1, 1, [0]) := by
  decide +kernel

end Gleece.Graph
