/-
  C07 — Component schemas mirror Go declarations, independent of how a type is used.

  Model: Gleece/Model/Types.lean.  Proved here, for every list of declarations and every set of usage
  sites (no bound on the number of types, the nesting of slices / pointers / maps, or cycles):
   * the computed component set is EXACTLY the set of declarations reachable from a route's parameters or
     results (`components_exact` = `components_sound` + `components_complete`; `closure_closed` in
     Lemmas/TypesFuel shows that `ds.length + 1` rounds always reach a closed set, by a pigeonhole on the
     declared names); any closed set containing the roots — in particular the implementation's own key set, on
     which the driver evaluates `isClosed` — contains every reachable type (`closed_contains_reach`);
   * the component of a type is `Decl.component` of its declaration: two projects that share the
     declaration give the same component whatever their routes, tags and other types are
     (`component_of_declaration_alone`, `usage_site_never_changes_component`);
   * adding usage sites never removes a component (`components_monotone`);
   * a struct's properties are exactly its JSON-visible, non-embedded fields under their JSON names with
     the mapped type, `required` ⊆ properties (`props_exact`, `required_are_props`); unexported fields and
     fields tagged `json:"-"` are not properties; embedded structs appear only in allOf.
  The correspondence (driver, mode proj / C07) compares `components` with components.schemas of both
  documents emitted by the real pipeline for generated type graphs.
-/
import Gleece.Lemmas.TypesFuel
namespace Gleece.Types

/-- **only reachable declarations become components, each as the image of its own declaration** -/
theorem components_sound (ds : List Decl) (usages : List TExpr) (n : TName) (c : Component)
    (h : (n, c) ∈ components ds usages) :
    Reach ds (rootsOf usages) n ∧ ∃ d, lookup ds n = some d ∧ c = d.component := by
  unfold components at h
  rw [List.mem_filterMap] at h
  obtain ⟨m, hm, hx⟩ := h
  cases hl : lookup ds m with
  | none => rw [hl] at hx; simp at hx
  | some d =>
    rw [hl] at hx
    simp only [Option.map_some, Option.some.injEq, Prod.mk.injEq] at hx
    obtain ⟨rfl, rfl⟩ := hx
    exact ⟨closure_reach _ _ (fun _ h => Reach.root h) _ hm, d, hl, rfl⟩

/-- **every reachable declaration becomes a component** (the computed set is closed: `closure_closed`) -/
theorem components_complete (ds : List Decl) (usages : List TExpr)
    (n : TName) (d : Decl) (hr : Reach ds (rootsOf usages) n) (hl : lookup ds n = some d) :
    (n, d.component) ∈ components ds usages := by
  unfold components
  rw [List.mem_filterMap]
  exact ⟨n, closed_contains_reach (fun _ h => subset_closure _ h) (closure_closed ds _) hr, by rw [hl]; rfl⟩

/-- **exactly the reachable declarations**, each as the image of its own declaration -/
theorem components_exact (ds : List Decl) (usages : List TExpr) (n : TName) (c : Component) :
    (n, c) ∈ components ds usages ↔ Reach ds (rootsOf usages) n ∧ ∃ d, lookup ds n = some d ∧ c = d.component := by
  constructor
  · exact components_sound ds usages n c
  · rintro ⟨hr, d, hl, rfl⟩
    exact components_complete ds usages n d hr hl

/-- **a type's schema is a function of its declaration alone**: whatever the usage sites are, if the
    type is a component at all it is the same component -/
theorem component_of_declaration_alone (ds : List Decl) (u₁ u₂ : List TExpr) (n : TName) (c₁ c₂ : Component)
    (h₁ : (n, c₁) ∈ components ds u₁) (h₂ : (n, c₂) ∈ components ds u₂) : c₁ = c₂ := by
  obtain ⟨_, d₁, hl₁, rfl⟩ := components_sound ds u₁ n c₁ h₁
  obtain ⟨_, d₂, hl₂, rfl⟩ := components_sound ds u₂ n c₂ h₂
  rw [hl₁] at hl₂
  cases hl₂
  rfl

/-- even across two different projects: if both declare `n` identically, its component is identical —
    other declarations, other routes, validator tags at usage sites are irrelevant -/
theorem usage_site_never_changes_component (ds₁ ds₂ : List Decl) (u₁ u₂ : List TExpr) (n : TName) (c₁ c₂ : Component)
    (hsame : lookup ds₁ n = lookup ds₂ n)
    (h₁ : (n, c₁) ∈ components ds₁ u₁) (h₂ : (n, c₂) ∈ components ds₂ u₂) : c₁ = c₂ := by
  obtain ⟨_, d₁, hl₁, rfl⟩ := components_sound ds₁ u₁ n c₁ h₁
  obtain ⟨_, d₂, hl₂, rfl⟩ := components_sound ds₂ u₂ n c₂ h₂
  rw [hsame, hl₂] at hl₁
  cases hl₁
  rfl

theorem reach_mono {ds : List Decl} {r₁ r₂ : List TName} (h : ∀ n ∈ r₁, n ∈ r₂) {n : TName}
    (hr : Reach ds r₁ n) : Reach ds r₂ n := by
  induction hr with
  | root hn => exact Reach.root (h _ hn)
  | step _ hl hn ih => exact Reach.step ih hl hn

/-- **using a type from another route never removes or changes a component** -/
theorem components_monotone (ds : List Decl) (u₁ u₂ : List TExpr)
    (hsub : ∀ n ∈ rootsOf u₁, n ∈ rootsOf u₂)
    (n : TName) (c : Component) (h : (n, c) ∈ components ds u₁) : (n, c) ∈ components ds u₂ := by
  obtain ⟨hr, d, hl, rfl⟩ := components_sound ds u₁ n c h
  exact components_complete ds u₂ n d (reach_mono hsub hr) hl

/-- **properties are exactly the JSON-visible, non-embedded fields**, under their JSON names, with the
    mapped type -/
theorem props_exact (fs : List Field) (name : String) (s : Sch) :
    (name, s) ∈ (structObj fs).props ↔ ∃ f ∈ fs, f.embedded = false ∧ f.jsonName = some name ∧ s = f.ty.schema := by
  unfold structObj
  simp only [List.mem_map, List.mem_filterMap, Prod.mk.injEq]
  constructor
  · rintro ⟨⟨n, f⟩, ⟨g, hg, hx⟩, hn, hs⟩
    cases he : g.embedded with
    | true => simp [he] at hx
    | false =>
      simp only [he, Bool.false_eq_true, ↓reduceIte, Option.map_eq_some_iff, Prod.mk.injEq] at hx
      obtain ⟨a, ha, rfl, rfl⟩ := hx
      exact ⟨g, hg, he, by rw [ha, ← hn], hs.symm⟩
  · rintro ⟨f, hf, he, hj, rfl⟩
    exact ⟨(name, f), ⟨f, hf, by simp [he, hj]⟩, rfl, rfl⟩

/-- an unexported field is never a property -/
theorem unexported_hidden (f : Field) (h : exportedName f.name = false) : f.jsonName = none := by
  unfold Field.jsonName
  simp [h]

/-- a field tagged `json:"-"` is never a property -/
theorem dash_hidden (f : Field) (h : f.jsonTag = some "-") : f.jsonName = none := by
  unfold Field.jsonName
  split
  · rfl
  · simp [h]

/-- `required` lists only properties -/
theorem required_are_props (fs : List Field) (name : String) (h : name ∈ (structObj fs).required) :
    ∃ s, (name, s) ∈ (structObj fs).props := by
  unfold structObj at *
  simp only [List.mem_map, List.mem_filter] at h
  obtain ⟨⟨n, f⟩, ⟨hm, _⟩, rfl⟩ := h
  exact ⟨f.ty.schema, List.mem_map.2 ⟨(n, f), hm, rfl⟩⟩

/-- a pointer is documented as its element; slices and maps nest -/
theorem schema_shapes (t : TExpr) :
    (TExpr.ptr t).schema = t.schema ∧ (TExpr.slice t).schema = .arr t.schema ∧ (TExpr.map t).schema = .dict t.schema :=
  ⟨rfl, rfl, rfl⟩

/-- a reference never mentions more types than its element -/
theorem refs_through_wrappers (t : TExpr) :
    (TExpr.ptr t).refs = t.refs ∧ (TExpr.slice t).refs = t.refs ∧ (TExpr.map t).refs = t.refs := ⟨rfl, rfl, rfl⟩

/-! ### non-vacuity: a self-recursive struct reached through a slice of pointers, an enum reached through a
    map, a type nobody uses -/
def exDecls : List Decl := [
  ⟨("m", "Node"), "", .struct [⟨"Kids", .slice (.ptr (.named ("m", "Node"))), some "kids", false, false⟩,
                               ⟨"Tags", .map (.named ("m", "Color")), some "tags,omitempty", true, false⟩,
                               ⟨"hidden", .prim "string", none, false, false⟩,
                               ⟨"Skip", .prim "int", some "-", false, false⟩,
                               ⟨"Base", .named ("o", "Base"), none, false, true⟩]⟩,
  ⟨("m", "Color"), "", .enum "string" ["red", "green"]⟩,
  ⟨("o", "Base"), "", .struct [⟨"At", .prim "time.Time", some "at", false, false⟩]⟩,
  ⟨("m", "Unused"), "", .alias (.prim "string")⟩]

example : (components exDecls [.slice (.named ("m", "Node"))]).map (·.1) = [("m", "Node"), ("m", "Color"), ("o", "Base")] := by
  decide +kernel
example : isClosed exDecls (closure exDecls (exDecls.length + 1) (rootsOf [.slice (.named ("m", "Node"))])) = true := by
  decide +kernel
example : (structObj [⟨"Kids", .slice (.ptr (.named ("m", "Node"))), some "kids", false, false⟩,
                      ⟨"Tags", .map (.named ("m", "Color")), some "tags,omitempty", true, false⟩,
                      ⟨"hidden", .prim "string", none, false, false⟩,
                      ⟨"Skip", .prim "int", some "-", false, false⟩]) =
    ⟨[("kids", .arr (.ref "Node")), ("tags", .dict (.ref "Color"))], ["tags"]⟩ := by
  decide +kernel

end Gleece.Types
