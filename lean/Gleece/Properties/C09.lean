/-
  C09 — Every accepted project yields a routes file that is compilable Go.

  What a theorem can carry here (for every serial number and every name, no bound):
   * every import alias `Param<serial><name>` / `Response<serial><Type>` is a valid identifier whenever the
     name is one (`alias_ident`);
   * two aliases are equal only if serial and name are equal (`alias_inj`): with one serial per type
     (C13 / C19: `Session.getId` is a function of the key) the aliases of one file never clash;
   * on the regenerated call skeleton of `routes.GenerateRoutes`: the rendered text goes through
     `OptimizeImportsAndFormat` before it is written, the directory is created before the write, every other
     failure returns before the write (`written_only_after_formatting`), the formatter's own failure included
     (`format_failure_refuses`; it used to be swallowed: finding C09-F2, fixed).
  That the file type-checks against the engine, the controllers and the authorization package is decided by
  COMPILING it: the `rig` stream renders the five routers for generated projects and builds them together with the
  project and an authorization package per engine; a compile error is the violation, its text the replay.
-/
import Gleece.Model.Alias
import Gleece.Model.Order
namespace Gleece.Alias

theorem isDigit_isIdChar (c : Char) (h : c.isDigit = true) : isIdChar c = true := by
  simp [isIdChar, Char.isAlphanum, h]

theorem isIdStart_isIdChar (c : Char) (h : isIdStart c = true) : isIdChar c = true := by
  unfold isIdStart at h
  unfold isIdChar Char.isAlphanum
  simp only [Bool.or_eq_true] at h ⊢
  rcases h with h | h
  · exact Or.inl (Or.inl h)
  · exact Or.inr h

/-- **every alias is a valid identifier** -/
theorem alias_ident (pre : List Char) (serial : Nat) (name : List Char)
    (hpre : isIdent pre = true) (hname : name.all isIdChar = true) : isIdent (alias pre serial name) = true := by
  cases pre with
  | nil => simp [isIdent] at hpre
  | cons c cs =>
    simp only [isIdent, Bool.and_eq_true] at hpre
    simp only [alias, List.cons_append, isIdent, Bool.and_eq_true, List.all_append]
    refine ⟨hpre.1, ⟨hpre.2, ?_⟩, hname⟩
    rw [List.all_eq_true]
    intro d hd
    exact isDigit_isIdChar d (Nat.isDigit_of_mem_toDigits (by decide) (by decide) hd)

theorem takeWhile_digits_append (ds rest : List Char) (hds : ∀ c ∈ ds, c.isDigit = true)
    (hrest : ∀ c, rest.head? = some c → c.isDigit = false) :
    (ds ++ rest).takeWhile Char.isDigit = ds ∧ (ds ++ rest).dropWhile Char.isDigit = rest := by
  induction ds with
  | nil =>
    cases rest with
    | nil => simp
    | cons r rs =>
      have := hrest r rfl
      simp [List.takeWhile, List.dropWhile, this]
  | cons d ds ih =>
    have hd := hds d (by simp)
    have := ih (fun c hc => hds c (by simp [hc]))
    simp [List.takeWhile, List.dropWhile, hd, this.1, this.2]

theorem toDigits_inj (a b : Nat) (h : Nat.toDigits 10 a = Nat.toDigits 10 b) : a = b := by
  have ha := @Nat.ofDigitChars_ten_toDigits a
  have hb := @Nat.ofDigitChars_ten_toDigits b
  rw [h] at ha
  rw [← ha, hb]

/-- **aliases never clash**: equal aliases come from equal serials and equal names (names are identifiers: they
    do not start with a digit) -/
theorem alias_inj (pre : List Char) (s₁ s₂ : Nat) (n₁ n₂ : List Char)
    (h₁ : ∀ c, n₁.head? = some c → c.isDigit = false) (h₂ : ∀ c, n₂.head? = some c → c.isDigit = false)
    (h : alias pre s₁ n₁ = alias pre s₂ n₂) : s₁ = s₂ ∧ n₁ = n₂ := by
  unfold alias at h
  rw [List.append_assoc, List.append_assoc] at h
  have h' := List.append_cancel_left h
  have d₁ : ∀ c ∈ Nat.toDigits 10 s₁, c.isDigit = true := fun c hc => Nat.isDigit_of_mem_toDigits (by decide) (by decide) hc
  have d₂ : ∀ c ∈ Nat.toDigits 10 s₂, c.isDigit = true := fun c hc => Nat.isDigit_of_mem_toDigits (by decide) (by decide) hc
  have t₁ := takeWhile_digits_append _ n₁ d₁ h₁
  have t₂ := takeWhile_digits_append _ n₂ d₂ h₂
  rw [h'] at t₁
  exact ⟨toDigits_inj _ _ (t₁.1.symm.trans t₂.1), t₁.2.symm.trans t₂.2⟩

/-- an identifier does not start with a digit -/
theorem ident_head_not_digit (n : List Char) (h : isIdent n = true) : ∀ c, n.head? = some c → c.isDigit = false := by
  intro c hc
  cases n with
  | nil => simp at hc
  | cons x xs =>
    simp only [List.head?_cons, Option.some.injEq] at hc
    subst hc
    simp only [isIdent, Bool.and_eq_true, isIdStart, Bool.or_eq_true] at h
    rcases h.1 with ha | hu
    · -- a letter is not a digit
      unfold Char.isAlpha Char.isUpper Char.isLower at ha
      unfold Char.isDigit
      simp only [Bool.or_eq_true, Bool.and_eq_true, decide_eq_true_eq] at ha
      simp only [Bool.and_eq_false_iff, decide_eq_false_iff_not]
      rcases ha with ⟨h1, _⟩ | ⟨h1, _⟩
      · right; intro h2; exact absurd (Nat.le_trans h1 h2) (by decide)
      · right; intro h2; exact absurd (Nat.le_trans h1 h2) (by decide)
    · have : x = '_' := by simpa using hu
      subst this
      decide

/-- the statement over identifiers -/
theorem alias_unique (pre : List Char) (s₁ s₂ : Nat) (n₁ n₂ : List Char)
    (h₁ : isIdent n₁ = true) (h₂ : isIdent n₂ = true) (h : alias pre s₁ n₁ = alias pre s₂ n₂) : s₁ = s₂ ∧ n₁ = n₂ :=
  alias_inj pre s₁ s₂ n₁ n₂ (ident_head_not_digit n₁ h₁) (ident_head_not_digit n₂ h₂) h

example : String.ofList (alias "Param".toList 12 "body".toList) = "Param12body" := by decide +kernel
example : isIdent (alias "Response".toList 6 "Item".toList) = true := by decide +kernel
/-- what went wrong before fix 3f4a446: a composite spelling is not made of identifier characters -/
example : isIdent (alias "Response".toList 6 "map[string]int".toList) = false := by decide +kernel

end Gleece.Alias

namespace Gleece.Order

/-- **the file is written only after formatting, directory creation and every fallible step** -/
theorem written_only_after_formatting :
    (let evs := eventsOf "generator/routes/generator.go:GenerateRoutes"
     before evs "raymond.Render" "compilation.OptimizeImportsAndFormat" = true ∧
     before evs "compilation.OptimizeImportsAndFormat" "os.WriteFile" = true ∧
     before evs "os.MkdirAll" "os.WriteFile" = true ∧
     guarded evs "raymond.Render" = true ∧ guarded evs "GetTemplateContext" = true ∧
     guarded evs "os.MkdirAll" = true ∧ guarded evs "os.WriteFile" = true) := by
  decide +kernel

/-- **a project gleece cannot render compilable code for is refused**: a failure of the formatter (the text
    does not parse) returns before anything is written (this was finding C09-F2, fixed in /repo) -/
theorem format_failure_refuses :
    (let evs := eventsOf "generator/routes/generator.go:GenerateRoutes"
     guarded evs "compilation.OptimizeImportsAndFormat" = true ∧
     failureSwallowed evs "compilation.OptimizeImportsAndFormat" = false) := by
  decide +kernel

end Gleece.Order
