/-
  C10, the converse direction for the link validator: **a well-linked route is never rejected**.
  `WellLinked` is the property's own wording over the model's data; the theorem says the four passes of
  `AnnotationLinkValidator.Validate` then report nothing.
-/
import Gleece.Properties.C10
namespace Gleece.Validate

def blankValue (a : Annot) : Bool := a.value.toList.all (· = ' ')

structure WellLinked (ctrlRoute : String) (m : Method) : Prop where
  /-- the `{names}` of the full template are pairwise distinct -/
  urlNodup : (extractUrlParams (ctrlRoute ++ ((m.annots.filter (·.name = "Route")).head?.map (·.value)).getD "")).Nodup
  /-- every @Path alias is a (non-empty) string … -/
  aliasOk : ∀ a ∈ m.annots.filter (·.name = "Path"), aliasOf a ≠ .bad ∧ ∀ al, aliasOf a = .ok al → al ≠ ""
  /-- … that names a `{name}` of the template -/
  aliasInUrl : ∀ a ∈ m.annots.filter (·.name = "Path"), ∀ al, aliasOf a = .ok al →
    al ∈ extractUrlParams (ctrlRoute ++ ((m.annots.filter (·.name = "Route")).head?.map (·.value)).getD "")
  /-- every `{name}` is the URL name of a @Path -/
  urlCovered : ∀ p ∈ extractUrlParams (ctrlRoute ++ ((m.annots.filter (·.name = "Route")).head?.map (·.value)).getD ""),
    p ∈ (m.annots.filter (·.name = "Path")).map urlName
  /-- the @Path annotations bind pairwise different (non-context) parameters under pairwise different URL names -/
  pathValuesKnown : ∀ a ∈ m.annots.filter (·.name = "Path"), a.value ∈ (m.params.filter fun p => !isContextType p.type).map (·.name)
  pathValuesNodup : ((m.annots.filter (·.name = "Path")).map (·.value)).Nodup
  urlNamesNodup : ((m.annots.filter (·.name = "Path")).map urlName).Nodup
  /-- every other binding annotation with a value names a (non-context) parameter -/
  othersKnown : ∀ a ∈ m.annots, isBindingAnnot a.name = true → blankValue a = false →
    a.value ∈ (m.params.filter fun p => !isContextType p.type).map (·.name)
  /-- every non-context parameter is referenced -/
  allReferenced : ∀ p ∈ m.params, isContextType p.type = false →
    ∃ a ∈ m.annots, (a.name = "Path" ∨ (isBindingAnnot a.name = true ∧ blankValue a = false)) ∧ a.value = p.name

theorem goUrl_of_nodup (referenced ps seen : List String) (hnd : ps.Nodup) (hdisj : ∀ p ∈ ps, p ∉ seen)
    (href : ∀ p ∈ ps, referenced.contains p = true) : linkValidate.goUrl referenced ps seen = [] := by
  induction ps generalizing seen with
  | nil => simp [linkValidate.goUrl]
  | cons p rest ih =>
    unfold linkValidate.goUrl
    have hp : seen.contains p = false := by
      cases h : seen.contains p with
      | false => rfl
      | true => exact absurd (List.contains_iff_mem.1 h) (hdisj p (by simp))
    have hr := href p (by simp)
    rw [List.nodup_cons] at hnd
    simp only [hp, hr, Bool.false_eq_true, if_false, if_true, List.nil_append]
    apply ih _ hnd.2
    · intro q hq hqs
      rcases List.mem_append.1 hqs with h | h
      · exact hdisj q (by simp [hq]) h
      · simp only [List.mem_singleton] at h; subst h; exact hnd.1 hq
    · intro q hq; exact href q (by simp [hq])

theorem not_contains_of_not_mem {l : List String} {x : String} (h : x ∉ l) : l.contains x = false := by
  cases hc : l.contains x with
  | false => rfl
  | true => exact absurd (List.contains_iff_mem.1 hc) h

theorem goPath_of_wellformed (funcParams urlParams : List String) (as : List Annot) : ∀ (sp sv sa : List String),
    (∀ a ∈ as, funcParams.contains a.value = true ∧ aliasOf a ≠ .bad ∧
        ∀ al, aliasOf a = .ok al → al ≠ "" ∧ urlParams.contains al = true) →
    (as.map (·.value)).Nodup → (∀ a ∈ as, a.value ∉ sp ∧ a.value ∉ sv) →
    (as.map urlName).Nodup → (∀ a ∈ as, urlName a ∉ sa) →
    linkValidate.goPath urlParams funcParams as sp sv sa = ([], sp ++ as.map (·.value)) := by
  induction as with
  | nil => intro sp sv sa _ _ _ _ _; simp [linkValidate.goPath]
  | cons a rest ih =>
    intro sp sv sa hall hvnd hvdisj hnnd hndisj
    obtain ⟨hknown, hnotbad, halias⟩ := hall a (by simp)
    obtain ⟨hasp, hasv⟩ := hvdisj a (by simp)
    have hsa := hndisj a (by simp)
    rw [List.map_cons, List.nodup_cons] at hvnd hnnd
    have hsp' := not_contains_of_not_mem hasp
    have hsv' := not_contains_of_not_mem hasv
    -- the recursive call, with the accumulators as the pass leaves them
    have hrec := ih (sp ++ [a.value]) (sv ++ [a.value]) (sa ++ [urlName a])
      (fun b hb => hall b (by simp [hb])) hvnd.2
      (fun b hb => by
        have hbv : b.value ≠ a.value := fun e => hvnd.1 (List.mem_map.2 ⟨b, hb, e⟩)
        obtain ⟨h1, h2⟩ := hvdisj b (by simp [hb])
        exact ⟨by simp [h1, hbv], by simp [h2, hbv]⟩)
      hnnd.2
      (fun b hb => by
        have hbn : urlName b ≠ urlName a := fun e => hnnd.1 (List.mem_map.2 ⟨b, hb, e⟩)
        have := hndisj b (by simp [hb])
        simp [this, hbn])
    unfold linkValidate.goPath
    simp only [hknown, hsp', hsv', Bool.not_true, Bool.not_false, Bool.and_true, Bool.true_and, Bool.false_eq_true,
      if_false, if_true, List.nil_append]
    cases hal : aliasOf a with
    | bad => exact absurd hal hnotbad
    | none =>
      have hun : urlName a = a.value := by unfold urlName; rw [hal]
      rw [hun] at hsa hrec
      have hsa' := not_contains_of_not_mem hsa
      simp only [hsa', Bool.false_and, Bool.false_eq_true, if_false]
      rw [hrec]
      simp
    | ok al =>
      obtain ⟨hne, hurl⟩ := halias al hal
      have hne' : al.isEmpty = false := by
        cases he : al.isEmpty with
        | false => rfl
        | true => exact absurd (String.isEmpty_iff.1 he) hne
      have hun : urlName a = al := by unfold urlName; rw [hal]; simp [hne']
      rw [hun] at hsa hrec
      have hsa' := not_contains_of_not_mem hsa
      simp only [hne', hsa', hurl, Bool.false_eq_true, if_false, if_true, List.append_nil]
      rw [hrec]
      simp

end Gleece.Validate

namespace Gleece.Validate

theorem referenced_eq_urlName (a : Annot) (h : ∀ al, aliasOf a = .ok al → al ≠ "") :
    refName a = urlName a := by
  unfold urlName refName
  cases hal : aliasOf a with
  | none => rfl
  | bad => rfl
  | ok al =>
    have hne : al.isEmpty = false := by
      cases he : al.isEmpty with
      | false => rfl
      | true => exact absurd (String.isEmpty_iff.1 he) (h al hal)
    simp [hne]

theorem d4_nil (params : List MParam) (seen : List String) (f : MParam → Diag)
    (h : ∀ p ∈ params, isContextType p.type = false → p.name ∈ seen) :
    (if (params.map (·.name)).eraseDups.length = params.length
      then (params.filter fun p => !seen.contains p.name && !isContextType p.type).map f
      else ((params.filter fun p => !seen.contains p.name && !isContextType p.type).map f).eraseDups) = [] := by
  have hnil : (params.filter fun p => !seen.contains p.name && !isContextType p.type) = [] := by
    rw [List.filter_eq_nil_iff]
    intro p hp
    cases hctx : isContextType p.type with
    | true => simp
    | false => simp [h p hp hctx]
  rw [hnil]
  split <;> simp

/-- **Conversely, a route satisfying the rules is never rejected** (by the link validator): the four passes report
    nothing for a well-linked route. -/
theorem wellLinked_accepted (ctrlRoute : String) (m : Method) (w : WellLinked ctrlRoute m) : linkValidate ctrlRoute m = [] := by
  unfold linkValidate
  simp only
  -- no alias of the wrong kind
  have hbad : ((m.annots.filter (·.name = "Path")).filter fun a => aliasOf a = .bad) = [] := by
    rw [List.filter_eq_nil_iff]
    intro a ha
    simpa using (w.aliasOk a ha).1
  -- the @Path pass
  have hpath := goPath_of_wellformed ((m.params.filter fun p => !isContextType p.type).map (·.name))
      (extractUrlParams (ctrlRoute ++ ((m.annots.filter (·.name = "Route")).head?.map (·.value)).getD ""))
      (m.annots.filter (·.name = "Path")) [] [] []
      (fun a ha => ⟨List.contains_iff_mem.2 (w.pathValuesKnown a ha), (w.aliasOk a ha).1,
        fun al hal => ⟨(w.aliasOk a ha).2 al hal, List.contains_iff_mem.2 (w.aliasInUrl a ha al hal)⟩⟩)
      w.pathValuesNodup (fun a _ => ⟨by simp, by simp⟩) w.urlNamesNodup (fun a _ => by simp)
  rw [hpath]
  simp only [hbad, List.isEmpty_nil, Bool.not_true, Bool.false_eq_true, if_false, List.nil_append, List.append_nil]
  -- the url pass
  have hurl : linkValidate.goUrl ((m.annots.filter (·.name = "Path")).map refName)
      (extractUrlParams (ctrlRoute ++ ((m.annots.filter (·.name = "Route")).head?.map (·.value)).getD "")) [] = [] := by
    apply goUrl_of_nodup _ _ _ w.urlNodup (fun p _ => by simp)
    intro p hp
    apply List.contains_iff_mem.2
    obtain ⟨a, ha, han⟩ := List.mem_map.1 (w.urlCovered p hp)
    exact List.mem_map.2 ⟨a, ha, by rw [referenced_eq_urlName a (w.aliasOk a ha).2]; exact han⟩
  rw [hurl]
  -- the other binding annotations
  have hothers : ((m.annots.filter fun a => isBindingAnnot a.name && !(a.value.toList.all (· = ' '))).filter
      fun a => !((m.params.filter fun p => !isContextType p.type).map (·.name)).contains a.value) = [] := by
    rw [List.filter_eq_nil_iff]
    intro a ha
    have ha' := List.mem_filter.1 ha
    have hb : isBindingAnnot a.name = true ∧ blankValue a = false := by
      simpa [blankValue] using ha'.2
    have := w.othersKnown a ha'.1 hb.1 hb.2
    have hc := List.contains_iff_mem.2 this
    rw [hc]; simp
  rw [hothers]
  simp only [List.map_nil, List.append_nil, List.nil_append]
  -- every parameter is referenced
  apply d4_nil
  intro p hp hctx
  obtain ⟨a, ha, hkind, hval⟩ := w.allReferenced p hp hctx
  have hpn : p.name ∈ (m.params.filter fun p => !isContextType p.type).map (·.name) :=
    List.mem_map.2 ⟨p, List.mem_filter.2 ⟨hp, by simp [hctx]⟩, rfl⟩
  rcases hkind with hk | ⟨hb, hnb⟩
  · apply List.mem_append_left
    exact List.mem_map.2 ⟨a, List.mem_filter.2 ⟨ha, by simp [hk]⟩, hval⟩
  · apply List.mem_append_right
    refine List.mem_map.2 ⟨a, List.mem_filter.2 ⟨List.mem_filter.2 ⟨ha, ?_⟩, ?_⟩, hval⟩
    · simpa [blankValue] using And.intro hb hnb
    · rw [hval]; exact List.contains_iff_mem.2 hpn

end Gleece.Validate

namespace Gleece.Validate

def nodupB : List String → Bool
  | [] => true
  | a :: l => !l.contains a && nodupB l

theorem nodupB_sound : ∀ (l : List String), nodupB l = true → l.Nodup
  | [], _ => List.nodup_nil
  | a :: l, h => by
    simp only [nodupB, Bool.and_eq_true, Bool.not_eq_true'] at h
    exact List.nodup_cons.2 ⟨contains_false_of_not_mem h.1, nodupB_sound l h.2⟩

/-- the decidable form of `WellLinked` -/
def wellLinkedB (ctrlRoute : String) (m : Method) : Bool :=
  let urlParams := extractUrlParams (ctrlRoute ++ ((m.annots.filter (·.name = "Route")).head?.map (·.value)).getD "")
  let pathAttrs := m.annots.filter (·.name = "Path")
  let funcParams := (m.params.filter fun p => !isContextType p.type).map (·.name)
  nodupB urlParams &&
  pathAttrs.all (fun a => match aliasOf a with | .bad => false | .ok al => al != "" && urlParams.contains al | .none => true) &&
  urlParams.all (fun p => (pathAttrs.map urlName).contains p) &&
  pathAttrs.all (fun a => funcParams.contains a.value) &&
  nodupB (pathAttrs.map (·.value)) && nodupB (pathAttrs.map urlName) &&
  m.annots.all (fun a => !(isBindingAnnot a.name) || blankValue a || funcParams.contains a.value) &&
  m.params.all (fun p => isContextType p.type ||
    m.annots.any fun a => (a.name == "Path" || (isBindingAnnot a.name && !blankValue a)) && a.value == p.name)

theorem wellLinkedB_sound (ctrlRoute : String) (m : Method) (h : wellLinkedB ctrlRoute m = true) : WellLinked ctrlRoute m := by
  unfold wellLinkedB at h
  simp only [Bool.and_eq_true, List.all_eq_true] at h
  obtain ⟨⟨⟨⟨⟨⟨⟨h1, h2⟩, h3⟩, h4⟩, h5⟩, h6⟩, h7⟩, h8⟩ := h
  refine ⟨nodupB_sound _ h1, ?_, ?_, ?_, ?_, nodupB_sound _ h5, nodupB_sound _ h6, ?_, ?_⟩
  · intro a ha
    have := h2 a ha
    cases hal : aliasOf a with
    | bad => rw [hal] at this; cases this
    | none => exact ⟨by simp, by intro al h'; cases h'⟩
    | ok al =>
      rw [hal] at this
      simp only [Bool.and_eq_true, bne_iff_ne, ne_eq] at this
      exact ⟨by simp, by intro al' h'; cases h'; exact this.1⟩
  · intro a ha al hal
    have := h2 a ha
    rw [hal] at this
    simp only [Bool.and_eq_true] at this
    exact List.contains_iff_mem.1 this.2
  · intro p hp
    exact List.contains_iff_mem.1 (h3 p hp)
  · intro a ha
    exact List.contains_iff_mem.1 (h4 a ha)
  · intro a ha hb hnb
    have := h7 a ha
    simp only [hb, hnb, Bool.not_true, Bool.false_or] at this
    exact List.contains_iff_mem.1 this
  · intro p hp hctx
    have := h8 p hp
    simp only [hctx, Bool.false_or, List.any_eq_true, Bool.and_eq_true, Bool.or_eq_true, beq_iff_eq, Bool.not_eq_true'] at this
    obtain ⟨a, ha, hk, hv⟩ := this
    exact ⟨a, ha, hk, hv⟩

/-- every route the decidable check passes is accepted by the link validator -/
theorem wellLinkedB_accepted (ctrlRoute : String) (m : Method) (h : wellLinkedB ctrlRoute m = true) :
    linkValidate ctrlRoute m = [] := wellLinked_accepted ctrlRoute m (wellLinkedB_sound ctrlRoute m h)

/-- non-vacuity: a route with a prefix parameter, an aliased and an un-aliased @Path, a query parameter and the request
    context is well-linked -/
example :
    let m : Method := { name := "Get", annots := [⟨"Method", "GET", [], ""⟩, ⟨"Route", "/{id}/x/{k}", [], ""⟩,
                          ⟨"Path", "tenant", [], ""⟩, ⟨"Path", "id", [], ""⟩, ⟨"Path", "key", [("name", .str, "k")], ""⟩,
                          ⟨"Query", "q", [], ""⟩],
                        params := [⟨"ctx", "context.Context"⟩, ⟨"tenant", "string"⟩, ⟨"id", "int"⟩, ⟨"key", "string"⟩, ⟨"q", "*string"⟩],
                        results := ["error"] }
    wellLinkedB "/t/{tenant}" m = true := by decide +kernel

end Gleece.Validate

/-! ### the converse for the parameter pass and the return-type pass -/
namespace Gleece.Validate

/-- the declared type suits the location (the property's "non-body parameters are primitives, enums or primitive
    aliases (slices only in query)"; a body is anything but a bare builtin) -/
def typeOk (env : TypeEnv) (p : MParam) (loc : PassedIn) : Bool :=
  if loc = .body then !(isBuiltinType p.type && !isIterable p.type)
  else !(isIterable p.type && loc ≠ .query) && isPrimitiveLike env p.type

/-- the locations of the bound, non-context parameters, in signature order -/
def locsOf (m : Method) (ps : List MParam) : List PassedIn :=
  ps.filterMap fun p => if isContextType p.type then none else
    match passedInOf m.annots p.name with
    | some (.ok loc) => some loc
    | _ => none

/-- at most one body, never a body together with form fields -/
def comboOk (locs : List PassedIn) : Bool :=
  decide ((locs.filter (· = .body)).length ≤ 1) && !(locs.contains .body && locs.contains .form)

theorem validateParams_go_complete (env : TypeEnv) (m : Method) (ps : List MParam) : ∀ (seen : List PassedIn),
    (∀ p ∈ ps, isContextType p.type = false → ∀ e, passedInOf m.annots p.name ≠ some (.error e)) →
    (∀ p ∈ ps, isContextType p.type = false → ∀ loc, passedInOf m.annots p.name = some (.ok loc) → typeOk env p loc = true) →
    comboOk (seen ++ locsOf m ps) = true →
    validateParams.go env m ps seen = some [] := by
  induction ps with
  | nil => intro seen _ _ _; simp [validateParams.go]
  | cons q rest ih =>
    intro seen hnoerr htype hcombo
    unfold validateParams.go
    by_cases hq : isContextType q.type = true
    · simp only [hq, if_true]
      apply ih seen (fun p hp => hnoerr p (by simp [hp])) (fun p hp => htype p (by simp [hp]))
      simpa [locsOf, hq] using hcombo
    · have hq' : isContextType q.type = false := by simpa using hq
      simp only [hq', Bool.false_eq_true, if_false]
      cases hpi : passedInOf m.annots q.name with
      | none =>
        simp only
        apply ih seen (fun p hp => hnoerr p (by simp [hp])) (fun p hp => htype p (by simp [hp]))
        simpa [locsOf, hq', hpi] using hcombo
      | some res =>
        cases res with
        | error e => exact absurd hpi (hnoerr q (by simp) hq' e)
        | ok loc =>
          simp only
          have hty := htype q (by simp) hq' loc hpi
          have hlocs : locsOf m (q :: rest) = loc :: locsOf m rest := by simp [locsOf, hq', hpi]
          rw [hlocs] at hcombo
          have hrec := ih (seen ++ [loc]) (fun p hp => hnoerr p (by simp [hp])) (fun p hp => htype p (by simp [hp]))
            (by simpa [List.append_assoc] using hcombo)
          rw [hrec]
          -- the two diagnostics of this parameter are empty
          unfold comboOk at hcombo
          simp only [Bool.and_eq_true, decide_eq_true_eq, Bool.not_eq_true', Bool.and_eq_false_iff] at hcombo
          obtain ⟨hcount, hnot⟩ := hcombo
          unfold typeOk at hty
          cases loc with
          | body =>
            simp only [if_true] at hty
            have hsb : seen.contains PassedIn.body = false := by
              cases h : seen.contains PassedIn.body with
              | false => rfl
              | true =>
                exfalso
                have hm : PassedIn.body ∈ seen := List.contains_iff_mem.1 h
                have : 2 ≤ ((seen ++ PassedIn.body :: locsOf m rest).filter (· = PassedIn.body)).length := by
                  rw [List.filter_append, List.length_append]
                  have h1 : 1 ≤ (seen.filter (· = PassedIn.body)).length :=
                    List.length_pos_of_mem (List.mem_filter.2 ⟨hm, by simp⟩)
                  have h2 : 1 ≤ ((PassedIn.body :: locsOf m rest).filter (· = PassedIn.body)).length := by
                    simp [List.filter_cons]
                  omega
                omega
            have hsf : seen.contains PassedIn.form = false := by
              cases h : seen.contains PassedIn.form with
              | false => rfl
              | true =>
                exfalso
                have hm : PassedIn.form ∈ seen := List.contains_iff_mem.1 h
                rcases hnot with h1 | h1
                · have : (seen ++ PassedIn.body :: locsOf m rest).contains PassedIn.body = true := by simp
                  rw [this] at h1; cases h1
                · have : (seen ++ PassedIn.body :: locsOf m rest).contains PassedIn.form = true := by
                    apply List.contains_iff_mem.2; simp [hm]
                  rw [this] at h1; cases h1
            have hb : (isBuiltinType q.type && !isIterable q.type) = false := by
              cases h : (isBuiltinType q.type && !isIterable q.type) with
              | false => rfl
              | true => rw [h] at hty; cases hty
            simp only [hb, hsb, hsf, Bool.false_eq_true, if_false, if_true, Bool.or_false, List.nil_append, Option.map_some]
            simp
          | form =>
            have hsb : seen.contains PassedIn.body = false := by
              cases h : seen.contains PassedIn.body with
              | false => rfl
              | true =>
                exfalso
                have hm : PassedIn.body ∈ seen := List.contains_iff_mem.1 h
                rcases hnot with h1 | h1
                · have : (seen ++ PassedIn.form :: locsOf m rest).contains PassedIn.body = true := by
                    apply List.contains_iff_mem.2; simp [hm]
                  rw [this] at h1; cases h1
                · have : (seen ++ PassedIn.form :: locsOf m rest).contains PassedIn.form = true := by simp
                  rw [this] at h1; cases h1
            simp_all
          | query => simp_all
          | header => simp_all
          | path => simp_all

/-- **the parameter pass accepts every route whose parameters suit their locations** -/
theorem validateParams_complete (env : TypeEnv) (m : Method)
    (hnoerr : ∀ p ∈ m.params, isContextType p.type = false → ∀ e, passedInOf m.annots p.name ≠ some (.error e))
    (htype : ∀ p ∈ m.params, isContextType p.type = false → ∀ loc, passedInOf m.annots p.name = some (.ok loc) → typeOk env p loc = true)
    (hcombo : comboOk (locsOf m m.params) = true) :
    validateParams env m = some [] := by
  unfold validateParams
  exact validateParams_go_complete env m m.params [] hnoerr htype (by simpa using hcombo)

/-- **the return-type pass accepts `error` and `(T, error)`** -/
theorem validateReturns_complete (emb : List String) (m : Method)
    (h : (∃ e, m.results = [e] ∧ isErrorType e = true) ∨ (∃ t e, m.results = [t, e] ∧ isErrorType e = true)) :
    validateReturns emb m = [] := by
  unfold validateReturns
  rcases h with ⟨e, hr, he⟩ | ⟨t, e, hr, he⟩ <;> simp [hr, he]

end Gleece.Validate

namespace Gleece.Validate

/-- **a route satisfying the rules is never rejected** (the whole receiver validator): no hard error and no
    error-severity diagnostic, provided the annotations themselves are well-formed (`commonValidate` reports no error -
    unknown annotation, missing value, unsupported verb …), the method is exported, its parameters suit their
    locations, it returns `error` or `(T, error)`, it is secured when the enforce flag demands it, and it is well-linked -/
theorem receiver_accepts (env : TypeEnv) (emb : List String) (enforce hasDefault : Bool) (ctrlAnnots : List Annot) (m : Method)
    (hread : (enforce && (securityUnreadable ctrlAnnots || securityUnreadable m.annots)) = false)
    (hcommon : hasError (commonValidate "route" m.annots) = false)
    (hexp : isExportedName m.name = true)
    (hnoerr : ∀ p ∈ m.params, isContextType p.type = false → ∀ e, passedInOf m.annots p.name ≠ some (.error e))
    (htype : ∀ p ∈ m.params, isContextType p.type = false → ∀ loc, passedInOf m.annots p.name = some (.ok loc) → typeOk env p loc = true)
    (hcombo : comboOk (locsOf m m.params) = true)
    (hret : (∃ e, m.results = [e] ∧ isErrorType e = true) ∨ (∃ t e, m.results = [t, e] ∧ isErrorType e = true))
    (hsec : enforce = false ∨ securityOf m.annots > 0 ∨ securityOf ctrlAnnots > 0 ∨ hasDefault = true)
    (hlink : WellLinked (((ctrlAnnots.find? (·.name = "Route")).map (·.value)).getD "") m) :
    ∃ ds, validateReceiver env emb enforce hasDefault ctrlAnnots m = some ds ∧ hasError ds = false := by
  unfold validateReceiver
  rw [hread]
  simp only [Bool.false_eq_true, if_false]
  rw [validateParams_complete env m hnoerr htype hcombo, validateReturns_complete emb m hret,
    wellLinked_accepted _ m hlink]
  have hs : validateSecurity enforce hasDefault ctrlAnnots m = [] := by
    unfold validateSecurity
    rcases hsec with h | h | h | h
    · simp [h]
    · cases enforce <;> simp [h]
    · cases enforce <;> simp [h]
    · cases enforce <;> simp [h]
  rw [hs]
  refine ⟨_, rfl, ?_⟩
  simp only [hexp, if_true, List.append_nil, List.nil_append]
  exact hcommon


/-! ### … and back: what the link validator accepts IS well-linked (up to the open finding C10-F2) -/

/-- **An accepted route is well-linked** - the converse of `wellLinked_accepted`, assembled from `link_injective`,
    `linkValidate_nil_parts`, `params_referenced` and `goPath_values_nodup`.  Hypotheses: `hF2` is open finding C10-F2 (an
    un-aliased @Path whose name is no `{name}` is never reported); an EMPTY alias is read as "no alias" by the validator
    and is no alias in the property's wording (`hAlias`); the parameters have pairwise different names, as Go demands
    (`hnd`). -/
theorem accepted_is_wellLinked_partial (ctrlRoute : String) (m : Method) (h : linkValidate ctrlRoute m = [])
    (hnd : (m.params.map (·.name)).eraseDups.length = m.params.length)
    (hAlias : ∀ a ∈ m.annots.filter (·.name = "Path"), aliasOf a ≠ .ok "")
    (hF2 : ∀ a ∈ m.annots.filter (·.name = "Path"), (∀ al, aliasOf a = .ok al → al = "") →
        a.value ∈ extractUrlParams (ctrlRoute ++ ((m.annots.filter (·.name = "Route")).head?.map (·.value)).getD "")) :
    WellLinked ctrlRoute m := by
  obtain ⟨hurlref, hpath, hothers⟩ := linkValidate_nil_parts ctrlRoute m h
  obtain ⟨i1, i2, i3, _i4⟩ := link_injective ctrlRoute m h
  have hvals : ((m.annots.filter (·.name = "Path")).map (·.value)).Nodup := by
    have h' := h
    unfold linkValidate at h'
    simp only [List.append_eq_nil_iff] at h'
    obtain ⟨⟨⟨_, h2⟩, _⟩, _⟩ := h'
    exact (goPath_values_nodup _ _ _ [] [] [] h2).1
  refine ⟨i1, ?_, ?_, ?_, ?_, hvals, i2, ?_, ?_⟩
  · intro a ha
    refine ⟨(hpath a ha).2.1, ?_⟩
    intro al hal he
    exact hAlias a ha (he ▸ hal)
  · intro a ha al hal
    have hne : al ≠ "" := fun he => hAlias a ha (he ▸ hal)
    exact List.contains_iff_mem.1 ((hpath a ha).2.2 al hal hne)
  · intro p hp
    by_cases hpe : p = ""
    · -- `{}`: some @Path is referenced under the empty name; with no empty alias that is its own (empty) value
      have := List.contains_iff_mem.1 (hurlref p hp)
      obtain ⟨a, ha, han⟩ := List.mem_map.1 this
      refine List.mem_map.2 ⟨a, ha, ?_⟩
      unfold refName at han
      unfold urlName
      cases hal : aliasOf a with
      | none => rw [hal] at han; exact han
      | bad => rw [hal] at han; exact han
      | ok al =>
        rw [hal] at han
        simp only at han
        exact absurd (by rw [hal, han, hpe]) (hAlias a ha)
    · exact i3 p hp hpe
  · intro a ha
    exact List.contains_iff_mem.1 (hpath a ha).1
  · intro a ha hb hnb
    exact List.contains_iff_mem.1 (hothers a ha hb hnb)
  · intro p hp hctx
    obtain ⟨a, ha, hk, hv⟩ := params_referenced ctrlRoute m hnd h p hp hctx
    exact ⟨a, ha, hk, hv⟩

/-- **The link validator accepts exactly the well-linked routes**, for routes whose parameters are distinctly named,
    whose aliases are not empty strings, and up to C10-F2. -/
theorem link_accepts_iff_partial (ctrlRoute : String) (m : Method)
    (hnd : (m.params.map (·.name)).eraseDups.length = m.params.length)
    (hAlias : ∀ a ∈ m.annots.filter (·.name = "Path"), aliasOf a ≠ .ok "")
    (hF2 : ∀ a ∈ m.annots.filter (·.name = "Path"), (∀ al, aliasOf a = .ok al → al = "") →
        a.value ∈ extractUrlParams (ctrlRoute ++ ((m.annots.filter (·.name = "Route")).head?.map (·.value)).getD "")) :
    linkValidate ctrlRoute m = [] ↔ WellLinked ctrlRoute m :=
  ⟨fun h => accepted_is_wellLinked_partial ctrlRoute m h hnd hAlias hF2, wellLinked_accepted ctrlRoute m⟩

end Gleece.Validate
