/-
  C19 — Re-running analysis on an unchanged project is idempotent and cache-transparent.

  Proved: the import-serial memo is a function of the key after first use — a second pass over the same
  keys hands out the same serials and leaves the memo untouched (`rerun_serials`); re-inserting a node
  under the same file version and re-inserting an existing edge change nothing in the symbol graph
  (C17: `guardedAdd_same_version`, `addEdge_idem_edges`), so the graph does not grow.
  Tied by the `proj` stream with 1-3 repeated GenerateGraph/Validate/GenerateIntermediate rounds on ONE
  pipeline: canonical flattened metadata must be identical after every round and identical to a
  brand-new session's, and the node count must not change.
-/
import Gleece.Lemmas.Session
import Gleece.Properties.C17
namespace Gleece.Session

def known (m : Memo) (k : Nat) : Prop := ∃ id, m.table.find? (fun p => decide (p.1 = k)) = some (k, id)

theorem getId_known (m : Memo) (k : Nat) : known (getId m k).2 k := by
  unfold getId known
  cases hf : m.table.find? (fun p => decide (p.1 = k)) with
  | some p =>
    have hk : p.1 = k := by simpa using List.find?_some hf
    exact ⟨p.2, by simp only; rw [hf]; cases p; simp_all⟩
  | none => exact ⟨m.next, by simp only; rw [List.find?_append, hf]; simp⟩

theorem getId_keeps_known (m : Memo) (k k' : Nat) (h : known m k) : known (getId m k').2 k := by
  obtain ⟨id, hid⟩ := h
  exact ⟨id, getId_preserves m k k' id hid⟩

theorem getId_of_known (m : Memo) (k : Nat) (h : known m k) : (getId m k).2 = m := by
  obtain ⟨id, hid⟩ := h
  unfold getId; rw [hid]

theorem runKeys_keeps_known (m : Memo) (ks : List Nat) (k : Nat) (h : known m k) : known (runKeys m ks).2 k := by
  induction ks generalizing m with
  | nil => exact h
  | cons x xs ih => unfold runKeys; exact ih _ (getId_keeps_known m k x h)

theorem runKeys_all_known (m : Memo) (ks : List Nat) : ∀ k ∈ ks, known (runKeys m ks).2 k := by
  induction ks generalizing m with
  | nil => simp
  | cons x xs ih =>
    intro k hk
    unfold runKeys
    rcases List.mem_cons.1 hk with rfl | hk'
    · exact runKeys_keeps_known _ xs k (getId_known m k)
    · exact ih _ k hk'

/-- when every key is already known, a pass changes nothing -/
theorem runKeys_of_known (m : Memo) (ks : List Nat) (h : ∀ k ∈ ks, known m k) : (runKeys m ks).2 = m := by
  induction ks with
  | nil => rfl
  | cons x xs ih =>
    unfold runKeys
    have hx := getId_of_known m x (h x (by simp))
    simp only [hx]
    exact ih (fun k hk => h k (by simp [hk]))

/-- … and hands out exactly the memoised ids -/
theorem runKeys_ids_of_known (m : Memo) (ks : List Nat) (h : ∀ k ∈ ks, known m k) :
    (runKeys m ks).1 = ks.map fun k => (getId m k).1 := by
  induction ks with
  | nil => rfl
  | cons x xs ih =>
    unfold runKeys
    have hx := getId_of_known m x (h x (by simp))
    simp only [hx, List.map_cons]
    rw [ih (fun k hk => h k (by simp [hk]))]

/-- **Serial memo**: analysing again (same keys, same order) on the same session yields the same
    generated-code identifiers and leaves the memo as it was. -/
theorem rerun_serials (m : Memo) (ks : List Nat) :
    (runKeys (runKeys m ks).2 ks).2 = (runKeys m ks).2 :=
  runKeys_of_known _ ks (runKeys_all_known m ks)

/-- the ids of the second pass are the ids each key was given in the first -/
theorem rerun_ids (m : Memo) (ks : List Nat) :
    (runKeys (runKeys m ks).2 ks).1 = ks.map fun k => (getId (runKeys m ks).2 k).1 :=
  runKeys_ids_of_known _ ks (runKeys_all_known m ks)

/-! ### non-vacuity -/
example : (runKeys {} [7, 3, 7, 9]).1 = [0, 1, 0, 2] := by decide
example : (runKeys (runKeys {} [7, 3, 7, 9]).2 [7, 3, 7, 9]).1 = [0, 1, 0, 2] := by decide

end Gleece.Session
