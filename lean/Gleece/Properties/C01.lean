/-
  C01 — OpenAPI operations are exactly the non-hidden annotated routes.

  IR-level model: `Gleece/Model/IR.lean` (`visibleOps`, `emitOps`), tied to both emitters
  (`swagen30/paths_generator.go`, `swagen31/paths_generatorv31.go`) by the `ir` correspondence stream
  (hand-built flattened metadata through the real `swagen.GenerateSpec`) and to the front end
  (source → IR) by the `proj` stream.
-/
import Gleece.Properties.Reduce
import Gleece.Model.IR
import Gleece.Lemmas.Assoc
namespace Gleece.IR
open Gleece.Assoc

/-- what `visibleOps` contains: exactly one signature per non-hidden route, built from that route and
    ITS OWN controller (prefix and tag never come from another controller) -/
theorem mem_visibleOps (cs : List Controller) (o : OpSig) :
    o ∈ visibleOps cs ↔ ∃ c ∈ cs, ∃ r ∈ c.routes, r.hidden = false ∧
      o = ⟨r.verb, fullPath c r, r.opId, c.tag, r.deprecated⟩ := by
  simp only [visibleOps, List.mem_flatMap, List.mem_map, List.mem_filter, Bool.not_eq_true']
  constructor
  · rintro ⟨c, hc, r, ⟨hr, hh⟩, rfl⟩; exact ⟨c, hc, r, hr, hh, rfl⟩
  · rintro ⟨c, hc, r, hr, hh, rfl⟩; exact ⟨c, hc, r, ⟨hr, hh⟩, rfl⟩

/-- reading the emitted map at a key -/
theorem emitOps_get (cs : List Controller) (k : String × String) :
    get? (emitOps cs) k = get? ((visibleOps cs).map fun o => (o.key, o)).reverse k := by
  unfold emitOps
  rw [get?_setAll]
  cases get? ((visibleOps cs).map fun o => (o.key, o)).reverse k <;> simp [get?]

/-- **Nothing is invented.** Whatever operation sits at (path, verb) in the emitted document is one of
    the non-hidden annotated routes with that verb and normalised path. -/
theorem emitOps_sound (cs : List Controller) (k : String × String) (o : OpSig)
    (h : get? (emitOps cs) k = some o) : o ∈ visibleOps cs ∧ o.key = k := by
  rw [emitOps_get] at h
  unfold get? at h
  cases hf : (List.map (fun o => (o.key, o)) (visibleOps cs)).reverse.find? (fun x => decide (x.1 = k)) with
  | none => rw [hf] at h; simp at h
  | some kv =>
    rw [hf] at h
    simp only [Option.map_some, Option.some.injEq] at h
    have hm := List.mem_of_find?_eq_some hf
    have hp := List.find?_some hf
    simp only [List.mem_reverse, List.mem_map] at hm
    obtain ⟨o', ho', rfl⟩ := hm
    simp only at h hp
    subst h
    exact ⟨ho', by simpa using hp⟩

/-- **Nothing annotated is dropped.** Every non-hidden route's (path, verb) carries an operation. -/
theorem emitOps_complete (cs : List Controller) (o : OpSig) (h : o ∈ visibleOps cs) :
    ∃ o', get? (emitOps cs) o.key = some o' := by
  rw [emitOps_get]
  unfold get?
  cases hf : (List.map (fun o => (o.key, o)) (visibleOps cs)).reverse.find? (fun x => decide (x.1 = o.key)) with
  | some kv => exact ⟨kv.2, rfl⟩
  | none =>
    exfalso
    rw [List.find?_eq_none] at hf
    have := hf (o.key, o) (by simp only [List.mem_reverse, List.mem_map]; exact ⟨o, h, rfl⟩)
    simp at this

/-- **Exactly.** When no two non-hidden routes share verb and normalised path (the situation C15 warns
    about), the emitted operations are precisely the non-hidden annotated routes, each with the method
    name as operationId, its controller's tag and the method's deprecation flag. -/
theorem emitOps_exact (cs : List Controller) (h : noVerbPathCollision cs) :
    emitOps cs = (visibleOps cs).map fun o => (o.key, o) := by
  unfold emitOps
  apply setAll_nodup
  rw [List.map_map]
  exact h

theorem c01_iff (cs : List Controller) (h : noVerbPathCollision cs) (v p : String) (o : OpSig) :
    get? (emitOps cs) (p, v) = some o ↔
      ∃ c ∈ cs, ∃ r ∈ c.routes, r.hidden = false ∧ r.verb = v ∧ fullPath c r = p ∧
        o = ⟨r.verb, fullPath c r, r.opId, c.tag, r.deprecated⟩ := by
  constructor
  · intro hg
    obtain ⟨hmem, hkey⟩ := emitOps_sound cs (p, v) o hg
    obtain ⟨c, hc, r, hr, hh, rfl⟩ := (mem_visibleOps cs o).1 hmem
    simp only [OpSig.key, Prod.mk.injEq] at hkey
    exact ⟨c, hc, r, hr, hh, hkey.2, hkey.1, rfl⟩
  · rintro ⟨c, hc, r, hr, hh, hv, hp, rfl⟩
    have hmem : (⟨r.verb, fullPath c r, r.opId, c.tag, r.deprecated⟩ : OpSig) ∈ visibleOps cs :=
      (mem_visibleOps cs _).2 ⟨c, hc, r, hr, hh, rfl⟩
    rw [emitOps_exact cs h]
    -- in a list with distinct keys, the entry found at a key is the entry itself
    have hnd : ((visibleOps cs).map OpSig.key).Nodup := h
    subst hv; subst hp
    generalize visibleOps cs = l at hmem hnd
    induction l with
    | nil => simp at hmem
    | cons x xs ih =>
      simp only [List.map_cons, List.nodup_cons, List.mem_map, not_exists, not_and] at hnd
      unfold get?
      simp only [List.map_cons, List.find?_cons]
      rcases List.mem_cons.1 hmem with heq | hin
      · subst heq; simp [OpSig.key]
      · have hne : x.key ≠ (fullPath c r, r.verb) := by
          intro e
          exact hnd.1 _ hin (by rw [e]; rfl)
        simp only [hne, decide_false]
        exact ih hin hnd.2

/-! ### `RemoveDuplicateSlash` leaves no doubled slash and is idempotent -/

theorem squeeze_no_dd : ∀ (s : Text.Str) (c d : Char) (pre post : Text.Str),
    squeeze s = pre ++ c :: d :: post → ¬ (c = '/' ∧ d = '/') := by
  intro s
  induction s using squeeze.induct with
  | case1 => intro c d pre post h; simp [squeeze] at h
  | case2 x =>
    intro c d pre post h
    simp only [squeeze] at h
    cases pre with
    | nil => simp at h
    | cons p ps => cases ps <;> simp at h
  | case3 x y t hxy ih =>
    intro c d pre post h
    simp only [squeeze, hxy, and_self, if_true] at h
    obtain ⟨_, rfl⟩ := hxy
    exact ih c d pre post h
  | case4 x y t hxy ih =>
    intro c d pre post h
    simp only [squeeze, hxy, if_false] at h
    cases pre with
    | nil =>
      simp only [List.nil_append, List.cons.injEq] at h
      obtain ⟨rfl, h2⟩ := h
      -- d is the head of squeeze (y :: t); that head is y
      have hy : ∃ rest, squeeze (y :: t) = y :: rest := by
        cases t with
        | nil => exact ⟨[], by simp [squeeze]⟩
        | cons z zs =>
          by_cases hz : y = '/' ∧ z = '/'
          · -- squeeze (y :: z :: zs) = squeeze (z :: zs), whose head is again '/'
            have : ∀ (u : Text.Str), ∃ rest, squeeze ('/' :: u) = '/' :: rest := by
              intro u
              induction u with
              | nil => exact ⟨[], by simp [squeeze]⟩
              | cons a as iha =>
                by_cases ha : a = '/'
                · subst ha; obtain ⟨rest, hr⟩ := iha; exact ⟨rest, by simp [squeeze, hr]⟩
                · exact ⟨squeeze (a :: as), by simp [squeeze, ha]⟩
            obtain ⟨rfl, rfl⟩ := hz
            exact this _
          · exact ⟨squeeze (z :: zs), by simp [squeeze, hz]⟩
      obtain ⟨rest, hr⟩ := hy
      rw [hr] at h2
      simp only [List.cons.injEq] at h2
      intro hcd
      exact hxy ⟨hcd.1, h2.1 ▸ hcd.2⟩
    | cons p ps =>
      simp only [List.cons_append, List.cons.injEq] at h
      exact ih c d ps post h.2

/-! ### non-vacuity -/

private def exCs : List Controller :=
  [{ name := "A", tag := "TA", path := "/a/", routes :=
      [{ opId := "List", verb := "GET", path := "//items" }, { opId := "Secret", verb := "GET", path := "/x", hidden := true }] },
   { name := "B", tag := "TB", path := "b", routes := [{ opId := "Get", verb := "GET", path := "/items", deprecated := true }] }]
example : visibleOps exCs = [⟨"GET", "/a/items", "List", "TA", false⟩, ⟨"GET", "b/items", "Get", "TB", true⟩] := by decide +kernel
example : ((visibleOps exCs).map OpSig.key).Nodup := by decide +kernel

end Gleece.IR
