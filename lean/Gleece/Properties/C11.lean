/-
  C11 — The 3.0 and 3.1 documents describe the same API.

  The structural part (paths, verbs, operationIds, tags, parameters, bodies, response codes, security)
  is ONE model function for both emitters (`Gleece/Model/IR.lean`); the C01/C04/C06 checks compare each
  real document with it, so "both versions agree" on those parts is the conjunction of those ties.
  Here: the dialect translation itself is proved meaning-preserving, the numeric-bound converters of
  both versions are proved equivalent under it when a tag has at most one rule per side, and the
  implementation-vs-implementation comparison (`checkC11`, no model in the loop) diffs the two real
  documents after translation on every run.
-/
import Gleece.Model.Bounds
import Gleece.Model.IR
namespace Gleece.Bounds

/-- **The dialect translation preserves meaning**: a number satisfies the translated 3.1 bounds iff it
    satisfies the 3.0 bounds. -/
theorem dialect_preserves (b : B30) (x : Int) : sat31 (dialect b) x ↔ sat30 b x := by
  unfold sat31 sat30 dialect
  cases b with
  | mk mn emn mx emx =>
    cases emn <;> cases emx <;> simp

theorem dialect_apply_lower (b30 : B30) (r : Rule × Int) (h : lowerFamily r.1 = true) :
    (dialect (apply30 b30 r)).min = (apply31 {} r).min ∧ (dialect (apply30 b30 r)).exclMin = (apply31 {} r).exclMin := by
  obtain ⟨k, n⟩ := r
  cases k <;> simp_all [lowerFamily, apply30, apply31, dialect]

/-- **One rule**: both converters produce the same bound, up to dialect. -/
theorem converters_agree_single (r : Rule × Int) : dialect (apply30 {} r) = apply31 {} r := by
  obtain ⟨k, n⟩ := r
  cases k <;> simp [apply30, apply31, dialect]

/-- **At most one rule per side**: both converters produce the same bounds, up to dialect. -/
theorem converters_agree (rs : List (Rule × Int)) (h : oneRulePerFamily rs = true) :
    dialect (rs.foldl apply30 {}) = rs.foldl apply31 {} := by
  -- a list with at most one lower and at most one upper rule has length ≤ 2: enumerate the shapes
  match rs, h with
  | [], _ => rfl
  | [r], _ => exact converters_agree_single r
  | [(k1, n1), (k2, n2)], h =>
    cases k1 <;> cases k2 <;> simp_all [oneRulePerFamily, lowerFamily, apply30, apply31, dialect]
  | r1 :: r2 :: r3 :: rest, h =>
    exfalso
    simp only [oneRulePerFamily, Bool.and_eq_true, decide_eq_true_eq] at h
    have key : ∀ (l : List (Rule × Int)), (l.filter fun r => lowerFamily r.1).length + (l.filter fun r => !lowerFamily r.1).length = l.length := by
      intro l; induction l with
      | nil => rfl
      | cons x xs ih => cases hx : lowerFamily x.1 <;> simp [List.filter_cons, hx] <;> omega
    have := key (r1 :: r2 :: r3 :: rest)
    simp only [List.length_cons] at this
    omega

/-- **Outside that hypothesis the two versions differ** (finding C11-F3): `lt=10,lte=9` -/
theorem converters_differ_witness :
    dialect ([(Rule.lt, 10), (Rule.lte, 9)].foldl apply30 {}) ≠ [(Rule.lt, 10), (Rule.lte, 9)].foldl apply31 {} := by decide

/-- … and there the 3.1 document is the faithful one: it keeps both constraints -/
example : sat31 ([(Rule.lt, 10), (Rule.lte, 9)].foldl apply31 {}) 9 := by
  simp [sat31, apply31]
example : oneRulePerFamily [(Rule.gt, 0), (Rule.lte, 9)] = true := by decide

end Gleece.Bounds

/- The structural part (operations, parameters, bodies, responses, security) is ONE model function for both
   emitters; "both versions agree" on it is therefore not a Lean statement but the conjunction of the C01 / C04 /
   C06 ties of each real document to that function, plus the direct document-vs-document diff of `checkC11`. -/
