/-
  C11 — The 3.0 and 3.1 documents describe the same API.

  The structural part (paths, verbs, operationIds, tags, parameters, bodies, response codes, security)
  is ONE model function for both emitters (`Gleece/Model/IR.lean`); the C01/C04/C06 checks compare each
  real document with it, so "both versions agree" on those parts is the conjunction of those ties.
  Here: the dialect translation itself is proved meaning-preserving, the numeric-bound converters of
  both versions are proved equivalent under it when a tag has at most one rule per side, and the
  implementation-vs-implementation comparison (`checkC11`, no model in the loop) diffs the two real
  documents after translation on every run.
-/
import Gleece.Model.Bounds
import Gleece.Model.IR
import Gleece.Properties.Conv
import Gleece.Generated.ValidationRules
namespace Gleece.Bounds

/-- **The dialect translation preserves meaning**: a number satisfies the translated 3.1 bounds iff it
    satisfies the 3.0 bounds. -/
theorem dialect_preserves (b : B30) (x : Int) : sat31 (dialect b) x ↔ sat30 b x := by
  unfold sat31 sat30 dialect
  cases b with
  | mk mn emn mx emx =>
    cases emn <;> cases emx <;> simp

theorem dialect_apply_lower (b30 : B30) (r : Rule × Int) (h : lowerFamily r.1 = true) :
    (dialect (apply30 b30 r)).min = (apply31 {} r).min ∧ (dialect (apply30 b30 r)).exclMin = (apply31 {} r).exclMin := by
  obtain ⟨k, n⟩ := r
  cases k <;> simp_all [lowerFamily, apply30, apply31, dialect]

/-- **One rule**: both converters produce the same bound, up to dialect. -/
theorem converters_agree_single (r : Rule × Int) : dialect (apply30 {} r) = apply31 {} r := by
  obtain ⟨k, n⟩ := r
  cases k <;> simp [apply30, apply31, dialect]

/-- **At most one rule per side**: both converters produce the same bounds, up to dialect. -/
theorem converters_agree (rs : List (Rule × Int)) (h : oneRulePerFamily rs = true) :
    dialect (rs.foldl apply30 {}) = rs.foldl apply31 {} := by
  -- a list with at most one lower and at most one upper rule has length ≤ 2: enumerate the shapes
  match rs, h with
  | [], _ => rfl
  | [r], _ => exact converters_agree_single r
  | [(k1, n1), (k2, n2)], h =>
    cases k1 <;> cases k2 <;> simp_all [oneRulePerFamily, lowerFamily, apply30, apply31, dialect]
  | r1 :: r2 :: r3 :: rest, h =>
    exfalso
    simp only [oneRulePerFamily, Bool.and_eq_true, decide_eq_true_eq] at h
    have key : ∀ (l : List (Rule × Int)), (l.filter fun r => lowerFamily r.1).length + (l.filter fun r => !lowerFamily r.1).length = l.length := by
      intro l; induction l with
      | nil => rfl
      | cons x xs ih => cases hx : lowerFamily x.1 <;> simp [List.filter_cons, hx] <;> omega
    have := key (r1 :: r2 :: r3 :: rest)
    simp only [List.length_cons] at this
    omega

/-- **Outside that hypothesis the two versions differ** (finding C11-F3): `lt=10,lte=9` -/
theorem converters_differ_witness :
    dialect ([(Rule.lt, 10), (Rule.lte, 9)].foldl apply30 {}) ≠ [(Rule.lt, 10), (Rule.lte, 9)].foldl apply31 {} := by decide

/-- … and there the 3.1 document is the faithful one: it keeps both constraints -/
example : sat31 ([(Rule.lt, 10), (Rule.lte, 9)].foldl apply31 {}) 9 := by
  simp [sat31, apply31]
example : oneRulePerFamily [(Rule.gt, 0), (Rule.lte, 9)] = true := by decide

end Gleece.Bounds

/- The structural part (operations, parameters, bodies, responses, security) is ONE model function for both
   emitters; "both versions agree" on it is therefore not a Lean statement but the conjunction of the C01 / C04 /
   C06 ties of each real document to that function, plus the direct document-vs-document diff of `checkC11`. -/

/-! ### the converter model is the code's `switch` (regenerated tables) -/
namespace Gleece.Conv

/-- a rule does nothing for a type outside its guard list — for both converters -/
theorem outside_guard {ν} (P : Parsers ν) (t : Ty) (k : Kind) (v : String) (hk : k ≠ .enum ∧ k ≠ .oneof) (ht : t ∉ guardOf k) :
    (∀ s, apply30 P t s (k, v) = s) ∧ (∀ s, apply31 P t s (k, v) = s) := by
  cases k <;> cases t <;> simp_all [guardOf, apply30, apply31, Ty.numeric]

/-- which parser reads the value of each rule, per converter: what `apply30` / `apply31` assume
    (`P.num` = ParseNumber, `P.uint` = ParseUInteger, `len31` = ParseNonNegativeInteger, `P.bool` = ParseBool) -/
def modelParser (emitter : String) (k : Kind) : List String :=
  match k with
  | .gt | .gte | .lt | .lte => ["ParseNumber"]
  | .min | .max => [if emitter = "3.0" then "ParseUInteger" else "ParseNonNegativeInteger", "ParseNumber"]
  | .len | .minItems | .maxItems => [if emitter = "3.0" then "ParseUInteger" else "ParseNonNegativeInteger"]
  | .uniqueItems => ["ParseBool"]
  | _ => [""]

/-- **Every row of the regenerated rule table names the parser the model uses for that rule** -/
theorem parsers_are_modelled :
    ∀ row ∈ Gleece.Generated.validationRules, (modelParser row.1 (kindOf row.2.1)).contains row.2.2.1 = true := by
  decide +kernel

/-- … and every rule of the model has its rows in the table (no rule of the model is missing from a converter) -/
theorem model_rules_in_table :
    ∀ e ∈ ["3.0", "3.1"], ∀ r ∈ ["email", "uuid", "ip", "ipv4", "ipv6", "hostname", "date", "datetime", "gt", "gte", "lt", "lte", "min", "max",
        "len", "pattern", "minItems", "maxItems", "uniqueItems", "enum", "oneof"],
      ∀ p ∈ modelParser e (kindOf r), (Gleece.Generated.validationRules.any fun row => row.1 = e && row.2.1 = r && row.2.2.1 = p) = true := by
  decide +kernel

/-- no rule of the table is unknown to the model -/
theorem table_rules_in_model : ∀ row ∈ Gleece.Generated.validationRules, kindOf row.2.1 ≠ .unknown := by
  decide +kernel

/-- the `switch specType` labels of the member-list rules: 3.0 types members for four scalar types (`members30`),
    3.1 tags three (`oneof31`) and compares with "string" in `enum` (`enum31`) -/
def modelSwitch (emitter : String) (k : Kind) : List String × List String :=
  match k with
  | .enum => if emitter = "3.0" then ([], ["boolean", "integer", "number", "string"]) else (["string"], [])
  | .oneof => if emitter = "3.0" then ([], ["boolean", "integer", "number", "string"]) else ([], ["integer", "number", "string"])
  | k => ((guardOf k).map Ty.name, [])

/-- **Every row of the regenerated guard table is the guard the model uses** (`outside_guard` says what a guard means) -/
theorem guards_are_modelled :
    ∀ row ∈ Gleece.Generated.validationGuards, (row.2.2.1, row.2.2.2) = modelSwitch row.1 (kindOf row.2.1) := by
  decide +kernel

end Gleece.Conv
