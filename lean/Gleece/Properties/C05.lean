/-
  C05 — Handlers bind each parameter from its declared source and enforce requiredness.

  Proved on the model (`Gleece/Model/Router.lean`): the conversion table accepts exactly the values of
  the declared integer type (so every representable value converts and every other value is refused),
  arguments are passed in signature order with the declared pointer-ness, a context parameter receives
  the request context, and every non-pointer / path parameter carries a `required` validator.
  Ties: static — the binding steps extracted from every rendered routes file (accessor → location by
  the per-engine accessor table, wire name, strconv function and bit size, validator tag, call
  arguments) are compared with `paramSteps`/`callArgs`; dynamic — the `rig` stream.
  Not modelled: decimal parsing itself (strconv is trusted to parse what FormatInt prints), floats,
  custom validator tags, the frameworks' own request accessors (sampled dynamically).
-/
import Gleece.Model.Router
import Gleece.Properties.C06
namespace Gleece.Router
open Gleece.IR

/-- the values of a Go integer type -/
def inRange (t : String) (v : Int) : Prop :=
  if isSignedInt t then -(2 : Int) ^ (intWidth t - 1) ≤ v ∧ v < (2 : Int) ^ (intWidth t - 1)
  else 0 ≤ v ∧ v < (2 : Int) ^ intWidth t

/-- what strconv accepts for a (mathematically parsed) value: `ParseInt` / `Atoi` range-check against the
    signed width, `ParseUint` against the unsigned width -/
def strconvAccepts (fn : ConvFn) (bits : Option Nat) (v : Int) : Prop :=
  match fn with
  | .atoi | .parseInt => -(2 : Int) ^ (effectiveBits fn bits - 1) ≤ v ∧ v < (2 : Int) ^ (effectiveBits fn bits - 1)
  | .parseUint => 0 ≤ v ∧ v < (2 : Int) ^ effectiveBits fn bits
  | _ => True

/-- **Every row of the conversion table uses the width of its declared type** (a wrong bit size — the
    repaired `uint`/32 defect — makes this false). -/
theorem conv_bits_match : ∀ row ∈ convTable, (isSignedInt row.1 || isUnsignedInt row.1) = true →
    effectiveBits row.2.1 row.2.2 = intWidth row.1 := by decide

/-- signed types are parsed by a signed parser and unsigned ones by an unsigned parser -/
theorem conv_signedness : ∀ row ∈ convTable,
    (isSignedInt row.1 = true → row.2.1 = .atoi ∨ row.2.1 = .parseInt) ∧
    (isUnsignedInt row.1 = true → row.2.1 = .parseUint) := by decide

/-- **Without loss, and nothing else**: for every integer row, strconv accepts a value iff it is a value
    of the declared type — all boundary integers included. -/
theorem int_conversion_exact (t : String) (fn : ConvFn) (bits : Option Nat) (h : (t, fn, bits) ∈ convTable)
    (hint : (isSignedInt t || isUnsignedInt t) = true) (v : Int) :
    strconvAccepts fn bits v ↔ inRange t v := by
  have hb := conv_bits_match (t, fn, bits) h hint
  have hs := conv_signedness (t, fn, bits) h
  simp only at hb hs
  unfold strconvAccepts inRange
  by_cases hsg : isSignedInt t = true
  · rcases hs.1 hsg with rfl | rfl <;> simp [hsg, hb]
  · have hu : isUnsignedInt t = true := by simpa [hsg] using hint
    have := hs.2 hu
    subst this
    simp [hsg, hb]

/-- every primitive the reducer lets through as a non-body parameter has a row (strings are passed
    as they are) -/
theorem conv_table_covers :
    ∀ t ∈ ["int", "int8", "int16", "int32", "int64", "uint", "uint8", "uint16", "uint32", "uint64", "bool", "float32", "float64"],
      (convTable.map (·.1)).contains t = true := by decide

/-- **Argument order**: the controller method receives one argument per parameter, in signature order;
    a context parameter receives the request context; a by-address parameter the pointer, any other the
    pointed-to value. -/
theorem callArgs_order (r : Route) :
    (callArgs r).length = r.params.length ∧
    ∀ i (h : i < r.params.length),
      (callArgs r)[i]? = some (if r.params[i].isContext then ("ctx", false)
                               else (r.params[i].name ++ "RawPtr", !r.params[i].type.isByAddress)) := by
  constructor
  · simp [callArgs]
  · intro i h
    simp [callArgs, List.getElem?_map, List.getElem?_eq_getElem h]

/-- the call is the last step before the reply and uses exactly `callArgs` -/
theorem handler_calls_once (c : Controller) (r : Route) :
    (handlerOf c r).filter (fun s => match s with | .call _ _ _ => true | _ => false)
      = [.call r.opId (callArgs r) r.hasReturnValue] := by
  unfold handlerOf
  have hp : (r.params.flatMap paramSteps).filter (fun s => match s with | .call _ _ _ => true | _ => false) = [] := by
    rw [List.filter_eq_nil_iff]
    intro s hs
    simp only [List.mem_flatMap] at hs
    obtain ⟨p, _, hs⟩ := hs
    unfold paramSteps at hs
    split at hs
    · simp at hs
    · split at hs
      · simp only [List.mem_cons, List.not_mem_nil, or_false] at hs
        rcases hs with rfl | rfl <;> simp
      · simp only [List.mem_append, List.mem_cons, List.not_mem_nil, or_false] at hs
        rcases hs with ((rfl | rfl) | hs) | hs
        · simp
        · simp
        · split at hs
          · split at hs
            · simp only [List.mem_cons, List.not_mem_nil, or_false] at hs; subst hs; simp
            · simp at hs
          · simp at hs
        · split at hs
          · simp at hs
          · simp only [List.mem_cons, List.not_mem_nil, or_false] at hs; subst hs; simp
  simp [List.filter_append, hp]

/-- what happens to one bound parameter, given what the framework handed over.  `nilFailsRequired` is the
    one fact assumed of go-playground/validator: a nil pointer fails `required`. -/
inductive BindOutcome | pass | reject422
deriving DecidableEq, Repr

def bindOutcome (present converts validatorOk : Bool) (tagRequired : Bool) : BindOutcome :=
  if present then (if converts && validatorOk then .pass else .reject422)
  else if tagRequired then .reject422 else .pass

/-- **Requiredness is enforced**: a request that omits a non-pointer or path parameter is answered 422 —
    for every validator string the user wrote (`required_rule` from C06 gives the tag). -/
theorem required_422 (v : Text.Str) (isPtr isPath : Bool) (h : isPtr = false ∨ isPath = true) (c vo : Bool) :
    bindOutcome false c vo (isFieldRequired (appendRequired v isPtr isPath)) = .reject422 := by
  rw [required_rule]
  rcases h with h | h <;> simp [bindOutcome, h]

theorem ill_typed_422 (vo req : Bool) : bindOutcome true false vo req = .reject422 := by
  simp [bindOutcome]

/-! ### non-vacuity -/
example : inRange "uint" 4294967296 := by simp [inRange, isSignedInt, intWidth]
example : strconvAccepts .parseUint (some 0) 4294967296 := by simp [strconvAccepts, effectiveBits]
example : ¬ strconvAccepts .parseUint (some 32) 4294967296 := by simp [strconvAccepts, effectiveBits]
example : ¬ inRange "int8" 128 ∧ inRange "int8" (-128) := by simp [inRange, isSignedInt, intWidth]

end Gleece.Router
