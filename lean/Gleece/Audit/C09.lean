import Gleece.Properties.C09
#print axioms Gleece.Alias.alias_ident
#print axioms Gleece.Alias.alias_inj
#print axioms Gleece.Alias.alias_unique
#print axioms Gleece.Alias.ident_head_not_digit
#print axioms Gleece.Alias.toDigits_inj
#print axioms Gleece.Order.written_only_after_formatting
#print axioms Gleece.Order.format_failure_refuses
