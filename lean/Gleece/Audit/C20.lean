import Gleece.Properties.C20
#print axioms Gleece.Config.perms_accepted_are_valid
#print axioms Gleece.Config.mode_honoured
#print axioms Gleece.Config.required_rejects_empty
#print axioms Gleece.Config.omitempty_skips
#print axioms Gleece.Config.failure_names_a_tag
#print axioms Gleece.Config.packageName_default
#print axioms Gleece.Config.schema_facts
#print axioms Gleece.Order.config_rejected_before_analysis
#print axioms Gleece.Order.every_command_loads_config_first
#print axioms Gleece.Order.routes_written_with_configured_mode
#print axioms Gleece.Order.spec_failure_writes_nothing
#print axioms Gleece.Config.segMatch_literal
#print axioms Gleece.Config.segMatch_star
#print axioms Gleece.Config.doublestar_zero
#print axioms Gleece.Config.doublestar_more
#print axioms Gleece.Config.segsMatch_literal
