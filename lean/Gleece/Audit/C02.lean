import Gleece.Properties.C02
#print axioms Gleece.Router.mem_registrations
#print axioms Gleece.Router.registrations_length
#print axioms Gleece.Router.documented_subset_served
#print axioms Gleece.Router.served_not_documented_iff_hidden
#print axioms Gleece.Router.served_eq_documented_plain
#print axioms Gleece.Router.served_rooted
