import Gleece.Properties.C02
import Gleece.Properties.Serve
#print axioms Gleece.Router.mem_registrations
#print axioms Gleece.Router.registrations_length
#print axioms Gleece.Router.documented_subset_served
#print axioms Gleece.Router.served_not_documented_iff_hidden
#print axioms Gleece.Router.served_eq_documented_plain
#print axioms Gleece.Router.served_rooted
#print axioms Gleece.Serve.unmatched_not_served
#print axioms Gleece.Serve.served_by_matching_route
#print axioms Gleece.Serve.matchSegs_literal
#print axioms Gleece.Serve.matchSegs_spec
