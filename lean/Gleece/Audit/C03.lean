import Gleece.Properties.C03
import Gleece.Properties.Serve
#print axioms Gleece.Router.gateFirst_handlerOf
#print axioms Gleece.Router.runList_none_iff
#print axioms Gleece.Router.authorize_none
#print axioms Gleece.Router.authorize_some
#print axioms Gleece.Router.exec_gateFirst
#print axioms Gleece.Router.controller_only_if_approved
#print axioms Gleece.Router.refused_no_controller
#print axioms Gleece.IR.effective_def
#print axioms Gleece.IR.effective_empty_iff
#print axioms Gleece.Reduce.effective_security
#print axioms Gleece.Reduce.default_applies
#print axioms Gleece.Reduce.effective_empty_iff
#print axioms Gleece.Serve.called_only_if_approved
#print axioms Gleece.Serve.all_denied_refused
#print axioms Gleece.Serve.approvesAll_deny
#print axioms Gleece.Reduce.reduce_is_effective
#print axioms Gleece.Serve.serve_refused_iff_exec_gate
