import Gleece.Properties.C06
import Gleece.Properties.Serve
#print axioms Gleece.IR.required_rule
#print axioms Gleece.IR.docParams_names
#print axioms Gleece.IR.docParams_sound
#print axioms Gleece.IR.docParams_complete
#print axioms Gleece.IR.success_response
#print axioms Gleece.IR.error_response
#print axioms Gleece.IR.valueType_cases
#print axioms Gleece.Text.splitOn_append_sep
#print axioms Gleece.IR.reduced_param_required
#print axioms Gleece.Serve.reduceRoute_param_order
