import Gleece.Properties.C18
import Gleece.Properties.C16
#print axioms Gleece.Annot.indexOf_go_spec
#print axioms Gleece.Annot.valueRange_covers
#print axioms Gleece.Annot.indexOf_of_infix
#print axioms Gleece.Annot.parseTrimmed_sound
