import Gleece.Properties.C19
#print axioms Gleece.Session.rerun_serials
#print axioms Gleece.Session.rerun_ids
#print axioms Gleece.Session.getId_memo
#print axioms Gleece.Session.runKeys_all_known
#print axioms Gleece.Graph.guardedAdd_same_version
#print axioms Gleece.Graph.addEdge_idem_edges
