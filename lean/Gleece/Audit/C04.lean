import Gleece.Properties.C04
#print axioms Gleece.IR.effective_def
#print axioms Gleece.IR.effective_empty_iff
#print axioms Gleece.IR.doc_eq_enforced
#print axioms Gleece.IR.doc_eq_enforced_of
#print axioms Gleece.IR.unknown_scheme_no_spec
#print axioms Gleece.IR.schemes_declared
#print axioms Gleece.IR.enforce_airtight
#print axioms Gleece.Reduce.effective_security
#print axioms Gleece.Reduce.default_applies
#print axioms Gleece.Reduce.effective_empty_iff
#print axioms Gleece.Reduce.own_security_in_order
#print axioms Gleece.Reduce.reduce_is_effective
#print axioms Gleece.Reduce.source_doc_eq_enforced
