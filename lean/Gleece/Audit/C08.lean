import Gleece.Properties.C08
#print axioms Gleece.Doc.check_sound
#print axioms Gleece.Doc.model_path_params
#print axioms Gleece.Order.validate_before_marshal_30
#print axioms Gleece.Order.validate_31
#print axioms Gleece.Order.v30_always_first
#print axioms Gleece.Order.write_after_success
