import Gleece.Properties.C08
import Gleece.Properties.Conv
import Gleece.Properties.Link
#print axioms Gleece.Doc.check_sound
#print axioms Gleece.Doc.model_path_params
#print axioms Gleece.Order.validate_before_marshal_30
#print axioms Gleece.Order.validate_31
#print axioms Gleece.Order.v30_always_first
#print axioms Gleece.Order.write_after_success
#print axioms Gleece.Conv.enum30_typed
#print axioms Gleece.Conv.enum31_string_typed
#print axioms Gleece.Conv.members30_typed
#print axioms Gleece.Link.binding_rows
#print axioms Gleece.Link.findFirst_of_mem
#print axioms Gleece.Link.path_annotation_reduced
#print axioms Gleece.Link.reduced_path_has_annotation
#print axioms Gleece.Link.reduceRoute_names
#print axioms Gleece.Link.reduced_path_required
#print axioms Gleece.Link.accepted_route_path_params_partial
#print axioms Gleece.Doc.templateParams_normPath
#print axioms Gleece.Doc.tpa_buffer_irrelevant
#print axioms Gleece.Link.accepted_route_document_closed_partial
#print axioms Gleece.Doc.usageType_known
#print axioms Gleece.Doc.raw_type_of_time_unknown
