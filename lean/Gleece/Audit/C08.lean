import Gleece.Properties.C08
import Gleece.Properties.Conv
#print axioms Gleece.Doc.check_sound
#print axioms Gleece.Doc.model_path_params
#print axioms Gleece.Order.validate_before_marshal_30
#print axioms Gleece.Order.validate_31
#print axioms Gleece.Order.v30_always_first
#print axioms Gleece.Order.write_after_success
#print axioms Gleece.Conv.enum30_typed
#print axioms Gleece.Conv.enum31_string_typed
#print axioms Gleece.Conv.members30_typed
