import Gleece.Properties.C11
#print axioms Gleece.Bounds.dialect_preserves
#print axioms Gleece.Bounds.converters_agree_single
#print axioms Gleece.Bounds.converters_agree
#print axioms Gleece.Bounds.converters_differ_witness
#print axioms Gleece.Conv.converters_agree
#print axioms Gleece.Conv.converters_agree_tag
#print axioms Gleece.Conv.step_sim
#print axioms Gleece.Conv.two_bounds_one_side_differ
#print axioms Gleece.Conv.unparsable_value_differs
#print axioms Gleece.Conv.outside_guard
#print axioms Gleece.Conv.parsers_are_modelled
#print axioms Gleece.Conv.model_rules_in_table
#print axioms Gleece.Conv.table_rules_in_model
#print axioms Gleece.Conv.guards_are_modelled
