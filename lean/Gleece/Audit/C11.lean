import Gleece.Properties.C11
#print axioms Gleece.Bounds.dialect_preserves
#print axioms Gleece.Bounds.converters_agree_single
#print axioms Gleece.Bounds.converters_agree
#print axioms Gleece.Bounds.converters_differ_witness
