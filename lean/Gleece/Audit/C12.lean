import Gleece.Properties.C12
import Gleece.Properties.Serve
#print axioms Gleece.Router.urlConv_classes
#print axioms Gleece.Router.accessors_cover
#print axioms Gleece.Router.gateFirst_handlerOf
#print axioms Gleece.Serve.called_only_if_approved
#print axioms Gleece.Serve.unmatched_not_served
#print axioms Gleece.Serve.interchangeable_of_accessors_agree
#print axioms Gleece.Serve.serveRoute_std
#print axioms Gleece.Serve.bindAllA_congr
