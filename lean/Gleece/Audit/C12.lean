import Gleece.Properties.C12
#print axioms Gleece.Router.skeleton_uniform
#print axioms Gleece.Router.interchangeable
#print axioms Gleece.Router.urlConv_classes
#print axioms Gleece.Router.accessors_cover
#print axioms Gleece.Router.gateFirst_handlerOf
