import Gleece.Properties.C13
import Gleece.Properties.SortDet
#print axioms Gleece.Session.visit_order_deterministic
#print axioms Gleece.Session.serials_deterministic
#print axioms Gleece.Session.sorted_perm_eq
#print axioms Gleece.Session.sortNat_sorted
#print axioms Gleece.Order.sorts_in_place
#print axioms Gleece.Sort.lexLe_total
#print axioms Gleece.Sort.lexLe_trans
#print axioms Gleece.Sort.lexLe_both_keys_eq
#print axioms Gleece.Sort.sorted_canonical
#print axioms Gleece.Sort.mergeSort_canonical
#print axioms Gleece.Sort.comparators_well_shaped
#print axioms Gleece.Sort.controllers_sorted_by_package_and_name
#print axioms Gleece.Sort.models_sorted_by_name_only
