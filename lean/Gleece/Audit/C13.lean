import Gleece.Properties.C13
#print axioms Gleece.Session.visit_order_deterministic
#print axioms Gleece.Session.serials_deterministic
#print axioms Gleece.Session.sorted_perm_eq
#print axioms Gleece.Session.sortNat_sorted
#print axioms Gleece.Order.sorts_in_place
