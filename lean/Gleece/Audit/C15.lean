import Gleece.Properties.C15
#print axioms Gleece.Paths.findConflicts_sound
#print axioms Gleece.Paths.findConflicts_complete
#print axioms Gleece.Paths.flagged_iff
#print axioms Gleece.Paths.flagged_perm
#print axioms Gleece.Paths.specSound_iff
#print axioms Gleece.Paths.specComplete_iff
#print axioms Gleece.Paths.mkEntries_ids_nodup
#print axioms Gleece.Paths.hasDD_collapse
#print axioms Gleece.Paths.inv_step
#print axioms Gleece.Paths.walk_ne_nil
