import Gleece.Properties.C05
import Gleece.Properties.Serve
#print axioms Gleece.Router.conv_bits_match
#print axioms Gleece.Router.conv_signedness
#print axioms Gleece.Router.int_conversion_exact
#print axioms Gleece.Router.conv_table_covers
#print axioms Gleece.Router.callArgs_order
#print axioms Gleece.Router.handler_calls_once
#print axioms Gleece.Router.required_422
#print axioms Gleece.Router.ill_typed_422
#print axioms Gleece.IR.required_rule
#print axioms Gleece.Serve.missing_required_never_called
#print axioms Gleece.Serve.parseIntegral_unsigned_in_range
#print axioms Gleece.Serve.bindAll_some_each
#print axioms Gleece.Serve.parseIntegral_signed_in_range
#print axioms Gleece.Serve.htmlEscape_id
#print axioms Gleece.Serve.escaped_tag_changes_meaning
