import Gleece.Properties.C17
#print axioms Gleece.Graph.inv_step
#print axioms Gleece.Graph.inv_run
#print axioms Gleece.Graph.inv_reachable
#print axioms Gleece.Graph.inv_addEdge
#print axioms Gleece.Graph.inv_removeEdge
#print axioms Gleece.Graph.removeNode_shrinks
#print axioms Gleece.Graph.removeNode_removes
#print axioms Gleece.Graph.mem_getEdges
#print axioms Gleece.Graph.outgoing_iff_incoming
#print axioms Gleece.Graph.mem_children
#print axioms Gleece.Graph.mem_parents
#print axioms Gleece.Graph.child_parent_dual
#print axioms Gleece.Graph.addEdge_idem_edges
#print axioms Gleece.Graph.guardedAdd_same_version
#print axioms Gleece.Graph.abs_addEdge
#print axioms Gleece.Graph.abs_removeEdge
