import Gleece.Properties.C14
#print axioms Gleece.Crash.convert_no_crash
#print axioms Gleece.Crash.nil_value_guarded
#print axioms Gleece.Crash.nil_schema_guarded
#print axioms Gleece.Crash.both_emitters_know_the_rules
#print axioms Gleece.Crash.unwrapArray_idem
#print axioms Gleece.Paths.replaceDD_length_lt
#print axioms Gleece.Cli.wrap_contract
#print axioms Gleece.Cli.wrap_without_propagation_breaks
#print axioms Gleece.Cli.every_generating_command_propagates
#print axioms Gleece.Cli.generating_commands_present
#print axioms Gleece.Order.write_failures_are_returned
