import Gleece.Properties.C01
#print axioms Gleece.IR.mem_visibleOps
#print axioms Gleece.IR.emitOps_sound
#print axioms Gleece.IR.emitOps_complete
#print axioms Gleece.IR.emitOps_exact
#print axioms Gleece.IR.c01_iff
#print axioms Gleece.IR.squeeze_no_dd
#print axioms Gleece.Assoc.get?_setAll
#print axioms Gleece.Assoc.setAll_nodup
#print axioms Gleece.Reduce.hidden_iff
