import Gleece.Properties.C10
#print axioms Gleece.Validate.returns_sound
#print axioms Gleece.Validate.linkValidate_nil_parts
#print axioms Gleece.Validate.params_referenced
#print axioms Gleece.Validate.body_form_sound
#print axioms Gleece.Validate.goUrl_nil
#print axioms Gleece.Validate.goPath_nil
#print axioms Gleece.Order.run_blocks_on_error_diagnostics
#print axioms Gleece.Order.commands_write_after_success
#print axioms Gleece.Validate.goUrl_nodup
#print axioms Gleece.Validate.goPath_names_nodup
#print axioms Gleece.Validate.link_injective
#print axioms Gleece.Validate.link_bijection_partial
#print axioms Gleece.Validate.unaliased_outside_route_is_accepted
