import Gleece.Properties.C10
import Gleece.Properties.Link
import Gleece.Properties.C10Complete
import Gleece.Properties.C10Common
import Gleece.Properties.C10Exact
#print axioms Gleece.Validate.returns_sound
#print axioms Gleece.Validate.linkValidate_nil_parts
#print axioms Gleece.Validate.params_referenced
#print axioms Gleece.Validate.body_form_sound
#print axioms Gleece.Validate.goUrl_nil
#print axioms Gleece.Validate.goPath_nil
#print axioms Gleece.Order.run_blocks_on_error_diagnostics
#print axioms Gleece.Order.commands_write_after_success
#print axioms Gleece.Validate.goUrl_nodup
#print axioms Gleece.Validate.goPath_names_nodup
#print axioms Gleece.Validate.link_injective
#print axioms Gleece.Validate.link_bijection_partial
#print axioms Gleece.Validate.unaliased_outside_route_is_accepted
#print axioms Gleece.Link.binding_rows
#print axioms Gleece.Link.findFirst_of_mem
#print axioms Gleece.Link.path_annotation_reduced
#print axioms Gleece.Link.reduced_path_has_annotation
#print axioms Gleece.Link.reduceRoute_names
#print axioms Gleece.Link.reduced_path_required
#print axioms Gleece.Link.accepted_route_path_params_partial
#print axioms Gleece.Doc.templateParams_normPath
#print axioms Gleece.Doc.tpa_buffer_irrelevant
#print axioms Gleece.Link.accepted_route_document_closed_partial
#print axioms Gleece.Validate.goUrl_of_nodup
#print axioms Gleece.Validate.goPath_of_wellformed
#print axioms Gleece.Validate.wellLinked_accepted
#print axioms Gleece.Validate.wellLinkedB_sound
#print axioms Gleece.Validate.wellLinkedB_accepted
#print axioms Gleece.Validate.validateParams_complete
#print axioms Gleece.Validate.validateReturns_complete
#print axioms Gleece.Validate.receiver_accepts
#print axioms Gleece.Validate.commonValidate_complete
#print axioms Gleece.Validate.annotsWellFormedB_sound
#print axioms Gleece.Validate.well_formed_route_accepted
#print axioms Gleece.Validate.exclusion_symmetric_lookup
#print axioms Gleece.Validate.commonValidate_go_sound
#print axioms Gleece.Validate.commonValidate_sound
#print axioms Gleece.Validate.commonValidate_accepts_iff
#print axioms Gleece.Validate.goPath_values_nodup
#print axioms Gleece.Validate.accepted_is_wellLinked_partial
#print axioms Gleece.Validate.link_accepts_iff_partial
#print axioms Gleece.Validate.linkValidate_all_err
#print axioms Gleece.Validate.linkValidate_nil_of_noerr
#print axioms Gleece.Validate.accepted_route_is_well_formed_partial
