import Gleece.Properties.C10
#print axioms Gleece.Validate.returns_sound
#print axioms Gleece.Validate.linkValidate_nil_parts
#print axioms Gleece.Validate.params_referenced
#print axioms Gleece.Validate.body_form_sound
#print axioms Gleece.Validate.goUrl_nil
#print axioms Gleece.Validate.goPath_nil
#print axioms Gleece.Order.run_blocks_on_error_diagnostics
#print axioms Gleece.Order.commands_write_after_success
