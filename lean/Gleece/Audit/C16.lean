import Gleece.Properties.C16
#print axioms Gleece.Annot.regex_text_is_modelled
#print axioms Gleece.Annot.parseTrimmed_render
#print axioms Gleece.Annot.parse_render
#print axioms Gleece.Annot.parseParen_sound
#print axioms Gleece.Annot.parseTrimmed_sound
#print axioms Gleece.Annot.holder_order
#print axioms Gleece.Annot.json_error_not_dropped
#print axioms Gleece.Annot.description_rule
#print axioms Gleece.Annot.pickClose_sound
#print axioms Gleece.Annot.pickClose_intended
