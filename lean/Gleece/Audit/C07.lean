import Gleece.Properties.C07
#print axioms Gleece.Types.components_sound
#print axioms Gleece.Types.components_complete
#print axioms Gleece.Types.components_exact
#print axioms Gleece.Types.closure_closed
#print axioms Gleece.Types.closed_contains_reach
#print axioms Gleece.Types.closure_reach
#print axioms Gleece.Types.component_of_declaration_alone
#print axioms Gleece.Types.usage_site_never_changes_component
#print axioms Gleece.Types.components_monotone
#print axioms Gleece.Types.props_exact
#print axioms Gleece.Types.unexported_hidden
#print axioms Gleece.Types.dash_hidden
#print axioms Gleece.Types.required_are_props
#print axioms Gleece.Types.schema_shapes
