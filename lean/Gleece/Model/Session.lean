/-
  C13 / C19 — the parts of an analysis session whose results depend on ORDER or on HISTORY:
  * `SyncedProvider.GetIdForKey` (import serials, assigned on first use, memoised for the session);
  * the order in which source files are visited (`PackagesFacade.GetAllSourceFiles`) and controllers are
    reduced (`GleecePipeline.getControllers`): both are sorted by a key before use.
-/
namespace Gleece.Session

/-- `SyncedProvider`: next id and the memo (key ↦ id) -/
structure Memo where
  next : Nat := 0
  table : List (Nat × Nat) := []
deriving DecidableEq, Repr

/-- `GetIdForKey` -/
def getId (m : Memo) (k : Nat) : Nat × Memo :=
  match m.table.find? (·.1 = k) with
  | some (_, id) => (id, m)
  | none => (m.next, { next := m.next + 1, table := m.table ++ [(k, m.next)] })

/-- the serials handed out while reducing, for the keys in the order they are met -/
def runKeys (m : Memo) : List Nat → List Nat × Memo
  | [] => ([], m)
  | k :: ks =>
    let (id, m1) := getId m k
    let (ids, m2) := runKeys m1 ks
    (id :: ids, m2)

/-- insertion sort by a key (`slices.Sort` / `slices.SortFunc` with a total order on distinct keys) -/
def insertSorted (x : Nat) : List Nat → List Nat
  | [] => [x]
  | y :: ys => if x ≤ y then x :: y :: ys else y :: insertSorted x ys

def sortNat : List Nat → List Nat
  | [] => []
  | x :: xs => insertSorted x (sortNat xs)

end Gleece.Session
