/-
  C10 / C18 — model of the validators (core/validators/*.go): `CommonValidator` (driven by the annotation
  table `Gleece/Generated/AnnotTable.lean`), `ReceiverValidator` (parameters, return types, security),
  `AnnotationLinkValidator` (route / @Path / parameter cross-links), `ControllerValidator`.
  Output: the (code, severity) of every diagnostic, per entity.
-/
import Gleece.Model.IR
import Gleece.Model.Doc
import Gleece.Generated.AnnotTable
namespace Gleece.Validate
open Gleece.IR

inductive PropKind | str | num | bool | arr | obj | null
deriving DecidableEq, Repr

structure Annot where
  name : String
  value : String := ""
  props : List (String × PropKind × String) := []   -- key, JSON kind, string value (for strings)
  desc : String := ""
deriving DecidableEq, Repr, Inhabited

structure MParam where
  name : String
  type : String
deriving DecidableEq, Repr, Inhabited

structure Method where
  name : String
  annots : List Annot
  params : List MParam
  results : List String
deriving Repr, Inhabited

structure TypeEnv where
  enums : List String := []
  structs : List String := []
  aliases : List String := []      -- aliases of primitives
  errorTypes : List String := []   -- struct types that embed `error`
deriving Repr, Inhabited

structure Diag where
  code : String
  severity : Nat      -- 1 error, 2 warning
deriving DecidableEq, Repr, Inhabited

def err (c : String) : Diag := ⟨c, 1⟩
def warn (c : String) : Diag := ⟨c, 2⟩

/-! ### types as written in the signature -/

def stripPtr (t : String) : String := if t.startsWith "*" then (t.drop 1).toString else t
/-- the text after a leading `[]` or `[N]` (a slice or a fixed-size array: `TypeUsageMeta.IsIterable` counts both) -/
def afterBrackets (s : List Char) : Option (List Char) :=
  match s with
  | '[' :: r => (match r.dropWhile Char.isDigit with | ']' :: rest => some rest | _ => none)
  | _ => none
def isIterable (t : String) : Bool := (afterBrackets (stripPtr t).toList).isSome
def elemType (t : String) : String :=
  let s := stripPtr t
  match afterBrackets s.toList with | some r => String.ofList r | none => s
def isContextType (t : String) : Bool := t = "context.Context"
def universePrims : List String :=
  ["string", "int", "int8", "int16", "int32", "int64", "uint", "uint8", "uint16", "uint32", "uint64", "bool", "float32", "float64", "byte", "rune", "any", "error"]
def isMapType (t : String) : Bool := (stripPtr t).startsWith "map["
def isErrorType (t : String) : Bool := stripPtr t = "error"

/-! ### the annotation table (regenerated from configuration.go) -/

structure AnnotDef where
  contexts : List String
  requiresValue : Bool
  anyProps : Bool
  allowedProps : List (String × String)     -- name, JSON type
  allowsMultiple : Bool
  mutuallyExclusive : List String
  requiresUniqueValue : Bool
deriving Repr

def lookupDef (name : String) : Option AnnotDef :=
  (Gleece.Generated.annotTable.find? (·.1 = name)).map fun (_, ctx, rv, anyP, props, multi, excl, uniq) =>
    ⟨ctx, rv, anyP, props, multi, excl, uniq⟩

def kindMatches (expected : String) (k : PropKind) : Bool :=
  match expected with
  | "string" => k = .str | "number" => k = .num | "boolean" => k = .bool | "array" => k = .arr | "object" => k = .obj
  | _ => true

def validStatusCodes : List Nat := Gleece.Generated.validHttpStatusCodes

/-- `CommonValidator.validateCommon` for a holder whose source is `source` ("route" / "controller") -/
def commonValidate (source : String) (attrs : List Annot) : List Diag :=
  let rec go (rest : List Annot) (counts : List (String × Nat)) (uniq : List String) : List Diag :=
    match rest with
    | [] => []
    | a :: rest =>
      let cnt := ((counts.find? (·.1 = a.name)).map (·.2)).getD 0 + 1
      let counts := (counts.filter (·.1 ≠ a.name)) ++ [(a.name, cnt)]
      match lookupDef a.name with
      | none => err "annotation-unknown" :: go rest counts uniq
      | some d =>
        let countOf (n : String) := ((counts.find? (·.1 = n)).map (·.2)).getD 0
        let ds :=
          (if d.contexts.contains source then [] else [warn "annotation-invalid-in-context"]) ++
          (if d.requiresValue && a.value.isEmpty then [err "annotation-value-must-exist"] else []) ++
          (if d.anyProps then []
           else if d.allowedProps.isEmpty && !a.props.isEmpty then [warn "annotation-properties-should-not-exist"]
           else
             -- properties are checked in key order (fix e73f250; a Go map before it): the FIRST faulty one is reported
             match (a.props.mergeSort (fun x y => x.1 ≤ y.1)).findSome? (fun (k, kind, _) =>
                 match d.allowedProps.find? (·.1 = k) with
                 | none => some (warn "annotation-property-should-not-exist")
                 | some (_, ty) => if kindMatches ty kind then none else some (warn "annotation-properties-invalid-value-for-key")) with
             | some w => [w]
             | none => []) ++
          (if !d.allowsMultiple && cnt > 1 then [warn "annotation-duplicate"] else []) ++
          (if d.mutuallyExclusive.any (fun x => countOf x > 0) then [err "annotation-mutually-exclusive"] else []) ++
          (if d.requiresUniqueValue && !a.value.isEmpty && uniq.contains a.value then [err "annotation-duplicate-value"] else []) ++
          (if a.name = "Method" then
             (if Gleece.Generated.routeSupportedHttpVerbs.contains a.value then []
              else if Gleece.Generated.validHttpVerbs.contains a.value then [err "unsupported-feature"]
              else [err "annotation-value-invalid"])
           else if a.name = "Response" || a.name = "ErrorResponse" then
             (match Gleece.Text.parseUint a.value with
              | none => [err "annotation-value-invalid"]
              | some n => if n < 4294967296 then (if validStatusCodes.contains n then [] else [warn "annotation-value-invalid"]) else [err "annotation-value-invalid"])
           else [])
        ds ++ go rest counts (uniq ++ [a.value])
  go attrs [] []

/-! ### receiver-level checks -/

/-- `AnnotationHolder.FindFirstParameterBinding`: the first annotation of a BINDING kind (@Query, @Header, @Path,
    @Body, @FormField) whose value is the parameter's name; annotations of other kinds that merely carry the same
    value are skipped (before fix 08fcd1b the first annotation of ANY kind was taken: finding C10-F1) -/
def findFirstByValue (attrs : List Annot) (v : String) : Option Annot :=
  attrs.find? fun a => a.value = v && ["query", "header", "path", "body", "formfield"].contains a.name.toLower

inductive PassedIn | query | header | path | body | form
deriving DecidableEq, Repr

/-- `metadata.GetParamPassedIn`: `none` = no matching annotation (InvalidAnnotationError, the link validator
    reports it); `some (error _)` = a matching annotation of another kind (a hard error) -/
def passedInOf (attrs : List Annot) (pname : String) : Option (Except String PassedIn) :=
  (findFirstByValue attrs pname).map fun a =>
    match a.name.toLower with
    | "query" => .ok .query | "header" => .ok .header | "path" => .ok .path | "body" => .ok .body | "formfield" => .ok .form
    | o => .error o

def isPrimitiveLike (env : TypeEnv) (t : String) : Bool :=
  let e := elemType t
  (universePrims.contains e || env.enums.contains e || env.aliases.contains e) && !isErrorType t && !isMapType t

def isBuiltinType (t : String) : Bool :=
  let e := stripPtr t
  universePrims.contains e || e = "time.Time" || e = "context.Context"

/-- `validateParams` (+ `validateParamsCombinations`); `none` = the validator returns a hard error -/
def validateParams (env : TypeEnv) (m : Method) : Option (List Diag) :=
  let rec go (ps : List MParam) (seen : List PassedIn) : Option (List Diag) :=
    match ps with
    | [] => some []
    | p :: rest =>
      if isContextType p.type then go rest seen else
      match passedInOf m.annots p.name with
      | none => go rest seen
      | some (.error _) => none
      | some (.ok loc) =>
        let d1 :=
          if loc = .body then (if isBuiltinType p.type && !isIterable p.type then [err "receiver-invalid-body"] else [])
          else if isIterable p.type && loc ≠ .query then [err "receiver-parameter-not-primitive"]
          else if isPrimitiveLike env p.type then [] else [err "receiver-parameter-not-primitive"]
        let d2 :=
          if loc = .body && (seen.contains .body || seen.contains .form) then [err "receiver-return-values-invalid-signature"]
          else if loc = .form && seen.contains .body then [err "receiver-return-values-invalid-signature"]
          else []
        (go rest (seen ++ [loc])).map fun r => d1 ++ d2 ++ r
  go m.params []

/-- `validateReturnTypes`: `error` or `(T, error)` whose last type is, or embeds, error -/
def validateReturns (errorEmbedders : List String) (m : Method) : List Diag :=
  match m.results with
  | [] => [err "receiver-return-values-invalid-signature"]
  | [e] => if isErrorType e || errorEmbedders.contains (stripPtr e) then [] else [err "receiver-return-value-is-not-an-error"]
  | [_, e] => if isErrorType e || errorEmbedders.contains (stripPtr e) then [] else [err "receiver-return-value-is-not-an-error"]
  | _ => [err "receiver-return-values-invalid-signature"]

def securityOf (attrs : List Annot) : Nat := (attrs.filter (·.name = "Security")).length

/-- `validateSecurity` -/
def validateSecurity (enforce : Bool) (hasDefault : Bool) (ctrlAnnots : List Annot) (m : Method) : List Diag :=
  if !enforce then [] else
  if securityOf m.annots > 0 || securityOf ctrlAnnots > 0 || hasDefault then [] else [err "receiver-missing-security"]

/-! ### the link validator -/

/-- `extractUrlParams` -/
def extractUrlParams (route : String) : List String := Gleece.Doc.templateParams route

inductive AliasRes | none | bad | ok (v : String)
deriving DecidableEq, Repr

def aliasOf (a : Annot) : AliasRes :=
  match a.props.find? (·.1 = "name") with
  | Option.none => .none
  | some (_, k, v) => if k = .str then .ok v else .bad

/-- `getPathAliasOrName`: the `name` property when it is a string (even an empty one), else the annotation's value -/
def refName (a : Annot) : String := match aliasOf a with | .ok v => v | _ => a.value

def isBindingAnnot (n : String) : Bool := ["Query", "Header", "Body", "FormField"].contains n

/-- `ctrlRoute` = the controller's own `@Route`: the route a method serves starts with that prefix, and the
    `{names}` in it are bound by the method's `@Path` annotations like any other (`WithControllerRoute`) -/
def linkValidate (ctrlRoute : String) (m : Method) : List Diag :=
  -- the FIRST @Route: the one the route is reduced, documented and served under (`classifyAttributes`; the last one
  -- before the fix for C10-F4)
  let route := ((m.annots.filter (·.name = "Route")).head?.map (·.value)).getD ""
  let urlParams := extractUrlParams (ctrlRoute ++ route)
  let pathAttrs := m.annots.filter (·.name = "Path")
  -- the parameters an annotation can bind: the request context is not one of them (`getReceiverParamsNameSet`, fix for
  -- C10-F6)
  let funcParams := (m.params.filter fun p => !isContextType p.type).map (·.name)
  -- 1. route
  let badAlias := pathAttrs.filter fun a => aliasOf a = .bad
  let d1 : List Diag :=
    if !badAlias.isEmpty then badAlias.map fun _ => err "annotation-properties-invalid-value-for-key"
    else
      let referenced := pathAttrs.map refName
      let rec goUrl (ps : List String) (seen : List String) : List Diag :=
        match ps with
        | [] => []
        | p :: rest =>
          (if seen.contains p then [err "linker-duplicate-url-parameter"] else []) ++
          (if referenced.contains p then [] else [err "linker-route-missing-path-reference"]) ++
          goUrl rest (if seen.contains p then seen else seen ++ [p])
      goUrl urlParams []
  -- 2. @Path annotations
  let rec goPath (as : List Annot) (seenParams seenVals seenAliases : List String) : List Diag × List String :=
    match as with
    | [] => ([], seenParams)
    | a :: rest =>
      let known := funcParams.contains a.value
      let dA := if !known then [err "linker-path-annotation-invalid-reference"]
                else if seenParams.contains a.value then [err "linker-multiple-parameter-refs"] else []
      let seenParams' := if known && !seenParams.contains a.value then seenParams ++ [a.value] else seenParams
      let dB := if seenVals.contains a.value then [err "linker-duplicate-path-param"] else []
      let seenVals' := if seenVals.contains a.value then seenVals else seenVals ++ [a.value]
      -- a @Path without an alias goes by its parameter's name in the URL: that name is taken as well (fix for
      -- C10-F5); a repeated reference is reported once, as `linker-duplicate-path-param`
      let unaliased : List Diag × List String :=
        ((if seenAliases.contains a.value && !seenVals.contains a.value then [err "linker-duplicate-path-alias-ref"] else []),
         if seenAliases.contains a.value then seenAliases else seenAliases ++ [a.value])
      let (dC, seenAliases') :=
        match aliasOf a with
        | .bad => ([err "annotation-properties-invalid-value-for-key"], seenAliases)
        | .ok al =>
          if al.isEmpty then unaliased else
          ((if seenAliases.contains al then [err "linker-duplicate-path-alias-ref"] else []) ++
           (if urlParams.contains al then [] else [err "linker-path-annotation-invalid-reference"]),
           if seenAliases.contains al then seenAliases else seenAliases ++ [al])
        | .none => unaliased
      let (r, sp) := goPath rest seenParams' seenVals' seenAliases'
      (dA ++ dB ++ dC ++ r, sp)
  let (d2, seen2) := goPath pathAttrs [] [] []
  -- 3. other binding annotations with a non-blank value
  let others := m.annots.filter fun a => isBindingAnnot a.name && !(a.value.toList.all (· = ' '))
  let d3 := (others.filter fun a => !funcParams.contains a.value).map fun _ => err "linker-path-annotation-invalid-reference"
  let seen3 := seen2 ++ (others.filter fun a => funcParams.contains a.value).map (·.value)
  -- 4. every non-context parameter is referenced
  let d4 := (m.params.filter fun p => !seen3.contains p.name && !isContextType p.type).map fun _ => err "linker-unreferenced-parameter"
  -- parameters with the same name are one entry of the name set
  let d4 := if (m.params.map (·.name)).eraseDups.length = m.params.length then d4 else d4.eraseDups
  d1 ++ d2 ++ d3 ++ d4

/-- `GetSecurityFromContext` fails (an error, not a diagnostic) on an empty scheme name and on a `scopes`
    property that is not an array of strings (marked by a leading U+0002 by the driver's parser) -/
def securityUnreadable (attrs : List Annot) : Bool :=
  (attrs.filter (·.name = "Security")).any fun a =>
    a.value.isEmpty || (match a.props.find? (·.1 = "scopes") with
      | some (_, k, v) => k != .arr || v.startsWith (String.singleton (Char.ofNat 2))
      | none => false)

/-- `ast.IsExported` for the names the generators use -/
def isExportedName (n : String) : Bool := match n.toList.head? with | some c => c.isUpper | none => false

/-- everything the receiver validator reports; `none` = a hard (non-diagnostic) error -/
def validateReceiver (env : TypeEnv) (errorEmbedders : List String) (enforce hasDefault : Bool) (ctrlAnnots : List Annot) (m : Method) :
    Option (List Diag) :=
  -- `validateSecurity` reads the controller's and the route's security only when the enforce flag is on
  if enforce && (securityUnreadable ctrlAnnots || securityUnreadable m.annots) then none else
  (validateParams env m).map fun pd =>
    commonValidate "route" m.annots ++
    -- the generated router is a package of its own: it cannot call an unexported method (fix for C09-F5)
    (if isExportedName m.name then [] else [err "unsupported-feature"]) ++
    pd ++ validateReturns errorEmbedders m ++
    validateSecurity enforce hasDefault ctrlAnnots m ++
    linkValidate (((ctrlAnnots.find? (·.name = "Route")).map (·.value)).getD "") m

/-- controller-level diagnostics -/
def validateControllerSelf (annots : List Annot) : List Diag :=
  commonValidate "controller" annots ++ (if annots.any (·.name = "Tag") then [] else [warn "controller-missing-tag"])

def hasError (ds : List Diag) : Bool := ds.any (·.severity = 1)

/-! ### the annotation rules, stated over the list as a whole (decidable form of `AnnotsWellFormed`, C10Common.lean) -/

/-- does the annotation table demand a unique value for this annotation -/
def requiresUnique (a : Annot) : Bool :=
  match lookupDef a.name with
  | some d => d.requiresUniqueValue
  | none => false

def uniqueB : List Annot → List String → Bool
  | [], _ => true
  | a :: rest, seen => (!(requiresUnique a && !a.value.isEmpty) || !seen.contains a.value) && uniqueB rest (seen ++ [a.value])

def annotsWellFormedB (as : List Annot) : Bool :=
  as.all (fun a => match lookupDef a.name with
    | none => false
    | some d => (!d.requiresValue || !a.value.isEmpty) && d.mutuallyExclusive.all (fun x => as.all (fun b => b.name != x))) &&
  uniqueB as [] &&
  as.all (fun a => a.name != "Method" || Gleece.Generated.routeSupportedHttpVerbs.contains a.value) &&
  as.all (fun a => !(a.name = "Response" || a.name = "ErrorResponse") ||
    (match Gleece.Text.parseUint a.value with | some n => decide (n < 4294967296) | none => false))


end Gleece.Validate
