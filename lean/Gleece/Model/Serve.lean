/-
  Request-level semantics of a generated router, engine-independent: which route (if any) answers a
  request, which security checks the authorization callback is asked, whether the controller method runs
  and with which arguments, and the status class of the answer.  Built on the reducer model (what the
  templates receive) and on `Router.authorize`.  The dynamic rig (mode "rig") compares it with the five
  COMPILED routers serving the same requests.
-/
import Gleece.Model.Reduce
import Gleece.Model.Router
namespace Gleece.Serve
open Gleece.Reduce Gleece.Validate Gleece.IR Gleece.Text Gleece.Router

structure Req where
  method  : String
  segs    : List String                 -- the decoded path segments
  query   : List (String × String)      -- decoded, in order
  headers : List (String × String)
  form    : List (String × String)
  hasBody : Bool                        -- a JSON body was sent
  bodyOk  : Bool                        -- … that parses and carries every required member
  body    : String                      -- its canonical text (as the controller will see it re-encoded)
  deny    : List String                 -- schemes the callback refuses
  deriving Repr, Inhabited

inductive Outcome where
  | notServed                                             -- no registered route answers (404 / 405 / redirect)
  | refused (asked : List Check)                          -- the callback refused every alternative: no parsing, no controller
  | invalid (asked : List Check)                          -- a parameter is missing or malformed: 422, no controller
  | called (asked : List Check) (op : String) (args : List String) (status : Nat)
  deriving Repr, DecidableEq, Inhabited

/-! ### route matching -/

def templateSegs (ctrlPath routePath : String) : List String :=
  ((splitOn '/' (ctrlPath ++ routePath).toList).filter (!·.isEmpty)).map String.ofList

def isVar (s : String) : Bool := s.startsWith "{" && s.endsWith "}" && s.length > 2
def varName (s : String) : String := ((s.drop 1).toString.dropEnd 1).toString

def matchSegs : List String → List String → Option (List (String × String))
  | [], [] => some []
  | t :: ts, s :: ss =>
    if isVar t then (if s.isEmpty then none else (matchSegs ts ss).map fun b => (varName t, s) :: b)
    else if t = s then matchSegs ts ss else none
  | _, _ => none

/-! ### conversions -/

def digitsVal (cs : List Char) : Option Nat :=
  if cs.isEmpty || !cs.all Char.isDigit then none else some (cs.foldl (fun a c => a * 10 + (c.toNat - 48)) 0)

/-- an optional sign: (negative?, the rest) -/
def splitSign : List Char → Bool × List Char
  | '-' :: r => (true, r)
  | '+' :: r => (false, r)
  | r => (false, r)

/-- strconv.ParseInt / ParseUint, base 10, with the bit size the templates pass -/
def parseIntegral (ty : String) (raw : String) : Option String :=
  let w := intWidth ty
  if w = 0 then none else
  if isUnsignedInt ty then
    match raw.toList with
    | '+' :: _ => none                     -- ParseUint accepts no sign
    | cs => (digitsVal cs).bind fun n => if n < 2 ^ w then some (toString n) else none
  else
    let sp := splitSign raw.toList
    (digitsVal sp.2).bind fun n =>
      if sp.1 then (if n ≤ 2 ^ (w - 1) then some (if n = 0 then "0" else "-" ++ toString n) else none)
      else if n < 2 ^ (w - 1) then some (toString n) else none

def parseBoolText (raw : String) : Option String :=
  if ["1", "t", "T", "TRUE", "true", "True"].contains raw then some "true"
  else if ["0", "f", "F", "FALSE", "false", "False"].contains raw then some "false"
  else none

/-- Go's %q for the plain strings the rig sends (printable ASCII without quote / backslash) and a few
    non-ASCII letters (kept verbatim by %q) -/
def goQuote (s : String) : String := "\"" ++ s ++ "\""

/-- `strconv.ParseFloat` + `%v` on the decimal texts the rig sends: `-?digits(.digits)?` written without
    superfluous zeros is accepted and printed back as written (the rig's values are exactly representable);
    anything else the rig sends (`abc`, `1.2.3`, `1,5`, the empty text) is refused.  Exponents, hex floats,
    `inf` / `nan` and signs `+` are NOT modelled and never generated. -/
def parseFloatText (raw : String) : Option String :=
  let cs := raw.toList
  let body := if cs.head? = some '-' then cs.drop 1 else cs
  let ip := body.takeWhile (· ≠ '.')
  let rest := body.dropWhile (· ≠ '.')
  let fp := rest.drop 1
  let canonInt := !ip.isEmpty && ip.all Char.isDigit && (ip.length = 1 || ip.head? ≠ some '0')
  let canonFrac := rest.isEmpty || (!fp.isEmpty && fp.all Char.isDigit && fp.getLast? ≠ some '0')
  if canonInt && canonFrac && raw ≠ "-0" then some raw else none

/-- the text rigrec.Fmt prints for a converted scalar of declared element type `ty`; `enums` are the
    string-based enum types of the project -/
def convertScalar (enums : List String) (ty raw : String) : Option String :=
  if ty = "string" || enums.contains ty then some (goQuote raw)
  else if ty = "bool" then parseBoolText raw
  else if ty = "float64" || ty = "float32" then parseFloatText raw
  else parseIntegral ty raw

structure PInfo where
  p  : RParam
  ty : String        -- declared Go type, as written (with `*` / `[]`)
  deriving Repr, Inhabited

def lookupCI (l : List (String × String)) (k : String) : Option String :=
  (l.find? fun (a, _) => a.toLower = k.toLower).map (·.2)

/-- go-playground's `oneof`: its options are the matches of `'[^']*'|\S+` in the rule's argument, quotes stripped -/
def oneofOpts : Nat → List Char → List String
  | 0, _ => []
  | _, [] => []
  | fuel + 1, c :: t =>
    if c = ' ' then oneofOpts fuel t
    else if c = '\'' && t.contains '\'' then
      String.ofList (t.takeWhile (· ≠ '\'')) :: oneofOpts fuel ((t.dropWhile (· ≠ '\'')).drop 1)
    else String.ofList ((c :: t).takeWhile (· ≠ ' ')) :: oneofOpts fuel ((c :: t).dropWhile (· ≠ ' '))

/-- the part of the declared validator the rig's parameters use: `oneof=` on a string value (every other rule the rig
    attaches to a parameter is `required`, which presence already covers) -/
def validatorAccepts (tag : String) (raw : String) : Bool :=
  (Gleece.Text.splitOn ',' tag.toList).all fun rule =>
    if rule.take 6 = "oneof=".toList then
      let arg := rule.drop 6
      (oneofOpts (arg.length + 1) arg).contains raw
    else true

/-- one parameter: `none` = the request is refused with 422; `some text` = the argument as printed -/
def bindParam (enums : List String) (bound : List (String × String)) (rq : Req) (pi : PInfo) : Option String :=
  if pi.p.isContext then some "ctx" else
  let isPtr := pi.ty.startsWith "*"
  let base := stripPtr pi.ty
  let required := isFieldRequired pi.p.validator.toList
  if pi.p.passedIn = "body" then
    if rq.hasBody && rq.bodyOk then some ((if isPtr then "&" else "") ++ rq.body) else none
  else if base.startsWith "[]" then
    let el := (base.drop 2).toString
    let raws := (rq.query.filter (·.1 = pi.p.nameInSchema)).map (·.2)
    if raws.isEmpty then (if required then none else some "<nil>")
    else
      let cs := raws.map (convertScalar enums el)
      if cs.any Option.isNone then none else some ((if isPtr then "&" else "") ++ "[" ++ " ".intercalate (cs.filterMap id) ++ "]")
  else
    let raw : Option String :=
      if pi.p.passedIn = "path" then bound.lookup pi.p.nameInSchema
      else if pi.p.passedIn = "query" then (rq.query.find? (·.1 = pi.p.nameInSchema)).map (·.2)
      else if pi.p.passedIn = "header" then lookupCI rq.headers pi.p.nameInSchema
      else if pi.p.passedIn = "form" then (rq.form.find? (·.1 = pi.p.nameInSchema)).map (·.2)
      else none
    match raw with
    | none => if required then none else some "<nil>"
    | some r =>
      -- the value is converted, then handed to the validator with the DECLARED tag
      if base = "string" && !validatorAccepts pi.p.validator r then none
      else (convertScalar enums base r).map fun t => (if isPtr then "&" else "") ++ t

def bindAll (enums : List String) (bound : List (String × String)) (rq : Req) : List PInfo → Option (List String)
  | [] => some []
  | pi :: rest =>
    match bindParam enums bound rq pi with
    | none => none
    | some a => (bindAll enums bound rq rest).map (a :: ·)

structure SRoute where
  ctrl   : String
  ctrlPath : String
  r      : RRoute
  infos  : List PInfo
  /-- what the operation itself does once it is called (the controller body is a PARAMETER of the handler): a status
      it sets through `SetStatus`, and whether it returns an error -/
  setStatus : Option Nat := none
  fails  : Bool := false
  /-- the method's last result is a custom error type, not plain `error` -/
  customErr : Bool := false
  deriving Repr, Inhabited

/-- `getStatusCode`: the status the operation set itself, else 500 for a failed operation, else 200 / 204 by the
    shape of the method (the @Response code is documentation only) - the same function in all five templates -/
def replyStatus (sr : SRoute) : Nat :=
  match sr.setStatus with
  | some s => s
  -- `getStatusCode(&controller, hasReturn, opError)` is evaluated BEFORE the templates' own "is this an error" test, and
  -- `opError` of a custom error type (a value, or a typed nil pointer) is never a nil `error` interface: such a method
  -- answers 500 even when it succeeds, on all five engines alike (observed; outside the listed properties)
  | none => if sr.fails || sr.customErr then 500 else if sr.r.hasReturn then 200 else 204

def denyCallback (deny : List String) : Callback := fun _ c => if deny.contains c.scheme then some ("denied " ++ c.scheme) else none

/-- serve one request on one route (already matched, `bound` = the path variables) -/
def serveRoute (enums : List String) (sr : SRoute) (bound : List (String × String)) (rq : Req) : Outcome :=
  let (res, asked) := authorize (denyCallback rq.deny) [] none (sr.r.security.map checksOf)
  match res with
  | some _ => .refused asked
  | none =>
    match bindAll enums bound rq sr.infos with
    | none => .invalid asked
    -- `getStatusCode`: 200 / 204 by the shape of the method unless the controller sets a status itself;
    -- the @Response code is documentation only
    | some args => .called asked (sr.ctrl ++ "." ++ sr.r.opId) args (replyStatus sr)

def findRoute (routes : List SRoute) (rq : Req) : Option (SRoute × List (String × String)) :=
  routes.findSome? fun sr =>
    if sr.r.verb ≠ rq.method then none
    else (matchSegs (templateSegs sr.ctrlPath sr.r.path) rq.segs).map fun b => (sr, b)

def serve (enums : List String) (routes : List SRoute) (rq : Req) : Outcome :=
  match findRoute routes rq with
  | none => .notServed
  | some (sr, b) => serveRoute enums sr b rq

end Gleece.Serve

/-! ### the engine-specific part made explicit (C12)

Everything above reads the request through three accessors; a framework is, for the handler, exactly such a
triple.  `stdAccessors` is the reading used by `serve` (what a faithful framework delivers). -/
namespace Gleece.Serve
open Gleece.Reduce Gleece.Validate Gleece.IR Gleece.Router

structure Accessors where
  scalar : PInfo → Option String      -- the raw text of a path / query / header / form parameter, if present
  multi  : PInfo → List String        -- all raw values of a query key
  body   : Option String              -- the bound JSON body (canonical text), if it binds and validates

def stdAccessors (bound : List (String × String)) (rq : Req) : Accessors :=
  { scalar := fun pi =>
      if pi.p.passedIn = "path" then bound.lookup pi.p.nameInSchema
      else if pi.p.passedIn = "query" then (rq.query.find? (·.1 = pi.p.nameInSchema)).map (·.2)
      else if pi.p.passedIn = "header" then lookupCI rq.headers pi.p.nameInSchema
      else if pi.p.passedIn = "form" then (rq.form.find? (·.1 = pi.p.nameInSchema)).map (·.2)
      else none,
    multi := fun pi => (rq.query.filter (·.1 = pi.p.nameInSchema)).map (·.2),
    body := if rq.hasBody && rq.bodyOk then some rq.body else none }

def bindParamA (enums : List String) (acc : Accessors) (pi : PInfo) : Option String :=
  if pi.p.isContext then some "ctx" else
  let isPtr := pi.ty.startsWith "*"
  let base := stripPtr pi.ty
  let required := isFieldRequired pi.p.validator.toList
  if pi.p.passedIn = "body" then
    acc.body.map fun b => (if isPtr then "&" else "") ++ b
  else if base.startsWith "[]" then
    let el := (base.drop 2).toString
    let raws := acc.multi pi
    if raws.isEmpty then (if required then none else some "<nil>")
    else
      let cs := raws.map (convertScalar enums el)
      if cs.any Option.isNone then none else some ((if isPtr then "&" else "") ++ "[" ++ " ".intercalate (cs.filterMap id) ++ "]")
  else
    match acc.scalar pi with
    | none => if required then none else some "<nil>"
    | some r =>
      if base = "string" && !validatorAccepts pi.p.validator r then none
      else (convertScalar enums base r).map fun t => (if isPtr then "&" else "") ++ t

def bindAllA (enums : List String) (acc : Accessors) : List PInfo → Option (List String)
  | [] => some []
  | pi :: rest =>
    match bindParamA enums acc pi with
    | none => none
    | some a => (bindAllA enums acc rest).map (a :: ·)

/-- a handler run on top of a framework `acc` with authorization callback `cb` -/
def serveRouteA (enums : List String) (cb : Callback) (acc : Accessors) (sr : SRoute) : Outcome :=
  let (res, asked) := authorize cb [] none (sr.r.security.map checksOf)
  match res with
  | some _ => .refused asked
  | none =>
    match bindAllA enums acc sr.infos with
    | none => .invalid asked
    | some args => .called asked (sr.ctrl ++ "." ++ sr.r.opId) args (replyStatus sr)

end Gleece.Serve
