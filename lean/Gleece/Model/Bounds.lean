/-
  C11 / C14 — the numeric-bound part of the two validator-tag converters
  (swagen30/validatation_converter.go `BuildSchemaValidation`, swagen31/validation_converter31.go
  `BuildSchemaValidationV31`) and the dialect translation between their outputs.

  OpenAPI 3.0: `minimum: n` + `exclusiveMinimum: bool`.   OpenAPI 3.1: `minimum: n` / `exclusiveMinimum: n`.
-/
namespace Gleece.Bounds

structure B30 where
  min : Option Int := none
  exclMin : Bool := false
  max : Option Int := none
  exclMax : Bool := false
deriving DecidableEq, Repr

structure B31 where
  min : Option Int := none
  exclMin : Option Int := none
  max : Option Int := none
  exclMax : Option Int := none
deriving DecidableEq, Repr

inductive Rule | gt | gte | lt | lte | min | max
deriving DecidableEq, Repr

/-- `BuildSchemaValidation` (3.0), numeric field: each rule overwrites the single bound of its side -/
def apply30 (b : B30) : Rule × Int → B30
  | (.gt, n) => { b with min := some n, exclMin := true }
  | (.gte, n) => { b with min := some n, exclMin := false }
  | (.min, n) => { b with min := some n, exclMin := false }
  | (.lt, n) => { b with max := some n, exclMax := true }
  | (.lte, n) => { b with max := some n, exclMax := false }
  | (.max, n) => { b with max := some n, exclMax := false }

/-- `BuildSchemaValidationV31`: exclusive and inclusive bounds are separate members -/
def apply31 (b : B31) : Rule × Int → B31
  | (.gt, n) => { b with exclMin := some n }
  | (.gte, n) => { b with min := some n }
  | (.min, n) => { b with min := some n }
  | (.lt, n) => { b with exclMax := some n }
  | (.lte, n) => { b with max := some n }
  | (.max, n) => { b with max := some n }

/-- the dialect translation used by the C11 check (`normDoc`) -/
def dialect (b : B30) : B31 :=
  { min := if b.exclMin then none else b.min, exclMin := if b.exclMin then b.min else none,
    max := if b.exclMax then none else b.max, exclMax := if b.exclMax then b.max else none }

/-- which numbers a 3.0 schema accepts -/
def sat30 (b : B30) (x : Int) : Prop :=
  (∀ m, b.min = some m → if b.exclMin then m < x else m ≤ x) ∧
  (∀ m, b.max = some m → if b.exclMax then x < m else x ≤ m)

/-- which numbers a 3.1 schema accepts -/
def sat31 (b : B31) (x : Int) : Prop :=
  (∀ m, b.min = some m → m ≤ x) ∧ (∀ m, b.exclMin = some m → m < x) ∧
  (∀ m, b.max = some m → x ≤ m) ∧ (∀ m, b.exclMax = some m → x < m)

def lowerFamily : Rule → Bool
  | .gt | .gte | .min => true
  | _ => false

/-- at most one rule per side (lower / upper) -/
def oneRulePerFamily (rs : List (Rule × Int)) : Bool :=
  (rs.filter fun r => lowerFamily r.1).length ≤ 1 && (rs.filter fun r => !lowerFamily r.1).length ≤ 1

end Gleece.Bounds
