/-
  C11 / C08 — the two validator-tag converters, rule by rule
  (swagen30/validatation_converter.go `BuildSchemaValidation`, swagen31/validation_converter31.go
  `BuildSchemaValidationV31`), the keyword sets they write, and the dialect-free view under which the
  two documents are compared.

  `strconv.ParseFloat / ParseUint / ParseInt / ParseBool` and the YAML resolution of an untagged scalar are
  PARAMETERS (`Parsers`): every theorem holds for all of them.  The driver instantiates them with decimal
  literal parsers and skips the cases whose values fall outside those.
-/
import Gleece.Model.Text
namespace Gleece.Conv
open Gleece.Text

/-- `swagtool.ToOpenApiType` as far as the converters distinguish its answers -/
inductive Ty | string | integer | number | boolean | array | other
deriving DecidableEq, Repr

def Ty.numeric : Ty → Bool
  | .integer | .number => true
  | _ => false

/-- one member of an `enum` keyword.  `plain` is an UNTAGGED YAML scalar (3.1 only): the renderer decides
    whether it is a string, a number, a boolean or null. -/
inductive Member (ν : Type)
  | str (s : String)
  | int (i : Int)
  | num (x : ν)
  | bool (b : Bool)
  | plain (s : String)
deriving DecidableEq, Repr

structure Parsers (ν : Type) where
  /-- `strconv.ParseFloat(v, 64)` -/
  num : String → Option ν
  /-- `strconv.ParseUint(v, 10, 64)` -/
  uint : String → Option Nat
  /-- `strconv.ParseInt(v, 10, 64)` -/
  int : String → Option Int
  /-- `strconv.ParseBool` -/
  bool : String → Option Bool
  /-- what the YAML/JSON renderer makes of an untagged scalar; never `plain` -/
  yaml : String → Member ν

/-- kin-openapi's `openapi3.Schema`, the members the converter writes -/
structure S30 (ν : Type) where
  format : String := ""
  min : Option ν := none
  exclMin : Bool := false
  max : Option ν := none
  exclMax : Bool := false
  minLength : Nat := 0
  maxLength : Option Nat := none
  pattern : String := ""
  minItems : Nat := 0
  maxItems : Option Nat := none
  uniqueItems : Bool := false
  enum : List (Member ν) := []
deriving DecidableEq, Repr

/-- libopenapi's `base.Schema`, the members the converter writes -/
structure S31 (ν : Type) where
  format : String := ""
  minimum : Option ν := none
  exclMin : Option ν := none
  maximum : Option ν := none
  exclMax : Option ν := none
  minLength : Option Nat := none
  maxLength : Option Nat := none
  pattern : String := ""
  minItems : Option Nat := none
  maxItems : Option Nat := none
  uniqueItems : Option Bool := none
  enum : List (Member ν) := []
deriving DecidableEq, Repr

/-- the `switch ruleName` of both converters -/
inductive Kind
  | format (f : String)
  | gt | gte | lt | lte | min | max | len | pattern | minItems | maxItems | uniqueItems | enum | oneof
  | unknown
deriving DecidableEq, Repr

/-- rule name → case of the switch; `ip` documents `ipv4`, `datetime` documents `date-time` -/
def kindOf (rule : String) : Kind :=
  if rule = "ip" then .format "ipv4"
  else if rule = "datetime" then .format "date-time"
  else if ["email", "uuid", "ipv4", "ipv6", "hostname", "date"].contains rule then .format rule
  else if rule = "gt" then .gt else if rule = "gte" then .gte
  else if rule = "lt" then .lt else if rule = "lte" then .lte
  else if rule = "min" then .min else if rule = "max" then .max
  else if rule = "len" then .len else if rule = "pattern" then .pattern
  else if rule = "minItems" then .minItems else if rule = "maxItems" then .maxItems
  else if rule = "uniqueItems" then .uniqueItems
  else if rule = "enum" then .enum else if rule = "oneof" then .oneof
  else .unknown

/-- `strings.Fields` -/
def fieldsAux : Str → Str → List Str
  | [], cur => if cur.isEmpty then [] else [cur.reverse]
  | c :: t, cur =>
    if isGoSpace c then (if cur.isEmpty then fieldsAux t [] else cur.reverse :: fieldsAux t [])
    else fieldsAux t (c :: cur)

def fields (s : String) : List String := (fieldsAux s.toList []).map String.ofList

/-- `strings.Split(v, "|")` -/
def splitBar (s : String) : List String := (splitOn '|' s.toList).map String.ofList

/-- 3.0: text members become values of the schema's type; what does not parse is dropped with a warning -/
def members30 {ν} (P : Parsers ν) (t : Ty) (vals : List String) : List (Member ν) :=
  match t with
  | .integer => vals.filterMap fun v => (P.int v).map Member.int
  | .number => vals.filterMap fun v => (P.num v).map Member.num
  | .boolean => vals.filterMap fun v => (P.bool v).map Member.bool
  | _ => vals.map Member.str

/-- 3.1 `oneof`: tagged `!!str` / `!!int` / `!!float` for the three scalar types, untagged otherwise -/
def oneof31 {ν} (P : Parsers ν) (t : Ty) (vals : List String) : List (Member ν) :=
  match t with
  | .string => vals.map Member.str
  | .integer => vals.filterMap fun v => (P.int v).map Member.int
  | .number => vals.filterMap fun v => (P.num v).map Member.num
  | _ => vals.map Member.plain

/-- 3.1 `enum`: tagged `!!str` on a string schema, untagged otherwise -/
def enum31 {ν} (t : Ty) (vals : List String) : List (Member ν) :=
  if t = .string then vals.map Member.str else vals.map Member.plain

/-- the members of the rule value, or `none` when the rule names no member (`enum=` clears the list) -/
def enumValues (v : String) : Option (List String) := if (splitBar v).head? = some "" then none else some (splitBar v)

/-- one rule of `BuildSchemaValidation` (3.0) -/
def apply30 {ν} (P : Parsers ν) (t : Ty) (s : S30 ν) (r : Kind × String) : S30 ν :=
  let v := r.2
  match r.1 with
  | .format f => if t = .string then { s with format := f } else s
  | .gt => if t.numeric then { s with min := P.num v, exclMin := true } else s
  | .gte => if t.numeric then { s with min := P.num v, exclMin := false } else s
  | .lt => if t.numeric then { s with max := P.num v, exclMax := true } else s
  | .lte => if t.numeric then { s with max := P.num v, exclMax := false } else s
  | .min =>
    if t = .string then (match P.uint v with | some n => { s with minLength := n } | none => s)
    else if t.numeric then { s with min := P.num v, exclMin := false } else s
  | .max =>
    if t = .string then { s with maxLength := P.uint v }
    else if t.numeric then { s with max := P.num v, exclMax := false } else s
  | .len => if t = .string then (match P.uint v with | some n => { s with minLength := n, maxLength := some n } | none => s) else s
  | .pattern => if t = .string then { s with pattern := v } else s
  | .minItems => if t = .array then (match P.uint v with | some n => { s with minItems := n } | none => s) else s
  | .maxItems => if t = .array then { s with maxItems := P.uint v } else s
  | .uniqueItems => if t = .array then (match P.bool v with | some b => { s with uniqueItems := b } | none => s) else s
  | .enum => (match enumValues v with | none => { s with enum := [] } | some vals => { s with enum := members30 P t vals })
  | .oneof => if (fields v).isEmpty then s else { s with enum := members30 P t (fields v) }
  | .unknown => s

/-- `swagtool.ParseNonNegativeInteger`: the lengths and item counts of the 3.1 document -/
def len31 {ν} (P : Parsers ν) (v : String) : Option Nat :=
  match P.int v with
  | some i => if 0 ≤ i then some i.toNat else none
  | none => none

/-- one rule of `BuildSchemaValidationV31` -/
def apply31 {ν} (P : Parsers ν) (t : Ty) (s : S31 ν) (r : Kind × String) : S31 ν :=
  let v := r.2
  match r.1 with
  | .format f => if t = .string then { s with format := f } else s
  | .gt => if t.numeric then (match P.num v with | some x => { s with exclMin := some x } | none => s) else s
  | .gte => if t.numeric then { s with minimum := P.num v } else s
  | .lt => if t.numeric then (match P.num v with | some x => { s with exclMax := some x } | none => s) else s
  | .lte => if t.numeric then { s with maximum := P.num v } else s
  | .min =>
    if t = .string then { s with minLength := len31 P v }
    else if t.numeric then { s with minimum := P.num v } else s
  | .max =>
    if t = .string then { s with maxLength := len31 P v }
    else if t.numeric then { s with maximum := P.num v } else s
  | .len => if t = .string then { s with minLength := len31 P v, maxLength := len31 P v } else s
  | .pattern => if t = .string then { s with pattern := v } else s
  | .minItems => if t = .array then { s with minItems := len31 P v } else s
  | .maxItems => if t = .array then { s with maxItems := len31 P v } else s
  | .uniqueItems => if t = .array then { s with uniqueItems := P.bool v } else s
  | .enum => (match enumValues v with | none => { s with enum := [] } | some vals => { s with enum := enum31 t vals })
  | .oneof => if (fields v).isEmpty then s else { s with enum := oneof31 P t (fields v) }
  | .unknown => s

/-- `strings.Split(tag, ",")`, then `strings.SplitN(rule, "=", 2)` -/
def splitRule (r : Str) : Kind × String :=
  (kindOf (String.ofList (r.takeWhile (· ≠ '='))), String.ofList ((r.dropWhile (· ≠ '=')).drop 1))

def parseRules (tag : String) : List (Kind × String) := (splitOn ',' tag.toList).map splitRule

def conv30 {ν} (P : Parsers ν) (t : Ty) (tag : String) : S30 ν := (parseRules tag).foldl (apply30 P t) {}
def conv31 {ν} (P : Parsers ν) (t : Ty) (tag : String) : S31 ν := (parseRules tag).foldl (apply31 P t) {}

/-! ### the dialect-free view -/

/-- what a schema says, whichever dialect wrote it: 3.1-shaped bounds, absent = default elsewhere -/
structure View (ν : Type) where
  format : String
  minimum : Option ν
  exclMin : Option ν
  maximum : Option ν
  exclMax : Option ν
  minLength : Nat
  maxLength : Option Nat
  pattern : String
  minItems : Nat
  maxItems : Option Nat
  uniqueItems : Bool
  enum : List (Member ν)
deriving DecidableEq, Repr

def memberView {ν} (P : Parsers ν) : Member ν → Member ν
  | .plain s => P.yaml s
  | m => m

def view30 {ν} (s : S30 ν) : View ν :=
  { format := s.format,
    minimum := if s.exclMin then none else s.min, exclMin := if s.exclMin then s.min else none,
    maximum := if s.exclMax then none else s.max, exclMax := if s.exclMax then s.max else none,
    minLength := s.minLength, maxLength := s.maxLength, pattern := s.pattern,
    minItems := s.minItems, maxItems := s.maxItems, uniqueItems := s.uniqueItems, enum := s.enum }

/-- libopenapi does not render a count that is zero: `maxLength: 0` / `maxItems: 0` never reach the 3.1 document
    (for `minLength` / `minItems` zero and absent mean the same) -/
def dropZero : Option Nat → Option Nat
  | some 0 => none
  | o => o

def view31 {ν} (P : Parsers ν) (s : S31 ν) : View ν :=
  { format := s.format, minimum := s.minimum, exclMin := s.exclMin, maximum := s.maximum, exclMax := s.exclMax,
    minLength := s.minLength.getD 0, maxLength := dropZero s.maxLength, pattern := s.pattern,
    minItems := s.minItems.getD 0, maxItems := dropZero s.maxItems, uniqueItems := s.uniqueItems.getD false,
    enum := s.enum.map (memberView P) }

/-! ### which tags both converters read the same way -/

def lowerRule (t : Ty) : Kind → Bool
  | .gt | .gte | .min => t.numeric
  | _ => false

def upperRule (t : Ty) : Kind → Bool
  | .lt | .lte | .max => t.numeric
  | _ => false

/-- the rule reads a length or an item count on this type -/
def lengthRule (t : Ty) : Kind → Bool
  | .min | .max | .len => t = .string
  | .minItems | .maxItems => t = .array
  | _ => false

/-- the rule writes an UPPER count (`maxLength` / `maxItems`) on this type -/
def upperCountRule (t : Ty) : Kind → Bool
  | .max | .len => t = .string
  | .maxItems => t = .array
  | _ => false

/-- the 3.1 converter leaves these members untagged on this type -/
def plainMembers (t : Ty) : Kind → String → List String
  | .enum, v => if t = .string then [] else (enumValues v).getD []
  | .oneof, v => if t = .boolean ∨ t = .array ∨ t = .other then fields v else []
  | _, _ => []

/-- the value of one rule is one both converters understand: a number where a number is read, a
    non-negative count below 2^63 where a length is read (the two converters use different integer
    parsers) — non-zero where it is an upper count (the 3.1 renderer drops a zero) —, a boolean for `uniqueItems`, and — where 3.1 leaves a member untagged — a text YAML reads as the
    value the 3.0 converter parses -/
def valueOK {ν} (P : Parsers ν) (t : Ty) (r : Kind × String) : Prop :=
  (lowerRule t r.1 = true ∨ upperRule t r.1 = true → (P.num r.2).isSome = true) ∧
  (lengthRule t r.1 = true → ∃ n : Nat, P.uint r.2 = some n ∧ P.int r.2 = some (n : Int) ∧ (upperCountRule t r.1 = true → n ≠ 0)) ∧
  (t = .array ∧ r.1 = .uniqueItems → (P.bool r.2).isSome = true) ∧
  (∀ m ∈ plainMembers t r.1 r.2, members30 P t [m] = [P.yaml m])

def countP {α} (p : α → Bool) (l : List α) : Nat := (l.filter p).length

/-- a tag both converters read the same way: every value is understood, and each numeric side
    (lower: gt/gte/min, upper: lt/lte/max) is constrained at most once -/
def Agreeable {ν} (P : Parsers ν) (t : Ty) (rs : List (Kind × String)) : Prop :=
  (∀ r ∈ rs, valueOK P t r) ∧ countP (fun r => lowerRule t r.1) rs ≤ 1 ∧ countP (fun r => upperRule t r.1) rs ≤ 1

/-! ### the type guards of the `switch` (compared with the regenerated table on every run) -/

/-- the answer of `swagtool.ToOpenApiType` a `Ty` stands for -/
def Ty.name : Ty → String
  | .string => "string" | .integer => "integer" | .number => "number" | .boolean => "boolean" | .array => "array" | .other => "object"

/-- the types a rule does anything for (the `specType == …` comparisons of its case), by name order -/
def guardOf : Kind → List Ty
  | .format _ | .len | .pattern => [.string]
  | .gt | .gte | .lt | .lte => [.integer, .number]
  | .min | .max => [.integer, .number, .string]
  | .minItems | .maxItems | .uniqueItems => [.array]
  | .enum | .oneof | .unknown => []

/-! ### well-formedness of what is written (C08) -/

/-- a member of the `enum` keyword belongs to the schema's type -/
def memberOfType {ν} (t : Ty) : Member ν → Bool
  | .str _ => t = .string
  | .int _ => t = .integer
  | .num _ => t = .number
  | .bool _ => t = .boolean
  | .plain _ => false

def Ty.scalar : Ty → Bool
  | .string | .integer | .number | .boolean => true
  | _ => false

/-! ### concrete parsers: decimal literals (the driver's oracle for generated values, and the witnesses) -/

def maxInt64 : Nat := 9223372036854775807

def digitVal (c : Char) : Option Nat := if '0' ≤ c ∧ c ≤ '9' then some (c.toNat - 48) else none

/-- all-digit, non-empty text -/
def decDigits : Str → Option Nat
  | [] => none
  | cs => cs.foldl (fun acc c => match acc, digitVal c with | some n, some d => some (10 * n + d) | _, _ => none) (some 0)

/-- `strconv.ParseUint(v, 10, 64)` on decimal text -/
def decUint (v : String) : Option Nat :=
  match decDigits v.toList with
  | some n => if n < 18446744073709551616 then some n else none
  | none => none

/-- `strconv.ParseInt(v, 10, 64)` on decimal text with an optional sign -/
def decInt (v : String) : Option Int :=
  match v.toList with
  | '-' :: r => (match decDigits r with | some n => if n ≤ 9223372036854775808 then some (-(n : Int)) else none | none => none)
  | '+' :: r => (match decDigits r with | some n => if n ≤ maxInt64 then some (n : Int) else none | none => none)
  | r => (match decDigits r with | some n => if n ≤ maxInt64 then some (n : Int) else none | none => none)

/-- `strconv.ParseBool` -/
def decBool (v : String) : Option Bool :=
  if ["1", "t", "T", "TRUE", "true", "True"].contains v then some true
  else if ["0", "f", "F", "FALSE", "false", "False"].contains v then some false
  else none

/-- integer-valued instance: numbers are integers, an untagged YAML scalar is an integer, a boolean or text -/
def intParsers : Parsers Int :=
  { num := decInt, uint := decUint, int := decInt, bool := decBool,
    yaml := fun s => match decInt s with
      | some i => .int i
      | none => if s = "true" then .bool true else if s = "false" then .bool false else .str s }

end Gleece.Conv
