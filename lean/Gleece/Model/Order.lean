/-
  Reading the regenerated call/return skeletons (`Gleece/Generated/PipelineOrder.lean`).
-/
import Gleece.Generated.PipelineOrder
namespace Gleece.Order

abbrev Ev := String × String × Bool

def eventsOf (k : String) : List Ev := ((Gleece.Generated.callOrder.find? (·.1 = k)).map (·.2)).getD []

def isCall (c : String) (e : Ev) : Bool := e.1 = "call" && e.2.1 = c

def callIdx (evs : List Ev) (c : String) : Option Nat := evs.findIdx? (isCall c)

/-- the call `c` is immediately followed by an error guard that returns a non-nil error:
    `x, err := c(...); if err != nil { …; return …, err }` -/
def guarded (evs : List Ev) (c : String) : Bool :=
  match callIdx evs c with
  | none => false
  | some i =>
    match evs.drop (i + 1) with
    | g :: rest => g.1 = "if" && g.2.2 && ((rest.takeWhile fun e => e.1 ≠ "close").any fun e => e.1 = "ret" && e.2.2)
    | [] => false

/-- same, but the guard does NOT return (the failure is swallowed and execution continues) -/
def failureSwallowed (evs : List Ev) (c : String) : Bool :=
  match callIdx evs c with
  | none => false
  | some i =>
    match evs.drop (i + 1) with
    | g :: rest => g.1 = "if" && g.2.2 && !((rest.takeWhile fun e => e.1 ≠ "close").any fun e => e.1 = "ret")
    | [] => false

def before (evs : List Ev) (a b : String) : Bool :=
  match callIdx evs a, callIdx evs b with
  | some i, some j => i < j
  | _, _ => false

def calls (evs : List Ev) (c : String) : Bool := evs.any (isCall c)

def rangeIdx (evs : List Ev) (x : String) : Option Nat := evs.findIdx? fun e => e.1 = "range" && e.2.1 = x

/-- `for … := range <mapRange>` comes before the call `sortCall`, which comes before `for … := range <resultRange>` -/
def sortedBetweenRanges (evs : List Ev) (mapRange sortCall resultRange : String) : Bool :=
  match rangeIdx evs mapRange, callIdx evs sortCall, rangeIdx evs resultRange with
  | some a, some b, some c => a < b && b < c
  | _, _, _ => false

end Gleece.Order
