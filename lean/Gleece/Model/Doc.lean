/-
  C08 — an abstract OpenAPI document and the well-formedness the property lists.
  `ofJson` (driver) reads the implementation's real bytes into this type.
-/
import Gleece.Model.IR
namespace Gleece.Doc

structure DParam where
  name : String
  loc : String
  required : Bool
deriving DecidableEq, Repr

structure DOp where
  verb : String
  path : String
  params : List DParam
  responsesDescribed : Bool          -- every response object has a `description` member
  refs : List String                 -- every `$ref` target name used by the operation
deriving Repr

structure DEnum where
  name : String
  type : String                      -- declared `type`
  memberKinds : List String          -- JSON kind of every member: string | number | boolean
deriving Repr

structure Doc where
  ops : List DOp
  components : List String           -- names under components.schemas
  componentRefs : List String        -- `$ref` targets used inside components
  enums : List DEnum
  title : String
  version : String
  servers : List String
  schemes : List String
  /-- every string found under a `type` key of a schema (components and operations) -/
  schemaTypes : List String := []
deriving Repr

/-- the `{name}` expressions of a path template (they may sit inside a segment: `/files/{name}.json`) -/
def templateParamsAux : Option (List Char) → List Char → List String
  | _, [] => []
  | none, c :: t => if c = '{' then templateParamsAux (some []) t else templateParamsAux none t
  | some b, c :: t =>
    if c = '}' then String.ofList b :: templateParamsAux none t
    else if c = '{' then templateParamsAux (some []) t
    else templateParamsAux (some (b ++ [c])) t

def templateParams (p : String) : List String := templateParamsAux none p.toList

def kindOfType (t : String) : String :=
  if t = "integer" || t = "number" then "number" else if t = "boolean" then "boolean" else "string"

def jsonSchemaTypes : List String := ["string", "number", "integer", "boolean", "array", "object", "null"]

structure WellFormed (d : Doc) (cfgTitle cfgVersion : String) (cfgServers cfgSchemes : List String) : Prop where
  refsClosed : ∀ op ∈ d.ops, ∀ r ∈ op.refs, r ∈ d.components
  componentRefsClosed : ∀ r ∈ d.componentRefs, r ∈ d.components
  /-- every `{name}` has exactly one matching required path parameter and vice versa -/
  pathParams : ∀ op ∈ d.ops,
    (∀ n ∈ templateParams op.path, ((op.params.filter fun p => p.loc = "path" && p.name = n).length = 1)) ∧
    (∀ p ∈ op.params, p.loc = "path" → p.required = true ∧ p.name ∈ templateParams op.path)
  paramNamesUnique : ∀ op ∈ d.ops, (op.params.map fun p => (p.loc, p.name)).Nodup
  responsesDescribed : ∀ op ∈ d.ops, op.responsesDescribed = true
  enumsTyped : ∀ e ∈ d.enums, ∀ k ∈ e.memberKinds, k = kindOfType e.type
  info : d.title = cfgTitle ∧ d.version = cfgVersion
  servers : d.servers = cfgServers
  schemes : ∀ s, s ∈ d.schemes ↔ s ∈ cfgSchemes
  /-- every schema type is one of the JSON Schema types (a document that says `type: date-time` is no OpenAPI document) -/
  typesKnown : ∀ t ∈ d.schemaTypes, t ∈ jsonSchemaTypes

/-- the decidable checker run on the implementation's documents; returns the violated clauses -/
def check (d : Doc) (cfgTitle cfgVersion : String) (cfgServers cfgSchemes : List String) : List String :=
  (if d.ops.all fun op => op.refs.all d.components.contains then [] else ["refs-closed"]) ++
  (if d.componentRefs.all d.components.contains then [] else ["component-refs-closed"]) ++
  (if d.ops.all fun op =>
      (templateParams op.path).all (fun n => (op.params.filter fun p => p.loc = "path" && p.name = n).length = 1) &&
      op.params.all (fun p => p.loc ≠ "path" || (p.required && (templateParams op.path).contains p.name))
    then [] else ["path-params"]) ++
  (if d.ops.all fun op => decide (op.params.map fun p => (p.loc, p.name)).Nodup then [] else ["param-names-unique"]) ++
  (if d.ops.all (·.responsesDescribed) then [] else ["responses-described"]) ++
  (if d.enums.all fun e => e.memberKinds.all (· = kindOfType e.type) then [] else ["enum-values-typed"]) ++
  (if d.title = cfgTitle && d.version = cfgVersion then [] else ["info"]) ++
  (if d.servers = cfgServers then [] else ["servers"]) ++
  (if d.schemes.all cfgSchemes.contains && cfgSchemes.all d.schemes.contains then [] else ["security-schemes"]) ++
  (if d.schemaTypes.all jsonSchemaTypes.contains then [] else ["schema-types"])

end Gleece.Doc
