/-
  C16 / C18 — model of `core/annotations/holder.go`, `attribute.go`.

  `parseLine` is a hand-written matcher with the leftmost-first (Perl-like, RE2) semantics of

      ^// @(\w+)(?:(?:\(([\w-_/\\{} ]+))(?:\s*,\s*(\{.*\}))?\))?(?:\s+(.+))?$

  whose source text is pinned by `Gleece/Generated/Regexes.lean` (regenerated from holder.go on every
  run).  Why the matcher is what it is (each step is a consequence of RE2's preference order and of
  the anchors):
  * group 1 `\w+` must be the maximal word run: a shorter one is followed by a word character, which is
    neither `(`, nor `\s`, nor end of text;
  * group 2 `[\w-_/\\{} ]+` (`-` after `\w` is a literal; the class is word ∪ {-,_,/,\,{,},space}) is the
    maximal class run: a shorter one leaves class characters that only `\s*,` could absorb (spaces),
    leading to the very same continuation, or `\)`, which is not in the class;
  * group 3 `\{.*\}` is greedy: the LAST `}` that is followed by `)` and by an acceptable tail;
  * the tail is empty or `\s+(.+)`: since the text is `TrimSpace`d the description is the tail without its
    leading white space.
  Domain: the text contains no line terminator (guaranteed for `//` comments by go/scanner).
-/
import Gleece.Model.Text
namespace Gleece.Annot
open Gleece.Text

/-- `[\w-_/\\{} ]` -/
def isValueChar (c : Char) : Bool :=
  isReWord c || c = '-' || c = '_' || c = '/' || c = '\\' || c = '{' || c = '}' || c = ' '

/-- maximal prefix satisfying `p`, and the rest -/
def span (p : Char → Bool) : Str → Str × Str
  | [] => ([], [])
  | c :: t => if p c then let (a, b) := span p t; (c :: a, b) else ([], c :: t)

def dropSpaces (s : Str) : Str := s.dropWhile isReSpace

/-- `(?:\s+(.+))?$` on a trimmed text: empty, or white space followed by something -/
def tailOk (t : Str) : Bool :=
  match t with
  | [] => true
  | c :: _ => isReSpace c && !(dropSpaces t).isEmpty

/-- group 4 -/
def tailDesc (t : Str) : Str := dropSpaces t

/-- the greedy `.*\}\)` with an acceptable tail: `s = a ++ ")" ++ b` with `a` ending in `}` — the
    rightmost such split whose tail is acceptable.  Returns `(a, b)`. -/
def pickClose : Str → Option (Str × Str)
  | [] => none
  | c :: t =>
    match pickClose t with
    | some (a, b) => some (c :: a, b)
    | none =>
      match t with
      | d :: b => if c = '}' && d = ')' && tailOk b then some ([c], b) else none
      | [] => none

structure RawAttr where
  name  : Str
  value : Str
  json  : Str      -- raw text of group 3, "" when absent
  desc  : Str
  /-- char offsets (in the trimmed text) of groups 2 and 3, when present -/
  valueOff : Option (Nat × Nat) := none
  jsonOff  : Option (Nat × Nat) := none
deriving DecidableEq, Repr

def pfx : Str := "// @".toList

/-- the optional `(?:\s*,\s*(\{.*\}))?` after the value: `(json, tail after ")", chars skipped before json)` -/
def tryJson (r2 : Str) : Option (Str × Str × Nat) :=
  match dropSpaces r2 with
  | [] => none
  | c :: r4 =>
    if c = ',' then
      let r5 := dropSpaces r4
      if r5.head? = some '{' then (pickClose r5).map fun p => (p.1, p.2, r2.length - r5.length) else none
    else none

/-- after `(`: groups 2, 3, the closing parenthesis and the tail.  `vOff` = offset of the value. -/
def parseParen (name : Str) (vOff : Nat) (r1 : Str) : Option RawAttr :=
  let value := (span isValueChar r1).1
  let r2 := (span isValueChar r1).2
  if value.isEmpty then none else
  match tryJson r2 with
  | some (j, tl, skip) =>
    let jOff := vOff + value.length + skip
    some ⟨name, value, j, tailDesc tl, some (vOff, vOff + value.length), some (jOff, jOff + j.length)⟩
  | none =>
    match r2 with
    | [] => none
    | c :: tl => if c = ')' && tailOk tl then some ⟨name, value, [], tailDesc tl, some (vOff, vOff + value.length), none⟩ else none

/-- after the name -/
def parseRest (name : Str) (r : Str) : Option RawAttr :=
  match r with
  | [] => some ⟨name, [], [], [], none, none⟩
  | c :: r1 =>
    if c = '(' then parseParen name (pfx.length + name.length + 1) r1
    else if isReSpace c && tailOk r then some ⟨name, [], [], tailDesc r, none, none⟩ else none

/-- `parsingRegex.FindStringSubmatchIndex(strings.TrimSpace(comment.Text))` -/
def parseTrimmed (text : Str) : Option RawAttr :=
  if !hasPrefix text pfx then none else
  let r0 := text.drop pfx.length
  let name := (span isReWord r0).1
  if name.isEmpty then none else parseRest name (span isReWord r0).2

def parseLine (commentText : Str) : Option RawAttr := parseTrimmed (trimSpace commentText)

/-- `strings.Trim(strings.TrimPrefix(text, "//"), " ")` -/
def freeText (commentText : Str) : Str :=
  let t := if hasPrefix commentText ['/', '/'] then commentText.drop 2 else commentText
  trimRightBy (· = ' ') (trimLeftBy (· = ' ') t)

/-! ### the holder -/

structure Holder where
  attrs : List (Nat × RawAttr) := []     -- (index of the line in the block, attribute)
  free  : List (Nat × Str) := []         -- (index, free text)
deriving Repr

inductive HolderResult
  | ok (h : Holder)
  | jsonError (line : Nat)
deriving Repr

/-- `NewAnnotationHolder`: `jsonOk` stands for `json5.Unmarshal(text, &map) == nil` -/
def holderOf (jsonOk : Str → Bool) (lines : List Str) : HolderResult :=
  let rec go (i : Nat) (ls : List Str) (h : Holder) : HolderResult :=
    match ls with
    | [] => .ok h
    | l :: rest =>
      match parseLine l with
      | some a =>
        if !a.json.isEmpty && !jsonOk a.json then .jsonError i
        else go (i + 1) rest { h with attrs := h.attrs ++ [(i, a)] }
      | none => go (i + 1) rest { h with free := h.free ++ [(i, freeText l)] }
  go 0 lines {}

def descriptionName : Str := "Description".toList

/-- the leading contiguous run of free comments starting at index 0 -/
def leadingFree : Nat → List (Nat × Str) → List Str
  | _, [] => []
  | next, (i, v) :: rest => if i > next then [] else v :: leadingFree (next + 1) rest

def dropTrailingEmpty (l : List Str) : List Str := (l.reverse.dropWhile (·.isEmpty)).reverse

def joinLines : List Str → Str
  | [] => []
  | [a] => a
  | a :: b :: r => a ++ '\n' :: joinLines (b :: r)

/-- `GetDescription` -/
def getDescription (h : Holder) : Str :=
  match h.attrs.find? (fun p => p.2.name = descriptionName) with
  | some (_, a) => a.desc
  | none => joinLines (dropTrailingEmpty (leadingFree 0 h.free))

/-! ### `GetValueRange` (C18): first occurrence of the value text in the comment text, in runes -/

/-- `strings.Index` as a rune offset (the Go code converts the byte offset with `RuneCountInString`) -/
def indexOf (s p : Str) : Option Nat :=
  let rec go (s : Str) (i : Nat) : Option Nat :=
    if hasPrefix s p then some i else
    match s with
    | [] => none
    | _ :: t => go t (i + 1)
  go s 0

/-- `(startCol, endCol)` relative to the comment's start column; `none` = falls back to the comment range -/
def valueRange (commentText : Str) (value : Str) : Option (Nat × Nat) :=
  if commentText.isEmpty then none else
  (indexOf commentText value).map fun i => (i, i + value.length)

end Gleece.Annot

namespace Gleece.Annot
open Gleece.Text

/-! ### what was written (for the round-trip statement) -/

structure Written where
  name  : Str
  paren : Bool
  value : Str
  json  : Str
  desc  : Str
  sep1  : Str := []      -- white space between the value and the comma
  sep2  : Str := []      -- white space after the comma
  gap   : Str := [' ']   -- white space before the description
deriving Repr, DecidableEq

def render (w : Written) : Str :=
  pfx ++ w.name ++
  (if w.paren then '(' :: w.value ++ (if w.json.isEmpty then [] else w.sep1 ++ ',' :: w.sep2 ++ w.json) ++ [')'] else []) ++
  (if w.desc.isEmpty then [] else w.gap ++ w.desc)

/-- the explicit, decidable well-formedness predicate of the round-trip theorem -/
def WF (w : Written) : Bool :=
  !w.name.isEmpty && w.name.all isReWord &&
  (if w.paren then !w.value.isEmpty && w.value.all isValueChar else w.value.isEmpty && w.json.isEmpty) &&
  (w.json.isEmpty || (w.json.head? = some '{' && w.json.getLast? = some '}')) &&
  w.sep1.all isReSpace && w.sep2.all isReSpace &&
  (match w.sep1 with | [] => true | c :: _ => !isValueChar c) &&
  (w.desc.isEmpty || (!w.gap.isEmpty && w.gap.all isReSpace && (match w.desc with | [] => true | c :: _ => !isReSpace c))) &&
  -- the text is what `strings.TrimSpace` leaves (no white space at either end)
  (trimSpace (render w) == render w) &&
  -- UNAMBIGUITY (forced by the greedy `\{.*\}`): when a JSON part is present, the description contains no
  -- `})` that is followed by end-of-text or by white space and more text
  (w.json.isEmpty || (pickClose (if w.desc.isEmpty then [] else w.gap ++ w.desc)).isNone)

/-- `WF` without the unambiguity clause (the full-strength statement the code does NOT meet: finding C16-F1) -/
def WFcore (w : Written) : Bool :=
  WF { w with json := [] , sep1 := [], sep2 := [] } &&
  (w.json.isEmpty || (w.paren && w.json.head? = some '{' && w.json.getLast? = some '}')) &&
  w.sep1.all isReSpace && w.sep2.all isReSpace &&
  (match w.sep1 with | [] => true | c :: _ => !isValueChar c) &&
  (trimSpace (render w) == render w)

def RawAttr.core (a : RawAttr) : Str × Str × Str × Str := (a.name, a.value, a.json, a.desc)

/-- could this (trimmed) line be an annotation at all: `// @` followed by a word character -/
def looksLikeAttr (text : Str) : Bool :=
  hasPrefix text pfx && (match text.drop pfx.length with | c :: _ => isReWord c | [] => false)

end Gleece.Annot
