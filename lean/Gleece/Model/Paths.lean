/-
  C15 — model of `core/validators/paths/paths.go` (`FindConflicts`).

  The pointer trie of the Go code is modelled as what it denotes (DESIGN Appendix B.1):
  a trie node is addressed by its *trie path* (`List TSeg`; every `{…}` segment goes to the
  single param child), and the only content that matters is which entries are *registered*
  (stored in `endpoint[verb]` of the node their trie path addresses).  `collectEndpointsByMethod`
  on the node at trie path `p` is then "registered entries with that verb whose trie path has
  prefix `p`".  The correspondence check compares this model with the real code on the exact
  output (pairs of entry identities, reason strings, order).
-/
import Gleece.Model.Text
namespace Gleece.Paths
open Gleece.Text

/-! ### `normalizePath` / `splitSegments` -/

/-- `strings.Contains(p, "//")` -/
def hasDD : Str → Bool
  | [] => false
  | [_] => false
  | c :: d :: t => (c = '/' && d = '/') || hasDD (d :: t)

/-- one call of `strings.ReplaceAll(p, "//", "/")` (non-overlapping, left to right) -/
def replaceDD : Str → Str
  | [] => []
  | [c] => [c]
  | c :: d :: t => if c = '/' ∧ d = '/' then '/' :: replaceDD t else c :: replaceDD (d :: t)

theorem replaceDD_length_le (s : Str) : (replaceDD s).length ≤ s.length := by
  fun_induction replaceDD s <;> simp_all <;> omega

theorem replaceDD_length_lt (s : Str) (h : hasDD s = true) : (replaceDD s).length < s.length := by
  fun_induction replaceDD s with
  | case1 => simp [hasDD] at h
  | case2 => simp [hasDD] at h
  | case3 c d t hc ih =>
    have := replaceDD_length_le t
    simp; omega
  | case4 c d t hc ih =>
    simp [hasDD] at h
    have : hasDD (d :: t) = true := by
      rcases h with h | h
      · exact absurd h hc
      · exact h
    have := ih this
    simp at this ⊢; omega

/-- `for strings.Contains(p, "//") { p = strings.ReplaceAll(p, "//", "/") }` — the loop terminates
    because every iteration strictly shortens `p`. -/
def collapse (p : Str) : Str :=
  if h : hasDD p = true then collapse (replaceDD p) else p
termination_by p.length
decreasing_by exact replaceDD_length_lt p h

/-- `strings.TrimRight(p, "/")` -/
def trimRightSlash (p : Str) : Str := trimRightBy (· = '/') p

def normalizePath (p : Str) : Str :=
  if p = [] then ['/'] else
  let p := if p.head? = some '/' then p else '/' :: p
  let p := collapse p
  if p.length > 1 ∧ p.getLast? = some '/' then trimRightSlash p else p

def splitSegments (p : Str) : List Str :=
  if p = ['/'] then [] else
  let p := if p.head? = some '/' then p.tail else p
  if p = [] then [] else splitOn '/' p

def isParamSegment (seg : Str) : Bool := seg.head? = some '{' && seg.getLast? = some '}'

/-- `patternsConflict`; this is also the property's own definition of "can match a common
    concrete path": equal segment counts and, position by position, equal segments or at least
    one parameter. -/
def patternsConflict : List Str → List Str → Bool
  | [], [] => true
  | a :: as, b :: bs => (a = b || isParamSegment a || isParamSegment b) && patternsConflict as bs
  | _, _ => false

/-! ### entries, trie paths -/

structure Entry where
  id   : Nat
  verb : String
  path : String
deriving DecidableEq, Repr, Inhabited

def Entry.segs (e : Entry) : List Str := splitSegments (normalizePath e.path.toList)

/-- a segment as the trie sees it: `none` = the param child, `some l` = literal child `l` -/
abbrev TSeg := Option Str
def toT (s : Str) : TSeg := if isParamSegment s then none else some s
def tpath (segs : List Str) : List TSeg := segs.map toT
def Entry.tp (e : Entry) : List TSeg := tpath e.segs

/-! ### reasons (exact Go text; `%q` = `strconv.Quote` for printable text) -/

def goQuote (s : Str) : String :=
  "\"" ++ String.ofList (s.flatMap fun c => if c = '"' then ['\\', '"'] else if c = '\\' then ['\\', '\\'] else [c]) ++ "\""

def dupReason : String := "duplicate method/path combination"

def reasonPvL (e r : Entry) (seg lit : Str) : String :=
  s!"parameter {goQuote seg} in path '{e.verb} {e.path}' conflicts with literal {goQuote lit} in path '{r.verb} {r.path}'"
def reasonPvP (e r : Entry) (seg other : Str) : String :=
  s!"parameter {goQuote seg} in path '{e.verb} {e.path}' conflicts with parameter {goQuote other} in path '{r.verb} {r.path}'"
def reasonLvP (e r : Entry) (seg other : Str) : String :=
  s!"literal {goQuote seg} in path \"{e.verb} {e.path}\" conflicts with parameter {goQuote other} of in path '{r.verb} {r.path}'"

structure Conflict where
  a : Entry
  b : Entry
  reason : String
deriving DecidableEq, Repr

/-- `addConflict`: canonical order by path text, de-duplicated on (identity a, identity b, reason) -/
def mkConflict (a b : Entry) (reason : String) : Conflict :=
  if b.path < a.path then ⟨b, a, reason⟩ else ⟨a, b, reason⟩

def sameKey (c d : Conflict) : Bool := c.a.id = d.a.id && c.b.id = d.b.id && c.reason = d.reason

def addConflict (out : List Conflict) (a b : Entry) (reason : String) : List Conflict :=
  let c := mkConflict a b reason
  if out.any (sameKey c) then out else out ++ [c]

/-! ### the walk of one new entry -/

/-- The reasons for which the Go loop calls `addConflict(entry, r, …)` while walking the new
    entry's segments `ss` down the trie, for ONE registered entry `r` with segments `ts`.
    While the two trie paths agree the walk is still above `r`'s node:
    * new segment is a param, `r`'s is a param: `reportParamVsParam` finds `r` below `curr.paramChild`
      (and both continue into the param child);
    * new is a param, `r`'s a literal: `reportParamVsLiterals` finds `r` below that literal child; the
      paths part here, `r` is never below `curr` again;
    * new is a literal, `r`'s a param: `reportLiteralVsParam`; the paths part;
    * equal literals: same child, continue; different literals: never met. -/
def walk (e r : Entry) : List Str → List Str → List String
  | s :: ss, t :: ts =>
    if isParamSegment s then
      if isParamSegment t then reasonPvP e r s t :: walk e r ss ts
      else [reasonPvL e r s t]
    else
      if isParamSegment t then [reasonLvP e r s t]
      else if s = t then walk e r ss ts
      else []
  | _, _ => []

/-- every `report*` call is guarded by the verb (`collectEndpointsByMethod`) and `patternsConflict` -/
def attemptsFor (e r : Entry) : List String :=
  if r.verb = e.verb && patternsConflict e.segs r.segs then walk e r e.segs r.segs else []

/-- `(registered entry, reason)` for every `addConflict` call made while walking `e` -/
def attempts (reg : List Entry) (e : Entry) : List (Entry × String) :=
  reg.flatMap fun r => (attemptsFor e r).map fun reason => (r, reason)

/-- the endpoint already stored at `e`'s trie node for `e`'s verb, if any -/
def existing (reg : List Entry) (e : Entry) : Option Entry :=
  reg.find? (fun r => r.verb = e.verb && r.tp = e.tp)

structure State where
  reg : List Entry := []
  out : List Conflict := []

def step (s : State) (e : Entry) : State :=
  let out := (attempts s.reg e).foldl (fun o (p : Entry × String) => addConflict o e p.1 p.2) s.out
  match existing s.reg e with
  | some r => { reg := s.reg, out := addConflict out e r dupReason }
  | none => { reg := s.reg ++ [e], out := out }

def conflictLe (c d : Conflict) : Bool :=
  if c.a.path = d.a.path then
    if c.b.path = d.b.path then c.reason ≤ d.reason else c.b.path < d.b.path
  else c.a.path < d.a.path

/-- `FindConflicts` -/
def findConflicts (es : List Entry) : List Conflict :=
  ((es.foldl step {}).out).mergeSort conflictLe

/-- identities are positions in the input list -/
def mkEntries (l : List (String × String)) : List Entry :=
  l.zipIdx.map fun (p, i) => ⟨i, p.1, p.2⟩

/-! ### decidable specification (run by the driver on the model's and the implementation's answer) -/

def overlaps (a b : Entry) : Bool := a.id ≠ b.id && a.verb = b.verb && patternsConflict a.segs b.segs

/-- `(idA, idB)` pairs named by an answer -/
def specSound (es : List Entry) (named : List (Nat × Nat)) : Bool :=
  named.all fun (i, j) =>
    match es.find? (·.id = i), es.find? (·.id = j) with
    | some a, some b => overlaps a b
    | _, _ => false

def specComplete (es : List Entry) (named : List (Nat × Nat)) : Bool :=
  es.all fun e => !(es.any (overlaps e)) || named.any (fun (i, j) => i = e.id || j = e.id)

end Gleece.Paths
