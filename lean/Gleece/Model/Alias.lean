/-
  C09 — the import aliases of a routes file: `getImports` / `appendRouteImports` (core/pipeline/pipeline.go)
  spell them `Param<serial><name>` / `Response<serial><TypeName>`; `<serial>` is the provider's id of the type
  (Session model, C13 / C19), printed in decimal.
-/
namespace Gleece.Alias

def isIdStart (c : Char) : Bool := c.isAlpha || c == '_'
def isIdChar (c : Char) : Bool := c.isAlphanum || c == '_'

/-- an (ASCII) Go identifier -/
def isIdent : List Char → Bool
  | [] => false
  | c :: cs => isIdStart c && cs.all isIdChar

/-- `fmt.Sprintf("<pre>%d%s", serial, name)` -/
def alias (pre : List Char) (serial : Nat) (name : List Char) : List Char := pre ++ Nat.toDigits 10 serial ++ name

end Gleece.Alias
