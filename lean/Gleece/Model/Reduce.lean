/-
  Source → flattened metadata: the reducers of core/metadata (controller.go, receiver.go, param.go,
  helpers.go) over the annotation model of `Gleece.Validate`.  What the emitters and the router templates
  receive is the OUTPUT of these functions; C01 (hidden), C03 / C04 (effective security), C05 / C06
  (parameter location, wire name, requiredness, status codes) are stated over it.
-/
import Gleece.Model.Validate
namespace Gleece.Reduce
open Gleece.Validate Gleece.IR Gleece.Text

/-- the string elements of an array-valued property are carried joined by U+0001 -/
def arrSep : Char := Char.ofNat 1

def getFirst (attrs : List Annot) (n : String) : Option Annot := attrs.find? (·.name = n)
def getAll (attrs : List Annot) (n : String) : List Annot := attrs.filter (·.name = n)
def firstValueOrEmpty (attrs : List Annot) (n : String) : String := ((getFirst attrs n).map (·.value)).getD ""

/-- `GetSecurityFromContext`: one alternative per @Security annotation, in order -/
def securityFromContext (attrs : List Annot) : Security :=
  (getAll attrs "Security").map fun a =>
    let scopes := match a.props.find? (·.1 = "scopes") with
      | some (_, .arr, v) => if v.isEmpty then [] else (splitOn arrSep v.toList).map String.ofList
      | _ => []
    [⟨a.value, scopes⟩]

/-- `GetDefaultSecurity` -/
def defaultSecurity (d : Option SecComp) : Security := match d with | some c => [[c]] | none => []

/-- `ControllerMeta.Reduce`: explicit annotations, else the configured default -/
def controllerSecurity (ctrl : List Annot) (d : Option SecComp) : Security :=
  let s := securityFromContext ctrl
  if s.isEmpty then defaultSecurity d else s

/-- `GetRouteSecurityWithInheritance` -/
def routeSecurity (meth : List Annot) (parent : Security) : Security :=
  let s := securityFromContext meth
  if s.isEmpty then parent else s

/-- `GetMethodHideOpts`: any @Hidden, whatever its value or properties -/
def hidden (meth : List Annot) : Bool := (getFirst meth "Hidden").isSome
def deprecated (meth : List Annot) : Bool := (getFirst meth "Deprecated").isSome

structure RParam where
  name : String
  isContext : Bool
  passedIn : String          -- "" for the context parameter
  nameInSchema : String
  validator : String
  description : String
  deriving Repr, DecidableEq, Inhabited

def passedInName : PassedIn → String
  | .query => "query" | .header => "header" | .path => "path" | .body => "body" | .form => "form"

/-- a property that is present but not a string makes `GetCastProperty[string]` fail -/
def propBad (a : Annot) (key : String) : Bool :=
  match a.props.find? (·.1 = key) with | some (_, k, _) => k != .str | none => false

def strProp (a : Annot) (key : String) : String :=
  match a.props.find? (·.1 = key) with | some (_, .str, v) => v | _ => ""

def wireName (a : Annot) (goName : String) : String :=
  let v := strProp a "name"
  if v.isEmpty then goName else v

def mkParam (p : MParam) (a : Annot) (loc : PassedIn) : RParam :=
  ⟨p.name, false, passedInName loc, wireName a p.name,
   String.ofList (appendRequired (strProp a "validate").toList (p.type.startsWith "*") (loc = .path)), a.desc⟩

/-- `FuncParam.Reduce`; `none` = the reducer returns an error -/
def reduceParam (meth : List Annot) (p : MParam) : Option RParam :=
  if isContextType p.type then some ⟨p.name, true, "", "", "", ""⟩ else
  match findFirstByValue meth p.name, passedInOf meth p.name with
  | some a, some (.ok loc) => if propBad a "name" || propBad a "validate" then none else some (mkParam p a loc)
  | _, _ => none

/-- `GetErrorResponses`: the first annotation of every status code, in order -/
def errorCodes (meth : List Annot) : List Nat :=
  ((getAll meth "ErrorResponse").filterMap fun a => parseUint a.value).eraseDups

/-- `GetResponseStatusCodeAndDescription` -/
def successCode (meth : List Annot) (hasReturn : Bool) : Nat :=
  match getFirst meth "Response" with
  | none => if hasReturn then 200 else 204
  | some a => if a.value.isEmpty then 0 else (parseUint a.value).getD 0

structure RRoute where
  opId : String
  verb : String
  path : String
  hidden : Bool
  deprecated : Bool
  security : Security
  params : List RParam
  hasReturn : Bool
  successCode : Nat
  errorCodes : List Nat
  deriving Repr, Inhabited

/-- `definitions.ConvertToHttpStatus`: decimal text below 2^32 that is one of the known status codes -/
def statusOk (v : String) : Bool :=
  match parseUint v with
  | some n => n < 4294967296 && validStatusCodes.contains n
  | none => false

/-- `GetErrorResponses` / `GetResponseStatusCodeAndDescription` return an ERROR (the validators only warn) for an
    `@ErrorResponse` - any of them - or a first `@Response` with a non-empty value that is no status code -/
def statusCodesOk (meth : List Annot) : Bool :=
  (getAll meth "ErrorResponse").all (fun a => statusOk a.value) &&
  (match getFirst meth "Response" with | some a => a.value.isEmpty || statusOk a.value | none => true)

def reduceRoute (parent : Security) (m : Method) : Option RRoute :=
  let ps := m.params.map (reduceParam m.annots)
  if ps.any Option.isNone then none else
  some { opId := m.name, verb := firstValueOrEmpty m.annots "Method", path := firstValueOrEmpty m.annots "Route",
         hidden := hidden m.annots, deprecated := deprecated m.annots,
         security := routeSecurity m.annots parent, params := ps.filterMap id,
         hasReturn := m.results.length > 1,
         successCode := successCode m.annots (m.results.length > 1), errorCodes := errorCodes m.annots }

structure RController where
  name : String
  tag : String
  path : String
  security : Security
  routes : List RRoute
  deriving Repr, Inhabited

def reduceController (name : String) (ctrl : List Annot) (d : Option SecComp) (ms : List Method) : Option RController :=
  let sec := controllerSecurity ctrl d
  let rs := ms.map (reduceRoute sec)
  -- a route whose status codes the reducer cannot convert makes the reduction of the whole controller fail
  if ms.any (fun m => !statusCodesOk m.annots) then none else
  if rs.any Option.isNone then none else
  some { name := name, tag := firstValueOrEmpty ctrl "Tag", path := firstValueOrEmpty ctrl "Route", security := sec, routes := rs.filterMap id }

end Gleece.Reduce
