/-
  C14 — the contract of one run of the command-line program, and what a command's wrapper must do with the
  verdict of the generation function it calls.
-/
namespace Gleece.Cli

inductive Cmd | bare | spec | routes | specAndRoutes | dump
deriving DecidableEq, Repr

/-- the artifacts a successful run of the command leaves: (document, routes file) -/
def artifacts : Cmd → Bool × Bool
  | .spec => (true, false)
  | .routes => (false, true)
  | .bare | .specAndRoutes => (true, true)
  | .dump => (false, false)      -- `dump graph`: text about the project, none of the generators' artifacts

/-- what is observed of one run -/
structure Run where
  exit : Int
  timedOut : Bool
  panic : Bool
  reported : Bool     -- an error was printed
  spec : Bool         -- the document exists afterwards
  routes : Bool       -- the routes file exists afterwards
deriving DecidableEq, Repr

/-- **C14 for one run**: bounded time, no panic, and either exit 0 with the command's artifacts written or a
    non-zero exit with something reported -/
def Contract (c : Cmd) (r : Run) : Bool :=
  !r.timedOut && !r.panic &&
  (if r.exit = 0 then (!(artifacts c).1 || r.spec) && (!(artifacts c).2 || r.routes) else r.reported)

/-- what the generation FUNCTION did (cmd.GenerateSpec / GenerateRoutes / GenerateSpecAndRoutes) -/
structure FnResult where
  failed : Bool       -- returned an error
  spec : Bool
  routes : Bool

/-- the function's own contract: success means its artifacts are written -/
def FnContract (c : Cmd) (f : FnResult) : Bool :=
  f.failed || ((!(artifacts c).1 || f.spec) && (!(artifacts c).2 || f.routes))

/-- a command's wrapper: logs a failure; `propagates` = the failure reaches the exit status (the regenerated
    table `Generated.cliCommands` records it per command) -/
def wrap (propagates : Bool) (f : FnResult) : Run :=
  { exit := if f.failed && propagates then 1 else 0, timedOut := false, panic := false, reported := f.failed,
    spec := f.spec, routes := f.routes }

end Gleece.Cli
