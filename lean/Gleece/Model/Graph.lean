/-
  C17 — model of `graphs/symboldg/graph.go` (the symbol graph and its three indices).

  The Go state is
    nodes   : map[baseId]*SymbolNode
    edges   : map[fromBaseId]map[kind::toBaseId]SymbolEdgeDescriptor
    deps    : map[fromBaseId]set[full SymbolKey of `to`]
    revDeps : map[toBaseId]set[full SymbolKey of `from`]
  and is modelled relationally (lists used as finite sets/maps, uniqueness kept as separate
  invariants, see `Gleece/Lemmas/Graph.lean`).  A `Key` is a full `SymbolKey`: `base` stands for
  `BaseId()` (name@pos@path), `ver` for the file version part of `Id()`.
-/
namespace Gleece.Graph

structure Key where
  base : Nat
  ver  : Nat
deriving DecidableEq, Repr, Inhabited

structure Node where
  key  : Key
  kind : String
deriving DecidableEq, Repr

structure Edge where
  src  : Key
  dst  : Key
  kind : String
  ord  : Nat
deriving DecidableEq, Repr

structure G where
  nodes   : List Node := []
  edges   : List Edge := []
  deps    : List (Nat × Key) := []   -- (fromBase, to)
  revDeps : List (Nat × Key) := []   -- (toBase, from)
  nextSeq : Nat := 0
deriving Repr

def G.node? (g : G) (b : Nat) : Option Node := g.nodes.find? (·.key.base = b)
def G.hasNode (g : G) (b : Nat) : Bool := g.nodes.any (·.key.base = b)

/-- `g.addNode(n)` : `g.nodes[baseId] = n` -/
def rawAddNode (g : G) (n : Node) : G :=
  { g with nodes := g.nodes.filter (·.key.base ≠ n.key.base) ++ [n] }

def insertSet {α} [DecidableEq α] (l : List α) (a : α) : List α := if a ∈ l then l else l ++ [a]

def edgeMatches (fb : Nat) (kind : String) (tb : Nat) (e : Edge) : Bool :=
  e.src.base = fb && e.kind = kind && e.dst.base = tb

/-- `AddEdge` -/
def addEdge (g : G) (f t : Key) (kind : String) : G :=
  let g := { g with deps := insertSet g.deps (f.base, t), revDeps := insertSet g.revDeps (t.base, f) }
  if g.edges.any (edgeMatches f.base kind t.base) then g
  else { g with edges := g.edges ++ [⟨f, t, kind, g.nextSeq⟩], nextSeq := g.nextSeq + 1 }

def kindSelected (kind : Option String) (e : Edge) : Bool :=
  match kind with
  | none => true
  | some k => e.kind = k

/-- `RemoveEdge(from, to, kind)` (`kind = none` removes every kind) -/
def removeEdge (g : G) (f t : Key) (kind : Option String) : G :=
  let edges := g.edges.filter fun e => !(e.src.base = f.base && e.dst.base = t.base && kindSelected kind e)
  -- the adjacency entries are dropped only when no edge of any kind remains between the pair
  if edges.any (fun e => e.src.base = f.base && e.dst.base = t.base) then { g with edges := edges } else
  -- … and by base id, like the edges themselves
  { g with edges := edges,
           deps := g.deps.filter (fun d => !(d.1 = f.base && d.2.base = t.base)),
           revDeps := g.revDeps.filter (fun d => !(d.1 = t.base && d.2.base = f.base)) }

/-- is `fk` orphaned: no outgoing dependency to an existing node -/
def isOrphan (g : G) (fk : Key) : Bool :=
  !(g.deps.any fun d => d.1 = fk.base && g.hasNode d.2.base)

/-- `RemoveNode`.  The Go function recurses through intermediate states (nested recursion); the model
    carries explicit fuel, returns `none` when it runs out (never observed: the driver supplies
    `|nodes| + |revDeps| + 2` and reports exhaustion as a model failure). -/
def removeNode : Nat → G → Key → Option G
  | 0, _, _ => none
  | fuel + 1, g, key =>
    let id := key.base
    if !g.hasNode id then some g else
    let dependents := (g.revDeps.filter (·.1 = id)).map (·.2)
    let g1 : Option G := dependents.foldl (fun og fk =>
        og.bind fun g =>
          let g := removeEdge g fk key none
          if isOrphan g fk then removeNode fuel g fk else some g) (some g)
    g1.map fun g =>
      let outgoing := g.edges.filter (·.src.base = id)
      let g := outgoing.foldl (fun g e => removeEdge g key e.dst (some e.kind)) g
      { g with deps := g.deps.filter (·.1 ≠ id), revDeps := g.revDeps.filter (·.1 ≠ id),
               nodes := g.nodes.filter (·.key.base ≠ id) }

def fuelFor (g : G) : Nat := g.nodes.length + g.revDeps.length + 2

/-- `createAndAddSymNode` with its `idempotencyGuard`: returns the graph and the id of the node that is
    in the graph afterwards (the existing one when the version is unchanged) -/
def guardedAdd (g : G) (k : Key) (kind : String) : Option (G × Key) :=
  match g.node? k.base with
  | some n =>
    if n.key.ver = k.ver then some (g, n.key)
    else (removeNode (fuelFor g) g n.key).map fun g => (rawAddNode g ⟨k, kind⟩, k)
  | none => some (rawAddNode g ⟨k, kind⟩, k)

/-- `addBuiltinSymbol` -/
def addBuiltin (g : G) (k : Key) (kind : String) : G :=
  if g.hasNode k.base then g else rawAddNode g ⟨k, kind⟩

inductive Op
  | addNode (k : Key) (kind : String)
  | addStruct (k : Key) (fields : List Key)
  | addEnum (k : Key) (prim : Key) (values : List Key)
  | addPrim (k : Key)
  | addEdge (f t : Key) (kind : String)
  | removeEdge (f t : Key) (kind : Option String)
  | removeNode (k : Key)
deriving Repr

def step (g : G) : Op → Option G
  | .addNode k kind => (guardedAdd g k kind).map (·.1)
  | .addStruct k fields => (guardedAdd g k "Struct").map fun (g, id) =>
      fields.foldl (fun g f => addEdge g id f "fld") g
  | .addEnum k prim values => (guardedAdd g k "Enum").bind fun (g, id) =>
      let g := addBuiltin g prim "Builtin"
      values.foldl (fun og v => og.bind fun g =>
        (guardedAdd g v "Constant").map fun (g, vid) =>
          addEdge (addEdge g id vid "val") vid prim "ref") (some g)
  | .addPrim k => some (addBuiltin g k "Builtin")
  | .addEdge f t kind => some (addEdge g f t kind)
  | .removeEdge f t kind => some (removeEdge g f t kind)
  | .removeNode k => removeNode (fuelFor g) g k

/-! ### queries -/

/-- `GetEdges(key, nil)`: outgoing edges of `b`, plus, for every parent recorded in `revDeps[b]`, that
    parent's edges whose target is `b` (a Go map keyed by `fromBase::kind::toBase`, so a set). -/
def getEdges (g : G) (b : Nat) : List Edge :=
  let out := g.edges.filter (·.src.base = b)
  let parents := (g.revDeps.filter (·.1 = b)).map (·.2.base)
  let inc := g.edges.filter fun e => e.dst.base = b && parents.contains e.src.base
  out ++ inc.filter (fun e => !out.contains e)

def sortByOrd (l : List Edge) : List Edge := l.mergeSort (fun a b => a.ord ≤ b.ord)

/-- `Children(node, sorted asc)` -/
def children (g : G) (b : Nat) : List Nat :=
  (sortByOrd (g.edges.filter fun e => e.src.base = b && g.hasNode e.dst.base)).map (·.dst.base)

/-- `Parents(node, sorted asc)`; iterates `revDeps[b]` (one entry per full parent key) and compares the
    edge target with the node's full id -/
def parents (g : G) (b : Nat) : List Nat :=
  match g.node? b with
  | none => []
  | some n =>
    let ps := (g.revDeps.filter (·.1 = b)).map (·.2)
    let hits := ps.flatMap fun pk =>
      g.edges.filter fun e => e.src.base = pk.base && e.dst.base = n.key.base && g.hasNode pk.base
    (sortByOrd hits).map (·.src.base)

/-- `Descendants(root, nil)` as a set: nodes reachable by one or more child steps -/
def descendants (g : G) (b : Nat) : List Nat :=
  let rec go (fuel : Nat) (frontier seen : List Nat) : List Nat :=
    match fuel with
    | 0 => seen
    | fuel + 1 =>
      let next := (frontier.flatMap (children g)).eraseDups.filter (fun c => !seen.contains c)
      if next.isEmpty then seen else go fuel next (seen ++ next)
  go (g.nodes.length + 1) [b] []

/-! ### the plain set-of-nodes / set-of-edges specification -/

structure AEdge where
  src : Nat
  kind : String
  dst : Nat
deriving DecidableEq, Repr

structure A where
  nodes : List (Nat × Nat × String) := []   -- base, version, kind
  edges : List AEdge := []
deriving Repr

def A.has (a : A) (b : Nat) : Bool := a.nodes.any (·.1 = b)

/-- one round of the eviction rule: `x` joins `R` when it has an edge into `R` and every edge of `x`
    leads into `R` or to a node that does not exist -/
def evictRound (a : A) (r : List Nat) : List Nat :=
  r ++ (a.nodes.map (·.1)).filter fun x =>
    !r.contains x && a.edges.any (fun e => e.src = x && r.contains e.dst) &&
    a.edges.all (fun e => !(e.src = x) || r.contains e.dst || !a.has e.dst)

def evictSet (a : A) (n : Nat) : List Nat :=
  let rec go (fuel : Nat) (r : List Nat) : List Nat :=
    match fuel with
    | 0 => r
    | fuel + 1 => let r' := evictRound a r; if r'.length = r.length then r else go fuel r'
  go (a.nodes.length + 1) [n]

/-- remove `n`, every edge touching it, and exactly the dependants left without any remaining dependency -/
def A.removeNode (a : A) (n : Nat) : A :=
  if !a.has n then a else
  let r := evictSet a n
  { nodes := a.nodes.filter (fun x => !r.contains x.1),
    edges := a.edges.filter (fun e => !r.contains e.src && !r.contains e.dst) }

def A.addEdge (a : A) (f : Nat) (kind : String) (t : Nat) : A :=
  if a.edges.contains ⟨f, kind, t⟩ then a else { a with edges := a.edges ++ [⟨f, kind, t⟩] }

def A.removeEdge (a : A) (f t : Nat) (kind : Option String) : A :=
  { a with edges := a.edges.filter fun e => !(e.src = f && e.dst = t && (match kind with | none => true | some k => e.kind = k)) }

/-- a node re-added under a different version replaces the stale one (which is evicted first);
    re-adding under the same version changes nothing -/
def A.addNode (a : A) (b v : Nat) (kind : String) : A :=
  match a.nodes.find? (·.1 = b) with
  | some (_, v', _) => if v' = v then a else let a := a.removeNode b; { a with nodes := a.nodes ++ [(b, v, kind)] }
  | none => { a with nodes := a.nodes ++ [(b, v, kind)] }

def A.addBuiltin (a : A) (b : Nat) (kind : String) : A :=
  if a.has b then a else { a with nodes := a.nodes ++ [(b, 0, kind)] }

def A.step (a : A) : Op → A
  | .addNode k kind => a.addNode k.base k.ver kind
  | .addStruct k fields => fields.foldl (fun a f => a.addEdge k.base "fld" f.base) (a.addNode k.base k.ver "Struct")
  | .addEnum k prim values =>
      let a := (a.addNode k.base k.ver "Enum").addBuiltin prim.base "Builtin"
      values.foldl (fun a v => ((a.addNode v.base v.ver "Constant").addEdge k.base "val" v.base).addEdge v.base "ref" prim.base) a
  | .addPrim k => a.addBuiltin k.base "Builtin"
  | .addEdge f t kind => a.addEdge f.base kind t.base
  | .removeEdge f t kind => a.removeEdge f.base t.base kind
  | .removeNode k => a.removeNode k.base

end Gleece.Graph
