/-
  C13 — comparators of the shape every `slices.SortFunc` call site of the pipeline uses:

      if c := strings.Compare(a.K₁, b.K₁); c != 0 { return c }
      …
      return strings.Compare(a.Kₙ, b.Kₙ)

  modelled as the relation "a sorts no later than b" (`lexLe`), over an arbitrary key order `kle` (bytewise string
  comparison, integer comparison, …: a parameter, assumed total, transitive and antisymmetric where a theorem says so).
  `Generated/Comparators.lean` lists, for every call site, the expressions that are compared; `wellShaped` is the
  decidable predicate "this comparator is a `lexLe`".
-/
namespace Gleece.Sort

/-- `lexLe kle [k₁, …, kₙ] a b`: the first key on which `a` and `b` differ decides; equal on all keys ⇒ true -/
def lexLe {α K : Type} (kle : K → K → Bool) (keys : List (α → K)) (a b : α) : Bool :=
  match keys with
  | [] => true
  | k :: ks => if kle (k a) (k b) && kle (k b) (k a) then lexLe kle ks a b else kle (k a) (k b)

/-- `a.Struct.Name` ↦ (`a`, `Struct.Name`) -/
def splitParam (e : String) : String × String :=
  let cs := e.toList
  (String.ofList (cs.takeWhile (· ≠ '.')), String.ofList ((cs.dropWhile (· ≠ '.')).drop 1))

/-- one `Compare(x, y)` call compares a key of one element with THE SAME key of the other element -/
def pairWellShaped (pa pb : String) (p : String × String) : Bool :=
  let x := splitParam p.1
  let y := splitParam p.2
  x.2 == y.2 && !x.2.isEmpty && ((x.1 == pa && y.1 == pb) || (x.1 == pb && y.1 == pa))

/-- the comparator of a call site is a lexicographic comparison of keys -/
def wellShaped (row : String × String × String × List (String × String) × Bool) : Bool :=
  let (_, pa, pb, pairs, other) := row
  !other && !pairs.isEmpty && pa != pb && pairs.all (pairWellShaped pa pb)

/-- the keys a comparator looks at, in order (first parameter's side) -/
def keyPaths (row : String × String × String × List (String × String) × Bool) : List String :=
  let (_, _, _, pairs, _) := row
  (pairs.map fun p => (splitParam p.1).2).eraseDups

end Gleece.Sort
