/-
  Association lists with "set" semantics (Go: `m[k] = v`, kin-openapi `Paths.Set`,
  `Responses.Set`, `pathItem.SetOperation`): a later binding for the same key REPLACES the earlier one
  and keeps its position.
-/
namespace Gleece.Assoc

variable {κ : Type} {ν : Type} [DecidableEq κ]

def upsert (m : List (κ × ν)) (k : κ) (v : ν) : List (κ × ν) :=
  if m.any (fun x => x.1 = k) then m.map fun x => if x.1 = k then (k, v) else x
  else m ++ [(k, v)]

def get? (m : List (κ × ν)) (k : κ) : Option ν := (m.find? fun x => x.1 = k).map (·.2)

def setAll (m : List (κ × ν)) (kvs : List (κ × ν)) : List (κ × ν) :=
  kvs.foldl (fun m kv => upsert m kv.1 kv.2) m

end Gleece.Assoc
