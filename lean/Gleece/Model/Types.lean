/-
  C07 — the type-declaration model: declarations (struct / enum / alias), the references between them,
  reachability from the usage sites of routes, and the component schema of a declaration as a function
  of THAT DECLARATION ALONE.
  Anchors: core/visitors/{type.usage,typedecl,struct,enum,alias}.visitor.go (materialisation = closure),
  graphs/symboldg/model.synthesis.go + core/pipeline getModels (model list),
  generator/swagen/swagen30/models_generator.go, swagen31/models_generator31.go (schema of a declaration).
-/
namespace Gleece.Types

/-- identity of a declared type: (package, name) -/
abbrev TName := String × String

/-- a Go type expression as far as the emitters distinguish -/
inductive TExpr where
  | prim (name : String)          -- string, bool, int…, uint…, float32/64, time.Time, []byte, any
  | named (n : TName)
  | ptr (t : TExpr)
  | slice (t : TExpr)
  | map (t : TExpr)               -- map[string]T
  deriving Repr, DecidableEq, Inhabited

structure Field where
  name     : String               -- Go field name ("" never occurs: an embedded field carries its type's name)
  ty       : TExpr
  jsonTag  : Option String        -- the value of the `json:"…"` key, when present
  required : Bool                 -- `validate` lists `required`
  embedded : Bool
  deriving Repr, DecidableEq, Inhabited

inductive Body where
  | struct (fields : List Field)
  | enum (base : String) (values : List String)   -- values: the constants declared with this type, rendered as text
  | alias (base : TExpr)
  deriving Repr, Inhabited

structure Decl where
  name : TName
  doc  : String
  body : Body
  deriving Repr, Inhabited

/-- the declared types a type expression mentions -/
def TExpr.refs : TExpr → List TName
  | .prim _ => []
  | .named n => [n]
  | .ptr t => t.refs
  | .slice t => t.refs
  | .map t => t.refs

/-- the declared types a declaration mentions (through every field, visible or not, embedded or not) -/
def Decl.refs (d : Decl) : List TName :=
  match d.body with
  | .struct fs => fs.flatMap fun f => f.ty.refs
  | .enum _ _ => []
  | .alias b => b.refs

def lookup (ds : List Decl) (n : TName) : Option Decl := ds.find? fun d => d.name == n

/-- **reachability**: a root, or mentioned by a reachable declaration -/
inductive Reach (ds : List Decl) (roots : List TName) : TName → Prop where
  | root {n} : n ∈ roots → Reach ds roots n
  | step {m n d} : Reach ds roots m → lookup ds m = some d → n ∈ d.refs → Reach ds roots n

/-- one round: add everything the members mention -/
def expand (ds : List Decl) (s : List TName) : List TName :=
  (s ++ s.flatMap fun n => match lookup ds n with | some d => d.refs | none => []).eraseDups

/-- `fuel` rounds of expansion from the roots -/
def closure (ds : List Decl) : Nat → List TName → List TName
  | 0, s => s
  | k + 1, s => closure ds k (expand ds s)

/-- decidable: the set contains everything its members mention -/
def isClosed (ds : List Decl) (s : List TName) : Bool :=
  s.all fun n => match lookup ds n with
    | some d => d.refs.all fun r => s.contains r
    | none => true

/-! ### the schema of a declaration -/

inductive Sch where
  | ty (t : String) (format : String)
  | ref (component : String)
  | arr (items : Sch)
  | dict (values : Sch)
  deriving Repr, DecidableEq, Inhabited

def primSchema (p : String) : Sch :=
  if p = "string" then .ty "string" ""
  else if p = "bool" then .ty "boolean" ""
  else if p = "time.Time" then .ty "string" "date-time"
  else if p = "[]byte" then .ty "string" "base64"
  else if p = "float32" || p = "float64" then .ty "number" ""
  else if p = "any" then .ty "object" ""
  else .ty "integer" ""       -- int, int8…int64, uint, uint8…uint64

def TExpr.schema : TExpr → Sch
  | .prim p => primSchema p
  | .named n => .ref n.2
  | .ptr t => t.schema          -- a pointer is documented as its element
  | .slice t => .arr t.schema
  | .map t => .dict t.schema

def isUpper (c : Char) : Bool := 'A' ≤ c && c ≤ 'Z'

/-- encoding/json: is the field emitted, and under which name? unexported ⇒ no; `json:"-"` ⇒ no;
    the name is the part of the tag before the first comma, the Go name when that part is empty -/
def exportedName (s : String) : Bool := match s.toList with | c :: _ => isUpper c | [] => false

def Field.jsonName (f : Field) : Option String :=
  if !exportedName f.name then none
  else match f.jsonTag with
    | none => some f.name
    | some t =>
      if t = "-" then none
      else
        let n := t.toList.takeWhile (· != ',')
        some (if n.isEmpty then f.name else String.ofList n)

structure ObjSchema where
  props    : List (String × Sch)    -- in declaration order
  required : List String
  deriving Repr, DecidableEq, Inhabited

inductive Component where
  | object (title desc : String) (o : ObjSchema) (allOf : List String)   -- allOf: embedded components, in order
  | enum (title desc : String) (ty : String) (values : List String)
  | alias (title desc : String) (s : Sch)
  deriving Repr, DecidableEq, Inhabited

def structObj (fs : List Field) : ObjSchema :=
  let vis := fs.filterMap fun f => if f.embedded then none else (f.jsonName.map fun n => (n, f))
  { props := vis.map fun (n, f) => (n, f.ty.schema),
    required := (vis.filter fun (_, f) => f.required).map (·.1) }

/-- embedded structs, in order; an embedded field tagged `json:"-"` is not part of the payload (an
    unexported embedded struct type still is: its exported fields are promoted) -/
def embeddedOf (fs : List Field) : List String :=
  (fs.filter fun f => f.embedded && f.ty != .prim "error" && f.jsonTag != some "-").flatMap fun f => (f.ty.refs.map (·.2))

def enumType (base : String) : String := match primSchema base with | .ty t _ => t | _ => "object"

/-- **the component of a declaration: a function of the declaration alone** -/
def Decl.component (d : Decl) : Component :=
  match d.body with
  | .struct fs => .object d.name.2 d.doc (structObj fs) (embeddedOf fs)
  | .enum base vs => .enum d.name.2 d.doc (enumType base) vs
  | .alias b => .alias d.name.2 d.doc b.schema

/-- the usage sites of a project: the type expressions of route parameters and results -/
def rootsOf (usages : List TExpr) : List TName := (usages.flatMap TExpr.refs).eraseDups

/-- components of a project: the declarations reached from the usage sites, each mapped on its own -/
def components (ds : List Decl) (usages : List TExpr) : List (TName × Component) :=
  -- `ds.length + 1` rounds always reach a closed set (Lemmas/TypesFuel: `closure_closed`)
  (closure ds (ds.length + 1) (rootsOf usages)).filterMap fun n => (lookup ds n).map fun d => (n, d.component)

end Gleece.Types
