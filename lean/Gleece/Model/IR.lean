/-
  The flattened intermediate representation (definitions.ControllerMetadata / RouteMetadata / Models)
  and the model of what the two OpenAPI emitters and the five router templates make of it.

  Modelled from: generator/swagen/swagen30/paths_generator.go, swagen31/paths_generatorv31.go
  (createOperation, generateParams, generateOperationSecurity, setNewRouteOperation,
  generateControllerSpec), swagtool/spec_helpers.go (IsFieldRequired, IsHiddenAsset, ToOpenApiType),
  common/string.utils.go (RemoveDuplicateSlash), core/metadata/helpers.go
  (appendParamRequiredValidation), generator/templates/*/routes.hbs (registration, handler skeleton).
-/
import Gleece.Model.Text
import Gleece.Model.Assoc
namespace Gleece.IR
open Gleece.Text

structure SecComp where
  name : String
  scopes : List String
deriving DecidableEq, Repr, Inhabited

abbrev SecList := List SecComp          -- AND
abbrev Security := List SecList         -- OR between alternatives

structure TypeMeta where
  name : String
  pkgPath : String := ""
  isByAddress : Bool := false
  symbolKind : String := "Builtin"
  aliasType : String := ""
  aliasValues : List String := []
deriving DecidableEq, Repr, Inhabited

structure Param where
  name : String
  isContext : Bool := false
  passedIn : String := "Query"        -- Path | Query | Header | Body | Form
  nameInSchema : String := ""
  description : String := ""
  validator : String := ""
  deprecated : Bool := false
  serial : Nat := 0
  type : TypeMeta
deriving DecidableEq, Repr, Inhabited

structure ErrResp where
  code : Nat
  description : String
deriving DecidableEq, Repr, Inhabited

structure Route where
  opId : String
  verb : String
  hidden : Bool := false
  deprecated : Bool := false
  description : String := ""
  path : String
  params : List Param := []
  responses : List TypeMeta := []
  hasReturnValue : Bool := false
  respDescription : String := ""
  successCode : Nat := 204
  errorResponses : List ErrResp := []
  security : Security := []
deriving DecidableEq, Repr, Inhabited

structure Controller where
  name : String
  pkgPath : String := ""
  tag : String := ""
  path : String
  routes : List Route := []
  security : Security := []
deriving DecidableEq, Repr, Inhabited

structure Scheme where
  name : String
deriving DecidableEq, Repr, Inhabited

structure Cfg where
  schemes : List String := []                -- declared security scheme names
  defaultSecurity : Option SecComp := none
  enforce : Bool := false
deriving Repr, Inhabited

/-! ### paths -/

/-- `common.RemoveDuplicateSlash` : `regexp.MustCompile("/+").ReplaceAllString(value, "/")` -/
def squeeze : Str → Str
  | [] => []
  | [c] => [c]
  | c :: d :: t => if c = '/' ∧ d = '/' then squeeze (d :: t) else c :: squeeze (d :: t)

def normPath (s : String) : String := String.ofList (squeeze s.toList)

def fullPath (c : Controller) (r : Route) : String := normPath (c.path ++ r.path)

/-! ### C01: operations -/

structure OpSig where
  verb : String
  path : String
  opId : String
  tag : String
  deprecated : Bool
deriving DecidableEq, Repr, Inhabited

/-- the property's right-hand side: one operation per non-hidden annotated route -/
def visibleOps (cs : List Controller) : List OpSig :=
  cs.flatMap fun c => (c.routes.filter (fun r => !r.hidden)).map fun r =>
    ⟨r.verb, fullPath c r, r.opId, c.tag, r.deprecated⟩

def OpSig.key (o : OpSig) : String × String := (o.path, o.verb)

/-- `GenerateControllersSpec` as far as the set of operations is concerned: `pathItem.SetOperation` +
    `openapi.Paths.Set` make a map keyed by (path, verb); a later route with the same key REPLACES the
    earlier one -/
def emitOps (cs : List Controller) : List ((String × String) × OpSig) :=
  Assoc.setAll [] ((visibleOps cs).map fun o => (o.key, o))

def noVerbPathCollision (cs : List Controller) : Prop :=
  ((visibleOps cs).map OpSig.key).Nodup

/-! ### C03 / C04: security -/

/-- `generateOperationSecurity` (both emitters): the route's alternatives, or the configured default when
    the route has none -/
def docSecurity (cfg : Cfg) (r : Route) : Security :=
  if r.security.isEmpty then
    match cfg.defaultSecurity with
    | some d => [[d]]
    | none => []
  else r.security

/-- what the router template hands to `authorize()` -/
def enforcedSecurity (r : Route) : Security := r.security

/-- `ControllerMeta.Reduce` + `GetRouteSecurityWithInheritance`: method's own list if it has one,
    otherwise the controller's, otherwise the configured default (none only if all three are absent) -/
def effectiveSecurity (method controller : Security) (dflt : Option SecComp) : Security :=
  if !method.isEmpty then method
  else if !controller.isEmpty then controller
  else match dflt with
    | some d => [[d]]
    | none => []

/-- `buildSecurityMethod`: an undeclared scheme name makes the emitter fail -/
def unknownScheme (cfg : Cfg) (sec : Security) : Bool :=
  sec.any fun l => l.any fun c => !cfg.schemes.contains c.name

/-- does spec generation fail on security grounds: some DOCUMENTED route names an undeclared scheme -/
def securityError (cfg : Cfg) (cs : List Controller) : Bool :=
  cs.any fun c => c.routes.any fun r => !r.hidden && unknownScheme cfg (docSecurity cfg r)

/-! ### C06: parameters, bodies, responses -/

def requiredTok : Str := ['r', 'e', 'q', 'u', 'i', 'r', 'e', 'd']

/-- `swagtool.IsFieldRequired` over `List Char` -/
def isFieldRequired (v : Str) : Bool := (splitOn ',' v).contains requiredTok

/-- `appendParamRequiredValidation` (the pointer is nil-checked upstream; `validation = ""` and `nil`
    behave alike) -/
def appendRequired (v : Str) (isPointer isPath : Bool) : Str :=
  if isPointer && !isPath then v
  else if v.isEmpty then requiredTok
  else if (splitOn ',' v).contains requiredTok then v
  else v ++ ',' :: requiredTok

structure ParamSig where
  name : String
  loc : String          -- path | query | header
  required : Bool
  typeName : String
  deprecated : Bool
deriving DecidableEq, Repr, Inhabited

def lowerLoc (s : String) : String :=
  match s with
  | "Path" => "path" | "Query" => "query" | "Header" => "header" | "Body" => "body" | "Form" => "form"
  | s => s

/-- `generateParams`: context parameters never appear; Body / Form go to the request body; the others
    become `parameters`, in signature order -/
def docParams (r : Route) : List ParamSig :=
  (r.params.filter fun p => !p.isContext && p.passedIn ≠ "Body" && p.passedIn ≠ "Form").map fun p =>
    ⟨p.nameInSchema, lowerLoc p.passedIn, isFieldRequired p.validator.toList, p.type.name, p.deprecated⟩

/-- the JSON request body: the LAST Body parameter (`operation.RequestBody = …` overwrites) -/
def docBody (r : Route) : Option (String × Bool) :=
  ((r.params.filter fun p => !p.isContext && p.passedIn = "Body").getLast?).map fun p =>
    (p.type.name, isFieldRequired p.validator.toList)

/-- form fields: (property name, type, required) -/
def docForm (r : Route) : List (String × String × Bool) :=
  (r.params.filter fun p => !p.isContext && p.passedIn = "Form").map fun p =>
    (p.nameInSchema, p.type.name, isFieldRequired p.validator.toList)

/-- response codes → referenced type name ("" = no content) -/
def errTypeName (r : Route) : String :=
  match r.responses.getLast? with
  | some t => if t.name = "error" then "Rfc7807Error" else t.name
  | none => ""

def valueTypeName (r : Route) : Option String :=
  if r.responses.length ≤ 1 then none else r.responses.head?.map (·.name)

/-- `operation.Responses.Set` for every error response, then for the success code (which therefore wins
    when an `@ErrorResponse` uses the same code) -/
def docResponses (r : Route) : List (Nat × Option String) :=
  Assoc.setAll [] (r.errorResponses.map (fun e => (e.code, some (errTypeName r))) ++ [(r.successCode, valueTypeName r)])

/-- `swagtool.ToOpenApiType` -/
def toOpenApiType (t : String) : String :=
  if t = "string" then "string"
  else if ["int", "int8", "int16", "int32", "int64", "uint", "uint8", "uint16", "uint32", "uint64"].contains t then "integer"
  else if t = "bool" then "boolean"
  else if t = "float32" || t = "float64" then "number"
  else if t = "[]byte" || t = "bytes" then "binary"
  else if t = "Time" || t = "time.Time" then "date-time"
  else if t.startsWith "[]" then "array"
  else if t.startsWith "map[" then "map"
  else "object"

/-- the shape `InterfaceToSchemaRef` gives a type: `string`, `integer`, …, `string:base64`,
    `string:date-time`, `[]<item>`, `object` (maps / any) or the referenced component's name -/
def schemaShape (fuel : Nat) (t : String) : String :=
  match fuel with
  | 0 => "?"
  | fuel + 1 =>
    match toOpenApiType t with
    | "binary" => "string"
    | "date-time" => "string"
    | "array" => "[]" ++ schemaShape fuel (t.drop 2).toString
    | "map" => "object"
    | "object" => if t = "interface{}" || t = "any" || t = "" then "object" else t
    | o => o

/-! ### C02: the registration table -/

/-- Go: `urlParamRegex.ReplaceAllString(url, ":$1")` with `\{([\w\d-_]+)\}` -/
def isUrlParamChar (c : Char) : Bool := isReWord c || c = '-'

/-- state machine for the leftmost non-overlapping matches of `\{([\w\d-_]+)\}`: `buf = some b` means a
    `{` followed by the parameter characters `b` has been read and not yet emitted -/
def colonizeAux : Option Str → Str → Str
  | none, [] => []
  | some b, [] => '{' :: b
  | none, c :: t => if c = '{' then colonizeAux (some []) t else c :: colonizeAux none t
  | some b, c :: t =>
    if isUrlParamChar c then colonizeAux (some (b ++ [c])) t
    else if c = '}' && !b.isEmpty then ':' :: b ++ colonizeAux none t
    else if c = '{' then '{' :: b ++ colonizeAux (some []) t
    else '{' :: b ++ c :: colonizeAux none t

def colonize (s : Str) : Str := colonizeAux none s

/-- `for strings.Contains(p, "//") { p = strings.ReplaceAll(p, "//", "/") }` has the same result as
    collapsing every run of slashes (`squeeze`; proved for the C15 copy of this loop as
    `Gleece.Paths.collapse`, and sampled here by the correspondence) -/
def ensureLeading (p : Str) : Str := if p.head? = some '/' then p else '/' :: p

/-- `toGinUrl` / `toEchoUrl` / `toFiberUrl`: `{x}` → `:x`, collapse every run of slashes, root the route -/
def colonSqueezeLeading (s : Str) : Str := ensureLeading (squeeze (colonize s))

/-- `toMuxUrl` / `toChiUrl`: collapse every run of slashes, root the route -/
def squeezeLeading (s : Str) : Str := ensureLeading (squeeze s)

inductive UrlConv | colonSqueezeLeading | squeezeLeading
deriving DecidableEq, Repr

def urlConv : UrlConv → Str → Str
  | .colonSqueezeLeading, s => colonSqueezeLeading s
  | .squeezeLeading, s => squeezeLeading s

structure Registration where
  verb : String
  rawPath : String
  controller : String
  op : String
deriving DecidableEq, Repr, Inhabited

/-- every route — hidden ones included — is registered once, in controller/route order -/
def registrations (cs : List Controller) : List Registration :=
  cs.flatMap fun c => c.routes.map fun r => ⟨r.verb, c.path ++ r.path, c.name, r.opId⟩

end Gleece.IR
