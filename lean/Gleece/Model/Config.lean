/-
  C20 — the string-level part of configuration validation (go-playground/validator tags as used on
  `definitions.GleeceConfig`) and `definitions.PermissionStringToFileMod`.
  `url`, `email`, `filepath` are parameters (`lib`), evaluated by the harness with the same library.
-/
import Gleece.Model.Text
namespace Gleece.Config
open Gleece.Text

def isOctal (c : Char) : Bool := '0' ≤ c && c ≤ '7'

/-- `regex=^(0?[0-7]{3})?$` -/
def permsRegex (s : Str) : Bool :=
  match s with
  | [] => true
  | [a, b, c] => isOctal a && isOctal b && isOctal c
  | ['0', a, b, c] => isOctal a && isOctal b && isOctal c
  | _ => false

def octVal (c : Char) : Nat := c.toNat - '0'.toNat

/-- `strconv.ParseUint(s, 8, 32)` for strings of octal digits -/
def parseOctal (s : Str) : Option Nat :=
  if s.isEmpty || !s.all isOctal then none else some (s.foldl (fun acc c => acc * 8 + octVal c) 0)

/-- `PermissionStringToFileMod`: a value above 0o7777 is refused -/
def permToMode (s : Str) : Option Nat :=
  match parseOctal s with
  | some n => if n ≤ 4095 then some n else none
  | none => none

/-- `getOutputFileMod`: empty ⇒ 0644, unparsable ⇒ 0644 -/
def outputFileMode (s : Str) : Nat :=
  if s.isEmpty then 420 else (permToMode s).getD 420

def isLetterAscii (c : Char) : Bool := ('a' ≤ c && c ≤ 'z') || ('A' ≤ c && c ≤ 'Z')

/-- one tag against a string value: `some false` = fails; `none` = `omitempty` cut (skip the rest).
    `lib tag value` stands for go-playground's own predicate (`url`, `email`, `filepath`) and, for a
    non-ASCII first character, for `unicode.IsLetter` of the first character (`letter`). -/
def evalTag (lib : String → Str → Bool) (tag : String) (v : Str) : Option Bool :=
  if tag = "omitempty" then (if v.isEmpty then none else some true)
  else if tag = "required" then some (!v.isEmpty)
  else if tag.startsWith "oneof=" then some (((tag.drop 6).toString.splitOn " ").contains (String.ofList v))
  else if tag.startsWith "regex=" then some (permsRegex v)
  else if tag = "starts_with_letter" then some (match v with | [] => true | c :: _ => if c.toNat < 128 then isLetterAscii c else lib "letter" v)
  else if tag = "security_schema_type" then some (["apiKey", "oauth2", "openIdConnect", "http"].contains (String.ofList v))
  else if tag = "security_schema_in" then some (["", "query", "header", "cookie"].contains (String.ofList v))
  else if tag = "url" || tag = "email" || tag = "filepath" then some (lib tag v)
  else some true

/-- the first failing tag of a field (validator stops at the first failure of a field) -/
def firstFailure (lib : String → Str → Bool) (tags : List String) (v : Str) : Option String :=
  match tags with
  | [] => none
  | t :: rest =>
    match evalTag lib t v with
    | none => none
    | some true => firstFailure lib rest v
    | some false => some (if t.startsWith "oneof=" then "oneof" else if t.startsWith "regex=" then "regex" else t)

/-- `GetTemplateContext`: the package clause -/
def packageName (configured : String) : String := if configured.isEmpty then "routes" else configured

/-! ### `controllerGlobs`: the doublestar patterns the generated configurations use

`*` (a run of non-separator characters), `?` (one non-separator character), a `**` path component (zero or more
directories) and one level of `{a,b}` alternation.  Patterns and paths are relative, cleaned, `/`-separated. -/

/-- one path component against one pattern component -/
def segMatch : Str → Str → Bool
  | [], [] => true
  | [], _ :: _ => false
  | '*' :: ps, s => (List.range (s.length + 1)).any fun k => segMatch ps (s.drop k)
  | '?' :: ps, _ :: cs => segMatch ps cs
  | '?' :: _, [] => false
  | p :: ps, c :: cs => p == c && segMatch ps cs
  | _ :: _, [] => false

/-- components against components; a `**` component stands for any number of directories -/
def segsMatch : List Str → List Str → Bool
  | [], [] => true
  | [], _ :: _ => false
  | p :: ps, s =>
    if p = ['*', '*'] then (List.range (s.length + 1)).any fun k => segsMatch ps (s.drop k)
    else match s with
      | [] => false
      | c :: cs => segMatch p c && segsMatch ps cs

/-- `{a,b}`: the alternatives of the FIRST brace group, each followed by the expansion of the rest -/
def expandBraces (fuel : Nat) (p : Str) : List Str :=
  match fuel with
  | 0 => [p]
  | fuel + 1 =>
    let pre := p.takeWhile (· ≠ '{')
    let rest := p.drop pre.length
    match rest with
    | [] => [p]
    | _ :: body =>
      let inner := body.takeWhile (· ≠ '}')
      let post := body.drop (inner.length + 1)
      if inner.length = body.length then [p]   -- no closing brace: literal
      else (splitOn ',' inner).flatMap fun alt => (expandBraces fuel post).map fun tail => pre ++ alt ++ tail

def pathSegs (p : Str) : List Str := (splitOn '/' p).filter fun s => !s.isEmpty && s ≠ ['.']

/-- does the glob select the (relative, cleaned) file path -/
def globMatch (pattern path : Str) : Bool :=
  (expandBraces pattern.length pattern).any fun p => segsMatch (pathSegs p) (pathSegs path)

end Gleece.Config
