/-
  Model of the generated routers (generator/templates/<engine>/routes.hbs + partials): the handler of a
  route as an engine-independent list of steps, the per-engine accessor table, the conversion table, and
  the small-step reading of `authorize()` and of a handler against an arbitrary authorization callback.
-/
import Gleece.Model.IR
namespace Gleece.Router
open Gleece.IR Gleece.Text

inductive Engine | gin | echo | mux | chi | fiber
deriving DecidableEq, Repr

def Engine.ofString? : String → Option Engine
  | "gin" => some .gin | "echo" => some .echo | "mux" => some .mux | "chi" => some .chi | "fiber" => some .fiber
  | _ => none

def allEngines : List Engine := [.gin, .echo, .mux, .chi, .fiber]

/-- `toGinUrl` / `toEchoUrl` / `toFiberUrl` rewrite `{x}` to `:x`; all five collapse every run of slashes
    and root the route -/
def engineUrlConv : Engine → UrlConv
  | .gin | .echo | .fiber => .colonSqueezeLeading
  | .mux | .chi => .squeezeLeading

/-! ### the accessor table: which framework call reads which request location -/

inductive AccessKind | value | presence | aux
deriving DecidableEq, Repr

/-- (callee as printed from the rendered file, location, kind).  A trailing `[]` marks an index
    expression; mux's path variables are read from `<param>vars[…]`, normalised to `vars[]`. -/
def accessorTable : Engine → List (String × String × AccessKind)
  | .gin => [("ginCtx.Params.Get", "Path", .value), ("ginCtx.GetQuery", "Query", .value), ("ginCtx.GetQueryArray", "Query", .value),
             ("ginCtx.GetHeader", "Header", .value), ("ginCtx.Request.Header[textproto.CanonicalMIMEHeaderKey]", "Header", .presence),
             ("ginCtx.GetPostForm", "Form", .value)]
  | .echo => [("echoCtx.Param", "Path", .value), ("echoCtx.QueryParam", "Query", .value), ("echoCtx.QueryParams()[]", "Query", .value),
              ("echoCtx.Request().URL.Query().Has", "Query", .presence), ("echoCtx.Request().Header.Get", "Header", .value),
              ("echoCtx.Request().Header[]", "Header", .presence), ("echoCtx.Request().Header.Values", "Header", .presence),
              ("echoCtx.Request().PostForm[]", "Form", .value)]
  | .mux => [("vars[]", "Path", .value), ("req.URL.Query().Get", "Query", .value), ("req.URL.Query()[]", "Query", .value),
             ("req.URL.Query().Has", "Query", .presence), ("req.Header.Get", "Header", .value), ("req.Header[]", "Header", .presence),
             ("req.Header.Values", "Header", .presence), ("req.PostForm[]", "Form", .value)]
  | .chi => [("chi.URLParam", "Path", .value), ("req.URL.Query().Get", "Query", .value), ("req.URL.Query()[]", "Query", .value),
             ("req.URL.Query().Has", "Query", .presence), ("req.Header.Get", "Header", .value), ("req.Header[]", "Header", .presence),
             ("req.Header.Values", "Header", .presence), ("req.PostForm[]", "Form", .value)]
  | .fiber => [("fiberCtx.Params", "Path", .value), ("fiberCtx.Query", "Query", .value),
               ("fiberCtx.Context().QueryArgs().PeekMulti", "Query", .value), ("fiberCtx.Context().QueryArgs().Has", "Query", .presence),
               ("fiberCtx.Get", "Header", .value), ("fiberCtx.Request().Header.Peek", "Header", .presence),
               ("fiberCtx.FormValue", "Form", .value), ("fiberCtx.Context().PostArgs().Has", "Form", .presence)]

/-! ### conversions: declared Go type → strconv call -/

inductive ConvFn | atoi | parseInt | parseUint | parseBool | parseFloat
deriving DecidableEq, Repr

def ConvFn.name : ConvFn → String
  | .atoi => "Atoi" | .parseInt => "ParseInt" | .parseUint => "ParseUint" | .parseBool => "ParseBool" | .parseFloat => "ParseFloat"

/-- the conversion table shared (textually, five copies) by all engines:
    (Go type, function, bitSize argument as written; `none` = the function takes no bit size;
    `some 0` is strconv's spelling of "the size of int / uint") -/
def convTable : List (String × ConvFn × Option Nat) :=
  [("int", .atoi, none), ("int8", .parseInt, some 8), ("int16", .parseInt, some 16), ("int32", .parseInt, some 32), ("int64", .parseInt, some 64),
   ("uint", .parseUint, some 0), ("uint8", .parseUint, some 8), ("uint16", .parseUint, some 16), ("uint32", .parseUint, some 32), ("uint64", .parseUint, some 64),
   ("bool", .parseBool, none), ("float32", .parseFloat, some 32), ("float64", .parseFloat, some 64)]

/-- the bit size strconv actually enforces: `Atoi` = `ParseInt(s, 10, 0)`; bitSize 0 = platform word (64) -/
def effectiveBits : ConvFn → Option Nat → Nat
  | .atoi, _ => 64
  | _, some 0 => 64
  | _, some n => n
  | _, none => 0

/-- width in bits of the Go type on the supported (64-bit) platforms; 0 = not an integer -/
def intWidth : String → Nat
  | "int" => 64 | "int8" => 8 | "int16" => 16 | "int32" => 32 | "int64" => 64
  | "uint" => 64 | "uint8" => 8 | "uint16" => 16 | "uint32" => 32 | "uint64" => 64
  | _ => 0

def isSignedInt (t : String) : Bool := ["int", "int8", "int16", "int32", "int64"].contains t
def isUnsignedInt (t : String) : Bool := ["uint", "uint8", "uint16", "uint32", "uint64"].contains t

def stripArrayPrefixes (t : String) : String :=
  let rec go : List Char → List Char
    | '[' :: ']' :: r => go r
    | r => r
  String.ofList (go t.toList)

def arrayPrefixes (t : String) : String :=
  let rec go : List Char → List Char
    | '[' :: ']' :: r => '[' :: ']' :: go r
    | _ => []
  String.ofList (go t.toList)

/-- the primitive that decides the conversion: the type itself or, for enums / aliases, its underlying type -/
def convKey (t : TypeMeta) : Option String :=
  let n := stripArrayPrefixes t.name
  let a := stripArrayPrefixes t.aliasType
  if (convTable.map (·.1)).contains n then some n
  else if (convTable.map (·.1)).contains a then some a
  else none

/-! ### the canonical handler -/

inductive Step
  | auth (lists : Security)
  | guard
  | newController (name : String)
  | init
  | decl (var ty : String)
  | bind (loc wire : String)
  | conv (fn : String) (bits : String)
  | validate (var tag : String)
  | body (var tag : String)
  | call (op : String) (args : List (String × Bool)) (value : Bool)
  | reply
  | unknown (what : String)
deriving DecidableEq, Repr

/-- raymond's `Escape`.  Until the fix for C05-F2 the validate string went through it (`{{Validator}}`, two braces) in all
    five template sets; it is rendered as a Go string literal now and the tag is the declared string.  Kept for the
    theorems that say what the escaping did. -/
def htmlEscape (s : String) : String :=
  String.ofList (s.toList.flatMap fun c =>
    if c = '&' then "&amp;".toList else if c = '\'' then "&apos;".toList else if c = '<' then "&lt;".toList
    else if c = '>' then "&gt;".toList else if c = '"' then "&quot;".toList else [c])

def declType (p : Param) : String :=
  let q := if p.type.pkgPath.isEmpty then "" else s!"Param{p.serial}{p.name}."
  if p.passedIn = "Query" || p.passedIn = "Body" then arrayPrefixes p.type.name ++ q ++ stripArrayPrefixes p.type.name
  else q ++ p.type.name

def paramSteps (p : Param) : List Step :=
  if p.isContext then [] else
  let var := p.name ++ "RawPtr"
  if p.passedIn = "Body" then [.decl var (declType p), .body var p.validator]
  else
    [.decl var (declType p), .bind p.passedIn p.nameInSchema] ++
    (match convKey p.type with
     | some k => match convTable.find? (·.1 = k) with
        | some (_, fn, bits) => [.conv fn.name (match bits with | some b => toString b | none => "")]
        | none => []
     | none => []) ++
    (if p.validator.isEmpty then [] else [.validate var p.validator])

def callArgs (r : Route) : List (String × Bool) :=
  r.params.map fun p => if p.isContext then ("ctx", false) else (p.name ++ "RawPtr", !p.type.isByAddress)

/-- the handler every engine's template renders for a route (engine-specific atoms erased) -/
def handlerOf (c : Controller) (r : Route) : List Step :=
  [.auth (enforcedSecurity r), .guard, .newController (c.name ++ "." ++ c.name), .init] ++
  r.params.flatMap paramSteps ++
  [.call r.opId (callArgs r) r.hasReturnValue, .reply]

/-- a step that touches the request's parameters or the controller -/
def Step.isControllerOrParse : Step → Bool
  | .newController _ | .init | .decl _ _ | .bind _ _ | .conv _ _ | .validate _ _ | .body _ _ | .call _ _ _ | .reply => true
  | _ => false

def Step.notGate : Step → Bool
  | .auth _ => false
  | .guard => false
  | _ => true

/-- the authorization call and its guard come first: every parsing / controller step sits after the guard -/
def gateFirst (steps : List Step) : Bool :=
  match steps with
  | .auth _ :: .guard :: rest => rest.all Step.notGate
  | _ => false

/-! ### `authorize()` against an arbitrary (stateful, adversarial) callback -/

structure Check where
  scheme : String
  scopes : List String
deriving DecidableEq, Repr

/-- the callback sees everything it was asked before in this request -/
abbrev Callback := List Check → Check → Option String     -- `some e` = refusal with error `e`

/-- one alternative: checks are asked in order; the first refusal stops the list -/
def runList (cb : Callback) : List Check → List Check → Option String × List Check
  | hist, [] => (none, hist)
  | hist, c :: cs =>
    match cb hist c with
    | some e => (some e, hist ++ [c])
    | none => runList cb (hist ++ [c]) cs

/-- `authorize`: alternatives in order; the first clean one approves; otherwise the LAST error -/
def authorize (cb : Callback) : List Check → Option String → List (List Check) → Option String × List Check
  | hist, last, [] => (last, hist)
  | hist, _, l :: ls =>
    match runList cb hist l with
    | (none, hist') => (none, hist')
    | (some e, hist') => authorize cb hist' (some e) ls

def checksOf (l : SecList) : List Check := l.map fun c => ⟨c.name, c.scopes⟩

inductive Event
  | asked (c : Check)
  | refused (err : String)
  | controllerStep (s : Step)
deriving Repr

/-- run a handler: the authorization step asks the callback; the guard stops the handler on refusal;
    every other step is recorded -/
def exec (cb : Callback) (steps : List Step) : List Event :=
  let rec go (authErr : Option String) : List Step → List Event
    | [] => []
    | .auth lists :: rest =>
      let (res, hist) := authorize cb [] none (lists.map checksOf)
      hist.map Event.asked ++ go res rest
    | .guard :: rest =>
      match authErr with
      | some e => [Event.refused e]
      | none => go none rest
    | s :: rest => Event.controllerStep s :: go authErr rest
  go none steps

end Gleece.Router
