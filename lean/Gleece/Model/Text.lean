/-
  Text helpers over `List Char` (DESIGN Appendix A.1).

  Model definitions that theorems mention never use the `String` API; text is
  `List Char`, converted at the driver boundary only.  Each helper mirrors the Go
  `strings` function named in its comment.
-/
namespace Gleece.Text

abbrev Str := List Char

/-- `strings.Split(s, string(sep))` for a one-character separator. -/
def splitOn (sep : Char) : Str → List Str
  | [] => [[]]
  | c :: t =>
    if c = sep then [] :: splitOn sep t
    else match splitOn sep t with
      | h :: r => (c :: h) :: r
      | [] => [[c]]

theorem splitOn_ne_nil (sep : Char) (s : Str) : splitOn sep s ≠ [] := by
  induction s with
  | nil => simp [splitOn]
  | cons c t ih =>
    unfold splitOn
    split
    · simp
    · split <;> simp

/-- `strings.Join(parts, string(sep))`. -/
def joinWith (sep : Char) : List Str → Str
  | [] => []
  | [a] => a
  | a :: b :: r => a ++ sep :: joinWith sep (b :: r)

/-- `strings.HasPrefix`. -/
def hasPrefix : Str → Str → Bool
  | _, [] => true
  | [], _ :: _ => false
  | c :: s, d :: p => c == d && hasPrefix s p

/-- `strings.HasSuffix`. -/
def hasSuffix (s p : Str) : Bool := hasPrefix s.reverse p.reverse

/-- Drop leading characters satisfying `f` (`strings.TrimLeftFunc`). -/
def trimLeftBy (f : Char → Bool) : Str → Str
  | [] => []
  | c :: t => if f c then trimLeftBy f t else c :: t

/-- `strings.TrimRightFunc`. -/
def trimRightBy (f : Char → Bool) (s : Str) : Str := (trimLeftBy f s.reverse).reverse

/-- Unicode white space as far as Go's `unicode.IsSpace` is concerned for Latin-1,
    plus the common wide ones; used for `strings.TrimSpace` / regex `\s` (ASCII only for
    the regex, see `isReSpace`). -/
def isGoSpace (c : Char) : Bool :=
  let n := c.toNat
  (0x09 ≤ n && n ≤ 0x0d) || n = 0x20 || n = 0x85 || n = 0xa0 || n = 0x1680 ||
  (0x2000 ≤ n && n ≤ 0x200a) || n = 0x2028 || n = 0x2029 || n = 0x202f || n = 0x205f || n = 0x3000

/-- `strings.TrimSpace`. -/
def trimSpace (s : Str) : Str := trimRightBy isGoSpace (trimLeftBy isGoSpace s)

/-- RE2 `\s` : `[\t\n\f\r ]`. -/
def isReSpace (c : Char) : Bool := c = ' ' || c = '\t' || c = '\n' || c = '\x0c' || c = '\r'

/-- RE2 `\w` : `[0-9A-Za-z_]`. -/
def isReWord (c : Char) : Bool :=
  ('0' ≤ c && c ≤ '9') || ('A' ≤ c && c ≤ 'Z') || ('a' ≤ c && c ≤ 'z') || c = '_'

/-- Does `s` contain `p` as a contiguous substring (`strings.Contains`). -/
def contains : Str → Str → Bool
  | [], p => p.isEmpty
  | c :: s, p => hasPrefix (c :: s) p || contains s p

/-- number of UTF-8 bytes of a character -/
def utf8Len (c : Char) : Nat :=
  if c.toNat < 0x80 then 1 else if c.toNat < 0x800 then 2 else if c.toNat < 0x10000 then 3 else 4

def utf8Size (s : Str) : Nat := (s.map utf8Len).sum

/-- `strconv.ParseUint(s, 10, _)` without the size check: one or more ASCII digits, nothing else (no sign, no `_`
    separators - which Lean's own `String.toNat?` accepts - no other scripts' digits) -/
def parseUint (s : String) : Option Nat :=
  let cs := s.toList
  if cs.isEmpty || !cs.all (fun c => decide (48 ≤ c.toNat) && decide (c.toNat ≤ 57)) then none
  else some (cs.foldl (fun n c => n * 10 + (c.toNat - 48)) 0)

end Gleece.Text
