def hello := "world"
