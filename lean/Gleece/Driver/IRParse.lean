import Gleece.Driver.Common
import Gleece.Model.IR
open Lean
namespace Gleece.Driver
open Gleece.IR

def strList (j : Json) (k : String) : List String :=
  (jarrD j k).toList.filterMap (·.getStr?.toOption)

def parseSecComp (j : Json) : SecComp := ⟨jstrD j "name", strList j "scopes"⟩

def parseSecurity (j : Json) (k : String) : Security :=
  (jarrD j k).toList.map fun l => (l.getArr?.toOption.getD #[]).toList.map parseSecComp

def parseType (j : Json) : TypeMeta :=
  { name := jstrD j "name", pkgPath := jstrD j "pkgPath", isByAddress := jboolD j "isByAddress",
    symbolKind := jstrD j "symbolKind", aliasType := jstrD j "aliasType", aliasValues := strList j "aliasValues" }

def parseParam (j : Json) : Param :=
  { name := jstrD j "name", isContext := jboolD j "isContext", passedIn := jstrD j "passedIn",
    nameInSchema := jstrD j "nameInSchema", description := jstrD j "description", validator := jstrD j "validator",
    deprecated := jboolD j "deprecated", serial := (jnat j "serial").toOption.getD 0,
    type := parseType ((j.getObjVal? "type").toOption.getD Json.null) }

def parseRoute (j : Json) : Route :=
  { opId := jstrD j "opId", verb := jstrD j "verb", hidden := jboolD j "hidden", deprecated := jboolD j "deprecated",
    description := jstrD j "description", path := jstrD j "path",
    params := (jarrD j "params").toList.map parseParam,
    responses := (jarrD j "responses").toList.map parseType,
    hasReturnValue := jboolD j "hasReturnValue", respDescription := jstrD j "respDescription",
    successCode := (jnat j "successCode").toOption.getD 0,
    errorResponses := (jarrD j "errorResponses").toList.map fun e => ⟨(jnat e "code").toOption.getD 0, jstrD e "description"⟩,
    security := parseSecurity j "security" }

def parseController (j : Json) : Controller :=
  { name := jstrD j "name", pkgPath := jstrD j "pkgPath", tag := jstrD j "tag", path := jstrD j "path",
    routes := (jarrD j "routes").toList.map parseRoute, security := parseSecurity j "security" }

def parseCfg (j : Json) : Cfg :=
  { schemes := (jarrD j "schemes").toList.map (jstrD · "name"),
    defaultSecurity := match (j.getObjVal? "defaultSecurity").toOption with
      | some Json.null => none
      | some d => some (parseSecComp d)
      | none => none,
    enforce := jboolD j "enforce" }

structure IRDoc where
  cfg : Cfg
  cfgJson : Json
  controllers : List Controller
  structs : List Json
  enums : List Json
  aliases : List Json
  plainError : Bool
  engines : List String

def parseIRDoc (j : Json) : IRDoc :=
  let cj := (j.getObjVal? "config").toOption.getD Json.null
  { cfg := parseCfg cj, cfgJson := cj,
    controllers := (jarrD j "controllers").toList.map parseController,
    structs := (jarrD j "structs").toList, enums := (jarrD j "enums").toList, aliases := (jarrD j "aliases").toList,
    plainError := jboolD j "plainError", engines := strList j "engines" }

/-! ### reading an emitted OpenAPI document -/

def httpVerbsLower : List String := ["get", "put", "post", "delete", "patch", "options", "head", "trace"]

def objEntries (j : Json) : List (String × Json) :=
  match j with
  | .obj kvs => kvs.toList   -- sorted by key (RBNode order)
  | _ => []

/-- (verb, path, operation JSON) for every operation of a document -/
def docOperations (doc : Json) : List (String × String × Json) :=
  (objEntries ((doc.getObjVal? "paths").toOption.getD Json.null)).flatMap fun (p, item) =>
    httpVerbsLower.filterMap fun v => (item.getObjVal? v).toOption.map fun op => (v.toUpper, p, op)

def opSigOf (v p : String) (op : Json) : OpSig :=
  { verb := v, path := p, opId := jstrD op "operationId",
    tag := ((jarrD op "tags")[0]?.bind (·.getStr?.toOption)).getD "",
    deprecated := jboolD op "deprecated" }

def opSigJson (o : OpSig) : Json :=
  Json.arr #[(o.verb : Json), (o.path : Json), (o.opId : Json), (o.tag : Json), (o.deprecated : Json)]

def sortStrs (l : List String) : List String := l.mergeSort (fun a b => a ≤ b)

def sortJsonByText (l : List Json) : List Json :=
  (l.map fun j => (j.compress, j)).mergeSort (fun a b => a.1 ≤ b.1) |>.map (·.2)

/-- security requirement array of an operation → model `Security` -/
def opSecurity (op : Json) : Option Security :=
  (op.getObjVal? "security").toOption.bind fun s => s.getArr?.toOption.map fun arr =>
    arr.toList.map fun req => (objEntries req).map fun (n, sc) =>
      (⟨n, (sc.getArr?.toOption.getD #[]).toList.filterMap (·.getStr?.toOption)⟩ : SecComp)

def secJson (s : Security) : Json :=
  Json.arr (s.map fun l => Json.arr (l.map fun c => Json.mkObj [("name", c.name), ("scopes", Json.arr (c.scopes.map Json.str).toArray)]).toArray).toArray

end Gleece.Driver
