/-
  Mode "cfg" (C20): the configuration interpreter over the REGENERATED struct tree
  (`Gleece.Generated.configSchema`, reflected from /repo's GleeceConfig on every run) with the tag
  semantics of `Gleece.Config` (proved in Properties/C20), compared with what the real command did.
-/
import Gleece.Driver.IR
import Gleece.Model.Config
import Gleece.Generated.ConfigSchema
open Lean
namespace Gleece.Driver
open Gleece.Config

structure CfgRow where
  path : String
  field : String
  kind : String
  tags : List String

def cfgRows : List CfgRow :=
  Gleece.Generated.configSchema.map fun r => ⟨r.1, r.2.1, r.2.2.1, if r.2.2.2.isEmpty then [] else r.2.2.2.splitOn ","⟩

def childName (pfx path : String) : Option String :=
  let p := if pfx.isEmpty then "" else pfx ++ "."
  if path.startsWith p then
    let rest := (path.drop p.length).toString
    if rest.isEmpty || (rest.splitOn ".").length > 1 then none else some rest
  else none

def getMember (obj : Option Json) (name : String) : Option Json :=
  match obj with
  | some (.obj _) => match (obj.get!.getObjVal? name).toOption with
      | some .null => none
      | x => x
  | _ => none

structure CfgEval where
  rejected : List (String × String) := []
  unmarshalErr : Bool := false
  unsupported : List String := []
  deriving Inhabited

/-- slice-kind tags: the value is `none` (nil) or `some n` (length) -/
def sliceFailure (tags : List String) (v : Option Nat) : Option String :=
  match tags with
  | [] => none
  | t :: rest =>
    if t = "omitempty" then (if v.isNone then none else sliceFailure rest v)
    else if t = "min=1" then (if v.getD 0 ≥ 1 then sliceFailure rest v else some "min")
    else if t = "not_nil_array" then (if v.isSome then sliceFailure rest v else some "not_nil_array")
    else if t = "required" then (if v.isSome then sliceFailure rest v else some "required")
    else sliceFailure rest v

def knownStringTag (t : String) : Bool :=
  ["omitempty", "required", "starts_with_letter", "security_schema_type", "security_schema_in", "url", "email", "filepath"].contains t
    || t.startsWith "oneof=" || t = "regex=^(0?[0-7]{3})?$"

/-- go-playground traversal: fields in declaration order, depth first; a plain struct is always entered
    (its `required` tag is a no-op without WithRequiredStructEnabled), a nil pointer is skipped, `dive`
    enters every element; one report per field (the first failing tag). -/
partial def evalStruct (lib : String → Gleece.Text.Str → Bool) (pfx : String) (obj : Option Json) : CfgEval := Id.run do
  let mut acc : CfgEval := {}
  match obj with
  | some (.obj _) | none => pure ()
  | some _ => return { unmarshalErr := true }
  for r in cfgRows do
    match childName pfx r.path with
    | none => pure ()
    | some name =>
      let v := getMember obj name
      if r.kind = "string" then
        match v with
        | some (.str s) =>
          for t in r.tags do if !knownStringTag t then acc := { acc with unsupported := acc.unsupported ++ [r.path ++ ":" ++ t] }
          match firstFailure lib r.tags s.toList with
          | some t => acc := { acc with rejected := acc.rejected ++ [(r.field, t)] }
          | none => pure ()
        | none =>
          match firstFailure lib r.tags [] with
          | some t => acc := { acc with rejected := acc.rejected ++ [(r.field, t)] }
          | none => pure ()
        | some _ => acc := { acc with unmarshalErr := true }
      else if r.kind = "slice" then
        match v with
        | some (.arr xs) => match sliceFailure r.tags (some xs.size) with
            | some t => acc := { acc with rejected := acc.rejected ++ [(r.field, t)] }
            | none => pure ()
        | none => match sliceFailure r.tags none with
            | some t => acc := { acc with rejected := acc.rejected ++ [(r.field, t)] }
            | none => pure ()
        | some _ => acc := { acc with unmarshalErr := true }
      else if r.kind = "struct" then
        let sub := evalStruct lib r.path v
        acc := { rejected := acc.rejected ++ sub.rejected, unmarshalErr := acc.unmarshalErr || sub.unmarshalErr, unsupported := acc.unsupported ++ sub.unsupported }
      else if r.kind = "ptr-struct" then
        match v with
        | none => pure ()
        | some _ =>
          let sub := evalStruct lib r.path v
          acc := { rejected := acc.rejected ++ sub.rejected, unmarshalErr := acc.unmarshalErr || sub.unmarshalErr, unsupported := acc.unsupported ++ sub.unsupported }
      else if r.kind = "slice-struct" then
        match v with
        | some (.arr xs) =>
          if r.tags.contains "dive" then
            for x in xs do
              let sub := evalStruct lib (r.path ++ "[]") (some x)
              acc := { rejected := acc.rejected ++ sub.rejected, unmarshalErr := acc.unmarshalErr || sub.unmarshalErr, unsupported := acc.unsupported ++ sub.unsupported }
        | none => pure ()
        | some _ => acc := { acc with unmarshalErr := true }
      else if r.kind = "bool" then
        match v with
        | some (.bool _) | none => pure ()
        | some _ => acc := { acc with unmarshalErr := true }
        if !r.tags.isEmpty then acc := { acc with unsupported := acc.unsupported ++ [r.path] }
      else if r.kind = "map" then
        match v with
        | some (.obj _) | none => pure ()
        | some _ => acc := { acc with unmarshalErr := true }
        if !r.tags.isEmpty then acc := { acc with unsupported := acc.unsupported ++ [r.path] }
      else
        acc := { acc with unsupported := acc.unsupported ++ [r.path ++ ":" ++ r.kind] }
  return acc

def cleanRel (p : String) : String :=
  let segs := (p.splitOn "/").filter fun s => s ≠ "." && s ≠ ""
  "/".intercalate segs

def octal4 (n : Nat) : String :=
  let d (k : Nat) := Char.ofNat (48 + (n / k) % 8)
  String.ofList [d 512, d 64, d 8, d 1]

def strPath (j : Json) (path : List String) : String :=
  match path with
  | [] => (j.getStr?).toOption.getD ""
  | k :: rest => match getMember (some j) k with
    | some v => strPath v rest
    | none => ""

/-- drop empty strings, nulls, empty objects and empty arrays, recursively -/
partial def dropEmpty (j : Json) : Option Json :=
  match j with
  | .null => none
  | .str s => if s.isEmpty then none else some j
  | .arr xs => let ys := xs.toList.filterMap dropEmpty; if ys.isEmpty then none else some (Json.arr ys.toArray)
  | .obj kvs =>
    let ys := kvs.toList.filterMap fun (k, v) => (dropEmpty v).map fun w => (k, w)
    if ys.isEmpty then none else some (Json.mkObj ys)
  | _ => some j

def pick (j : Json) (keys : List (String × String)) : Json :=
  Json.mkObj (keys.filterMap fun (from_, to) => (getMember (some j) from_).map fun v => (to, v))

/-- what the configuration says the document's `info` is -/
def expectedInfo (cfg : Json) : Json :=
  let info := (getMember (some cfg) "openapiGeneratorConfig" |>.bind (getMember · "info")).getD Json.null
  let base := pick info [("title", "title"), ("version", "version"), ("description", "description"), ("termsOfService", "termsOfService")]
  let contact := (getMember (some info) "contact").map fun c => pick c [("name", "name"), ("url", "url"), ("email", "email")]
  let license := (getMember (some info) "license").map fun c => pick c [("name", "name"), ("url", "url")]
  let withC := match contact with | some c => base.setObjVal! "contact" c | none => base
  match license with | some l => withC.setObjVal! "license" l | none => withC

/-- what the configuration says components.securitySchemes is -/
def expectedSchemes (cfg : Json) : Json :=
  match getMember (some cfg) "openapiGeneratorConfig" |>.bind (getMember · "securitySchemes") with
  | some (.arr xs) => Json.mkObj (xs.toList.map fun sc =>
      let flows := (getMember (some sc) "flows").map fun f =>
        Json.mkObj ((["implicit", "password", "clientCredentials", "authorizationCode"].filterMap fun k =>
          (getMember (some f) k).map fun fl => (k, pick fl [("authorizationUrl", "authorizationUrl"), ("tokenUrl", "tokenUrl"), ("refreshUrl", "refreshUrl"), ("scopes", "scopes")])))
      let base := pick sc [("type", "type"), ("description", "description"), ("in", "in"), ("fieldName", "name"), ("scheme", "scheme"), ("openIdConnectUrl", "openIdConnectUrl")]
      (jstrD sc "name", match flows with | some f => base.setObjVal! "flows" f | none => base))
  | _ => Json.mkObj []

def checkC20 (input : Json) (impl : Json) : PropOut := Id.run do
  let raw := jstrD input "raw"
  let cfg := (input.getObjVal? "config").toOption.getD Json.null
  let libTbl := objEntries ((impl.getObjVal? "_lib").toOption.getD Json.null)
  let lib : String → Gleece.Text.Str → Bool := fun tag v =>
    match libTbl.lookup (tag ++ "|" ++ String.ofList v) with
    | some (.bool b) => b
    | _ => false
  let implRejected := (jarrD impl "rejected").toList.map fun p => Json.arr #[Json.str ((p.getArrVal? 0).toOption.bind (·.getStr?.toOption) |>.getD ""), Json.str ((p.getArrVal? 1).toOption.bind (·.getStr?.toOption) |>.getD "")]
  let otherErr := jstrD impl "otherErr"
  let implFiles := (jarrD impl "files").toList.map fun f => (jstrD f "path", jstrD f "mode")
  let mut fails : List String := []
  let mut mfails : List String := []
  -- permission parser tie (any string, accepted or not)
  let perms := strPath cfg ["routesConfig", "outputFilePerms"]
  match (impl.getObjVal? "permParse").toOption with
  | some pp =>
    let want := permToMode perms.toList
    let got : Option Nat := if jboolD pp "ok" then (jnat pp "mode").toOption else none
    if want ≠ got then mfails := mfails ++ [s!"permToMode({perms})={want} impl={got}"]
  | none => pure ()
  if !raw.isEmpty then
    -- a document that does not parse: refused, nothing written
    let ok := !otherErr.isEmpty && implFiles.isEmpty && implRejected.isEmpty
    return { model := Json.str "unparsable", implView := Json.str (if ok then "unparsable" else "accepted-or-wrote"),
             implFails := if ok then [] else ["unparsable-config-not-refused-cleanly"], notes := ["d:unparsable"] }
  let ev := evalStruct lib "" (some cfg)
  if !ev.unsupported.isEmpty then mfails := mfails ++ ev.unsupported.map (s!"unsupported-tag:{·}")
  if ev.unmarshalErr then
    let ok := !otherErr.isEmpty && implFiles.isEmpty && implRejected.isEmpty
    return { model := Json.str "type-mismatch", implView := Json.str (if ok then "type-mismatch" else "accepted-or-wrote"),
             implFails := if ok then [] else ["ill-typed-config-not-refused-cleanly"], modelFails := mfails, notes := ["d:type-mismatch"] }
  let want := Json.arr (ev.rejected.map fun (f, t) => Json.arr #[Json.str f, Json.str t]).toArray
  let got := Json.arr implRejected.toArray
  if !ev.rejected.isEmpty then
    -- rejected: the same (field, tag) reports in the same order, and nothing was written
    if !implFiles.isEmpty then fails := fails ++ [s!"rejected-config-wrote:{implFiles.map (·.1)}"]
    return { model := Json.mkObj [("rejected", want)], implView := Json.mkObj [("rejected", got)], implFails := fails, modelFails := mfails,
             notes := ["d:rejected", s!"d:reports={ev.rejected.length}"] ++ ev.rejected.map (fun (_, t) => "d:tag-" ++ t) }
  -- accepted by the declared constraints
  -- C20-F1: `commonConfig` is declared `validate:"required"`, a document without it is accepted
  let noCommon := (getMember (some cfg) "commonConfig").isNone
  if noCommon && implRejected.isEmpty then fails := fails ++ ["C20-F1:missing-required-section-accepted:commonConfig"]
  let routesPath := cleanRel (strPath cfg ["routesConfig", "outputPath"])
  let specPath := cleanRel (strPath cfg ["openapiGeneratorConfig", "specGeneratorConfig", "outputPath"])
  let mode := octal4 (outputFileMode perms.toList)
  let schemes := (match getMember (some cfg) "openapiGeneratorConfig" |>.bind (getMember · "securitySchemes") with
    | some (.arr xs) => xs.toList.map (jstrD · "name")
    | _ => [])
  let globs : Option (List String) := match getMember (some cfg) "commonConfig" |>.bind (getMember · "controllerGlobs") with
    | some (.arr xs) => some (xs.toList.map fun x => x.getStr?.toOption.getD "")
    | _ => none
  let ctlFiles := [("ctl/a.go", "TagA"), ("ctl/b.go", "TagB"), ("ctl/sub/c.go", "TagC"), ("ctl/sub/deep/d.go", "TagD")]
  let ctls := (ctlFiles.filter fun (f, _) => match globs with
    | none => true
    | some gs => gs.any fun g => Gleece.Config.globMatch g.toList f.toList).map (·.2)
  let sortS (l : List String) := (l.toArray.qsort (· < ·)).toList
  if !otherErr.isEmpty then
    -- accepted by every declared constraint, refused later
    -- the document could not be generated from a configuration that passes every declared constraint (a scheme
    -- that is malformed for OpenAPI; a route naming an undeclared scheme: C04's refusal): the command fails — and
    -- must not leave anything behind (this was finding C20-F2)
    let known := (otherErr.splitOn "invalid components: security scheme").length > 1 || (otherErr.splitOn "Building security").length > 1
    if !known then fails := fails ++ [s!"accepted-config-failed:{otherErr.take 120}"]
    if !implFiles.isEmpty then fails := fails ++ [s!"C20-F2:partial-output-after-late-error:{implFiles.map (·.1)}"]
    return { model := Json.str "accepted", implView := Json.str "accepted", implFails := fails, modelFails := mfails, nontrivial := false,
             notes := ["d:accepted-then-downstream-error"] }
  let wantView := Json.mkObj [
    ("rejected", want),
    ("files", Json.arr ((sortS [routesPath ++ " " ++ mode, specPath ++ " 0644"]).map Json.str).toArray),
    ("package", Json.str (packageName (strPath cfg ["routesConfig", "packageName"]))),
    ("engine", Json.str (strPath cfg ["routesConfig", "engine"])),
    ("openapi", Json.str (strPath cfg ["openapiGeneratorConfig", "openapi"])),
    ("title", Json.str (strPath cfg ["openapiGeneratorConfig", "info", "title"])),
    ("version", Json.str (strPath cfg ["openapiGeneratorConfig", "info", "version"])),
    ("servers", Json.arr #[Json.str (strPath cfg ["openapiGeneratorConfig", "baseUrl"])]),
    ("schemes", Json.arr ((sortS schemes.eraseDups).map Json.str).toArray),
    ("controllers", Json.arr ((sortS ctls).map Json.str).toArray),
    ("info", (dropEmpty (expectedInfo cfg)).getD Json.null),
    ("securitySchemes", (dropEmpty (expectedSchemes cfg)).getD Json.null)]
  let gotView := Json.mkObj [
    ("rejected", got),
    ("files", Json.arr ((sortS (implFiles.map fun (p, m) => p ++ " " ++ m)).map Json.str).toArray),
    ("package", Json.str (jstrD impl "package")),
    ("engine", Json.str (jstrD impl "engineMarker")),
    ("openapi", Json.str (jstrD impl "openapi")),
    ("title", Json.str (jstrD impl "title")),
    ("version", Json.str (jstrD impl "version")),
    ("servers", Json.arr ((jarrD impl "servers").toList.map fun s => Json.str (s.getStr?.toOption.getD "")).toArray),
    ("schemes", Json.arr ((jarrD impl "schemes").toList.map fun s => Json.str (s.getStr?.toOption.getD "")).toArray),
    ("controllers", Json.arr ((jarrD impl "controllers").toList.map fun s => Json.str (s.getStr?.toOption.getD "")).toArray),
    ("info", (dropEmpty ((impl.getObjVal? "info").toOption.getD Json.null)).getD Json.null),
    ("securitySchemes", (dropEmpty ((impl.getObjVal? "secSchemes").toOption.getD Json.null)).getD Json.null)]
  -- "honoured literally": every member the configuration determines must be what was produced
  let keys := ["rejected", "files", "package", "engine", "openapi", "title", "version", "servers", "schemes", "controllers", "info", "securitySchemes"]
  let badKeys := keys.filter fun k => ((wantView.getObjVal? k).toOption.map Json.compress) ≠ ((gotView.getObjVal? k).toOption.map Json.compress)
  if !badKeys.isEmpty then fails := fails ++ [s!"accepted-config-not-honoured:{badKeys}"]
  return { model := wantView, implView := gotView, implFails := fails, modelFails := mfails,
           notes := ["d:accepted", "d:engine-" ++ strPath cfg ["routesConfig", "engine"], "d:mode-" ++ mode, s!"d:controllers={ctls.length}"] }

def cfgHandler : Handler := fun prop input impl => do
  if prop ≠ "C20" && prop ≠ "C08" then throw s!"mode cfg: no check for property {prop}"
  let out0 := checkC20 input (impl.getD Json.null)
  -- C08 looks only at what the DOCUMENT says about the configuration (title, version, servers, securitySchemes, info)
  let out := if prop = "C20" then out0 else
    { out0 with implFails := out0.implFails.filter fun f => f.startsWith "accepted-config-not-honoured" &&
        ((f.splitOn "info").length > 1 || (f.splitOn "securitySchemes").length > 1 || (f.splitOn "title").length > 1 || (f.splitOn "version").length > 1 || (f.splitOn "servers").length > 1 || (f.splitOn "schemes").length > 1) }
  let tag (pre : String) (f : String) :=
    if f.length > 4 && f.get 0 = 'C' && (f.splitOn "-F").length > 1 && (f.splitOn ":").length > 1 && ((f.splitOn ":")[0]!).length ≤ 8
    then pre ++ f else pre ++ "new:" ++ f
  let implFails := if impl.isNone then ["no-answer"] else out.implFails
  pure { model := out.model, implView := some out.implView, specModel := out.modelFails.isEmpty, specImpl := implFails.isEmpty,
         nontrivial := out.nontrivial,
         notes := (implFails.take 8).map (tag "implfail:") ++ (out.modelFails.take 8).map (tag "modelfail:") ++ out.notes }

end Gleece.Driver
