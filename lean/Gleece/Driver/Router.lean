import Gleece.Driver.IR
import Gleece.Model.Router
open Lean
namespace Gleece.Driver
open Gleece.IR Gleece.Router Gleece.Text

def stepJson : Step → Json
  | .auth l => Json.arr #["auth", secJson l]
  | .guard => Json.arr #["guard"]
  | .newController n => Json.arr #["new", (n : Json)]
  | .init => Json.arr #["init"]
  | .decl v t => Json.arr #["decl", (v : Json), (t : Json)]
  | .bind l w => Json.arr #["bind", (l : Json), (w : Json)]
  | .conv f b => Json.arr #["conv", (f : Json), (b : Json)]
  | .validate v t => Json.arr #["validate", (v : Json), (t : Json)]
  | .body v t => Json.arr #["body", (v : Json), (t : Json)]
  | .call o a v => Json.arr #["call", (o : Json), Json.arr (a.map fun (n, d) => Json.arr #[(n : Json), (d : Json)]).toArray, (v : Json)]
  | .reply => Json.arr #["reply"]
  | .unknown w => Json.arr #["unknown", (w : Json)]

/-- canonicalise the steps extracted from a rendered routes file: accessors are mapped to locations by
    the engine's accessor table; presence / auxiliary accessors are dropped -/
def canonSteps (e : Engine) (steps : List Json) : List Step :=
  steps.flatMap fun s =>
    match jstrD s "k" with
    | "auth" => [Step.auth (parseSecurity s "lists")]
    | "authGuard" => [.guard]
    | "newController" => [.newController (jstrD s "name")]
    | "init" => [.init]
    | "decl" => [.decl (jstrD s "name") (jstrD s "type")]
    | "access" =>
      let callee := jstrD s "callee"
      let callee := if e = .mux && callee.endsWith "vars[]" then "vars[]" else callee
      match (accessorTable e).find? (·.1 = callee) with
      | some (_, loc, .value) => [.bind loc (jstrD s "wire")]
      | some _ => []
      | none => [.unknown ("access:" ++ callee)]
    | "conv" => [.conv (jstrD s "callee") (jstrD s "bits")]
    | "validate" => [.validate (jstrD s "name") (jstrD s "tag")]
    | "bindBody" => [.body (jstrD s "name") (jstrD s "tag")]
    | "call" => [.call (jstrD s "name") ((jarrD s "args").toList.map fun a => (jstrD a "var", jboolD a "deref")) (jboolD s "value")]
    | "reply" => [.reply]
    | k => [.unknown k]

/-- a path parameter is bound once per engine by value; in query position fiber reads both `Query` and
    `PeekMulti` depending on arity: duplicates of the same bind are collapsed -/
def dedupBinds (l : List Step) : List Step :=
  l.foldr (fun s acc => match s, acc with
    | .bind a w, .bind a' w' :: _ => if a = a' && w = w' then acc else s :: acc
    | _, _ => s :: acc) []

structure RouterView where
  err : Option String
  package : String
  urlConv : String
  authorizeOk : Bool
  routes : List (String × String × List Step)     -- verb, rawPath, canonical steps

def routerView (e : Engine) (rj : Json) : RouterView :=
  match (jstr rj "err").toOption with
  | some er => ⟨some er, "", "", false, []⟩
  | none =>
    let a := (rj.getObjVal? "authorize").toOption.getD Json.null
    let ok := ["found", "loopsOverLists", "loopsOverChecks", "breakOnRefusal", "nilOnCleanList", "returnsLastError", "callsAuthorization"].all (jboolD a ·)
    ⟨none, jstrD rj "package", jstrD rj "urlConv", ok,
     (jarrD rj "routes").toList.map fun r => (jstrD r "verb", jstrD r "rawPath", dedupBinds (canonSteps e (jarrD r "steps").toList))⟩

def urlConvName : UrlConv → String
  | .colonSqueezeLeading => "colon-squeeze-leading"
  | .squeezeLeading => "squeeze-leading"

def routesJson (rs : List (String × String × List Step)) : Json :=
  Json.arr (rs.map fun (v, p, st) => Json.mkObj [("verb", v), ("rawPath", p), ("steps", Json.arr (st.map stepJson).toArray)]).toArray

/-- the decidable documented-vs-served agreement for one raw template (C02): the registered template,
    read back in `{x}` syntax, equals the documented (normalised) path -/
def uncolon (s : Str) : Str :=
  -- `:name` → `{name}` for names over the url parameter alphabet
  let rec go (fuel : Nat) (s : Str) : Str :=
    match fuel with
    | 0 => s
    | fuel + 1 =>
      match s with
      | [] => []
      | ':' :: t =>
        let nm := t.takeWhile isUrlParamChar
        if nm.isEmpty then ':' :: go fuel t else '{' :: nm ++ '}' :: go fuel (t.dropWhile isUrlParamChar)
      | c :: t => c :: go fuel t
  go (s.length + 1) s

def servedTemplate (e : Engine) (raw : String) : String :=
  match engineUrlConv e with
  | .squeezeLeading => String.ofList (squeezeLeading raw.toList)
  | .colonSqueezeLeading => String.ofList (uncolon (colonSqueezeLeading raw.toList))

/-- all router-level checks; `prop` selects which clauses count as failures -/
def checkRouter (prop : String) (d : IRDoc) (impl : Json) : PropOut := Id.run do
  let routesJ := (impl.getObjVal? "routes").toOption.getD Json.null
  let mut fails : List String := []
  let mut mviews : List (String × Json) := []
  let mut iviews : List (String × Json) := []
  let expectedRoutes : List (String × String × List Step) :=
    d.controllers.flatMap fun c => c.routes.map fun r => (r.verb, c.path ++ r.path, handlerOf c r)
  let mut views : List (Engine × RouterView) := []
  let mut notes : List String := []
  for (en, rj) in objEntries routesJ do
    match Engine.ofString? en with
    | none => fails := fails ++ [s!"unknown-engine:{en}"]
    | some e =>
      let v := routerView e rj
      views := views ++ [(e, v)]
      match v.err with
      | some er =>
        iviews := iviews ++ [(en, Json.str ("error:" ++ er.take 60))]
        mviews := mviews ++ [(en, Json.str "ok")]
      | none =>
        let ivRoutes := if prop = "C02" then v.routes.map (fun (vb, p, _) => (vb, p, ([] : List Step))) else v.routes
        let mvRoutes := if prop = "C02" then expectedRoutes.map (fun (vb, p, _) => (vb, p, ([] : List Step))) else expectedRoutes
        iviews := iviews ++ [(en, Json.mkObj [("package", v.package), ("urlConv", v.urlConv), ("authorizeShape", v.authorizeOk), ("routes", routesJson ivRoutes)])]
        let pkg := let p := jstrD d.cfgJson "packageName"; if p.isEmpty then "routes" else p
        mviews := mviews ++ [(en, Json.mkObj [("package", pkg), ("urlConv", urlConvName (engineUrlConv e)), ("authorizeShape", true), ("routes", routesJson mvRoutes)])]
        -- clauses evaluated on the rendered router itself
        if prop = "C03" then
          for (_, p, st) in v.routes do
            if !gateFirst st then fails := fails ++ [s!"{en}:gate-not-first:{p}"]
          if !v.authorizeOk then fails := fails ++ [s!"{en}:authorize-shape"]
        if prop = "C02" then
          -- one handler per annotated method (hidden ones included), same verb
          let regs := v.routes.map fun (vb, p, _) => (vb, p)
          let want := (registrations d.controllers).map fun r => (r.verb, r.rawPath)
          for w in want do
            if !regs.contains w then fails := fails ++ [s!"{en}:not-registered:{w.1} {w.2}"]
          for g in regs do
            if !want.contains g then fails := fails ++ [s!"{en}:unannotated-route-served:{g.1} {g.2}"]
          if regs.length ≠ want.length then fails := fails ++ [s!"{en}:registration-count"]
          -- served template = documented path (C02-F1: identity converters keep `//`; colon converters collapse once)
          for c in d.controllers do
            for r in c.routes do
              let raw := c.path ++ r.path
              let served := servedTemplate e raw
              let doc := fullPath c r
              -- a template without a leading slash is rooted by the router; the spec emitter refuses such a path
              if served ≠ doc && doc.startsWith "/" then
                fails := fails ++ [s!"{en}:served-template≠documented:{raw}"]
        if prop = "C05" then
          for ((_, p, st), (_, _, want)) in v.routes.zip expectedRoutes do
            -- binding steps: location, wire name, conversion, requiredness tag, argument order and pointer-ness
            let proj (l : List Step) := l.filter fun s => match s with
              | .decl _ _ | .bind _ _ | .conv _ _ | .validate _ _ | .body _ _ | .call _ _ _ => true
              | _ => false
            if proj st ≠ proj want then fails := fails ++ [s!"{en}:binding:{p}"]
  if prop = "C12" then
    -- the five routers render one and the same canonical handler
    match views with
    | (e0, v0) :: rest =>
      for (e, v) in rest do
        if v.err.isNone && v0.err.isNone && routesJson v.routes != routesJson v0.routes then
          fails := fails ++ [s!"skeleton-differs:{repr e0}-vs-{repr e}"]
    | [] => pure ()
    notes := notes ++ [s!"d:engines={views.length}"]
  let nontriv := !expectedRoutes.isEmpty && (prop ≠ "C12" || views.length ≥ 2)
  return { model := Json.mkObj mviews, implView := Json.mkObj iviews, implFails := fails.eraseDups, nontrivial := nontriv, notes }

end Gleece.Driver
