import Gleece.Driver.Router
import Gleece.Driver.Dialect
import Gleece.Driver.DocCheck
open Lean
namespace Gleece.Driver
open Gleece.IR

def irHandler : Handler := fun prop input impl => do
  let d := parseIRDoc input
  let implJ := impl.getD Json.null
  let out : PropOut ← match prop with
    | "C01" => pure (checkC01 d implJ)
    | "C04" => pure (checkC04 d implJ)
    | "C06" => pure (checkC06 d implJ)
    | "C02" | "C03" | "C05" | "C12" => pure (checkRouter prop d implJ)
    | "C11" => pure (checkC11 d implJ)
    | "C08" => pure (checkC08 d implJ)
    | "C14" => pure (checkC14 d implJ)
    | p => throw s!"mode ir: no check for property {p}"
  let tag (pre : String) (f : String) :=
    if f.length > 4 && f.get 0 = 'C' && (f.splitOn "-F").length > 1 && (f.splitOn ":").length > 1 && ((f.splitOn ":")[0]!).length ≤ 8
    then pre ++ f else pre ++ "new:" ++ f
  let implFails := if impl.isNone then ["no-answer"] else out.implFails
  pure { model := out.model, implView := some out.implView, specModel := out.modelFails.isEmpty, specImpl := implFails.isEmpty,
         nontrivial := out.nontrivial,
         notes := (implFails.take 8).map (tag "implfail:") ++ (out.modelFails.take 8).map (tag "modelfail:") ++ out.notes }

end Gleece.Driver
