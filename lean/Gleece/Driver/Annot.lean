import Gleece.Driver.Common
import Gleece.Model.Annot
open Lean
namespace Gleece.Driver
open Gleece.Annot Gleece.Text

def strOf (s : Str) : String := String.ofList s

structure LineIn where
  text : Str
  intent : Option Written
  jsonBad : Bool

def parseIntent (j : Json) : Option (Written × Bool) := do
  let name ← (jstr j "name").toOption
  let paren ← (jbool j "paren").toOption
  let value ← (jstr j "value").toOption
  let json ← (jstr j "json").toOption
  let desc ← (jstr j "desc").toOption
  let bad ← (jbool j "jsonBad").toOption
  pure ({ name := name.toList, paren, value := value.toList, json := json.toList, desc := desc.toList }, bad)

def rangeJson (r : Option (Nat × Nat)) : Json :=
  match r with
  | some (a, b) => Json.arr #[(a : Json), (b : Json)]
  | none => Json.arr #[]

/-- property clauses evaluated on an answer (the implementation's or the model's) WITHOUT the model -/
def annotSpec (lines : List LineIn) (oracle : List (Nat × Nat × Nat × Bool)) (ans : Json) : List String := Id.run do
  let mut bad : List String := []
  let err := jstrD ans "err"
  let attrs := (jarrD ans "attrs").toList
  let free := (jarrD ans "free").toList
  let n := lines.length
  let trimmed := lines.map fun l => trimSpace l.text
  if err = "" then
    -- S3 order / partition
    let ai := attrs.filterMap fun a => (jnat a "line").toOption
    let fi := free.filterMap fun f => do let arr ← f.getArr?.toOption; (arr[0]!).getNat?.toOption
    let increasing (l : List Nat) := (l.zip l.tail).all fun (a, b) => a < b
    if !(increasing ai && increasing fi) then bad := bad ++ ["order"]
    if !((List.range n).all fun i => (ai.contains i) != (fi.contains i)) then bad := bad ++ ["partition"]
    -- S2 free lines: anything that does not look like an attribute stays free text, verbatim
    for i in List.range n do
      let t := trimmed[i]!
      if !looksLikeAttr t && ai.contains i then bad := bad ++ [s!"invented-attr[{i}]"]
    for f in free do
      match f.getArr?.toOption with
      | some arr =>
        let i := (arr[0]!).getNat?.toOption.getD 0
        let v := (arr[1]!).getStr?.toOption.getD ""
        if v.toList ≠ freeText ((lines[i]?.map (·.text)).getD []) then bad := bad ++ [s!"free-text[{i}]"]
      | none => bad := bad ++ ["free-shape"]
    -- S6 nothing invented: every captured part is a substring of the line, in order
    for a in attrs do
      let i := (jnat a "line").toOption.getD 0
      let t := trimmed[i]?.getD []
      let name := (jstrD a "name").toList; let value := (jstrD a "value").toList
      let json := (jstrD a "json").toList; let desc := (jstrD a "desc").toList
      let r0 := t.drop pfx.length
      let ok1 := hasPrefix t pfx && hasPrefix r0 name && !name.isEmpty && name.all isReWord
      let r1 := r0.drop name.length
      let (ok2, r2) :=
        if value.isEmpty then (json.isEmpty, r1) else
        match r1 with
        | '(' :: r =>
          if !hasPrefix r value then (false, r) else
          let r := r.drop value.length
          if json.isEmpty then (match r with | ')' :: r => (true, r) | _ => (false, r)) else
          match dropSpaces r with
          | ',' :: r =>
            let r := dropSpaces r
            if hasPrefix r json then (match r.drop json.length with | ')' :: r => (true, r) | _ => (false, r)) else (false, r)
          | _ => (false, r)
        | _ => (false, r1)
      let ok3 := if desc.isEmpty then r2.isEmpty else (r2 ≠ desc && dropSpaces r2 = desc)
      if !(ok1 && ok2 && ok3) then bad := bad ++ [s!"not-a-substring[{i}]"]
      if !(jboolD a "rangesOk" true) then bad := bad ++ [s!"ranges-or-props[{i}]"]
      -- C18: the value range covers text equal to the value
      match (a.getObjVal? "valueRange").toOption.bind (·.getArr?.toOption) with
      | some #[x, y] =>
        let x := x.getNat?.toOption.getD 0; let y := y.getNat?.toOption.getD 0
        if !(x ≤ y && ((lines[i]?.map (·.text)).getD []).extract x y = value) then bad := bad ++ [s!"value-range[{i}]"]
      | _ => pure ()
    -- S4 description rule, from the answer's own attributes and free lines
    let descAttr := attrs.find? fun a => jstrD a "name" = "Description"
    let want : Str := match descAttr with
      | some a => (jstrD a "desc").toList
      | none =>
        let lead := (List.range n).takeWhile fun i => !(ai.contains i)
        joinLines (dropTrailingEmpty (lead.map fun i => freeText ((lines[i]?.map (·.text)).getD [])))
    if (jstrD ans "description").toList ≠ want then bad := bad ++ ["description-rule"]
  -- S1 round trip, S5 malformed JSON5 is reported
  let anyBadJson := (List.range n).any fun i =>
    match lines[i]? with
    | some l => match l.intent with
      | some w => l.jsonBad && WF w
      | none => false
    | none => false
  if anyBadJson && err ≠ "json5" then bad := bad ++ ["json-error-dropped"]
  -- the full-strength statement: lines whose ONLY defect is the ambiguity clause must round-trip too;
  -- where they do not, the failure carries the signature of finding C16-F1
  let ambiguous (l : LineIn) : Bool := match l.intent with
    | some w => !WF w && WFcore w
    | none => false
  let allKnownGood := lines.all fun l => l.intent.isSome && !l.jsonBad
  if err = "json5" && allKnownGood then
    bad := bad ++ [(if lines.any ambiguous then "C16-F1:" else "") ++ "json-error-on-wellformed-json"]
  if err = "" then
    for i in List.range n do
      match lines[i]? with
      | some l =>
        match l.intent with
        | some w =>
          if WF w || ambiguous l then
            let tag := if WF w then "" else "C16-F1:"
            let got := attrs.find? fun a => (jnat a "line").toOption = some i
            match got with
            | some a =>
              if !((jstrD a "name").toList = w.name && (jstrD a "value").toList = w.value &&
                   (jstrD a "json").toList = w.json && (jstrD a "desc").toList = w.desc) then
                bad := bad ++ [tag ++ s!"round-trip[{i}]"]
            | none => bad := bad ++ [tag ++ s!"round-trip-missing[{i}]"]
          else pure ()
        | none => pure ()
      | none => pure ()
  else if err = "json5" then
    -- an error must be backed by a candidate JSON text that json5 really rejects
    if !(oracle.any fun (_, _, _, ok) => !ok) then bad := bad ++ ["spurious-json-error"]
  else bad := bad ++ ["err:" ++ err]
  return bad

def annotHandler : Handler := fun _prop input impl => do
  let linesJ ← jarr input "lines"
  let lines : List LineIn := linesJ.toList.map fun j =>
    let t := (jstrD j "t").toList
    match (j.getObjVal? "i").toOption.bind parseIntent with
    | some (w, bad) =>
      -- the separators actually written are recovered from the text by trying the rendering
      { text := t, intent := some w, jsonBad := bad }
    | none => { text := t, intent := none, jsonBad := false }
  -- recover separators: the intent carries only the parts; find sep1/sep2/gap from the text
  let lines := lines.map fun l =>
    match l.intent with
    | none => l
    | some w =>
      let t := trimSpace l.text
      let r := t.drop (pfx.length + w.name.length)
      let (sep1, sep2, afterParen) :=
        if w.paren then
          let r := r.drop (1 + w.value.length)
          if w.json.isEmpty then ([], [], r.drop 1) else
          let (s1, r) := span isReSpace r
          let r := r.drop 1
          let (s2, r) := span isReSpace r
          (s1, s2, r.drop (w.json.length + 1))
        else ([], [], r)
      let (gap, _) := span isReSpace afterParen
      let w' := { w with sep1, sep2, gap }
      if render w' = t then { l with intent := some w' } else { l with intent := none }
  let oracle : List (Nat × Nat × Nat × Bool) := match impl with
    | some j => (jarrD j "_oracle").toList.filterMap fun x => do
        let a ← x.getArr?.toOption
        pure ((← (a[0]!).getNat?.toOption), (← (a[1]!).getNat?.toOption), (← (a[2]!).getNat?.toOption), (← (a[3]!).getBool?.toOption))
    | none => []
  let jsonOk (i : Nat) (a : RawAttr) : Bool :=
    match a.jsonOff with
    | some (x, y) => match oracle.find? (fun (l, s, e, _) => l = i && s = x && e = y) with
      | some (_, _, _, ok) => ok
      | none => false
    | none => true
  -- run the model (holderOf with the oracle standing for json5.Unmarshal; index-aware variant)
  let parsed := lines.map fun l => parseLine l.text
  let firstErr := (List.range lines.length).find? fun i =>
    match parsed[i]? with
    | some (some a) => !a.json.isEmpty && !jsonOk i a
    | _ => false
  let model : Json :=
    match firstErr with
    | some _ => Json.mkObj [("err", "json5"), ("attrs", Json.arr #[]), ("free", Json.arr #[]), ("description", "")]
    | none =>
      let h : Holder := match holderOf (fun _ => true) (lines.map (·.text)) with
        | .ok h => h
        | .jsonError _ => {}
      let attrs := h.attrs.map fun (i, a) =>
        let txt := (lines[i]?.map (·.text)).getD []
        Json.mkObj [("line", i), ("name", strOf a.name), ("value", strOf a.value), ("desc", strOf a.desc),
          ("json", strOf a.json), ("valueRange", rangeJson (valueRange txt a.value)),
          ("propsRange", rangeJson a.jsonOff), ("rangesOk", true)]
      let free := h.free.map fun (i, v) => Json.arr #[(i : Json), (strOf v : Json)]
      Json.mkObj [("attrs", Json.arr attrs.toArray), ("free", Json.arr free.toArray),
        ("description", strOf (getDescription h))]
  let fm := annotSpec lines oracle model
  let fi := match impl with
    | some j => annotSpec lines oracle j
    | none => ["no-answer"]
  let nWF := (lines.filter fun l => match l.intent with | some w => WF w | none => false).length
  let nIntent := (lines.filter (·.intent.isSome)).length
  let amb := lines.any fun l => match l.intent with
    | some w => !WF w && !w.json.isEmpty && WF { w with desc := [] }
    | none => false
  -- failures at lines whose only WF defect is the ambiguity clause belong to finding C16-F1
  let tag (pre : String) (f : String) := if f.startsWith "C16-F" then pre ++ f else pre ++ "new:" ++ f
  let notes := fi.map (tag "implfail:") ++ fm.map (tag "modelfail:")
    ++ [s!"d:lines={lines.length}", s!"d:wf-intents={nWF}", s!"d:intents={nIntent}"]
    ++ (if firstErr.isSome then ["d:json-error"] else [])
    ++ (if amb then ["d:ambiguous-desc"] else [])
    ++ (if parsed.any (·.isSome) then ["d:has-attr"] else []) ++ (if parsed.any (·.isNone) then ["d:has-free"] else [])
  pure { model, specModel := fm.isEmpty, specImpl := fi.isEmpty, nontrivial := parsed.any (·.isSome), notes }

end Gleece.Driver
