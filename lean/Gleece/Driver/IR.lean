import Gleece.Driver.IRParse
open Lean
namespace Gleece.Driver
open Gleece.IR Gleece.Text

/-- outcome of one property on one IR case -/
structure PropOut where
  model : Json
  implView : Json
  implFails : List String := []     -- "FID:what" (known finding) or "what" (new)
  modelFails : List String := []
  nontrivial : Bool := true
  notes : List String := []

structure SpecView where
  err : Option String
  doc : Json

def specView (impl : Json) (k : String) : SpecView :=
  let s := (impl.getObjVal? k).toOption.getD Json.null
  match (jstr s "err").toOption with
  | some e => ⟨some e, Json.null⟩
  | none => ⟨none, (s.getObjVal? "doc").toOption.getD Json.null⟩

/-! ### a sufficient condition for the emitters to succeed (so that a spurious failure is noticed) -/

def pathParamsOf (p : String) : List String :=
  ((splitOn '/' p.toList).filter fun s => s.head? = some '{' && s.getLast? = some '}' && s.length > 2).map fun s =>
    String.ofList ((s.drop 1).dropLast)

/-- every segment is either brace-free or exactly one `{name}` -/
def segmentsClean (p : String) : Bool :=
  (splitOn '/' p.toList).all fun s =>
    (!s.contains '{' && !s.contains '}') ||
    (s.head? = some '{' && s.getLast? = some '}' && s.length > 2 && !((s.drop 1).dropLast).contains '{' && !((s.drop 1).dropLast).contains '}')

def isPrimName (t : String) : Bool :=
  ["string", "int", "int8", "int16", "int32", "int64", "uint", "uint8", "uint16", "uint32", "uint64", "bool", "float32", "float64"].contains t

def stripArr (t : String) : String := if t.startsWith "[]" then stripArr' t.toList else t
where stripArr' : List Char → String
  | '[' :: ']' :: r => stripArr' r
  | r => String.ofList r

/-- conservative: leading slash, path parameters bound one-to-one, names unique per location, declared
    schemes, declared types, no struct recursion (libopenapi refuses some recursive documents) -/
def acceptable (d : IRDoc) : Bool :=
  let declared := (d.structs ++ d.enums ++ d.aliases).map (jstrD · "name")
  let typeOk (t : String) : Bool :=
    let b := stripArr t
    isPrimName b || declared.contains b || ["any", "time.Time", "[]byte", "map[string]int", "map[string]string", "error"].contains t
  let noRec := d.structs.all fun s => (jarrD s "fields").toList.all fun f => stripArr (jstrD f "type") ≠ jstrD s "name"
  !securityError d.cfg d.controllers && noRec &&
  d.controllers.all fun c => c.routes.all fun r =>
    r.hidden || (
      let fp := fullPath c r
      fp.startsWith "/" && segmentsClean fp &&
      (let pp := pathParamsOf fp
       let bound := (r.params.filter (·.passedIn = "Path")).map (·.nameInSchema)
       pp.all bound.contains && bound.all pp.contains && pp.eraseDups.length = pp.length && bound.eraseDups.length = bound.length) &&
      (let keys := (r.params.filter (!·.isContext)).map fun p => (p.passedIn, p.nameInSchema)
       keys.eraseDups.length = keys.length) &&
      r.params.all (fun p => p.isContext || typeOk p.type.name) && r.responses.all (fun t => typeOk t.name))

/-! ### C01 -/

def opsView (ops : List OpSig) : Json := Json.arr (sortJsonByText (ops.map opSigJson)).toArray

def checkC01 (d : IRDoc) (impl : Json) : PropOut := Id.run do
  let expected := (emitOps d.controllers).map (·.2)
  let spec := visibleOps d.controllers
  let keys := spec.map fun o => (o.path, o.verb)
  let collide := keys.eraseDups.length ≠ keys.length
  let acc := acceptable d
  let mut fails : List String := []
  let mut mviews : List (String × Json) := []
  let mut iviews : List (String × Json) := []
  for k in ["spec30", "spec31"] do
    let sv := specView impl k
    match sv.err with
    | some e =>
      iviews := iviews ++ [(k, Json.str "error")]
      -- the model only speaks about accepted IRs; when it expects success it says so
      mviews := mviews ++ [(k, if acc then opsView expected else Json.str "error")]
      if acc then fails := fails ++ [s!"{k}:unexpected-error:{e.take 80}"]
    | none =>
      let got := (docOperations sv.doc).map fun (v, p, op) => opSigOf v p op
      iviews := iviews ++ [(k, opsView got)]
      mviews := mviews ++ [(k, opsView expected)]
      -- the property itself, on the implementation's document (no model in the loop):
      --   nothing invented …
      for o in got do
        if !spec.contains o then fails := fails ++ [s!"{k}:invented:{o.verb} {o.path}"]
      --   … nothing annotated dropped (when two routes share verb+path one of them must be present)
      for o in spec do
        if !got.any (fun g => g.verb = o.verb && g.path = o.path) then fails := fails ++ [s!"{k}:dropped:{o.verb} {o.path}"]
        else if !collide && !got.contains o then fails := fails ++ [s!"{k}:wrong-attributes:{o.verb} {o.path}"]
  let fails' := fails.filter fun f => !(f.splitOn "unexpected-error").length > 1
  return { model := Json.mkObj mviews, implView := Json.mkObj iviews, implFails := fails', nontrivial := !spec.isEmpty,
           notes := (if collide then ["d:verb-path-collision"] else []) ++ (if acc then ["d:acceptable"] else ["d:not-acceptable"])
             ++ (if d.controllers.any (fun c => c.routes.any (·.hidden)) then ["d:has-hidden"] else []) }

/-! ### C04 (and the IR-level half of C03) -/

def checkC04 (d : IRDoc) (impl : Json) : PropOut := Id.run do
  let mut fails : List String := []
  let mut mviews : List (String × Json) := []
  let mut iviews : List (String × Json) := []
  let secErr := securityError d.cfg d.controllers
  let routesJ := (impl.getObjVal? "routes").toOption.getD Json.null
  -- documented security, both versions
  for k in ["spec30", "spec31"] do
    let sv := specView impl k
    let expectSec : List Json := d.controllers.flatMap fun c => (c.routes.filter (!·.hidden)).map fun r =>
      Json.mkObj [("op", r.opId), ("sec", secJson (docSecurity d.cfg r))]
    match sv.err with
    | some e =>
      iviews := iviews ++ [(k, Json.str (if e = "unknown-security-scheme" then e else "error"))]
      mviews := mviews ++ [(k, Json.str (if secErr then "unknown-security-scheme" else if acceptable d then "ok" else "error"))]
      if !secErr && e = "unknown-security-scheme" then fails := fails ++ [s!"{k}:spurious-unknown-scheme"]
    | none =>
      -- a project that names an undeclared scheme yields no spec
      if secErr then fails := fails ++ [s!"{k}:spec-emitted-despite-undeclared-scheme"]
      let ops := docOperations sv.doc
      let got : List Json := d.controllers.flatMap fun c => (c.routes.filter (!·.hidden)).filterMap fun r =>
        (ops.find? fun (_, _, op) => jstrD op "operationId" = r.opId).map fun (_, _, op) =>
          Json.mkObj [("op", r.opId), ("sec", secJson ((opSecurity op).getD []))]
      iviews := iviews ++ [(k, Json.arr got.toArray)]
      mviews := mviews ++ [(k, if secErr then Json.str "unknown-security-scheme" else Json.arr expectSec.toArray)]
      -- every scheme named is declared under components.securitySchemes; those are the configured ones
      let declared := (objEntries (((sv.doc.getObjVal? "components").toOption.bind (·.getObjVal? "securitySchemes" |>.toOption)).getD Json.null)).map (·.1)
      if sortStrs declared ≠ sortStrs d.cfg.schemes.eraseDups then fails := fails ++ [s!"{k}:securitySchemes≠config"]
      for (_, _, op) in ops do
        match opSecurity op with
        | some s => if s.any (fun l => l.any fun c => !declared.contains c.name) then fails := fails ++ [s!"{k}:undeclared-scheme-in-doc"]
        | none => pure ()
      -- documented = enforced: compare with the SecurityCheckList literals of every generated router
      for (eng, rj) in objEntries routesJ do
        if (jstr rj "err").toOption.isSome then continue
        for rt in (jarrD rj "routes").toList do
          let call := ((jarrD rt "steps").toList.find? fun s => jstrD s "k" = "call")
          let auth := ((jarrD rt "steps").toList.find? fun s => jstrD s "k" = "auth")
          match call, auth with
          | some cl, some au =>
            let opId := jstrD cl "name"
            let enforced : Security := parseSecurity au "lists"
            match ops.find? fun (_, _, op) => jstrD op "operationId" = opId with
            | some (_, _, op) =>
              -- an absent `security` member and an empty array both mean "no requirement" (no top-level security is emitted)
              if (opSecurity op).getD [] ≠ enforced then fails := fails ++ [s!"{k}:{eng}:documented≠enforced:{opId}"]
            | none => pure ()
          | _, _ => pure ()
  -- enforced lists per engine (model: the route's security as reduced)
  let mut menf : List (String × Json) := []
  let mut ienf : List (String × Json) := []
  for (eng, rj) in objEntries routesJ do
    if (jstr rj "err").toOption.isSome then
      ienf := ienf ++ [(eng, Json.str "error")]; menf := menf ++ [(eng, Json.str "error")]
    else
      let got := (jarrD rj "routes").toList.map fun rt =>
        let steps := (jarrD rt "steps").toList
        let opId := (steps.find? fun s => jstrD s "k" = "call").map (jstrD · "name") |>.getD "?"
        let au := steps.find? fun s => jstrD s "k" = "auth"
        Json.mkObj [("op", opId), ("sec", match au with | some a => secJson (parseSecurity a "lists") | none => Json.str "no-authorize-call")]
      ienf := ienf ++ [(eng, Json.arr got.toArray)]
      let want := d.controllers.flatMap fun c => c.routes.map fun r =>
        Json.mkObj [("op", r.opId), ("sec", secJson (enforcedSecurity r))]
      menf := menf ++ [(eng, Json.arr want.toArray)]
  let someSec := d.controllers.any fun c => c.routes.any fun r => !(docSecurity d.cfg r).isEmpty
  return { model := Json.mkObj (mviews ++ [("enforced", Json.mkObj menf)]), implView := Json.mkObj (iviews ++ [("enforced", Json.mkObj ienf)]),
           implFails := fails, nontrivial := someSec,
           notes := (if secErr then ["d:undeclared-scheme"] else []) ++ (if d.cfg.defaultSecurity.isSome then ["d:default-security"] else []) }

/-! ### C06 -/

partial def schemaTypeName (s : Json) : String :=
  match (jstr s "$ref").toOption with
  | some r => (r.splitOn "/").getLast?.getD r
  | none =>
    match (jstr s "type").toOption with
    | some "array" => "[]" ++ schemaTypeName ((s.getObjVal? "items").toOption.getD Json.null)
    | some t => t
    | none => "?"

def paramSigJson (p : ParamSig) : Json :=
  Json.arr #[(p.name : Json), (p.loc : Json), (p.required : Json), (p.typeName : Json), (p.deprecated : Json)]

def jsonSchemaOf (content : Json) (ct : String) : Json :=
  ((content.getObjVal? ct).toOption.bind (·.getObjVal? "schema" |>.toOption)).getD Json.null

/-- what one emitted operation says about parameters / bodies / responses, in the model's vocabulary -/
def opContract (op : Json) : Json :=
  let params := (jarrD op "parameters").toList.map fun p =>
    paramSigJson ⟨jstrD p "name", jstrD p "in", jboolD p "required", schemaTypeName ((p.getObjVal? "schema").toOption.getD Json.null), jboolD p "deprecated"⟩
  let rb := (op.getObjVal? "requestBody").toOption.getD Json.null
  let content := (rb.getObjVal? "content").toOption.getD Json.null
  let body : Json :=
    match (content.getObjVal? "application/json").toOption with
    | some mt => Json.arr #[(schemaTypeName ((mt.getObjVal? "schema").toOption.getD Json.null) : Json), (jboolD rb "required" : Json)]
    | none => Json.null
  let form : Json :=
    match (content.getObjVal? "application/x-www-form-urlencoded").toOption with
    | some mt =>
      let sch := (mt.getObjVal? "schema").toOption.getD Json.null
      let req := strList sch "required"
      Json.arr ((objEntries ((sch.getObjVal? "properties").toOption.getD Json.null)).map fun (n, ps) =>
        Json.arr #[(n : Json), (schemaTypeName ps : Json), (req.contains n : Json)]).toArray
    | none => Json.null
  let resps := (objEntries ((op.getObjVal? "responses").toOption.getD Json.null)).filter (·.1 ≠ "default") |>.map fun (code, r) =>
    let c := (r.getObjVal? "content").toOption.getD Json.null
    Json.arr #[(code : Json), (match (c.getObjVal? "application/json").toOption with
      | some mt => (schemaTypeName ((mt.getObjVal? "schema").toOption.getD Json.null) : Json)
      | none => Json.null)]
  Json.mkObj [("parameters", Json.arr params.toArray), ("body", body), ("form", form), ("responses", Json.arr resps.toArray)]

def routeContract (r : Route) : Json :=
  let sh (t : String) := schemaShape 8 t
  let params := (docParams r).map fun p => paramSigJson { p with typeName := sh p.typeName }
  let body : Json := match docBody r with
    | some (t, req) => Json.arr #[(sh t : Json), (req : Json)]
    | none => Json.null
  let formL := docForm r
  let form : Json := if formL.isEmpty then Json.null else
    -- a JSON object: properties come out sorted by name; a repeated name keeps the last
    let names := sortStrs (formL.map (·.1)).eraseDups
    Json.arr (names.filterMap fun n => (formL.reverse.find? (·.1 = n)).map fun (_, t, _) =>
      Json.arr #[(n : Json), (sh t : Json), ((formL.any fun (m, _, rq) => m = n && rq) : Json)]).toArray
  let resps := ((docResponses r).map fun (c, t) => (toString c, t)).mergeSort (fun a b => a.1 ≤ b.1) |>.map fun (c, t) =>
    Json.arr #[(c : Json), (match t with | some n => (sh n : Json) | none => Json.null)]
  -- a JSON body replaces a form body and vice versa in document order; the validators forbid both
  Json.mkObj [("parameters", Json.arr params.toArray), ("body", if formL.isEmpty then body else (if (docBody r).isSome then body else Json.null)),
              ("form", form), ("responses", Json.arr resps.toArray)]

def checkC06 (d : IRDoc) (impl : Json) : PropOut := Id.run do
  let mut fails : List String := []
  let mut mviews : List (String × Json) := []
  let mut iviews : List (String × Json) := []
  let visible := d.controllers.flatMap fun c => (c.routes.filter (!·.hidden)).map fun r => (c, r)
  for k in ["spec30", "spec31"] do
    let sv := specView impl k
    match sv.err with
    | some _ =>
      iviews := iviews ++ [(k, Json.str "error")]
      mviews := mviews ++ [(k, if acceptable d then Json.str "ok" else Json.str "error")]
    | none =>
      let ops := docOperations sv.doc
      let mut ml : List Json := []
      let mut il : List Json := []
      for (_, r) in visible do
        match ops.find? fun (_, _, op) => jstrD op "operationId" = r.opId with
        | some (_, _, op) =>
          let want := routeContract r
          let got := opContract op
          ml := ml ++ [Json.mkObj [("op", r.opId), ("c", want)]]
          il := il ++ [Json.mkObj [("op", r.opId), ("c", got)]]
          -- clauses stated directly on the document
          if (jarrD op "parameters").toList.any (fun p => r.params.any fun q => q.isContext && q.name = jstrD p "name") then
            fails := fails ++ [s!"{k}:{r.opId}:context-parameter-documented"]
          for p in r.params do
            if p.isContext || p.passedIn = "Body" || p.passedIn = "Form" then continue
            let want := !p.type.isByAddress || p.passedIn = "Path" || isFieldRequired p.validator.toList
            match (jarrD op "parameters").toList.find? fun q => jstrD q "name" = p.nameInSchema && jstrD q "in" = lowerLoc p.passedIn with
            | some q =>
              -- required iff non-pointer, path, or explicitly validated as required (given the reducer's
              -- validator string, which already carries the appended `required`)
              if jboolD q "required" ≠ isFieldRequired p.validator.toList then fails := fails ++ [s!"{k}:{r.opId}:{p.name}:required-flag"]
              if isFieldRequired (appendRequired p.validator.toList p.type.isByAddress (p.passedIn = "Path")) ≠ want then
                fails := fails ++ [s!"{k}:{r.opId}:{p.name}:required-rule"]
            | none => fails := fails ++ [s!"{k}:{r.opId}:{p.name}:parameter-missing"]
          if got.compress ≠ want.compress then fails := fails ++ [s!"{k}:{r.opId}:contract"]
        | none => pure ()
      mviews := mviews ++ [(k, Json.arr ml.toArray)]
      iviews := iviews ++ [(k, Json.arr il.toArray)]
  return { model := Json.mkObj mviews, implView := Json.mkObj iviews, implFails := fails,
           nontrivial := visible.any fun (_, r) => !r.params.isEmpty }



end Gleece.Driver
